/-
Executable monitors of property C06.  They judge what the implementation
printed against ghost state computed from the operations only (packet
numbers handed out, frames handed over, callbacks observed), never against
the model's state.
-/
import Uquic.Model.Ack.Sent

namespace Uquic.Spec.SentMon
open Uquic.Model.Sent

/-- one packet handed to `SentPacket`, as the ghost sees it -/
structure GPkt where
  pn : Int
  /-- 0 Initial, 1 Handshake, 2 application data -/
  space : Nat
  size : Int
  /-- time it was handed to `SentPacket` -/
  sendTime : Int := 0
  /-- (frame id, reported) for the frames that have a handler -/
  frames : List (Nat × Bool)
  ackEliciting : Bool
  mtu : Bool
  probe : Bool
  zeroRTT : Bool
  /-- dropped with its space / 0-RTT rejection / known to be resolved without a visible callback -/
  gone : Bool := false
  /-- may have been dropped silently: a path probe at `MigratedPath`, a 0-RTT packet at 0-RTT rejection
      (only the leading run of 0-RTT packets still tracked is dropped) -/
  maybeGone : Bool := false
deriving Repr

def GPkt.reportedAny (p : GPkt) : Bool := p.frames.any (·.2)
/-- still counted in bytes_in_flight for sure: ack-eliciting, not a path probe, has observable frames, none reported -/
def GPkt.knownInFlight (p : GPkt) : Bool :=
  p.ackEliciting && !p.probe && !p.gone && !p.maybeGone && !p.frames.isEmpty && !p.reportedAny
/-- ack-eliciting but without any frame that has a handler: the ghost cannot see it leave -/
def GPkt.unknownInFlight (p : GPkt) : Bool :=
  p.ackEliciting && !p.probe && !p.gone && !p.reportedAny && (p.frames.isEmpty || p.maybeGone)
def GPkt.knownOutstanding (p : GPkt) : Bool := p.knownInFlight && !p.mtu

structure Ghost where
  pkts : List GPkt := []
  largestSent : List Int := [-1, -1, -1]
  dropped : List Bool := [false, false, false]
  /-- per space: the largest packet number of an ACK that was processed and visibly acknowledged something
      (a lower bound of the handler's `largestAcked`) -/
  largestAcked : List Int := [-1, -1, -1]
  /-- application-data packet numbers skipped so far (oldest first) -/
  skipped : List Int := []
  confirmed : Bool := false
  validated : Bool := true
  /-- perspective (from the `init` line) -/
  client : Bool := true
  /-- the peer MAY have completed address validation (`peerCompletedAddressValidation`): a server from the
      start; a client as soon as any ACK outside the Initial space was handed to `ReceivedAck` (conservative:
      whatever its outcome) or the Handshake space was dropped.  While this is false it is false in the handler. -/
  completed : Bool := false
  bytesSent : Int := 0
  bytesReceived : Int := 0
  /-- a panic or an internal BUG error happened: the connection is gone, nothing is judged any more -/
  broken : Bool := false
deriving Repr

def Ghost.init (isClient validated : Bool) : Ghost :=
  { validated := isClient || validated, client := isClient, completed := !isClient }

abbrev Fail := String × String × String

def covers (ranges : List Range) (pn : Int) : Bool := ranges.any fun r => r.1 ≤ pn ∧ pn ≤ r.2

/-- mark frame `id` reported; returns the failure if it is unknown or was reported before -/
def Ghost.report (g : Ghost) (id : Nat) (kind : String) (ackRanges : Option (Nat × List Range)) : Ghost × List Fail :=
  match g.pkts.find? (fun p => p.frames.any (·.1 = id)) with
  | none => (g, [("ledger_unknown_frame", "-", s!"{kind}{id} was never handed over with a handler")])
  | some p =>
    let twice := p.frames.any (fun f => f.1 = id ∧ f.2)
    let goneF : List Fail := if p.gone then [("ledger_after_discard", "-", s!"{kind}{id} reported although its space was discarded")] else []
    let unc : List Fail := match ackRanges with
      | some (sp, rs) => if kind = "a" ∧ !(p.space = sp ∧ covers rs p.pn) then
          [("ledger_ack_uncovered", "-", s!"a{id}: packet {p.pn} is not covered by this ACK")] else []
      | none => []
    let pkts := g.pkts.map fun q =>
      if q.pn = p.pn ∧ q.space = p.space ∧ q.frames.any (·.1 = id) then { q with frames := q.frames.map fun f => if f.1 = id then (f.1, true) else f } else q
    ({ g with pkts := pkts },
      (if twice then [("ledger_once", "-", s!"frame {id} reported a second time ({kind})")] else []) ++ goneF ++ unc)

/-- process the callbacks the implementation made during one operation -/
def Ghost.observe (g : Ghost) (evs : List String) (ackRanges : Option (Nat × List Range)) : Ghost × List Fail :=
  evs.foldl (fun (acc : Ghost × List Fail) e =>
    let kind := (e.take 1).toString
    if kind = "a" ∨ kind = "l" then
      let (g', fs) := acc.1.report ((e.drop 1).toString.toNat?.getD 0) kind ackRanges
      (g', acc.2 ++ fs)
    else acc) (g, [])

/-- after an ACK that was processed without error every covered packet must be resolved -/
def Ghost.afterAck (g : Ghost) (sp : Nat) (rs : List Range) : Ghost × List Fail :=
  let fails := g.pkts.foldl (fun (acc : List Fail) p =>
    -- (a path probe whose placeholder entry was already removed by loss detection is not resolved by an ACK:
    --  it stays in the probe list until it is declared lost one second after it was sent)
    if p.space = sp ∧ covers rs p.pn ∧ !p.gone ∧ !p.maybeGone ∧ !p.probe ∧ p.frames.any (fun f => !f.2) then
      acc ++ [("ledger_missing_after_ack", "-", s!"packet {p.pn} acknowledged but frames {(p.frames.filter (fun f => !f.2)).map (·.1)} neither acked nor lost")]
    else acc) []
  -- packets without observable frames are resolved by a covering ACK
  ({ g with pkts := g.pkts.map fun p => if p.space = sp ∧ covers rs p.pn ∧ p.frames.isEmpty then { p with gone := true } else p }, fails)

/-- loss detection ran on space `sp` at time `now` (an ACK newly acknowledged something there): every packet
    below the largest acknowledged one that is overdue by the time threshold (sent at least
    `lossDelay = max(9/8·max(latest_rtt, smoothed_rtt), granularity)` ago) or by the packet threshold must have been
    declared lost by now — its frames reported, whatever kind of packet it is (Path MTU probes included) -/
def Ghost.overdueNotLost (g : Ghost) (sp : Nat) (now lossDelay : Int) : List Fail :=
  let la : Int := g.largestAcked.getD sp (-1)
  g.pkts.foldl (fun (acc : List Fail) (p : GPkt) =>
    let skBetween : Int := if sp = 2 then ((g.skipped.filter fun x => p.pn < x ∧ x < la).length : Int) else 0
    if p.space = sp ∧ !p.probe ∧ !p.gone ∧ !p.maybeGone ∧ p.frames.any (fun f => !f.2) ∧ p.pn < la ∧
        (p.sendTime ≤ now - lossDelay ∨ la - p.pn - skBetween ≥ packetThreshold) then
      acc ++ [("ledger_overdue_not_lost", "-", s!"packet {p.pn} (space {sp}, sent at {p.sendTime}{if p.mtu then ", Path MTU probe" else ""}) is below the largest acknowledged {la} and overdue at {now} (loss delay {lossDelay}) but frames {(p.frames.filter (fun f => !f.2)).map (·.1)} were not reported lost")]
    else acc) []

def Ghost.bifBounds (g : Ghost) : Int × Int :=
  let lo := (g.pkts.filter GPkt.knownInFlight).foldl (fun a p => a + p.size) 0
  let un := (g.pkts.filter GPkt.unknownInFlight).foldl (fun a p => a + p.size) 0
  (lo, lo + un)

def Ghost.amplificationLimited (g : Ghost) : Bool := !g.validated && g.bytesSent ≥ amplificationFactor * g.bytesReceived

def Ghost.needsTimer (g : Ghost) : Bool :=
  !g.amplificationLimited &&
  g.pkts.any fun p => p.knownOutstanding && ((p.space < 2 && !(g.dropped.getD p.space false)) || (p.space = 2 && g.confirmed))

/-- checks made after every operation on the state the implementation printed -/
def Ghost.checkState (g : Ghost) (implBif implAlarm : Int) : List Fail :=
  if g.broken then [] else
  let (lo, hi) := g.bifBounds
  (if implBif < 0 then [("bif_negative", "-", s!"bytes_in_flight={implBif}")] else []) ++
  (if implBif < lo ∨ implBif > hi then
     [("bif_balanced", "-", s!"bytes_in_flight={implBif} but the outstanding ack-eliciting packets add up to {lo}..{hi}")] else []) ++
  (if g.needsTimer ∧ implAlarm = 0 then
     [("timer_armed", "-", "ack-eliciting data outstanding, not amplification-limited, but no loss-detection deadline")] else [])

/-- certainly not an outstanding packet any more: never ack-eliciting, or dropped with its space, or its frames
    were reported (acked: removed; lost: declared lost) -/
def GPkt.surelyNotOutstanding (p : GPkt) (g : Ghost) : Bool :=
  (!p.ackEliciting && !p.mtu && !p.probe) || p.gone || p.reportedAny || g.dropped.getD p.space false

/-- the handler is, for sure, in the state in which `getPTOTimeAndSpace` arms the anti-deadlock PTO: handshake
    not confirmed, peer address validation not completed, no Initial or Handshake packet outstanding (then the
    Handshake space still exists) -/
def Ghost.antiDeadlockState (g : Ghost) : Bool :=
  !g.broken && !g.completed && !g.confirmed && !(g.dropped.getD 1 false) &&
  g.pkts.all fun p => p.space ≥ 2 || p.surelyNotOutstanding g

/-- **anti_deadlock_probe_when_armed**: `OnLossDetectionTimeout` was called in the anti-deadlock state with no loss
    timer pending (`lossTimesZero`: the `lossTime` fields of the state the implementation printed after the previous
    operation); it must return normally with a probe queued for the Initial space (the Handshake space once Initial
    was dropped) — however many bytes are in flight. -/
def Ghost.antiDeadlockProbe (g : Ghost) (lossTimesZero : Bool) (resTxt : String) (implNP implPM implBif : Int) : List Fail :=
  if !(g.antiDeadlockState && lossTimesZero) then [] else
  let want := if g.dropped.getD 0 false then sendPTOHandshake else sendPTOInitial
  if resTxt.startsWith "ok" ∧ implNP ≥ 1 ∧ implPM = want then [] else
    [("anti_deadlock_probe_when_armed", "-",
      s!"the loss-detection timer fired before handshake confirmation with no Initial/Handshake packet outstanding and address validation not completed (bytes_in_flight={implBif}) but no anti-deadlock probe was queued: result `{resTxt}`, numProbesToSend={implNP}, ptoMode={implPM} (expected {want})")]

def Ghost.dropSpace (g : Ghost) (sp : Nat) : Ghost :=
  { g with pkts := g.pkts.map fun p => if p.space = sp then { p with gone := true } else p,
           dropped := g.dropped.set sp true }

end Uquic.Spec.SentMon
