/-
Executable helpers shared by the C17 oracles: error specs of the line protocol, canonical names,
and the property monitors evaluated on what the implementation printed.
Core-only.
-/
import Uquic.Model.Close.Blocked
import Uquic.Model.Close.Idle

namespace Uquic.Spec.CloseMon
open Uquic.Model.Close

/-- an error value as written in a `close` op: kind:code:(r|l):(w|p):(i|n) -/
structure Spec where
  kind : String
  code : Nat
  remote : Bool
  wrapped : Bool
  immediate : Bool
deriving Repr, Inhabited

def parseSpec (s : String) : Option Spec :=
  match s.splitOn ":" with
  | [k, c, r, w, i] => some { kind := k, code := c.toNat?.getD 0, remote := r == "r", wrapped := w == "w", immediate := i == "i" }
  | _ => none

/-- the view `errors.Is` / `errors.As` have of the value (`fmt.Errorf("%w")` is transparent to both) -/
def Spec.err (s : Spec) (id : Nat) : Option Err :=
  match s.kind with
  | "nil" => none
  | "idle" => some { id := id, isIdle := true }
  | "hstimeout" => some { id := id, isHsTimeout := true }
  | "reset" => some { id := id, asReset := true }
  | "vn" => some { id := id, asVN := true }
  | "recreate" => some { id := id, asRecreate := true }
  | "app" => some { id := id, asApp := some (s.code, s.remote) }
  | "tr" => some { id := id, asTr := some (s.code, s.remote) }
  | "trapp" => some { id := id, asTr := some (256 + s.code, false), asApp := some (s.code + 1, s.remote) }
  | _ => some { id := id }

def role (r : Bool) : String := if r then "r" else "l"

def Spec.canon (s : Spec) : String :=
  let base := match s.kind with
    | "app" => s!"app:{s.code}:{role s.remote}"
    | "tr" => s!"tr:{s.code}:{role s.remote}"
    | "trapp" => s!"trapp:{s.code}:{role s.remote}"
    | k => k
  if s.wrapped && s.kind != "nil" then s!"w({base})" else base

def Spec.closeError (s : Spec) (id : Nat) : CloseError := { err := s.err id, immediate := s.immediate }

def canonCause (specs : List Spec) : Cause → String
  | .orig e => (specs[e.id]?.map Spec.canon).getD "?"
  | .internal _ => s!"tr:{internalError}:l"
  | .appZero => "app:0:l"

def canonOpt (specs : List Spec) : Option Cause → String
  | none => "nil"
  | some c => canonCause specs c

def triggerName : Trigger → String
  | .none => "-" | .idleTimeout => "idle_timeout" | .statelessReset => "stateless_reset" | .versionMismatch => "version_mismatch"

def optNat : Option Nat → String
  | none => "-" | some n => toString n

def insertSorted (x : String) : List String → List String
  | [] => [x]
  | y :: ys => if x < y then x :: y :: ys else y :: insertSorted x ys

def sortStrings (l : List String) : List String := l.foldr insertSorted []

def joinOrDash (l : List String) : String := if l.isEmpty then "-" else ",".intercalate l

/-- number of powers of two in [1, n] -/
def powersUpTo (n : Nat) : Nat := Id.run do
  let mut k := 0
  let mut p := 1
  for _ in [0:64] do
    if p ≤ n then
      k := k + 1
      p := p * 2
  return k

/-- key=value lookup in the implementation's result text -/
def field (impl : String) (key : String) : String :=
  (((impl.splitOn " ").filter (· ≠ "")).findSome? fun w =>
    if w.startsWith (key ++ "=") then some (w.drop (key.length + 1)).toString else none).getD ""

def listField (impl key : String) : List String :=
  let v := field impl key
  if v == "-" || v == "" then [] else v.splitOn ","

/-- value part of "name=value" -/
def valOf (s : String) : String :=
  match s.splitOn "=" with
  | _ :: rest => "=".intercalate rest
  | [] => ""

def nameOf (s : String) : String := (s.splitOn "=").headD ""

end Uquic.Spec.CloseMon
