/-
C12 — executable side: the spec tables (generated), edits of a parameter list, the model's prediction of what
the `limits` driver observes (read-back and boundary exercises), the byte-level parser of the marshalled
transport parameters, and the monitors judged on what the implementation printed.
Core-only.
-/
import Uquic.Model.UQuic.Limits

namespace Uquic.Spec.LimitsMon
open Uquic.Gen Uquic.Model.UQuic.Limits

/-! ## keys -/

/-- (driver key, uTLS type name in u_parrot.go, parameter id) in print order -/
def keyTable : List (String × String × Int) :=
  [("mit", "MaxIdleTimeout", Limits.maxIdleTimeoutParameterID),
   ("mups", "MaxUDPPayloadSize", Limits.maxUDPPayloadSizeParameterID),
   ("imd", "InitialMaxData", Limits.initialMaxDataParameterID),
   ("imsdbl", "InitialMaxStreamDataBidiLocal", Limits.initialMaxStreamDataBidiLocalParameterID),
   ("imsdbr", "InitialMaxStreamDataBidiRemote", Limits.initialMaxStreamDataBidiRemoteParameterID),
   ("imsdu", "InitialMaxStreamDataUni", Limits.initialMaxStreamDataUniParameterID),
   ("imsb", "InitialMaxStreamsBidi", Limits.initialMaxStreamsBidiParameterID),
   ("imsu", "InitialMaxStreamsUni", Limits.initialMaxStreamsUniParameterID),
   ("ade", "-", Limits.ackDelayExponentParameterID),
   ("mad", "MaxAckDelay", Limits.maxAckDelayParameterID),
   ("acil", "ActiveConnectionIDLimit", Limits.activeConnectionIDLimitParameterID),
   ("mdfs", "MaxDatagramFrameSize", Limits.maxDatagramFrameSizeParameterID),
   ("dam", "DisableActiveMigration", Limits.disableActiveMigrationParameterID)]

def keys : List String := keyTable.map (·.1)
def keyOfType (t : String) : Option String := (keyTable.find? (·.2.1 == t)).map (·.1)
def idOfKey (k : String) : Option Int := (keyTable.find? (·.1 == k)).map (·.2.2)

/-- driver base name → case label of QUICID2Spec -/
def baseTable : List (String × String) :=
  [("chrome115", "QUICChrome_115_IPv4"), ("chrome115v6", "QUICChrome_115_IPv6"),
   ("firefox116a", "QUICFirefox_116A"), ("firefox116b", "QUICFirefox_116B"), ("firefox116c", "QUICFirefox_116C"),
   ("chrome146", "QUICChrome_146_IPv4"), ("chrome146v6", "QUICChrome_146_IPv6")]

/-- a spec's parameter list as far as this property goes: keyed integer parameters in list order, the
    number of other elements (GREASE, version_information, …), suppressed keys -/
structure SpecList where
  items : List (String × Int) := []
  others : Nat := 0
  suppressed : List String := []
  deriving Repr

def builtin (base : String) : Option SpecList := do
  let label ← (baseTable.find? (·.1 == base)).map (·.2)
  let (_, ps, len) ← Limits.builtinSpecs.find? (·.1 == label)
  let items := ps.filterMap fun (t, v) => (keyOfType t).map (·, v)
  some { items := items, others := len - items.length }

def applyEdit (s : SpecList) (e : String) : Option SpecList :=
  if e.startsWith "set:" then
    match ((e.drop 4).toString.splitOn "=") with
    | [k, v] =>
      if !(keys.contains k) || k == "ade" || k == "dam" then none else
      match v.toNat? with
      | none => none
      | some v =>
        if s.items.any (·.1 == k) then some { s with items := s.items.map fun (k', v') => if k' == k then (k', (v : Int)) else (k', v') }
        else some { s with items := s.items ++ [(k, (v : Int))] }
    | _ => none
  else if e.startsWith "del:" then
    let k := (e.drop 4).toString
    some { s with items := s.items.filter (·.1 != k) }
  else if e.startsWith "sup:" then
    let k := (e.drop 4).toString
    if keys.contains k then some { s with suppressed := s.suppressed ++ [k] } else none
  else none

def applyEdits (s : SpecList) : List String → Option SpecList
  | [] => some s
  | e :: es => (applyEdit s e).bind (applyEdits · es)

/-- what goes on the wire: suppressed keys removed -/
def SpecList.wire (s : SpecList) : List (String × Int) := s.items.filter fun (k, _) => !s.suppressed.contains k

/-- last value listed for a key -/
def lookup (l : List (String × Int)) (k : String) : Option Int :=
  (l.reverse.find? (·.1 == k)).map (·.2)

def fmtListing (l : List (String × Int)) (n : Nat) : String :=
  " ".intercalate (keys.map fun k => match lookup l k with
    | some v => s!"{k}={v}" | none => s!"{k}=-") ++ s!" n={n}"

/-- parse `k=v` tokens (`-` = absent) -/
def parseKV (ws : List String) : List (String × Int) :=
  ws.filterMap fun w => match w.splitOn "=" with
    | [k, v] => v.toInt?.map (k, ·)
    | _ => none

def toParamList (l : List (String × Int)) : ParamList :=
  l.filterMap fun (k, v) => (idOfKey k).map (·, v)

/-! ## user Config -/

def cfgOf (ws : List String) : Config :=
  let kv := parseKV ws
  let g (k : String) : Int := (lookup kv k).getD 0
  { initialConnectionReceiveWindow := g "icrw", maxConnectionReceiveWindow := g "mcrw",
    initialStreamReceiveWindow := g "isrw", maxStreamReceiveWindow := g "msrw",
    maxIncomingStreams := g "mis", maxIncomingUniStreams := g "mius",
    enableDatagrams := g "dg" == 1, maxIdleTimeout := g "mit" }

/-! ## read-back prediction -/

def b2i (b : Bool) : Int := if b then 1 else 0

def fmtOwn (o : OwnParams) : String :=
  s!"mit={o.maxIdleTimeout} mups={o.maxUDPPayloadSize} imd={o.initialMaxData} imsdbl={o.initialMaxStreamDataBidiLocal} imsdbr={o.initialMaxStreamDataBidiRemote} imsdu={o.initialMaxStreamDataUni} imsb={o.maxBidiStreamNum} imsu={o.maxUniStreamNum} ade={o.ackDelayExponent} mad={o.maxAckDelay} acil={o.activeConnectionIDLimit} mdfs={o.maxDatagramFrameSize} dam={b2i o.disableActiveMigration}"

/-- the in-tree server's view after `Unmarshal`: RFC defaults for what is absent on the wire -/
def peerView (wire : List (String × Int)) : OwnParams :=
  let r := recordAll (toParamList wire)
  let has (k : String) : Bool := (lookup wire k).isSome
  { r with
    -- transport_parameters.go: a received max_idle_timeout is raised to protocol.MinRemoteIdleTimeout
    maxIdleTimeout := if has "mit" then max r.maxIdleTimeout (Protocol.MinRemoteIdleTimeout / 1000000) else r.maxIdleTimeout
    maxUDPPayloadSize := if has "mups" then r.maxUDPPayloadSize else Protocol.MaxByteCount
    ackDelayExponent := if has "ade" then r.ackDelayExponent else Protocol.DefaultAckDelayExponent
    maxAckDelay := if has "mad" then r.maxAckDelay else Protocol.DefaultMaxAckDelay / 1000000
    activeConnectionIDLimit := if has "acil" then r.activeConnectionIDLimit else Protocol.DefaultActiveConnectionIDLimit
    maxDatagramFrameSize := if has "mdfs" then r.maxDatagramFrameSize else -1 }

/-- wire view of the plain client's record (`Marshal` omits values equal to the RFC default; the server fills them in again) -/
def plainWire (o : OwnParams) : List (String × Int) :=
  [("mit", o.maxIdleTimeout), ("mups", o.maxUDPPayloadSize), ("imd", o.initialMaxData),
   ("imsdbl", o.initialMaxStreamDataBidiLocal), ("imsdbr", o.initialMaxStreamDataBidiRemote), ("imsdu", o.initialMaxStreamDataUni),
   ("imsb", o.maxBidiStreamNum), ("imsu", o.maxUniStreamNum), ("ade", o.ackDelayExponent), ("mad", o.maxAckDelay),
   ("acil", o.activeConnectionIDLimit)] ++ (if o.maxDatagramFrameSize ≥ 0 then [("mdfs", o.maxDatagramFrameSize)] else [])

/-- the server's own max_idle_timeout in the driver (ms) -/
def serverIdleMs : Int := 600000

def fmtEnf (c : Config) (adv : Option OwnParams) (cidSet : Int) : String :=
  let e := enforced c adv cidSet
  s!"cw={e.connData} cwmax={c.maxConnectionReceiveWindow} swbl={e.streamBidiLocal} swbr={e.streamBidiRemote} swu={e.streamUni} swmax={streamWindowCap c adv .bidiLocal} swmaxr={streamWindowCap c adv .bidiRemote} swmaxu={streamWindowCap c adv .uni} mib={e.streamsBidi} miu={e.streamsUni} cid={e.cids} dg={b2i c.enableDatagrams} idle={min c.maxIdleTimeout serverIdleMs}"

/-! ## exercises: what the conformant in-tree server does with the advertised values, and whether the client's checks fire -/

/-- raw advertised values as the peer reads them (absent: 0; `acil` absent: the RFC default) -/
structure Adv where
  imd : Int
  bl : Int
  br : Int
  uni : Int
  imsb : Int
  imsu : Int
  acil : Int
  mdfs : Int
  mit : Int
  deriving Repr

def advOf (wire : List (String × Int)) : Adv :=
  let g (k : String) : Int := max 0 ((lookup wire k).getD 0)
  { imd := g "imd", bl := g "imsdbl", br := g "imsdbr", uni := g "imsdu", imsb := g "imsb", imsu := g "imsu",
    acil := match lookup wire "acil" with | some v => v | none => Protocol.DefaultActiveConnectionIDLimit
    mdfs := g "mdfs", mit := g "mit" }

def localErr (code : Int) : String := s!"local:0x{String.ofList (Nat.toDigits 16 code.toNat)}"

/-- the driver's `connPlan`: per-stream byte counts, `cnt` streams of at most `per` bytes out of `rem` -/
def fill (cnt : Nat) (per rem : Int) : List Int × Int :=
  match cnt with
  | 0 => ([], rem)
  | cnt + 1 =>
    if rem > 0 && per > 0 then
      let k := min per rem
      let (rest, rem') := fill cnt per (rem - k)
      (k :: rest, rem')
    else ([], rem)

def connStreamsPerKind : Int := 16
def maxStreamsExercised : Int := 3000

structure ConnPlan where
  bl : List Int
  uni : List Int
  br : List Int
  total : Int

def connPlan (a : Adv) : ConnPlan :=
  let (bl, r1) := fill connStreamsPerKind.toNat a.bl a.imd
  let (uni, r2) := fill (min connStreamsPerKind a.imsu).toNat a.uni r1
  let (br, r3) := fill (min connStreamsPerKind a.imsb).toNat a.br r2
  { bl := bl, uni := uni, br := br, total := a.imd - r3 }

def listMax (l : List Int) : Int := l.foldl max 0

inductive Ex
  | sdata (k : StreamKind) | cdata | streams (bidi : Bool) | cids | datagram | idle
  | refill (k : StreamKind) | idleack
  deriving Repr, DecidableEq

def parseEx : List String → Option Ex
  | ["sdata", "bl"] => some (.sdata .bidiLocal)
  | ["sdata", "br"] => some (.sdata .bidiRemote)
  | ["sdata", "uni"] => some (.sdata .uni)
  | ["cdata"] => some .cdata
  | ["streams", "bidi"] => some (.streams true)
  | ["streams", "uni"] => some (.streams false)
  | ["cids"] => some .cids
  | ["datagram"] => some .datagram
  | ["idle"] => some .idle
  | ["refill", "bl"] => some (.refill .bidiLocal)
  | ["refill", "br"] => some (.refill .bidiRemote)
  | ["refill", "uni"] => some (.refill .uni)
  | ["idleack"] => some .idleack
  | _ => none

def Adv.stream (a : Adv) : StreamKind → Int
  | .bidiLocal => a.bl | .bidiRemote => a.br | .uni => a.uni

/-- outcome of an exercise as far as it can be told from (advertised, enforced):
    `pre` = the exercise cannot be run (reason), `events` = what the peer does at the boundary,
    `okText` = the driver's text when no check fires -/
structure ExPlan where
  pre : Option String := none
  events : List PeerEvent := []
  okText : String := "ok"

def idleSettleMs : Int := 2000
def idleMarginMs : Int := 500
def refillExtraMax : Int := 65536
/-- `idleack`: the client speaks every `mit / idleAckDiv` ms, `idleAckRounds` times (longer than the timeout) -/
def idleAckDiv : Int := 5
def idleAckRounds : Int := 8

/-- base_flow_controller.go hasWindowUpdate: with a local window of `w` bytes, a peer that was told `adv` and has
    used it up gets its MAX_STREAM_DATA only if `w - adv ≤ ⌊0.75·w⌋` — otherwise it starves -/
def starves (w adv : Int) : Bool := decide (w - adv > (3 * w) / 4)

def planOf (a : Adv) : Ex → ExPlan
  | .sdata k =>
    if (k == .bidiRemote && a.imsb < 1) || (k == .uni && a.imsu < 1) then { pre := some "nostream" } else
    let n := min (a.stream k) a.imd
    -- the frame that opens the stream comes first (client-opened streams need no permission from the client)
    let opens : List PeerEvent := match k with
      | .bidiLocal => [] | .bidiRemote => [.openStream true 1] | .uni => [.openStream false 1]
    { events := opens ++ [.streamData k n, .connData n], okText := s!"ok n={n}" }
  | .cdata =>
    let p := connPlan a
    { events := [.connData p.total, .streamData .bidiLocal (listMax p.bl), .streamData .uni (listMax p.uni),
                 .streamData .bidiRemote (listMax p.br), .openStream false p.uni.length, .openStream true p.br.length],
      okText := s!"ok n={p.total}" }
  | .streams b =>
    let want := min (if b then a.imsb else a.imsu) maxStreamsExercised
    { events := [.openStream b want], okText := s!"ok n={want} over=0" }
  | .cids =>
    -- the in-tree server issues min(limit, MaxIssuedConnectionIDs) IDs including the handshake one
    let issued := min a.acil Protocol.MaxIssuedConnectionIDs - 1
    { events := [.newConnID issued], okText := s!"ok ncid={issued}" }
  | .datagram =>
    -- DatagramFrame.MaxDataLen: type byte + length byte leave no room for payload below 3
    if a.mdfs ≤ 2 then { pre := some "nodgram" } else
    { events := [.datagram (min a.mdfs receivable)], okText := "ok" }
  | .refill k =>
    if (k == .bidiRemote && a.imsb < 1) || (k == .uni && a.imsu < 1) then { pre := some "nostream" } else
    let w := a.stream k
    if w < 1 then { pre := some "nowindow" } else
    let n := w + min w refillExtraMax
    if n > a.imd then { pre := some "connbound" } else
    let opens : List PeerEvent := match k with
      | .bidiLocal => [] | .bidiRemote => [.openStream true 1] | .uni => [.openStream false 1]
    -- (the first `w` bytes are within the advertised limit; the rest waits for the MAX_STREAM_DATA the client owes)
    { events := opens ++ [.streamData k w, .connData w], okText := s!"ok n={n}" }
  | .idleack =>
    if a.mit = 0 then { pre := some "noidle" } else
    if a.mit ≤ idleSettleMs + idleMarginMs || a.mit ≥ serverIdleMs then { pre := some "outofrange" } else
    -- the client sends one byte every mit/5 ms; the server only acknowledges; every gap is far below the timeout
    { events := [.silence (a.mit / idleAckDiv + idleMarginMs) serverIdleMs 0], okText := "ok" }
  | .idle =>
    if a.mit = 0 then { pre := some "noidle" } else
    if a.imsu < 1 || a.uni < 1 || a.imd < 1 then { pre := some "nochannel" } else
    if a.mit ≤ idleSettleMs + idleMarginMs || a.mit ≥ serverIdleMs then { pre := some "outofrange" } else
    -- after the silence the server opens one unidirectional stream and sends one byte on it
    { events := [.silence (a.mit - idleMarginMs) serverIdleMs 0, .openStream false 1, .streamData .uni 1, .connData 1],
      okText := "ok" }

/-- the error the client raises when `ev` fires -/
def errorOf : PeerEvent → String
  | .streamData .. => localErr Limits.FlowControlError
  | .connData .. => localErr Limits.FlowControlError
  | .openStream .. => localErr Limits.StreamLimitError
  | .newConnID .. => localErr Limits.ConnectionIDLimitError
  | .datagram s => if s > Limits.MaxDatagramSize then localErr Limits.ProtocolViolation else localErr Limits.FrameEncodingError
  | .silence .. => "local:idle_timeout"

/-- `none`: the model does not predict (idle exercise inside the margin) -/
def predict (a : Adv) (enf : Limits) (ex : Ex) : Option String :=
  let p := planOf a ex
  match p.pre with
  | some r => some r
  | none =>
    -- the idle exercise speaks `idleMarginMs` before the advertised timeout: a Config value less than 2 s
    -- below the advertised one is not predicted
    if ex == .idle && enf.idle < a.mit && a.mit < enf.idle + 2000 then none else
    match p.events.filter (·.fires enf) with
    | [] =>
      match ex with
      | .refill k => if starves (enf.stream k) (a.stream k) then some s!"stall n={a.stream k}" else some p.okText
      | _ => some p.okText
    | ev :: rest =>
      -- `cdata`: streams are filled concurrently; when both a stream-count and a flow-control check would
      -- fire, which one the client hits first depends on packetisation: not predicted
      if ex == .cdata && rest.any (fun ev' => errorOf ev' != errorOf ev) then none else some (errorOf ev)

/-- the limit kind whose advertised value exceeds the Config-derived enforced one and explains `ev` firing -/
def findingClass (ex : Ex) (ev : PeerEvent) : String :=
  match ev with
  | .streamData .. => "advertised_initial_max_stream_data_above_enforced"
  | .connData .. => "advertised_initial_max_data_above_enforced"
  | .openStream true _ => "advertised_initial_max_streams_bidi_above_enforced"
  | .openStream false _ => "advertised_initial_max_streams_uni_above_enforced"
  | .newConnID .. => "-"     -- repaired in /repo 06daca1: never excused
  | .datagram .. => "advertised_max_datagram_frame_size_but_datagrams_disabled"
  | .silence .. => if ex == .idle then "advertised_max_idle_timeout_above_enforced" else "-"

/-! ## bytes: RFC 9000 §18 sequence of (id varint, length varint, value) -/

def hexVal (c : Char) : Option Nat :=
  if '0' ≤ c && c ≤ '9' then some (c.toNat - '0'.toNat)
  else if 'a' ≤ c && c ≤ 'f' then some (c.toNat - 'a'.toNat + 10)
  else none

def hexBytes : List Char → Option (List Nat)
  | [] => some []
  | [_] => none
  | a :: b :: rest => do
    let x ← hexVal a
    let y ← hexVal b
    let r ← hexBytes rest
    some ((x * 16 + y) :: r)

def beNat (bs : List Nat) : Nat := bs.foldl (fun acc b => acc * 256 + b) 0

/-- RFC 9000 §16 variable-length integer -/
def decodeVarint : List Nat → Option (Nat × List Nat)
  | [] => none
  | b :: rest =>
    let len := 2 ^ (b / 64)          -- 1, 2, 4 or 8 bytes
    if rest.length < len - 1 then none
    else some (beNat ((b % 64) :: rest.take (len - 1)), rest.drop (len - 1))

def parseTLVs (fuel : Nat) (bs : List Nat) : Option (List (Nat × List Nat)) :=
  match fuel with
  | 0 => if bs.isEmpty then some [] else none
  | fuel + 1 =>
    if bs.isEmpty then some [] else do
      let (id, r1) ← decodeVarint bs
      let (len, r2) ← decodeVarint r1
      if r2.length < len then none
      else
        let rest ← parseTLVs fuel (r2.drop len)
        some ((id, r2.take len) :: rest)

/-- the integer parameters found in the bytes, as (key, value); a flag has value 1; `iscid` separately -/
def wireFields (tlvs : List (Nat × List Nat)) : List (String × Int) :=
  tlvs.filterMap fun (id, body) =>
    match keyTable.find? (·.2.2 == (id : Int)) with
    | none => none
    | some (k, _, _) =>
      if k == "dam" then some (k, 1)
      else match decodeVarint body with
        | some (v, []) => some (k, (v : Int))
        | _ => some (k, -2)      -- malformed value

def wireISCID (tlvs : List (Nat × List Nat)) : Option (List Nat) :=
  (tlvs.find? fun (id, _) => (id : Int) == Limits.initialSourceConnectionIDParameterID).map (·.2)

/-- record field by key -/
def OwnParams.get (o : OwnParams) : String → Int
  | "mit" => o.maxIdleTimeout | "mups" => o.maxUDPPayloadSize | "imd" => o.initialMaxData
  | "imsdbl" => o.initialMaxStreamDataBidiLocal | "imsdbr" => o.initialMaxStreamDataBidiRemote
  | "imsdu" => o.initialMaxStreamDataUni | "imsb" => o.maxBidiStreamNum | "imsu" => o.maxUniStreamNum
  | "ade" => o.ackDelayExponent | "mad" => o.maxAckDelay | "acil" => o.activeConnectionIDLimit
  | "mdfs" => o.maxDatagramFrameSize | "dam" => b2i o.disableActiveMigration
  | _ => 0

/-- values a record may hold for a parameter that is NOT on the wire: unset (0, or -1 for the datagram
    size) or the RFC 9000 default that `Marshal` omits -/
def unsetValues (k : String) : List Int :=
  match k with
  | "ade" => [0, Protocol.DefaultAckDelayExponent]
  | "mad" => [0, Protocol.DefaultMaxAckDelay / 1000000]
  | "acil" => [0, Protocol.DefaultActiveConnectionIDLimit]
  | "mdfs" => [0, -1]
  | _ => [0]

/-- `record_equals_bytes`, field by field: returns (key, record value, wire value or none) for each mismatch -/
def recordVsWire (rec : List (String × Int)) (wire : List (String × Int)) : List (String × Int × Option Int) :=
  keys.filterMap fun k =>
    let r := (lookup rec k).getD 0
    match lookup wire k with
    | some w => if r == w then none else some (k, r, some w)
    | none => if (unsetValues k).contains r then none else some (k, r, none)

end Uquic.Spec.LimitsMon
