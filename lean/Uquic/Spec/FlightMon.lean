/-
Text plumbing and executable monitors for the `flightplan` driver (property C02). The monitors judge what the
implementation printed against the plan AS WRITTEN in the `mk` op and the documented meaning of a `QUICCryptoRange`
(u_flight_frames.go: a negative Offset counts back from the end of the stream; Length 0 = to the end, a negative Length
ends that many bytes before the end) — never against the model's plan value, which follows the implementation.
-/
import Uquic.Model.UQuic.FlightPlan

namespace Uquic.Spec.FlightMon
open Uquic.Model.UQuic.FlightPlan

def words (s : String) : List String := (s.splitOn " ").filter (· ≠ "")

def getKV (toks : List String) (k : String) : Option String :=
  toks.findSome? fun t => if t.startsWith (k ++ "=") then some (t.drop (k.length + 1)).toString else none

/-- the documented bounds of a range in a stream of `n` bytes (`none`: the range does not fit that stream) -/
def docBounds (r : Range) (n : Nat) : Option (Nat × Nat) :=
  let s : Int := if r.off < 0 then (n : Int) + r.off else r.off
  let e : Int := if 0 < r.len then s + r.len else (n : Int) + r.len
  if 0 ≤ s ∧ s ≤ e ∧ e ≤ (n : Int) then some (s.toNat, e.toNat) else none

def docDG (random : Bool) (n : Nat) (d : DG) : Option (List (Nat × Nat)) :=
  if !(d.ranges.all fun r => (docBounds r n).isSome) then none else
  let ivs := (d.ranges.filterMap (docBounds · n)).filter fun iv => iv.1 < iv.2
  if random && (d.ranges.isEmpty || !d.cfgOK || ivs.isEmpty) then none else some ivs

/-- what the plan as written lays out for a ClientHello of `n` bytes, if it serves that length at all: every range fits
    and every byte of the stream is carried by some datagram -/
def docFlight (p : Plan) (n : Nat) : Option (List (List (Nat × Nat))) :=
  if p.dgs.isEmpty || !(p.dgs.all fun d => (docDG p.random n d).isSome) then none else
  let ivs := p.dgs.filterMap (docDG p.random n)
  if coversAll ivs n then some ivs else none

/-! ### text -/

def parseInt (s : String) : Option Int := s.toInt?

/-- `c<off>:<len>` -/
def parseRange (s : String) : Option Range :=
  if !s.startsWith "c" then none else
  match (s.drop 1).toString.splitOn ":" with
  | [a, b] => do let o ← parseInt a; let l ← parseInt b; pure ⟨o, l⟩
  | _ => none

/-- `min ≤ max` settings of a random datagram: `f=minC.maxC.minP.maxP.len.minPad.maxPad` -/
def cfgOKOf (s : String) : Bool :=
  match (s.splitOn ".").map (·.toNat?.getD 0) with
  | [minC, maxC, minP, maxP, len, minPad, maxPad] =>
    decide (minC ≤ maxC) && decide (minP ≤ maxP) && (len == 0 || (decide (1 ≤ minPad) && decide (minPad ≤ maxPad)))
  | _ => true

/-- one datagram: `item,item,…[;f=…]`, items `c<off>:<len>` | `p` | `z<n>` (only the CRYPTO ranges matter here) -/
def parseDG (s : String) : Option DG :=
  let (body, cfg) := match s.splitOn ";f=" with
    | [b, c] => (b, some c)
    | _ => (s, none)
  let items := (body.splitOn ",").filter (· ≠ "")
  let cr := items.filter (·.startsWith "c")
  let rs := cr.filterMap parseRange
  if rs.length ≠ cr.length then none else
  some { ranges := rs, cfgOK := match cfg with | some c => cfgOKOf c | none => true }

def parsePlan (kind plan : String) : Option Plan :=
  if kind ≠ "R" ∧ kind ≠ "F" then none else
  if plan == "-" then some { random := kind == "R", dgs := [] } else
  let ds := (plan.splitOn "|").map parseDG
  if ds.any Option.isNone then none else some { random := kind == "R", dgs := ds.filterMap id }

def errName : Err → String
  | .offsetOOB => "offset_oob" | .rangeOOB => "range_oob" | .emptyRanges => "empty_ranges"
  | .noBytes => "no_bytes" | .emptyPlan => "empty_plan" | .badCfg => "bad_cfg"

def renderIvs (l : List (Nat × Nat)) : String :=
  match normIvs l with
  | [] => "_"
  | u => "+".intercalate (u.map fun iv => s!"{iv.1}-{iv.2}")

def renderFlight (ivs : List (List (Nat × Nat))) (n : Nat) : String :=
  s!"ok d={"|".intercalate (ivs.map renderIvs)} cov={if coversAll ivs n then 1 else 0} data=1"

def renderRes (r : Res (List (List (Nat × Nat)))) (n : Nat) : String :=
  match r with
  | .err e => "E:" ++ errName e
  | .ok ivs => renderFlight ivs n

/-- the plan uses end-relative addressing somewhere -/
def endRelative (p : Plan) : Bool := p.dgs.any fun d => d.ranges.any fun r => decide (r.off < 0) || decide (r.len < 0) || decide (r.len = 0)

end Uquic.Spec.FlightMon
