/-
Property C11 stated independently of the model: executable specifications / monitors over
`(id, value)` lists. The monitors judge what the implementation printed; the theorems in
`Uquic.Props.C11` show that the model satisfies the same statements for all inputs. Core-only.
-/
import Uquic.Model.UQuic.QTP

namespace Uquic.Spec.QtpMon
open Uquic.Model.QTP

/-- RFC 9000 §18.1: reserved (GREASE) transport parameter ids are `31*N + 27` -/
def greaseID (id : Nat) : Bool := id % 31 == 27

/-- the canonical GREASE id fingerprinters use -/
def canonGrease : Nat := 27

/-- suppression keeps a parameter iff its id is not listed and, when the canonical GREASE id is listed,
it is not a GREASE id -/
def specKeep (S : List Nat) (id : Nat) : Bool :=
  !(S.contains id) && !(S.contains canonGrease && greaseID id)

/-- "removes exactly the listed identifiers (every GREASE identifier for the canonical one), preserving
the order of the rest" -/
def specSuppress (ps : List Param) (S : List Nat) : List Param :=
  ps.filter (fun p => specKeep S p.id)

def specCanon (id : Nat) : Nat := if greaseID id then canonGrease else id

def sortedLE : List Nat → Bool
  | a :: b :: t => a ≤ b && sortedLE (b :: t)
  | _ => true

/-- what a fingerprinter canonicalising the wire sees: ids with GREASE folded, sorted, duplicates kept.
`l` is the candidate answer: sorted and a permutation of the folded wire ids. -/
def isCanonSortOf (l : List Nat) (wireIDs : List Nat) : Bool :=
  sortedLE l && l.isPerm (wireIDs.map specCanon)

/-- position-wise byte equality, except that masked positions (a GREASE version drawn by uTLS on every
`Value()` call) only need the bits of 0x0a -/
def eqMod : List Nat → List Nat → List Bool → Bool
  | [], [], _ => true
  | a :: as, b :: bs, m :: ms => (if m then (a &&& 10 == 10 && a < 256) else a == b) && eqMod as bs ms
  | a :: as, b :: bs, [] => a == b && eqMod as bs []
  | _, _, _ => false

/-- remove the first element of `es` that `f` accepts -/
def eraseFirst {α} (f : α → Bool) : List α → Option (List α)
  | [] => none
  | e :: es => if f e then some es else (eraseFirst f es).map (e :: ·)

/-- `ws` is a rearrangement of `es` under the matching relation `m` (greedy; exact when `m` is an
equivalence on the elements present) -/
def permMod {α β} (m : α → β → Bool) : List α → List β → Bool
  | [], es => es.isEmpty
  | w :: ws, es =>
    match eraseFirst (fun e => m w e) es with
    | none => false
    | some es' => permMod m ws es'

/-- as `permMod`, preferring an exact match `m` over a permitted alternative `m'` for every element -/
def permMod2 {α β} (m m' : α → β → Bool) : List α → List β → Bool
  | [], es => es.isEmpty
  | w :: ws, es =>
    match eraseFirst (fun e => m w e) es with
    | some es' => permMod2 m m' ws es'
    | none =>
      match eraseFirst (fun e => m' w e) es with
      | none => false
      | some es' => permMod2 m m' ws es'

/-- all permutations of `0..n-1` in lexicographic order -/
def permsLex : List Nat → List (List Nat)
  | [] => [[]]
  | l => l.flatMap (fun x => (permsLex (l.erase x)).map (x :: ·))
termination_by l => l.length
decreasing_by
  simp_wf
  rename_i h
  have := List.length_erase_of_mem h
  have : 0 < l.length := List.length_pos_of_mem h
  omega

/-- `(c·K − N)² ≤ z²·N·(K−1)`: a cell of probability `1/K` is within `z` standard deviations after `N` trials -/
def withinSigma (z c N K : Nat) : Bool :=
  let d : Int := (c * K : Nat) - (N : Int)
  d * d ≤ ((z * z * N * (K - 1) : Nat) : Int)

end Uquic.Spec.QtpMon
