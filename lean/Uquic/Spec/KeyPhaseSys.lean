/-
Two endpoints, each with an `updatableAEAD`, connected by an adversarial network (C05): packets may be
lost, duplicated, reordered and delayed arbitrarily, and anything unauthentic may be injected.
The only honesty assumed is the peer's: it acknowledges a packet number only after it has successfully
opened that packet.  Used for the two-party theorem `generation_lockstep`.
-/
import Uquic.Model.Crypto.KeyPhase

namespace Uquic.Spec.KeyPhaseSys
open Uquic.Model.KeyPhase

/-- one endpoint: its AEAD, the last packet number it handed to `Seal`, what it sealed `(generation, pn)`
    and which of the peer's packets it opened successfully -/
structure Side where
  ka : KA := {}
  last : Int := -1
  sent : List (Int × Int) := []
  opened : List (Int × Int) := []

/-- operations of the ACTIVE side `x` (with peer `y`) -/
inductive Act where
  /-- `KeyPhase()` + `Seal(pn)`; contract: `pn` larger than every packet number sealed before -/
  | sealPkt (pn : Int)
  /-- `KeyPhase()` alone -/
  | kp
  /-- the network delivers (possibly again, possibly late) a packet `q = (gen, pn)` the peer sealed -/
  | recv (q : Int × Int) (t : Int)
  /-- the network delivers anything else: not authentic under any key (ideal AEAD) -/
  | junk (t pn kpb gen : Int)
  /-- an ACK for `pn` arrives; honest peer: it opened a packet with that number -/
  | ack (pn : Int)
  | confirm

/-- precondition of an action of `x` with peer `y` -/
def Act.ok (x y : Side) : Act → Prop
  | .sealPkt pn => x.last < pn
  | .recv q _ => q ∈ y.sent
  | .ack pn => ∃ g, (g, pn) ∈ y.opened
  | _ => True

/-- effect on the active side (the peer's state does not change: the network is the ghost `sent` lists) -/
def Act.apply (e : Env) (x : Side) : Act → Side
  | .sealPkt pn =>
    let a := (x.ka.keyPhaseBit e).1
    { x with ka := (a.seal pn).1, last := pn, sent := (a.keyPhase, pn) :: x.sent }
  | .kp => { x with ka := (x.ka.keyPhaseBit e).1 }
  | .recv q t =>
    let r := x.ka.open e t q.2 (bit q.1) { gen := q.1, authentic := true }
    { x with ka := r.1, opened := if r.2 = .ok then q :: x.opened else x.opened }
  | .junk t pn kpb gen => { x with ka := (x.ka.open e t pn kpb { gen := gen, authentic := false }).1 }
  | .ack pn => { x with ka := (x.ka.setLargestAcked pn).1 }
  | .confirm => { x with ka := x.ka.setHandshakeConfirmed }

structure Sys where
  a : Side := {}
  b : Side := {}

/-- reachable states: any interleaving of valid actions of the two endpoints -/
inductive Reach (e : Env) : Sys → Prop
  | init : Reach e {}
  | stepA (s : Sys) (act : Act) : Reach e s → act.ok s.a s.b → Reach e { s with a := act.apply e s.a }
  | stepB (s : Sys) (act : Act) : Reach e s → act.ok s.b s.a → Reach e { s with b := act.apply e s.b }

end Uquic.Spec.KeyPhaseSys
