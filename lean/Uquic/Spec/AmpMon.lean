/-
Executable monitors of property C14 (amplification part).  They judge what the implementation printed
against ghost state computed from the operations only: `gSent` = bytes of every datagram the driver put
"on the wire" through SentPacket, `gRcvd` = bytes of every datagram handed to ReceivedBytes, `gLast` = size
of the last datagram sent, `gValidated` = client ∨ constructed with a validated token ∨ a Handshake-level
packet was processed.  The factor is the literal 3 of the property text (not the regenerated constant:
a changed constant must show up as a violation).
-/
namespace Uquic.Spec.AmpMon

/-- the running inequality of the property: at most three times the bytes received, plus the datagram that
    was already permitted when the limit was reached -/
def boundOk (gSent gRcvd gLast : Nat) : Bool := decide (gSent ≤ 3 * gRcvd + gLast)

/-- a send (or a SendMode answer ≠ SendNone) is only acceptable strictly below the limit -/
def belowLimit (gSent gRcvd : Nat) : Bool := decide (gSent < 3 * gRcvd)

/-- ghost: may the address count as validated after these events? -/
def mayBeValidated (isClient cav sawHandshake : Bool) : Bool := isClient || cav || sawHandshake

end Uquic.Spec.AmpMon
