/-
Executable monitors of property C14 (amplification part).  They judge what the implementation printed
against ghost state computed from the operations only: `gSent` = bytes of every datagram the driver put
"on the wire" through SentPacket, `gRcvd` = bytes of every datagram handed to ReceivedBytes, `gLast` = size
of the last datagram sent, `gValidated` = client ∨ constructed with a validated token ∨ a Handshake-level
packet was processed.  The factor is the literal 3 of the property text (not the regenerated constant:
a changed constant must show up as a violation).
-/
namespace Uquic.Spec.AmpMon

/-- the running inequality of the property: at most three times the bytes received, plus the datagram that
    was already permitted when the limit was reached -/
def boundOk (gSent gRcvd gLast : Nat) : Bool := decide (gSent ≤ 3 * gRcvd + gLast)

/-- a send (or a SendMode answer ≠ SendNone) is only acceptable strictly below the limit -/
def belowLimit (gSent gRcvd : Nat) : Bool := decide (gSent < 3 * gRcvd)

/-- ghost: may the address count as validated after these events? -/
def mayBeValidated (isClient cav sawHandshake : Bool) : Bool := isClient || cav || sawHandshake

/-! ### the observable statement, on a wire trace

What an observer at the server's socket sees of one connection: datagrams arriving from the client,
datagrams leaving towards it, and (ghost) the moment the client's address counts as validated. -/

inductive WireEv
  | inn (n : Nat)
  | out (n : Nat)
  | validate
deriving Repr, DecidableEq

structure WireSt where
  inB : Nat := 0
  outB : Nat := 0
  validated : Bool := false
  /-- size of the last datagram sent -/
  last : Nat := 0
  /-- every datagram so far left either after validation or while strictly below three times the bytes received -/
  ok : Bool := true
deriving Repr, DecidableEq

def WireSt.step (w : WireSt) : WireEv → WireSt
  | .inn n => { w with inB := w.inB + n }
  | .out n => { w with outB := w.outB + n, last := n, ok := w.ok && (w.validated || belowLimit w.outB w.inB) }
  | .validate => { w with validated := true }

def wireRun (validated0 : Bool) (evs : List WireEv) : WireSt := evs.foldl WireSt.step { validated := validated0 }

/-- THE PROPERTY on a wire trace: until the address is validated, no datagram leaves unless the bytes sent
    before it are strictly fewer than three times the bytes received before it — i.e. the total is at most
    3 × received plus the one datagram that was already permitted when the limit was reached. -/
def wireOk (validated0 : Bool) (evs : List WireEv) : Bool := (wireRun validated0 evs).ok

end Uquic.Spec.AmpMon
