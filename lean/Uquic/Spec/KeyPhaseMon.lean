/-
Executable monitors for C05 (key updates), judged on what the implementation printed against ghost
state derived from the operations and the implementation's own earlier outputs only.
-/
namespace Uquic.Spec.KeyPhaseMon

/-- what the harness knows about a packet: who sealed it, the key generation the IMPLEMENTATION reported
    at seal time (or the generation requested from the forging hook), its number and key-phase bit -/
structure PktInfo where
  sender : Nat
  gen : Int
  pn : Int
  bit : Int
  /-- produced by the real packer (header protected): packet number length, destination connection ID
      length and total length of the packet -/
  packed : Bool := false
  pnLen : Nat := 4
  cidLen : Nat := 0
  dataLen : Nat := 0
deriving Repr

/-- ghost of one endpoint -/
structure EpGhost where
  phase : Int := 0                    -- last key phase the implementation reported
  confirmed : Bool := false
  sentInPhase : List Int := []        -- packet numbers sealed in the current phase, oldest last
  ackedOK : Option Int := none        -- largest packet number of an accepted SetLargestAcked
  rcvdInPhase : Nat := 0              -- packets of the current generation opened successfully
  firstRcvdInPhase : Option Int := none
  prevDropAt : Option Int := none     -- when the previous receive key may be dropped
  prevDropped : Bool := true          -- no previous key (phase 0) or dropped
  monotoneSeal : Bool := true         -- packet numbers handed to Seal were strictly increasing
  lastSealed : Int := -1
  highRcvd : Int := 0                 -- largest packet number the implementation reported as opened
  ackWithinSent : Bool := true        -- every ACK so far was for a packet number already handed to Seal
                                      -- (sentPacketHandler.ReceivedAck rejects "ACK for an unsent packet" first)
deriving Repr

def EpGhost.firstSent (g : EpGhost) : Option Int := g.sentInPhase.getLast?

/-- the RFC 9001 §6.1 condition for initiating an update, from the ghost -/
def EpGhost.localUpdateAllowed (g : EpGhost) : Bool :=
  g.confirmed && (g.phase == 0 ||
    (match g.firstSent, g.ackedOK with
     | some fs, some la => decide (la ≥ fs)
     | _, _ => false))

/-- reordering rule: the packet belongs to the previous generation -/
def EpGhost.isOld (g : EpGhost) (pn : Int) : Bool :=
  (decide (g.phase > 0) && g.firstRcvdInPhase.isNone) ||
  (match g.firstRcvdInPhase with | some fr => decide (pn < fr) | none => false)

def EpGhost.rolled (g : EpGhost) (newPhase : Int) : EpGhost :=
  { g with phase := newPhase, sentInPhase := [], rcvdInPhase := 0, firstRcvdInPhase := none,
           prevDropAt := none, prevDropped := false }

end Uquic.Spec.KeyPhaseMon
