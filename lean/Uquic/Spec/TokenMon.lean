/-
Executable monitors of property C14 (token part), judged on what the implementation answered against the
ghost table of tokens it handed out earlier (bytes, key, the address and time they were issued for).
-/
namespace Uquic.Spec.TokenMon

/-- a token validates only for the encoded address it was issued for -/
def addrMatches (presented issued : List UInt8) : Bool := presented == issued

/-- lifetime of a Retry token: the handshake timeout, twice the handshake idle timeout (config.go) -/
def retryLimit (handshakeIdle : Int) : Int := 2 * handshakeIdle

/-- a token validates only within the lifetime of its kind -/
def ageOk (isRetry : Bool) (age maxTokenAge retryLimit : Int) : Bool :=
  if isRetry then decide (age ≤ retryLimit) else decide (age ≤ maxTokenAge)

end Uquic.Spec.TokenMon
