/-
The wire trace of a handler history (which handler calls put bytes on / take bytes off the wire, and when the
address becomes validated).  Core-only.
-/
import Uquic.Model.Amp.Limit
import Uquic.Spec.AmpMon

namespace Uquic.Model.Amp
open Uquic.Spec.AmpMon

/-- the handler part of `St.step` -/
def H.apply (h : H) : Op → H
  | .rcvBytes n => h.receivedBytes n
  | .rcvPacket l => h.receivedPacket l
  | .mode _ => h
  | .sent sizes => h.sentDatagram sizes

/-- what one handler call corresponds to on the wire, in handler state `h` -/
def opWire (h : H) : Op → List WireEv
  | .rcvBytes n => [.inn n]
  | .rcvPacket l => if h.validated = false ∧ (h.receivedPacket l).validated = true then [.validate] else []
  | .mode _ => []
  | .sent sizes => [.out (sum sizes)]

def wireOfCalls : H → List Op → List WireEv
  | _, [] => []
  | h, op :: ops => opWire h op ++ wireOfCalls (h.apply op) ops

end Uquic.Model.Amp
