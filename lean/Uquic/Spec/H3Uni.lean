/-
RFC 9114 §6.2 for the peer's unidirectional streams, written down independently of the code:
one control (0x00), one QPACK encoder (0x02) and one QPACK decoder (0x03) stream are legal, in any
order; a second stream of one of these kinds is a connection error H3_STREAM_CREATION_ERROR (0x103);
a push stream (0x01) is H3_STREAM_CREATION_ERROR at a server and H3_ID_ERROR (0x108) at a client
that never sent MAX_PUSH_ID; every other type only has its reading aborted (0x103).
-/
import Uquic.Model.H3.Uni

namespace Uquic.Spec.H3Uni
open Uquic.Model.H3

structure USpec where
  ctrl : Bool := false
  enc : Bool := false
  dec : Bool := false
  closed : Option Nat := none
deriving Repr, DecidableEq, Inhabited

def specStep (isServer : Bool) (g : USpec) (t : Nat) : USpec × UniOut :=
  if g.closed.isSome then (g, .dead)
  else if t = 0 then
    if g.ctrl then ({ g with closed := some 0x103 }, .connClosed 0x103) else ({ g with ctrl := true }, .accepted)
  else if t = 2 then
    if g.enc then ({ g with closed := some 0x103 }, .connClosed 0x103) else ({ g with enc := true }, .accepted)
  else if t = 3 then
    if g.dec then ({ g with closed := some 0x103 }, .connClosed 0x103) else ({ g with dec := true }, .accepted)
  else if t = 1 then
    ({ g with closed := some (if isServer then 0x103 else 0x108) }, .connClosed (if isServer then 0x103 else 0x108))
  else (g, .cancelled 0x103)

def specOuts (isServer : Bool) : USpec → List Nat → List UniOut
  | _, [] => []
  | g, t :: ts => (specStep isServer g t).2 :: specOuts isServer (specStep isServer g t).1 ts

/-- the same for the model of the code -/
def uniOuts (isServer : Bool) : UniSt → List Nat → List UniOut
  | _, [] => []
  | s, t :: ts => (uniStep isServer s t).2 :: uniOuts isServer (uniStep isServer s t).1 ts

/-- all orders of the given stream types -/
def perms : List Nat → List (List Nat)
  | [] => [[]]
  | x :: xs => (perms xs).flatMap fun p => (List.range (p.length + 1)).map fun i => p.take i ++ x :: p.drop i

end Uquic.Spec.H3Uni
