/-
Op histories of the SendStream model: the transition system the C01 theorems quantify over.
Core-only.
-/
import Uquic.Model.Stream.Send

namespace Uquic.Spec.SendRun
open Uquic.Model.Stream.Send

/-- one atomic step of the sender: an API call, a callback from the ackhandler, or the parked
    `Write` goroutine running one more pass of its loop -/
inductive Op where
  | write (p : Bytes)
  | wake
  | close
  | pop (maxBytes window : Nat) (newlyBlocked : Bool)
  | acked (i : Nat)
  | lost (i : Nat)
  | cancel (code : Nat)
  | stop (code : Nat)
  | shutdown
  | boundary
  | ctrl
  | resetAcked (f : ResetFrame)
  | resetLost (f : ResetFrame)
deriving Repr, DecidableEq

/-- The packer never asks for more than a packet (`maxBytes ≤ MaxPacketBufferSize`; beyond it the Go code
    slices past the pooled buffer and panics with the mutex held) — such a `pop` is not a step.
    A step on a `dead` stream (a panic left the mutex locked) does nothing. -/
def stepOp (s : State) (op : Op) : State :=
  if s.dead then s else
  match op with
  | .write p => (writeCall s p).1
  | .wake => (wake s).1
  | .close => (close s).1
  | .pop mb w nb => if mb ≤ maxPacketBufferSize then (pop s mb w nb).1 else s
  | .acked i => (acked s i).1
  | .lost i => (lost s i).1
  | .cancel c => (cancelWrite s c).1
  | .stop c => (stopSending s c).1
  | .shutdown => shutdownStep s
  | .boundary => setReliableBoundary s
  | .ctrl => (getControlFrame s).1
  -- a RESET_STREAM frame exists only after a reset; the ackhandler reports only frames it was given (C06)
  | .resetAcked f => if s.resetErr.isSome then (resetAcked s f).1 else s
  | .resetLost f => if s.resetErr.isSome then (resetLost s f).1 else s

def init (sid : Nat) (supportsResetAt : Bool) : State := { sid := sid, supportsResetAt := supportsResetAt }

def run (s : State) (ops : List Op) : State := ops.foldl stepOp s

/-- no RESET_STREAM_AT semantics: the peer does not support the extension, or the application never
    sets a reliable boundary. Then `reliableOffset` is 0 throughout. -/
def Classic (supportsResetAt : Bool) (ops : List Op) : Prop := supportsResetAt = false ∨ Op.boundary ∉ ops

/-- Frame `f` carries exactly the written bytes at its offset (`data = written[off, off+len)`), and
    it has the FIN bit only if the stream was closed and the frame ends at the final size. -/
def Faithful (s : State) (f : Frame) : Prop :=
  f.data <+: s.written.drop f.offset ∧
  (f.fin = true → s.finishedWriting = true ∧ f.offset + f.data.length = s.written.length)

/-- byte position `i` lies inside frame `f` -/
def Frame.covers (f : Frame) (i : Nat) : Prop := f.offset ≤ i ∧ i < f.offset + f.data.length

/-- position `i` is acknowledged, or inside a frame the ackhandler still has to report on
    (counted in `numOutstandingFrames`), or inside a frame queued for retransmission -/
def Accounted (s : State) (i : Nat) : Prop :=
  (∃ r ∈ s.ackedRanges, r.1 ≤ i ∧ i < r.2) ∨ (∃ e ∈ s.outstanding, Frame.covers e.2 i) ∨ (∃ f ∈ s.retransQ, Frame.covers f i)

/-- the same for the FIN bit -/
def FinAccounted (s : State) : Prop :=
  s.ackedFin = true ∨ (∃ e ∈ s.outstanding, e.2.fin = true) ∨ (∃ f ∈ s.retransQ, f.fin = true)

/-- the stream was neither reset (CancelWrite / STOP_SENDING) nor closed for shutdown -/
def Live (s : State) : Prop := s.resetErr = none ∧ s.shutdown = false

end Uquic.Spec.SendRun
