/-
C09 — independent reference for "the Initial CRYPTO framing carries the ClientHello".

Core-only. Nothing here looks at the Go code or at the model of the builders: it is a frame
reader for exactly the frames that are legal in an Initial packet built by a uQUIC frame builder
(RFC 9000 §19.1 PADDING 0x00, §19.2 PING 0x01, §19.6 CRYPTO 0x06 with varint offset, varint
length, data; §16 variable-length integers) and the executable predicate `carriesAt`, which is
the monitor the oracle evaluates on the bytes the real builders emit.

Bytes are `List UInt8`; offsets and lengths are `Nat`.
-/
namespace Uquic.Spec.Framing

inductive Frame where
  /-- one 0x00 byte -/
  | padding
  | ping
  | crypto (off : Nat) (data : List UInt8)
deriving Repr, BEq, DecidableEq

/-- RFC 9000 §16: the two most significant bits of the first byte give the length (1/2/4/8). -/
def readVarint : List UInt8 → Option (Nat × List UInt8)
  | [] => none
  | b :: rest =>
    if b.toNat < 64 then some (b.toNat, rest)
    else if b.toNat < 128 then
      match rest with
      | b1 :: r => some ((b.toNat - 64) * 256 + b1.toNat, r)
      | _ => none
    else if b.toNat < 192 then
      match rest with
      | b1 :: b2 :: b3 :: r =>
        some ((((b.toNat - 128) * 256 + b1.toNat) * 256 + b2.toNat) * 256 + b3.toNat, r)
      | _ => none
    else
      match rest with
      | b1 :: b2 :: b3 :: b4 :: b5 :: b6 :: b7 :: r =>
        some ((((((((b.toNat - 192) * 256 + b1.toNat) * 256 + b2.toNat) * 256 + b3.toNat) * 256
          + b4.toNat) * 256 + b5.toNat) * 256 + b6.toNat) * 256 + b7.toNat, r)
      | _ => none

theorem readVarint_length {bs : List UInt8} {v : Nat} {r : List UInt8}
    (h : readVarint bs = some (v, r)) : r.length < bs.length := by
  unfold readVarint at h
  split at h
  · simp at h
  · rename_i b rest
    split at h
    · simp at h; obtain ⟨_, rfl⟩ := h; simp
    · split at h
      · split at h
        · simp at h; obtain ⟨_, rfl⟩ := h; simp; omega
        · simp at h
      · split at h
        · split at h
          · simp at h; obtain ⟨_, rfl⟩ := h; simp; omega
          · simp at h
        · split at h
          · simp at h; obtain ⟨_, rfl⟩ := h; simp; omega
          · simp at h

/-- Strict reader: the whole payload must be a sequence of PADDING / PING / CRYPTO frames, frame
    types in their one-byte encoding, every CRYPTO frame complete. -/
def readFrames (bs : List UInt8) : Option (List Frame) :=
  match bs with
  | [] => some []
  | t :: rest =>
    if t = 0 then (readFrames rest).map (Frame.padding :: ·)
    else if t = 1 then (readFrames rest).map (Frame.ping :: ·)
    else if t = 6 then
      match _h1 : readVarint rest with
      | none => none
      | some (off, r1) =>
        match _h2 : readVarint r1 with
        | none => none
        | some (len, r2) =>
          if len ≤ r2.length then
            (readFrames (r2.drop len)).map (Frame.crypto off (r2.take len) :: ·)
          else none
    else none
termination_by bs.length
decreasing_by
  all_goals simp_wf
  all_goals first
    | omega
    | (have := readVarint_length _h1
       have := readVarint_length _h2
       omega)

/-- all payloads of a flight, concatenated frame lists -/
def readAll : List (List UInt8) → Option (List Frame)
  | [] => some []
  | p :: ps =>
    match readFrames p, readAll ps with
    | some a, some b => some (a ++ b)
    | _, _ => none

/-- (offset, data) of the CRYPTO frames -/
def cryptoOf : List Frame → List (Nat × List UInt8)
  | [] => []
  | .crypto off d :: fs => (off, d) :: cryptoOf fs
  | _ :: fs => cryptoOf fs

/-- `data` is `src[off-srcAbs, off-srcAbs+|data|)` where `src[0]` sits at absolute offset `srcAbs` -/
def sliceEq (src : List UInt8) (srcAbs off : Nat) (data : List UInt8) : Bool :=
  decide (srcAbs ≤ off) && decide (off - srcAbs + data.length ≤ src.length) &&
    ((src.drop (off - srcAbs)).take data.length == data)

def coveredAt (rs : List (Nat × Nat)) (i : Nat) : Bool :=
  rs.any fun r => decide (r.1 ≤ i) && decide (i < r.1 + r.2)

/-- every byte position of `[lo,hi)` lies in some range -/
def coversAll (rs : List (Nat × Nat)) (lo hi : Nat) : Bool :=
  (List.range (hi - lo)).all fun k => coveredAt rs (lo + k)

def rangesOf (cs : List (Nat × List UInt8)) : List (Nat × Nat) := cs.map fun c => (c.1, c.2.length)

/-- The property, executable: every payload is a sequence of Initial-legal frames; every CRYPTO
    frame carries the source bytes of its ABSOLUTE offset (the source window `src` starts at absolute
    offset `srcAbs`); every CRYPTO range lies inside `[lo,hi)` and together they cover it. -/
def carriesAt (src : List UInt8) (srcAbs lo hi : Nat) (payloads : List (List UInt8)) : Bool :=
  match readAll payloads with
  | none => false
  | some fs =>
    let cs := cryptoOf fs
    (cs.all fun c => sliceEq src srcAbs c.1 c.2 && decide (lo ≤ c.1) && decide (c.1 + c.2.length ≤ hi))
      && coversAll (rangesOf cs) lo hi

/-- One datagram's (or a flight's) payloads carry the slice `slice` whose first byte has absolute
    stream offset `base`: union of the CRYPTO ranges = `[base, base+|slice|)`. For a whole flight
    `base = 0` and `slice` is the complete ClientHello. -/
def carries (slice : List UInt8) (base : Nat) (payloads : List (List UInt8)) : Bool :=
  carriesAt slice base base (base + slice.length) payloads

/-- structure only (no data comparison): legal frames, ranges inside `[lo,hi)` and covering it. This
    is all that a check which is not given the ClientHello bytes (validateInitialFlight) can promise. -/
def coversShape (lo hi : Nat) (payloads : List (List UInt8)) : Bool :=
  match readAll payloads with
  | none => false
  | some fs =>
    let cs := cryptoOf fs
    (cs.all fun c => decide (lo ≤ c.1) && decide (c.1 + c.2.length ≤ hi)) && coversAll (rangesOf cs) lo hi

/-! executable sanity tests (labelled tests, not obligations) -/
#guard readFrames [0, 0, 1, 6, 0, 2, 0xAA, 0xBB, 0] ==
  some [.padding, .padding, .ping, .crypto 0 [0xAA, 0xBB], .padding]
#guard readFrames [6, 0x40, 0x40, 1, 7] == some [.crypto 64 [7]]
#guard readFrames [6, 0, 2, 0xAA] == none          -- truncated CRYPTO
#guard readFrames [2] == none                       -- ACK is not Initial-builder-legal
#guard carries [1, 2, 3] 5 [[6, 6, 1, 2, 0, 1], [6, 5, 1, 1, 6, 7, 1, 3]]
#guard !carries [1, 2, 3] 5 [[6, 6, 1, 2, 0, 1], [6, 5, 1, 1]]          -- byte 7 missing
#guard !carries [1, 2, 3] 5 [[6, 5, 3, 1, 2, 0]]                          -- zero-extended
#guard !carries [1, 2, 3] 5 [[6, 4, 3, 1, 2, 3]]                          -- shifted
#guard carries [] 0 [[6, 0, 0]]
#guard carries [] 0 [[]]

end Uquic.Spec.Framing
