/-
Histories of one `updatableAEAD` (C05): the operations the connection performs on it, a run function,
and the caller contract under which the reachable-state theorems are stated.
-/
import Uquic.Model.Crypto.KeyPhase

namespace Uquic.Spec.KeyPhaseRun
open Uquic.Model.KeyPhase

inductive Op where
  /-- `KeyPhase()` followed by `Seal(pn)` (packet_packer: every short-header packet) -/
  | seal (pn : Int)
  /-- `KeyPhase()` alone -/
  | kp
  /-- `Open(rcvTime, pn, kp, packet)` -/
  | open (rcvTime pn kp : Int) (p : Pkt)
  /-- `SetLargestAcked(pn)` -/
  | ack (pn : Int)
  /-- `SetHandshakeConfirmed()` -/
  | confirm
deriving Repr, DecidableEq

structure RS where
  a : KA := {}
  /-- ghost: largest packet number handed to `Seal` so far (`-1`: none) -/
  lastSealed : Int := -1
deriving Repr

def RS.step (e : Env) (s : RS) : Op → RS
  | .seal pn => { a := ((s.a.keyPhaseBit e).1.seal pn).1, lastSealed := pn }
  | .kp => { s with a := (s.a.keyPhaseBit e).1 }
  | .open t pn kp p => { s with a := (s.a.open e t pn kp p).1 }
  | .ack pn => { s with a := (s.a.setLargestAcked pn).1 }
  | .confirm => { s with a := s.a.setHandshakeConfirmed }

def run (e : Env) (ops : List Op) : RS := ops.foldl (RS.step e) {}

/-- caller contract (what the connection guarantees): packet numbers handed to `Seal` strictly increase
    (C05 `pn_never_reused`), and `SetLargestAcked` is only called for packet numbers that were sent
    (`sentPacketHandler.ReceivedAck` rejects "ACK for an unsent packet" before). -/
def contract (last : Int) : List Op → Prop
  | [] => True
  | .seal pn :: rest => last < pn ∧ contract pn rest
  | .ack pn :: rest => pn ≤ last ∧ contract last rest
  | _ :: rest => contract last rest

end Uquic.Spec.KeyPhaseRun
