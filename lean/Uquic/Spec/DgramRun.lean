/-
Op histories of the datagramQueue model. Core-only.
-/
import Uquic.Model.Stream.Dgram

namespace Uquic.Spec.DgramRun
open Uquic.Model.Stream.Dgram

inductive Op where
  | handle (p : Bytes)     -- HandleDatagramFrame
  | recv                   -- Receive is called
  | wakeRecv               -- a parked Receive runs its loop again (rcvd / closed fired, or spuriously)
  | close                  -- CloseWithError
  | add (p : Bytes)        -- Add
  | wakeAdd                -- a parked Add runs its loop again
  | pop                    -- Pop (a Pop on an empty queue panics in the ring buffer: no step)
deriving Repr, DecidableEq

def stepOp (s : State) : Op → State
  | .handle p => handle s p
  | .recv => (recv s).1
  | .wakeRecv => if s.pendingRecv then (recvIter s).1 else s
  | .close => close s
  | .add p => (add s p).1
  | .wakeAdd => match s.pendingAdd with | some p => (addIter s p).1 | none => s
  | .pop => match pop s with | some s' => s' | none => s

def run (ops : List Op) : State := ops.foldl stepOp {}

end Uquic.Spec.DgramRun
