/-
Executable monitors for C19 (evaluated by the oracle on what the implementation printed, against
ghost data taken from the op line only). They import the reference predicate, not the model.
-/
import Uquic.Spec.H3FieldsWF

namespace Uquic.Spec.H3FieldsMon
open Uquic.Spec.H3Fields

/-- value of the first field called `n` ([] if absent) -/
def fieldValue (fs : List Field) (n : List Nat) : List Nat :=
  match fs.find? (fun f => f.1 == n) with
  | some f => f.2
  | none => []

def hasField (fs : List Field) (n : List Nat) : Bool := fs.any (fun f => f.1 == n)

/-- What requestFromHeaders requires of an accepted request section (the rules the code enforces;
    they are weaker than RFC 9114 §4.3.1/§4.4 in two places, see `Props/C19.lean`):
    * extended CONNECT (:method CONNECT with a non-empty :protocol): :scheme, :path, :authority non-empty;
    * CONNECT: :authority non-empty, :path absent or empty, no :protocol value;
    * any other method: :method, :path, :authority non-empty, no :protocol value. -/
def requestRules (fs : List Field) : Bool :=
  let v := fieldValue fs
  let isConnect := v (B ":method") == B "CONNECT"
  let isExt := isConnect && v (B ":protocol") != []
  if isExt then v (B ":scheme") != [] && v (B ":path") != [] && v (B ":authority") != []
  else if isConnect then v (B ":path") == [] && v (B ":authority") != []
  else v (B ":method") != [] && v (B ":path") != [] && v (B ":authority") != [] && v (B ":protocol") == []

/-- an accepted response section has a non-empty :status that is an optionally signed decimal -/
def responseRules (fs : List Field) : Bool :=
  let s := fieldValue fs (B ":status")
  let d := match s with
    | 45 :: r => r
    | 43 :: r => r
    | r => r
  s != [] && d != [] && d.all isDigitByte

/-- ASCII lower-casing -/
def lower (s : List Nat) : List Nat := s.map (fun b => if 65 ≤ b && b ≤ 90 then b + 32 else b)

/-- ASCII "Canonical-Header-Key" form of a token -/
def capitalise : Bool → List Nat → List Nat
  | _, [] => []
  | up, c :: cs =>
    let c' := if up && 97 ≤ c && c ≤ 122 then c - 32 else if !up && 65 ≤ c && c ≤ 90 then c + 32 else c
    c' :: capitalise (c' == 45) cs

def isToken (n : List Nat) : Bool := n != [] && n.all (fun b => lowerTchar b || (65 ≤ b && b ≤ 90))
def validValue (v : List Nat) : Bool := v.all fieldValueByte

/-- a header map of a net/http message: keys are tokens, values have no forbidden byte -/
def validHeaderMap (h : List (List Nat × List (List Nat))) : Bool :=
  h.all (fun kv => isToken kv.1 && kv.2.all validValue)

def join (sep : List Nat) : List (List Nat) → List Nat
  | [] => []
  | [x] => x
  | x :: xs => x ++ sep ++ join sep xs

end Uquic.Spec.H3FieldsMon
