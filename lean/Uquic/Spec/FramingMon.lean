/-
C09 — executable monitor predicates about configurations (what a configuration promises),
evaluated by the oracle on the implementation's output. They are stated from the documentation
of the builders (u_quic_frames.go / u_flight_frames.go doc comments), not from the model's code.
-/
import Uquic.Spec.Framing
import Uquic.Model.UQuic.Frames

namespace Uquic.Spec.FramingMon
open Uquic.Spec.Framing Uquic.Model.UQuic.Frames

/-- the offset QUICFrames.build rebases on: the smallest `CryptoFrameInfo` offset of ALL frames
    (0 for PADDING/PING), capped at MaxUint16 -/
def layoutLowest (qfs : List QFrame) : Int :=
  let qfs := if qfs.isEmpty then [QFrame.crypto 0 0] else qfs
  qfs.foldl (fun m f => min m f.infoOff) 65535

/-- resolved (start, length) of the CRYPTO frames of a layout over an `n` byte slice, `none` when the
    layout is outside its contract (negative field, or a frame starting beyond the slice). A Length
    of 0, or one reaching beyond the slice, means "to the end of the slice". -/
def layoutRanges (qfs : List QFrame) (n : Nat) : Option (List (Nat × Nat)) :=
  let low := layoutLowest qfs
  let qfs := if qfs.isEmpty then [QFrame.crypto 0 0] else qfs
  qfs.foldl (fun acc f =>
    match acc, f with
    | none, _ => none
    | some rs, .crypto off len =>
      let start := off - low
      let length := if len = 0 ∨ len > (n : Int) - start then (n : Int) - start else len
      if start < 0 ∨ len < 0 ∨ start > n then none else some (rs ++ [(start.toNat, length.toNat)])
    | some rs, .padding l => if l < 0 then none else some rs
    | some rs, .ping => some rs) (some [])

/-- every field of the layout is non-negative (the documented parameter range) -/
def layoutNonneg (qfs : List QFrame) : Bool :=
  qfs.all fun f => match f with
    | .crypto off len => decide (0 ≤ off) && decide (0 ≤ len)
    | .padding l => decide (0 ≤ l)
    | .ping => true

def maxLayoutOffset (qfs : List QFrame) : Int :=
  qfs.foldl (fun m f => max m f.infoOff) 0

/-- no CRYPTO frame announces or carries anything that is not a byte of `src` at its true offset,
    inside `[lo,hi)` (empty frames carry nothing and are not judged) -/
def noForeignBytes (src : List UInt8) (lo hi : Nat) (payload : List UInt8) : Bool :=
  match readFrames payload with
  | none => false
  | some fs => (cryptoOf fs).all fun c =>
      c.2.isEmpty || (sliceEq src 0 c.1 c.2 && decide (lo ≤ c.1) && decide (c.1 + c.2.length ≤ hi))

/-- "Multiple crypto frames in a single packet must not overlap and must make up an entire crypto
    stream continuously" — here: every frame in bounds and together they cover the slice (overlap
    is harmless for the property) -/
def layoutTiles (qfs : List QFrame) (n : Nat) : Bool :=
  match layoutRanges qfs n with
  | none => false
  | some rs => coversAll rs 0 n

def isPing : Frame → Bool
  | .ping => true
  | _ => false

def isPadding : Frame → Bool
  | .padding => true
  | _ => false

/-- frame counts promised by a QUICRandomFrames configuration over `n` bytes of CRYPTO data -/
def countsOk (c : RFCfg) (n : Nat) (fs : List Frame) : Bool :=
  let pings := (fs.filter isPing).length
  let cryptos := (cryptoOf fs).length
  let pingOk := decide (c.minPing ≤ pings) && (decide (pings < c.maxPing) || pings == c.minPing)
  let hiC := if c.maxCrypto ≤ c.minCrypto then c.minCrypto else c.maxCrypto - 1
  let cryptoOk := if n = 0 then cryptos == 1
    else decide (min (max c.minCrypto 1) n ≤ cryptos) && decide (cryptos ≤ min (max hiC 1) n)
  pingOk && cryptoOk

/-- "Length specifies the total length of all frames including PADDING frames. If the Length
    specified is already exceeded by the CRYPTO+PING frames, no PADDING frames will be included." -/
def paddedTo (length outLen : Nat) (fs : List Frame) : Bool :=
  decide (length ≤ outLen) && (!(fs.any isPadding) || outLen == length)

/-- every CRYPTO frame carries the source bytes of its absolute offset (no coverage claim) -/
def truthful (src : List UInt8) (srcAbs : Nat) (payloads : List (List UInt8)) : Bool :=
  match readAll payloads with
  | none => false
  | some fs => (cryptoOf fs).all fun c => sliceEq src srcAbs c.1 c.2

/-- the first datagram that is larger than the frame budget of its packet: datagram `i` is held
    against `budgets[min i last]` (a flight longer than the budget list repeats the last entry, as
    planFor repeats the last InitialPackets entry); a budget ≤ 0 means "not known" -/
def firstOversize (ps : List (List UInt8)) (budgets : List Int) : Option (Nat × Nat × Int) :=
  (List.range ps.length).findSome? fun i =>
    match budgets[min i (budgets.length - 1)]? with
    | some b => if b > 0 && ((ps.getD i []).length : Int) > b then some (i, (ps.getD i []).length, b) else none
    | none => none

end Uquic.Spec.FramingMon
