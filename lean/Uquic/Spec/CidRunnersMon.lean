/-
Executable monitors for C16, several transports per connection (driver `cidmr`).  They judge what the implementation
printed — the routing table of EVERY transport after each operation, the NEW_CONNECTION_ID frames it queued, the slice
each transport was handed by ReplaceWithClosed — against ghost state computed from the operations and those outputs
only (never from the model's state).
-/
import Uquic.Spec.CidMon

namespace Uquic.Spec.CidRunnersMon
open Uquic.Model.ConnID Uquic.Spec.CidMon

structure RGhost where
  inited : Bool := false
  ntr : Nat := 0
  /-- issued and not retired by the peer: seq ↦ id (handshake ID + NEW_CONNECTION_ID frames queued) -/
  act : List (Nat × Bytes) := []
  /-- retired by the peer, routed until the time given -/
  ret : List (Int × Bytes) := []
  icd : Option Bytes := none
  highest : Nat := 0
  /-- transports the connection is registered with (0, and every `addpath`) -/
  reg : List Nat := []
  /-- per transport: the connection IDs it has been told to route to the connection and not told to remove -/
  known : List (List Bytes) := []
  closed : Bool := false
  replaced : Bool := false
  closedLocal : Bool := false
  closedIDs : List Bytes := []
  deadline : Int := 0
  clock : Int := 0
  /-- (transport, id) registered by another connection after the close -/
  second : List (Nat × Bytes) := []
  /-- per transport: packets delivered to the closed stand-in so far -/
  closedPkts : List Nat := []
deriving Repr

def RGhost.live (g : RGhost) : List Bytes :=
  (match g.icd with | some i => [i] | none => []) ++ g.act.map (·.2) ++ g.ret.map (·.2)

def RGhost.current (g : RGhost) : List Bytes :=
  (match g.icd with | some i => [i] | none => []) ++ g.act.map (·.2)

def addNew (l : List Bytes) (x : Bytes) : List Bytes := if l.contains x then l else l ++ [x]

def mapIdx {α β} (f : Nat → α → β) (l : List α) : List β := (l.zipIdx).map fun p => f p.2 p.1

/-- NEW_CONNECTION_ID frames were queued: every registered transport must route the new IDs -/
def RGhost.issued (g : RGhost) (news : List (Nat × Bytes)) : RGhost :=
  { g with act := g.act ++ news, highest := (news.map (·.1)).foldl max g.highest,
           known := mapIdx (fun k l => if g.reg.contains k then (news.map (·.2)).foldl addNew l else l) g.known }

/-- the sweep of retired connection IDs whose time has come: every transport forgets them -/
def RGhost.swept (g : RGhost) (now : Int) : RGhost :=
  let gone := (g.ret.filter fun c => ¬ c.1 > now).map (·.2)
  { g with ret := g.ret.filter fun c => c.1 > now,
           known := g.known.map fun l => l.filter fun x => !gone.contains x }

/-- `AddConnRunner`: the new transport learns the client's original destination ID and the active IDs -/
def RGhost.pathAdded (g : RGhost) (k : Nat) : RGhost :=
  if g.reg.contains k then g else
  { g with reg := g.reg ++ [k], known := mapIdx (fun i l => if i == k then g.current.foldl addNew l else l) g.known }

def bytesLt : Bytes → Bytes → Bool
  | [], [] => false
  | [], _ :: _ => true
  | _ :: _, [] => false
  | a :: as, b :: bs => if a < b then true else if a > b then false else bytesLt as bs

def insertID (x : Bytes) : List Bytes → List Bytes
  | [] => [x]
  | y :: ys => if bytesLt x y then x :: y :: ys else y :: insertID x ys

/-- a list of connection IDs as a sorted multiset -/
def sortedIDs (l : List Bytes) : List Bytes := l.foldl (fun acc x => insertID x acc) []

/-- routes of every transport as printed by the implementation: per transport (id, kind) -/
def routeMonitors (g : RGhost) (routes : List (List (Bytes × String))) : List Fail :=
  if !g.inited then [] else
  (mapIdx (fun k (rt : List (Bytes × String)) =>
    if !g.closed then
      let conn := (rt.filter (·.2 == "conn")).map (·.1)
      let want := g.known.getD k []
      (if sameSet conn want then [] else
        [("runner_routes_exact", "-", s!"transport {k} routes {conn.length} IDs to the connection, it was told to route {want.length}" ++
          (if g.reg.contains k then "" else " (the connection is not registered with it)"))]) ++
      (if rt.all (·.2 == "conn") then [] else
        [("runner_routes_exact", "-", s!"transport {k}: a closed stand-in is registered while the connection is alive")])
    else
      let mine := (g.second.filter (·.1 == k)).map (·.2)
      let lost := mine.filter fun i => !rt.contains (i, "conn2")
      let rt := rt.filter fun kv => !(kv.2 == "conn2" && mine.contains kv.1)
      -- until the closing period ends a transport holds stand-ins for the IDs it routed to the connection (at least) and
      -- for IDs of the closed connection only (at most: transport.go installs one for every ID of the connection, known
      -- to this transport or not); afterwards nothing
      let during := g.replaced && g.reg.contains k && g.clock < g.deadline
      let atMost := if during then g.closedIDs.filter (fun i => !mine.contains i) else []
      let atLeast := atMost.filter fun i => (g.known.getD k []).contains i
      let want := if g.closedLocal then "local" else "remote"
      (lost.map fun _ => ("expiry_keeps_foreign_entry", "-",
        s!"transport {k}: the routing entry of the second connection is gone (or not its own)")) ++
      (if rt.any (·.2 == "conn") then
        [("all_runners_clean_after_close", "-", s!"transport {k} still routes an ID to the closed connection")] else []) ++
      (if (rt.map (·.1)).all atMost.contains then [] else
        [("all_runners_clean_after_close", "-",
          s!"transport {k} holds {rt.length} IDs after the close, {atMost.length} IDs of the closed connection may be held" ++
          (if g.replaced && g.clock ≥ g.deadline then " (the closing period is over)" else ""))]) ++
      (if atLeast.all (rt.map (·.1)).contains then [] else
        [("closing_standin_installed", "-",
          s!"transport {k} routed {atLeast.length} IDs to the connection when it closed; during the closing period it holds stand-ins for {rt.length} IDs")]) ++
      (if rt.all (·.2 == want) then [] else
        [("all_runners_clean_after_close", "-", s!"transport {k}: closed stand-in of the wrong kind, expected {want}")]))
    routes).flatten

/-- the slice every transport is handed by `ReplaceWithClosed` (and keeps for its timer): `(then, now)` per transport -/
def sharedMonitors (g : RGhost) (sh : List (Option (List Bytes × List Bytes))) : List Fail :=
  if !g.inited then [] else
  (mapIdx (fun k (e : Option (List Bytes × List Bytes)) =>
    match e with
    | none => if g.replaced && g.reg.contains k then
        [("replace_list_intact", "-", s!"transport {k} is registered but ReplaceWithClosed was not called on it")] else []
    | some (was, now) =>
      let want := sortedIDs g.closedIDs
      (if !g.replaced || !g.reg.contains k then
        [("replace_list_intact", "-", s!"ReplaceWithClosed was called on transport {k}, which the connection does not use")] else []) ++
      (if sortedIDs was == want then [] else
        [("replace_list_intact", "-",
          s!"transport {k} was handed {was.length} connection IDs, the connection has {want.length} (issued, not expired)")]) ++
      (if sortedIDs now == sortedIDs was then [] else
        [("replace_list_intact", "-",
          s!"the list of connection IDs that transport {k} keeps for its expiry timer was modified after it was handed over")]))
    sh).flatten

end Uquic.Spec.CidRunnersMon
