/-
Executable specifications for the C08 monitors.  They are written from RFC 9000
(§16 varints, §12.4 frames per packet type, §19 frame validity, §18 transport
parameters), not from the Go code, and are evaluated on the *inputs* of an
operation (the bytes in the op text) to judge what the implementation printed.
-/
import Uquic.Model.Wire.Frames

namespace Uquic.Spec.WireMon
open Uquic.Model.Wire

/-- RFC 9000 §16: the two most significant bits of the first byte are the base-2 log of the
    length; the value is the remaining bits in network byte order. `(value, length)`. -/
def specVarint (b : Bytes) : Option (Nat × Nat) :=
  match b with
  | [] => none
  | f :: _ =>
    let n := 2 ^ (f.toNat / 64)
    if b.length < n then none
    else some ((b.take n).foldl (fun acc x => acc * 256 + x.toNat) 0 % 2 ^ (8 * n - 2), n)

/-- smallest number of bytes able to carry `v` (§16, Table 4) -/
def specVarintLen (v : Nat) : Option Nat :=
  if v < 2 ^ 6 then some 1 else if v < 2 ^ 14 then some 2 else if v < 2 ^ 30 then some 4
  else if v < 2 ^ 62 then some 8 else none

def takeSpec (b : Bytes) : Option (Nat × Bytes) :=
  match specVarint b with
  | some (v, n) => some (v, b.drop n)
  | none => none

/-- `k` consecutive varints -/
def takeSpecN : Nat → Bytes → Option (List Nat × Bytes)
  | 0, b => some ([], b)
  | k + 1, b =>
    match takeSpec b with
    | none => none
    | some (v, b) =>
      match takeSpecN k b with
      | none => none
      | some (vs, b) => some (v :: vs, b)

/-- the type of the first non-PADDING frame and the bytes after it -/
def frameTypeOf : (fuel : Nat) → Bytes → Option (Nat × Bytes)
  | 0, _ => none
  | fuel + 1, b =>
    match takeSpec b with
    | none => none
    | some (t, rest) => if t = 0 then frameTypeOf fuel rest else some (t, rest)

/-- the ACK Range fields of §19.3.1 are consistent: every smallest stays ≥ 0 -/
def ackBlocksOK : (count : Nat) → (smallest : Nat) → Bytes → Option Bool
  | 0, _, _ => some true
  | k + 1, smallest, b =>
    match takeSpecN 2 b with
    | some ([gap, len], b) =>
      if smallest < gap + 2 then some false
      else if smallest - gap - 2 < len then some false
      else ackBlocksOK k (smallest - gap - 2 - len) b
    | _ => none    -- truncated: not judged here

/-- RFC 9000 says a receiver MUST reject this frame (first frame of `b`) in this context.
    `none`/`false` when the spec does not force a rejection (or the input is truncated). -/
def rfcForbidden (lvl : Nat) (datagrams resetStreamAt ackFrequency : Bool) (b : Bytes) : Option String :=
  match frameTypeOf (b.length + 1) b with
  | none => none
  | some (t, rest) =>
    -- §12.4: Initial and Handshake packets carry only PADDING, PING, ACK, CRYPTO, CONNECTION_CLOSE(0x1c)
    if (lvl = 1 ∨ lvl = 2) ∧ ¬(t = 0x01 ∨ t = 0x02 ∨ t = 0x03 ∨ t = 0x06 ∨ t = 0x1c) then some "frame_not_allowed_in_initial_or_handshake"
    -- §12.4: unknown frame types are an error (extensions only when negotiated)
    else if t > 0x1e ∧ ¬(datagrams ∧ (t = 0x30 ∨ t = 0x31)) ∧ ¬(resetStreamAt ∧ t = 0x24)
            ∧ ¬(ackFrequency ∧ (t = 0xaf ∨ t = 0x1f)) then some "unknown_frame_type"
    else if t = 0x12 ∨ t = 0x13 ∨ t = 0x16 ∨ t = 0x17 then
      match takeSpec rest with
      | some (v, _) => if v > 2 ^ 60 then some "stream_count_above_2^60" else none
      | none => none
    else if t = 0x24 then
      match takeSpecN 4 rest with
      | some ([_, _, fs, rs], _) => if rs > fs then some "reliable_size_above_final_size" else none
      | _ => none
    else if t = 0x07 then
      match takeSpec rest with
      | some (l, _) => if l = 0 then some "empty_new_token" else none
      | none => none
    else if t = 0x18 then
      match takeSpecN 2 rest with
      | some ([seq, rpt], r) =>
        if rpt > seq then some "retire_prior_to_above_sequence_number"
        else match r with
          | l :: _ => if l.toNat < 1 ∨ l.toNat > 20 then some "connection_id_length_outside_1..20" else none
          | [] => none
      | _ => none
    else if 0x08 ≤ t ∧ t ≤ 0x0f then
      let hasOff := t / 4 % 2 = 1
      let hasLen := t / 2 % 2 = 1
      match takeSpecN (1 + (if hasOff then 1 else 0)) rest with
      | some (vs, r) =>
        let off := if hasOff then vs.getD 1 0 else 0
        let len? : Option Nat := if hasLen then (takeSpec r).bind (fun (l, r') => if l ≤ r'.length then some l else none) else some r.length
        match len? with
        | some l => if off + l > 2 ^ 62 - 1 then some "stream_offset_plus_length_above_2^62-1" else none
        | none => none
      | none => none
    else if t = 0x02 ∨ t = 0x03 then
      match takeSpecN 4 rest with
      | some ([largest, _, count, first], r) =>
        if first > largest then some "first_ack_range_above_largest"
        else match ackBlocksOK count (largest - first) r with
          | some false => some "ack_range_below_zero"
          | _ => none
      | _ => none
    else none

/-- RFC 9000 §12.4, Table 3, column "Pkts" (I = Initial, H = Handshake, 0 = 0-RTT, 1 = 1-RTT), written
    from the RFC and NOT derived from the code: may a frame of type `t` (0x00 … 0x1e) appear in a
    packet of encryption level `lvl` (1 Initial, 2 Handshake, 3 0-RTT, 4 1-RTT)?
    "An endpoint MUST treat receipt of a frame in a packet type that is not permitted as a
    connection error of type PROTOCOL_VIOLATION." -/
def rfcTable3 (t lvl : Nat) : Bool :=
  let ih01 := lvl = 1 || lvl = 2 || lvl = 3 || lvl = 4
  let ih_1 := lvl = 1 || lvl = 2 || lvl = 4
  let __01 := lvl = 3 || lvl = 4
  let ___1 := lvl = 4
  if t = 0x00 ∨ t = 0x01 then ih01            -- PADDING, PING
  else if t = 0x02 ∨ t = 0x03 then ih_1       -- ACK
  else if t = 0x04 ∨ t = 0x05 then __01       -- RESET_STREAM, STOP_SENDING
  else if t = 0x06 then ih_1                  -- CRYPTO
  else if t = 0x07 then ___1                  -- NEW_TOKEN
  else if 0x08 ≤ t ∧ t ≤ 0x0f then __01       -- STREAM
  else if 0x10 ≤ t ∧ t ≤ 0x17 then __01       -- MAX_DATA … STREAMS_BLOCKED
  else if t = 0x18 ∨ t = 0x19 then __01       -- NEW_CONNECTION_ID, RETIRE_CONNECTION_ID
  else if t = 0x1a then __01                  -- PATH_CHALLENGE
  else if t = 0x1b then ___1                  -- PATH_RESPONSE
  else if t = 0x1c then ih01                  -- CONNECTION_CLOSE (transport)
  else if t = 0x1d then __01                  -- CONNECTION_CLOSE (application)
  else if t = 0x1e then ___1                  -- HANDSHAKE_DONE
  else false

/-- where the frame parser deliberately differs from Table 3 at the 0-RTT level (documented, upstream
    quic-go behaviour; none of them lets a forbidden frame act on the connection):
    * RETIRE_CONNECTION_ID (0x19) rejected — RFC 9000 §12.5 lists it among the frames a server MAY
      treat as PROTOCOL_VIOLATION in 0-RTT packets;
    * CONNECTION_CLOSE 0x1c rejected — stricter than Table 3 ("ih01");
    * HANDSHAKE_DONE (0x1e) let through by the parser — only servers receive 0-RTT packets, and a
      server treats every HANDSHAKE_DONE as PROTOCOL_VIOLATION in `handleHandshakeDoneFrame`. -/
def encLevelDeviations : List (Nat × Nat) := [(0x19, 3), (0x1c, 3), (0x1e, 3)]

/-- the accept/reject decision expected of `ParseType` for frame type `t` (0x01 … 0x1e) at `lvl` -/
def encLevelExpected (t lvl : Nat) : Bool :=
  if encLevelDeviations.contains (t, lvl) then !rfcTable3 t lvl else rfcTable3 t lvl

/-- monitor `enc_level_rfc`: `rejected` = the implementation answered "not allowed at encryption
    level" for the first frame of `b`. `some detail` when that contradicts `encLevelExpected`. -/
def encLevelMismatch (lvl : Nat) (b : Bytes) (rejected : Bool) : Option String :=
  match frameTypeOf (b.length + 1) b with
  | some (t, _) =>
    if 1 ≤ t ∧ t ≤ 0x1e ∧ 1 ≤ lvl ∧ lvl ≤ 4 then
      if rejected ∧ encLevelExpected t lvl then
        some s!"frame type {t} rejected at level {lvl} although RFC 9000 Table 3 permits it there"
      else if !rejected ∧ !encLevelExpected t lvl then
        some s!"frame type {t} accepted at level {lvl} although RFC 9000 Table 3 does not permit it there"
      else none
    else none
  | none => none

/-- `delay · 2^exp · 1000 ≥ 2^63`: the ACK Delay of the first frame of `b` cannot be represented in
    an int64 nanosecond count (classifier of the known finding `ack-delay-reencode`) -/
def ackDelayOverflows (lvl exp : Nat) (b : Bytes) : Bool :=
  match frameTypeOf (b.length + 1) b with
  | some (t, rest) =>
    if t = 0x02 ∨ t = 0x03 then
      match takeSpecN 2 rest with
      | some ([_, delay], _) =>
        let e := if lvl = 4 then exp else 3
        delay * 2 ^ e * 1000 ≥ 2 ^ 63
      | _ => false
    else false
  | none => false

/-- RFC 9000 §19.3 / §18.2: the ACK Delay field counts units of 2^ack_delay_exponent µs; the peer's
    exponent applies to 1-RTT packets, the default 3 to Initial and Handshake. `some ns` when the
    first frame of `b` is an ACK whose delay fits a signed 64-bit nanosecond count. -/
def ackDelaySpecNs (lvl exp : Nat) (b : Bytes) : Option Nat :=
  match frameTypeOf (b.length + 1) b with
  | some (t, rest) =>
    if t = 0x02 ∨ t = 0x03 then
      match takeSpecN 2 rest with
      | some ([_, delay], _) =>
        let e := if lvl = 4 then exp else 3
        if delay * 2 ^ e * 1000 < 2 ^ 63 then some (delay * 2 ^ e * 1000) else none
      | _ => none
    else none
  | none => none

/-- skip `count` (gap, range) pairs -/
def skipAckBlocks : Nat → Bytes → Option Bytes
  | 0, b => some b
  | k + 1, b =>
    match takeSpecN 2 b with
    | some (_, b) => skipAckBlocks k b
    | none => none

/-- RFC 9000 §19.3: the ECN counts of the first frame of `b` if it is an ACK: none for type 0x02
    (reported as 0,0,0), the three trailing varints for type 0x03 -/
def ackEcnSpec (b : Bytes) : Option (Nat × Nat × Nat) :=
  match frameTypeOf (b.length + 1) b with
  | some (t, rest) =>
    if t = 0x02 then some (0, 0, 0)
    else if t = 0x03 then
      match takeSpecN 4 rest with
      | some ([_, _, count, _], r) =>
        match skipAckBlocks count r with
        | some r =>
          match takeSpecN 3 r with
          | some ([a, b, c], _) => some (a, b, c)
          | _ => none
        | none => none
      | _ => none
    else none
  | none => none

/-- more ACK ranges than the encoder writes (`MaxNumAckRanges`) -/
def ackRangeCountAbove (limit : Nat) (b : Bytes) : Bool :=
  match frameTypeOf (b.length + 1) b with
  | some (t, rest) =>
    if t = 0x02 ∨ t = 0x03 then
      match takeSpecN 3 rest with
      | some ([_, _, count], _) => count + 1 > limit
      | _ => false
    else false
  | none => false

/-- ACK_FREQUENCY: Requested Max Ack Delay (µs) · 1000 ≥ 2^63 -/
def ackFreqDelayOverflows (b : Bytes) : Bool :=
  match frameTypeOf (b.length + 1) b with
  | some (t, rest) =>
    if t = 0xaf then
      match takeSpecN 3 rest with
      | some ([_, _, mad], _) => mad * 1000 ≥ 2 ^ 63
      | _ => false
    else false
  | none => false

/-- a frame value is in the domain on which `parse (append v) = v` is promised -/
def roundTripDomain : Frame → Bool
  | .ack ranges d e0 e1 ce =>
    validateAckRanges ranges && ranges.length ≤ maxNumAckRanges && d % (1000 * 2 ^ sendAckDelayExponent) = 0
      && ranges.all (fun r => r.2 < 2 ^ 62) && e0 < 2 ^ 62 && e1 < 2 ^ 62 && ce < 2 ^ 62 && d < 2 ^ 63
  | .resetStream sid ec fs rs => sid < 2 ^ 62 && ec < 2 ^ 62 && fs < 2 ^ 62 && rs ≤ fs
  | .stopSending sid ec => sid < 2 ^ 62 && ec < 2 ^ 62
  | .crypto off data => off < 2 ^ 62 && data.length < 2 ^ 62
  | .newToken tok => !tok.isEmpty && tok.length < 2 ^ 62
  | .stream sid off data fin _ =>
    sid < 2 ^ 62 && off + data.length ≤ 2 ^ 62 - 1 && data.length ≤ maxPacketBufferSize && (!data.isEmpty || fin)
  | .maxData v => v < 2 ^ 62
  | .maxStreamData sid v => sid < 2 ^ 62 && v < 2 ^ 62
  | .maxStreams _ v => v ≤ 2 ^ 60
  | .dataBlocked v => v < 2 ^ 62
  | .streamDataBlocked sid v => sid < 2 ^ 62 && v < 2 ^ 62
  | .streamsBlocked _ v => v ≤ 2 ^ 60
  | .newConnectionID seq rpt cid tok => seq < 2 ^ 62 && rpt ≤ seq && 1 ≤ cid.length && cid.length ≤ 20 && tok.length = 16
  | .retireConnectionID seq => seq < 2 ^ 62
  | .pathChallenge d => d.length = 8
  | .pathResponse d => d.length = 8
  | .connectionClose isApp ec ft reason => ec < 2 ^ 62 && (isApp || ft < 2 ^ 62) && (!isApp || ft = 0) && reason.length < 2 ^ 62
  | .datagram _ data => data.length < 2 ^ 62
  | .ackFrequency seq th mad rt => seq < 2 ^ 62 && th < 2 ^ 62 && rt < 2 ^ 62 && mad % 1000 = 0 && mad / 1000 < 2 ^ 62 && mad < 2 ^ 63
  | .ping => true
  | .handshakeDone => true
  | .immediateAck => true

/-! ### packet headers (RFC 9000 §17.2, §17.3; RFC 9369 §3.2) -/

def beSpec (b : Bytes) : Nat := b.foldl (fun acc x => acc * 256 + x.toNat) 0

structure SpecLong where
  ptype : Nat        -- 1 Initial, 2 Retry, 3 Handshake, 4 0-RTT (protocol.PacketType numbering)
  version : Nat
  dcid : Bytes
  scid : Bytes
  token : Bytes
  length : Nat
  hdrLen : Nat       -- bytes up to and including the Length field (whole packet for Retry)
  pnLen : Nat
deriving Repr

/-- a well-formed QUIC v1 / v2 long header, read as the RFCs lay it out; `none` if truncated,
    not a long header, fixed bit clear, unknown version or a connection ID longer than 20 -/
def specLongHeader (b : Bytes) : Option SpecLong :=
  match b with
  | [] => none
  | f :: _ =>
    let f := f.toNat
    if f / 128 % 2 = 0 ∨ f / 64 % 2 = 0 ∨ b.length < 7 then none
    else
      let version := beSpec ((b.drop 1).take 4)
      if version ≠ 1 ∧ version ≠ 0x6b3343cf then none
      else
        let dl := (b.getD 5 0).toNat
        if dl > 20 ∨ b.length < 6 + dl + 1 then none
        else
          let sl := (b.getD (6 + dl) 0).toNat
          if sl > 20 ∨ b.length < 7 + dl + sl then none
          else
            let dcid := (b.drop 6).take dl
            let scid := (b.drop (7 + dl)).take sl
            let rest := b.drop (7 + dl + sl)
            let bits := f / 16 % 4
            -- RFC 9000 Table 5: 0 Initial, 1 0-RTT, 2 Handshake, 3 Retry; RFC 9369: 1 Initial, 2 0-RTT, 3 Handshake, 0 Retry
            let ptype := if version = 1 then [1, 4, 3, 2].getD bits 0 else [2, 1, 4, 3].getD bits 0
            if ptype = 2 then
              if rest.length ≤ 16 then none
              else some { ptype := 2, version := version, dcid := dcid, scid := scid, token := rest.take (rest.length - 16),
                          length := 0, hdrLen := b.length, pnLen := 0 }
            else
              let tokR : Option (Bytes × Bytes) :=
                if ptype = 1 then
                  match takeSpec rest with
                  | some (tl, r) => if tl ≤ r.length then some (r.take tl, r.drop tl) else none
                  | none => none
                else some ([], rest)
              match tokR with
              | none => none
              | some (tok, r) =>
                match specVarint r with
                | none => none
                | some (len, n) =>
                  some { ptype := ptype, version := version, dcid := dcid, scid := scid, token := tok, length := len,
                         hdrLen := b.length - r.length + n, pnLen := f % 4 + 1 }

/-! ### transport parameters (§18.2) -/

/-- the (id, value) sequence of §18; `none` when the framing itself is broken -/
def tpScan : (fuel : Nat) → Bytes → Option (List (Nat × Bytes))
  | 0, _ => some []
  | fuel + 1, b =>
    if b.isEmpty then some []
    else
      match takeSpecN 2 b with
      | some ([id, len], r) =>
        if r.length < len then none
        else (tpScan fuel (r.drop len)).map (fun l => (id, r.take len) :: l)
      | _ => none

def hasDupKey : List (Nat × Bytes) → Bool
  | [] => false
  | (k, _) :: rest => rest.any (fun p => p.1 = k) || hasDupKey rest

/-- a reason why §18.2 / §7.4 force the receiver to reject these parameters -/
def tpForbidden (sentByClient : Bool) (b : Bytes) : Option String :=
  match tpScan (b.length + 1) b with
  | none => none
  | some ps =>
    if hasDupKey ps then some "duplicate_parameter"
    else if sentByClient ∧ ps.any (fun p => p.1 = 0x00 ∨ p.1 = 0x02 ∨ p.1 = 0x0d ∨ p.1 = 0x10) then
      some "client_sent_server_only_parameter"
    else
      ps.findSome? fun (id, v) =>
        let num := (specVarint v).bind (fun (x, n) => if n = v.length then some x else none)
        if id = 0x08 ∨ id = 0x09 then (match num with | some x => if x > 2 ^ 60 then some "initial_max_streams_above_2^60" else none | none => none)
        else if id = 0x0a then (match num with | some x => if x > 20 then some "ack_delay_exponent_above_20" else none | none => none)
        else if id = 0x0b then (match num with | some x => if x ≥ 2 ^ 14 then some "max_ack_delay_at_least_2^14" else none | none => none)
        else if id = 0x0e then (match num with | some x => if x < 2 then some "active_connection_id_limit_below_2" else none | none => none)
        else if id = 0x03 then (match num with | some x => if x < 1200 then some "max_udp_payload_size_below_1200" else none | none => none)
        else if id = 0x00 ∨ id = 0x0f ∨ id = 0x10 then (if v.length > 20 then some "connection_id_longer_than_20" else none)
        else if id = 0x02 then (if v.length ≠ 16 then some "stateless_reset_token_not_16_bytes" else none)
        else none

end Uquic.Spec.WireMon
