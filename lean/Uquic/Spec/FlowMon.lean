/-
Executable monitors for C04.  They judge what the implementation printed (its return values and
the dump of its fields) against ghost state computed from the operations and from the values the
implementation itself announced earlier — never against the model's state.

Ghost state per stream and for the connection:
  sender:   credit  = largest MAX_STREAM_DATA / MAX_DATA seen (or the initial window)
            sent    = Σ bytes handed to AddBytesSent
            sendOk  = every send so far was ≤ the SendWindowSize the implementation reported
            blockedAt = limits for which "newly blocked" was already reported
  receiver: adv     = the window the implementation last announced (initial window, then every
                      non-zero GetWindowUpdate result)
            highest = highest offset accepted; final = final offset once known
            consumed = bytes read + bytes abandoned
            ws / maxws = last window size implied by an announcement, configured maximum
-/
import Uquic.Model.FlowControl

namespace Uquic.Spec.FlowMon
open Uquic.Model.FlowControl

structure SGhost where
  credit : Int := 0
  sent : Int := 0
  sendOk : Bool := true
  blockedAt : List Int := []
  adv : Int := 0
  highest : Int := 0
  final : Option Int := none
  consumed : Int := 0
  ws : Int := 0
  maxws : Int := 0
  lastRws : Int := 0
deriving Repr

structure Ghost where
  streams : List SGhost := []
  c : SGhost := {}
  /-- some read exceeded what had been received (outside the caller's contract): credit accounting not judged -/
  readOk : Bool := true
  /-- an error or panic was returned: the connection is closed, receive-side monitors stop -/
  dead : Bool := false
deriving Repr

abbrev Fail := String × String × String

def fail (name detail : String) : Fail := (name, "-", detail)

def Ghost.init (rw maxrw : Int) : Ghost :=
  { c := { adv := rw, ws := rw, maxws := maxrw, lastRws := rw } }

def sumBy (f : SGhost → Int) (l : List SGhost) : Int := (l.map f).foldl (· + ·) 0

/-- what the implementation showed for one operation -/
structure Seen where
  out : Out
  conn : Base
  stream : Option Stream := none

/-- checks on the dumped fields that hold after every operation -/
def dumpChecks (g : Ghost) (id : Option Nat) (seen : Seen) : Ghost × List Fail := Id.run do
  let mut fails : List Fail := []
  let mut g := g
  -- the send window is the largest limit the peer ever advertised
  if seen.conn.sendWindow ≠ g.c.credit then
    fails := fails ++ [fail "send_window_is_largest_seen" s!"connection sendWindow={seen.conn.sendWindow} largest MAX_DATA={g.c.credit}"]
  -- window size never shrinks and never exceeds its maximum (or its initial value, if that is larger)
  let crws := seen.conn.receiveWindowSize
  if crws < g.c.lastRws ∨ crws > max g.c.lastRws g.c.maxws then
    fails := fails ++ [fail "window_size_bounded" s!"connection receiveWindowSize {g.c.lastRws} -> {crws} (max {g.c.maxws})"]
  g := { g with c := { g.c with lastRws := crws } }
  if g.readOk ∧ !g.dead ∧ seen.conn.bytesRead ≠ g.c.consumed then
    fails := fails ++ [fail "credit_conserved" s!"connection bytesRead={seen.conn.bytesRead} but streams consumed+abandoned={g.c.consumed}"]
  match id, seen.stream with
  | some i, some st =>
    match g.streams[i]? with
    | some sg =>
      if st.base.sendWindow ≠ sg.credit then
        fails := fails ++ [fail "send_window_is_largest_seen" s!"stream {i} sendWindow={st.base.sendWindow} largest MAX_STREAM_DATA={sg.credit}"]
      let rws := st.base.receiveWindowSize
      if rws < sg.lastRws ∨ rws > max sg.lastRws sg.maxws then
        fails := fails ++ [fail "window_size_bounded" s!"stream {i} receiveWindowSize {sg.lastRws} -> {rws} (max {sg.maxws})"]
      if g.readOk ∧ !g.dead ∧ st.base.bytesRead ≠ sg.consumed then
        fails := fails ++ [fail "credit_conserved" s!"stream {i} bytesRead={st.base.bytesRead} but consumed+abandoned={sg.consumed}"]
      g := { g with streams := g.streams.set i { sg with lastRws := rws } }
    | none => pure ()
  | _, _ => pure ()
  return (g, fails)

/-- judge one operation of the implementation -/
def observe (g : Ghost) (op : Op) (seen : Seen) : Ghost × List Fail := Id.run do
  let mut fails : List Fail := []
  let mut g := g
  let mut sid : Option Nat := none
  match op, seen.out with
  | _, .skip => return (g, [])
  | .newStream rw maxrw sw, .created id =>
    g := { g with streams := g.streams ++ [{ credit := sw, adv := rw, ws := rw, maxws := maxrw, lastRws := rw }] }
    sid := some id
  | .sent id n, .sent before _ =>
    sid := some id
    match g.streams[id]? with
    | none => pure ()
    | some sg =>
      -- the window the implementation reports never exceeds the remaining credit
      if sg.sendOk ∧ before > sg.credit - sg.sent then
        fails := fails ++ [fail "sender_within_credit" s!"stream {id} reports SendWindowSize {before} with credit {sg.credit} and {sg.sent} bytes sent"]
      if g.c.sendOk ∧ before > g.c.credit - g.c.sent then
        fails := fails ++ [fail "sender_within_credit" s!"stream {id} reports SendWindowSize {before} with connection credit {g.c.credit} and {g.c.sent} bytes sent"]
      let respects := decide (0 ≤ n) && decide (n ≤ before)
      let sg : SGhost := { sg with sent := sg.sent + n, sendOk := sg.sendOk && respects }
      let c : SGhost := { g.c with sent := g.c.sent + n, sendOk := g.c.sendOk && respects }
      if sg.sendOk ∧ sg.sent > sg.credit then
        fails := fails ++ [fail "sender_within_credit" s!"stream {id} sent {sg.sent} > largest MAX_STREAM_DATA {sg.credit} although every send respected SendWindowSize"]
      if c.sendOk ∧ c.sent > c.credit then
        fails := fails ++ [fail "sender_within_credit" s!"connection sent {c.sent} > largest MAX_DATA {c.credit} although every send respected SendWindowSize"]
      g := { g with streams := g.streams.set id sg, c := c }
  | .swin id, .win w =>
    sid := some id
    match g.streams[id]? with
    | none => pure ()
    | some sg =>
      if (sg.sendOk ∧ w > sg.credit - sg.sent) ∨ (g.c.sendOk ∧ w > g.c.credit - g.c.sent) then
        fails := fails ++ [fail "sender_within_credit" s!"stream {id} reports SendWindowSize {w}: stream credit {sg.credit} sent {sg.sent}, connection credit {g.c.credit} sent {g.c.sent}"]
  | .cwin, .win w =>
    if g.c.sendOk ∧ w > g.c.credit - g.c.sent then
      fails := fails ++ [fail "sender_within_credit" s!"connection reports SendWindowSize {w} with credit {g.c.credit} and {g.c.sent} sent"]
  | .smax id v, .updated _ =>
    sid := some id
    match g.streams[id]? with
    | none => pure ()
    | some sg => g := { g with streams := g.streams.set id { sg with credit := max sg.credit v } }
  | .cmax v, .updated _ =>
    g := { g with c := { g.c with credit := max g.c.credit v } }
  | .sblocked id, .blocked b _ =>
    sid := some id
    match g.streams[id]? with
    | none => pure ()
    | some sg =>
      if b then
        if sg.blockedAt.contains sg.credit then
          fails := fails ++ [fail "blocked_once" s!"stream {id} reported newly blocked twice at limit {sg.credit}"]
        if sg.sent < sg.credit then
          fails := fails ++ [fail "blocked_once" s!"stream {id} reported blocked with {sg.sent} sent of limit {sg.credit}"]
        g := { g with streams := g.streams.set id { sg with blockedAt := sg.credit :: sg.blockedAt } }
  | .cblocked, .blocked b off =>
    if b then
      if off ≠ g.c.credit then
        fails := fails ++ [fail "blocked_once" s!"connection reported blocked at {off}, the limit is {g.c.credit}"]
      if g.c.blockedAt.contains off then
        fails := fails ++ [fail "blocked_once" s!"connection reported newly blocked twice at limit {off}"]
      if g.c.sent < g.c.credit then
        fails := fails ++ [fail "blocked_once" s!"connection reported blocked with {g.c.sent} sent of limit {g.c.credit}"]
      g := { g with c := { g.c with blockedAt := off :: g.c.blockedAt } }
  | .reset, .resetOk =>
    g := { g with streams := [], c := { g.c with credit := 0, sent := 0, sendOk := true, blockedAt := [] } }
  | .recv id off fin _, .recv r =>
    sid := some id
    match g.streams[id]? with
    | none => pure ()
    | some sg =>
      if !g.dead then
        let cHighest := sumBy (·.highest) g.streams
        let finalErr : Bool := match sg.final with
          | some f => (fin && decide (off ≠ f)) || decide (off > f)
          | none => fin && decide (off < sg.highest)
        let beyond : Bool := decide (off > sg.highest) && (decide (off > sg.adv) || decide (cHighest - sg.highest + off > g.c.adv))
        let expect : RecvOut := if finalErr then .finalSize else if beyond then .flowControl else .ok
        if r ≠ expect then
          let what :=
            if expect = .flowControl ∧ r = .ok then "accepted data beyond the advertised limit"
            else if expect = .ok then "rejected data within the advertised limits"
            else "wrong error class"
          fails := fails ++ [fail "receiver_exact" s!"stream {id} offset {off} fin={fin}: {what} (stream limit {sg.adv}, highest {sg.highest}, connection limit {g.c.adv}, connection total {cHighest}, final {sg.final})"]
        if r = .ok then
          let sg : SGhost := { sg with highest := max sg.highest off, final := if fin then some off else sg.final }
          g := { g with streams := g.streams.set id sg }
        else
          g := { g with dead := true }
  | .read id n, .read _ _ =>
    sid := some id
    match g.streams[id]? with
    | none => pure ()
    | some sg =>
      let ok := decide (0 ≤ n) && decide (n ≤ sg.highest - sg.consumed)
      g := { g with streams := g.streams.set id { sg with consumed := sg.consumed + n },
                    c := { g.c with consumed := g.c.consumed + n }, readOk := g.readOk && ok }
  | .abandon id, .unit =>
    sid := some id
    match g.streams[id]? with
    | none => pure ()
    | some sg =>
      let unread := sg.highest - sg.consumed
      if unread > 0 then
        g := { g with streams := g.streams.set id { sg with consumed := sg.highest },
                      c := { g.c with consumed := g.c.consumed + unread } }
  | .supd id _ _, .upd v _ =>
    sid := some id
    match g.streams[id]? with
    | none => pure ()
    | some sg =>
      if v ≠ 0 ∧ !g.dead then
        if v < sg.adv then
          fails := fails ++ [fail "advertised_monotone" s!"stream {id} announced {v} after {sg.adv}"]
        let ws' := v - sg.consumed
        if g.readOk ∧ (ws' < sg.ws ∨ ws' > max sg.ws sg.maxws) then
          fails := fails ++ [fail "advertised_honest" s!"stream {id} announced {v} = consumed {sg.consumed} + {ws'}; window size was {sg.ws}, maximum {sg.maxws}"]
        match seen.stream with
        | some st => if st.base.receiveWindow ≠ v then
            fails := fails ++ [fail "advertised_honest" s!"stream {id} announced {v} but enforces {st.base.receiveWindow}"]
        | none => pure ()
        g := { g with streams := g.streams.set id { sg with adv := v, ws := if g.readOk then ws' else sg.ws } }
  | .cupd _ _, .upd v _ =>
    if v ≠ 0 ∧ !g.dead then
      if v < g.c.adv then
        fails := fails ++ [fail "advertised_monotone" s!"connection announced {v} after {g.c.adv}"]
      let ws' := v - g.c.consumed
      if g.readOk ∧ (ws' < g.c.ws ∨ ws' > max g.c.ws g.c.maxws) then
        fails := fails ++ [fail "advertised_honest" s!"connection announced {v} = consumed {g.c.consumed} + {ws'}; window size was {g.c.ws}, maximum {g.c.maxws}"]
      if seen.conn.receiveWindow ≠ v then
        fails := fails ++ [fail "advertised_honest" s!"connection announced {v} but enforces {seen.conn.receiveWindow}"]
      g := { g with c := { g.c with adv := v, ws := if g.readOk then ws' else g.c.ws } }
  | _, .panic _ => g := { g with dead := true }
  | _, _ => pure ()
  let (g', f2) := dumpChecks g sid seen
  return (g', fails ++ f2)

end Uquic.Spec.FlowMon
