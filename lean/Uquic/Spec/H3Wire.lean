/-
Wire-level specification objects for the C18 theorems: abstract HTTP/3 frames, their encodings
(any valid varint length class, as RFC 9000 §16 allows), and what a message-body reader has to
deliver for a frame sequence (RFC 9114 §4.1: DATA payloads in order, unknown frame types ignored,
one trailer section, nothing after it; §7.2.8: reserved types are an error).
-/
import Uquic.Model.H3.RespWriter

namespace Uquic.Spec.H3Wire
open Uquic.Model.H3

/-- an abstract frame: type, payload, and the varint length classes used for type and length -/
structure WFrame where
  ty : Nat
  payload : List Nat
  tk : Nat := 0
  lk : Nat := 0
deriving Repr, DecidableEq, Inhabited

/-- type and length fit their varint length classes (class k = 2^k bytes, 8·2^k − 2 value bits) -/
def WFrame.ok (f : WFrame) : Prop :=
  (f.tk ≤ 3 ∧ f.ty < 64 * 256 ^ (2 ^ f.tk - 1)) ∧ (f.lk ≤ 3 ∧ f.payload.length < 64 * 256 ^ (2 ^ f.lk - 1))

instance (f : WFrame) : Decidable f.ok := by unfold WFrame.ok; infer_instance

def WFrame.enc (f : WFrame) : List Nat :=
  encVarintK f.tk f.ty ++ (encVarintK f.lk f.payload.length ++ f.payload)

def encFrames : List WFrame → List Nat
  | [] => []
  | f :: fs => f.enc ++ encFrames fs

/-- What reading the message body must yield: the bytes, and the error that ends the reading
    (`Err.eof` = clean end).  `tr`: a trailer section has been seen. -/
def expect (maxHdr : Nat) : Bool → List WFrame → List Nat × Err
  | _, [] => ([], .eof)
  | tr, f :: fs =>
    match kindOf f.ty with
    | .data => if tr then ([], .dataAfterTrailers) else ((f.payload ++ (expect maxHdr tr fs).1), (expect maxHdr tr fs).2)
    | .headers =>
      if tr then ([], .headersAfterTrailers)
      else if f.payload.length > maxHdr then ([], .headersTooLarge)
      else expect maxHdr true fs
    | .reserved => ([], .reserved f.ty)
    | .skip => expect maxHdr tr fs
    | .settings => ([], .unexpectedFrame)
    | .goaway => ([], .unexpectedFrame)

/-- DATA frames carrying the given payloads, encoded as `Stream.Write` does (shortest varints) -/
def dataFrameBytes (ws : List (List Nat)) : List Nat :=
  (ws.map fun w => dataFrameHeader w.length ++ w).flatten

end Uquic.Spec.H3Wire
