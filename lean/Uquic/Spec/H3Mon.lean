/-
Executable specification pieces for the C18 monitors: what a conforming reader of an HTTP/3
request/response stream must deliver for a given byte string (RFC 9114 §4.1, §7.2, §9), computed
from the fed bytes only — independent of the model's chunked machinery.
-/
import Uquic.Model.H3.RespWriter

namespace Uquic.Spec.H3Mon
open Uquic.Model.H3

/-- how the byte string ends, seen from the message body -/
inductive Ending where
  | boundary (trailers : Bool)   -- exactly at a frame boundary
  | partialFrame                 -- inside a frame header or payload
  | forbidden (t : Nat)          -- a reserved frame type (RFC 9114 §7.2.8: H3_FRAME_UNEXPECTED)
  | illPlaced (t : Nat)          -- SETTINGS / GOAWAY on a request stream
  | afterTrailers (t : Nat)      -- DATA or HEADERS after the trailer section
  | trailersTooLarge
deriving DecidableEq, Repr, Inhabited

structure SpecOut where
  /-- DATA payload bytes in order, up to the point where the body stops -/
  payload : List Nat := []
  ending : Ending := .boundary false
  /-- frames (complete or not) looked at -/
  nframes : Nat := 0
deriving Repr, Inhabited

/-- frame types RFC 9114 reserves (formerly HTTP/2 PRIORITY, PING, WINDOW_UPDATE, CONTINUATION) -/
def rfcReserved : List Nat := [2, 6, 8, 9]

def specBody (maxHdr : Nat) : Nat → Bool → List Nat → SpecOut → SpecOut
  | 0, _, _, acc => acc
  | fuel + 1, tr, bs, acc =>
    if bs.isEmpty then { acc with ending := .boundary tr }
    else match decVarint bs with
      | none => { acc with ending := .partialFrame, nframes := acc.nframes + 1 }
      | some (t, _, bs1) =>
        match decVarint bs1 with
        | none => { acc with ending := .partialFrame, nframes := acc.nframes + 1 }
        | some (l, _, bs2) =>
          let acc := { acc with nframes := acc.nframes + 1 }
          let pl := bs2.take l
          let complete := pl.length = l
          if t = 0 then
            if tr then { acc with ending := .afterTrailers 0 }
            else if complete then specBody maxHdr fuel tr (bs2.drop l) { acc with payload := acc.payload ++ pl }
            else { acc with payload := acc.payload ++ pl, ending := .partialFrame }
          else if t = 1 then
            if tr then { acc with ending := .afterTrailers 1 }
            else if l > maxHdr then { acc with ending := .trailersTooLarge }
            else if complete then specBody maxHdr fuel true (bs2.drop l) acc
            else { acc with ending := .partialFrame }
          else if rfcReserved.contains t then { acc with ending := .forbidden t }
          else if t = 4 ∨ t = 7 then { acc with ending := .illPlaced t }
          else if complete then specBody maxHdr fuel tr (bs2.drop l) acc
          else { acc with ending := .partialFrame }

def spec (maxHdr : Nat) (bs : List Nat) : SpecOut := specBody maxHdr (bs.length + 1) false bs {}

/-- `some rest` when `d` is a prefix of `l` -/
def stripPrefix : List Nat → List Nat → Option (List Nat)
  | [], l => some l
  | _ :: _, [] => none
  | x :: d, y :: l => if x = y then stripPrefix d l else none

/-- the payload generator shared with the Go driver -/
def pattern (n seed : Nat) : List Nat :=
  (List.range n).map fun i => 128 + (seed + i * 7 + i / 256) % 128

end Uquic.Spec.H3Mon
