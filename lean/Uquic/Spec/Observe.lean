/-
The OBSERVER of property C10 (core-only, independent of the packer's control flow).

Input: the bytes of one Initial packet AFTER Initial protection has been removed
(unprotected long header ++ plaintext payload, without the 16-byte AEAD tag) and the
length of the UDP datagram that carried it.  Output: a `View` of everything the
property talks about.  Parsing follows RFC 9000 §17.2 (long header), §16 (varints),
§19.1/19.2/19.6 (PADDING / PING / CRYPTO) and nothing else; no function of the Go
packer or of the model `Uquic.Model.Initial` is used here.

Bytes are `Nat`s `< 256` (`List Nat`): the arithmetic lemmas are then plain `omega`.
-/
namespace Uquic.Spec.Observe

/-- big-endian value of a byte string -/
def beNat : List Nat → Nat
  | [] => 0
  | b :: bs => b * 256 ^ bs.length + beNat bs

/-- RFC 9000 §16: (value, width, rest) -/
def readVarint : List Nat → Option (Nat × Nat × List Nat)
  | [] => none
  | b :: rest =>
    let w := 2 ^ (b / 64)
    if rest.length < w - 1 then none
    else some ((b % 64) * 256 ^ (w - 1) + beNat (rest.take (w - 1)), w, rest.drop (w - 1))

inductive Kind | padding | ping | crypto
deriving Repr, BEq, DecidableEq

/-- one frame as seen by the observer; consecutive PADDING bytes are one run (`len` bytes),
    PING has `len = 1`, CRYPTO carries `(offset, len)` of its data -/
structure Frame where
  kind : Kind
  offset : Nat := 0
  len : Nat := 0
deriving Repr, BEq, DecidableEq

/-- length of the leading run of zero bytes -/
def zeroRun : List Nat → Nat
  | 0 :: rest => zeroRun rest + 1
  | _ => 0

/-- frames of an Initial packet's payload (`none`: a byte that is not PADDING/PING/CRYPTO, or a
    truncated CRYPTO frame). `fuel` bounds the recursion; `payload.length + 1` always suffices. -/
def parseFrames : Nat → List Nat → Option (List Frame)
  | 0, _ => none
  | _ + 1, [] => some []
  | fuel + 1, 0 :: rest =>
    let k := zeroRun rest
    (parseFrames fuel (rest.drop k)).map (fun fs => { kind := .padding, len := k + 1 } :: fs)
  | fuel + 1, 1 :: rest =>
    (parseFrames fuel rest).map (fun fs => { kind := .ping, len := 1 } :: fs)
  | fuel + 1, 6 :: rest =>
    match readVarint rest with
    | none => none
    | some (off, _, r1) =>
      match readVarint r1 with
      | none => none
      | some (len, _, r2) =>
        if r2.length < len then none
        else (parseFrames fuel (r2.drop len)).map (fun fs => { kind := .crypto, offset := off, len := len } :: fs)
  | _ + 1, _ :: _ => none

structure View where
  firstByte : Nat
  version : Nat
  dcidLen : Nat
  dcid : List Nat
  scidLen : Nat
  scid : List Nat
  tokenLenWidth : Nat
  token : List Nat
  lengthField : Nat
  lengthVarintWidth : Nat
  pnLen : Nat
  /-- the truncated packet number as on the wire (`pnLen` bytes, big endian) -/
  pn : Nat
  /-- bytes of the long header up to and including the packet number -/
  headerLen : Nat
  /-- plaintext payload bytes handed to the observer (frames) -/
  payloadLen : Nat
  frames : Option (List Frame)
  /-- size of the QUIC packet on the wire according to its own Length field -/
  packetLen : Nat
  datagramLen : Nat
  /-- `datagramLen - packetLen` when that is non-negative -/
  trailingBytes : Nat
deriving Repr, BEq, DecidableEq

/-! The long header is parsed in five stages (one definition each, so that the parse∘serialise proof
    in `Proofs/InitialHeader.lean` can go stage by stage). -/

/-- stage 5: Length varint, packet number, payload -/
def observe5 (fb version : Nat) (dcid scid : List Nat) (tw : Nat) (token : List Nat) (r5 : List Nat) (datagramLen : Nat) : Option View :=
  match readVarint r5 with
  | none => none
  | some (len, lw, r6) =>
    let pnLen := fb % 4 + 1
    if r6.length < pnLen then none
    else
      let payload := r6.drop pnLen
      let headerLen := 1 + 4 + 1 + dcid.length + 1 + scid.length + tw + token.length + lw + pnLen
      let packetLen := headerLen - pnLen + len
      some { firstByte := fb, version := version, dcidLen := dcid.length, dcid := dcid, scidLen := scid.length, scid := scid,
             tokenLenWidth := tw, token := token, lengthField := len, lengthVarintWidth := lw,
             pnLen := pnLen, pn := beNat (r6.take pnLen), headerLen := headerLen, payloadLen := payload.length,
             frames := parseFrames (payload.length + 1) payload,
             packetLen := packetLen, datagramLen := datagramLen,
             trailingBytes := datagramLen - packetLen }

/-- stage 4: token length varint and token -/
def observe4 (fb version : Nat) (dcid scid : List Nat) (r3 : List Nat) (datagramLen : Nat) : Option View :=
  match readVarint r3 with
  | none => none
  | some (tl, tw, r4) =>
    if r4.length < tl then none
    else observe5 fb version dcid scid tw (r4.take tl) (r4.drop tl) datagramLen

/-- stage 3: source connection ID (`sl` = its length byte, already read) -/
def observe3 (fb version : Nat) (dcid : List Nat) (sl : Nat) (r2 : List Nat) (datagramLen : Nat) : Option View :=
  if sl > 20 ∨ r2.length < sl then none
  else observe4 fb version dcid (r2.take sl) (r2.drop sl) datagramLen

/-- stage 2: destination connection ID (`dl` = its length byte, already read) and the SCID length byte -/
def observe2 (fb version dl : Nat) (r1 : List Nat) (datagramLen : Nat) : Option View :=
  if dl > 20 ∨ r1.length < dl + 1 then none
  else observe3 fb version (r1.take dl) ((r1.drop dl).headD 0) (r1.drop (dl + 1)) datagramLen

/-- Parse a long-header packet whose protection was removed. `none`: not a long header with the
    fixed bit, a connection ID longer than 20 bytes, or truncated. -/
def observe (plain : List Nat) (datagramLen : Nat) : Option View :=
  match plain with
  | [] => none
  | fb :: r0 =>
    if fb / 64 ≠ 3 then none            -- header form 1, fixed bit 1
    else if r0.length < 5 then none
    else observe2 fb (beNat (r0.take 4)) ((r0.drop 4).headD 0) (r0.drop 5) datagramLen

/-! ### what a frame list shows -/

def cryptoFrames (fs : List Frame) : List Frame := fs.filter (·.kind == .crypto)
def numCrypto (fs : List Frame) : Nat := (cryptoFrames fs).length
def numPing (fs : List Frame) : Nat := (fs.filter (·.kind == .ping)).length
/-- PADDING runs (consecutive PADDING frames are indistinguishable on the wire) -/
def numPaddingRuns (fs : List Frame) : Nat := (fs.filter (·.kind == .padding)).length
def paddingBytes (fs : List Frame) : Nat := ((fs.filter (·.kind == .padding)).map (·.len)).foldl (· + ·) 0
def cryptoBytes (fs : List Frame) : Nat := ((cryptoFrames fs).map (·.len)).foldl (· + ·) 0
def minCryptoOffset (fs : List Frame) : Option Nat :=
  match (cryptoFrames fs).map (·.offset) with
  | [] => none
  | x :: xs => some (xs.foldl min x)
def maxCryptoEnd (fs : List Frame) : Nat := ((cryptoFrames fs).map (fun f => f.offset + f.len)).foldl max 0

end Uquic.Spec.Observe
