/-
Histories of the ReceivedPacketHandler API and the ghost state the C07 theorems speak about.
Core-only (part of the statements, also usable by the oracle).
-/
import Uquic.Model.Ack.Rcv

namespace Uquic.Spec.RcvRun
open Uquic.Model.Rcv

inductive Op
  | recv (lvl : Level) (pn : Int) (ecn : Nat) (t : Int) (ae : Bool)
  | ignore (pn : Int)
  | drop (lvl : Level)
  | ack (lvl : Level) (now : Int) (oiq : Bool)
deriving Repr, DecidableEq

inductive Out
  | recv (o : RecvOut)
  | unit
  | panic
  | ack (a : Option Ack)
deriving Repr, DecidableEq

def hstep (h : Handler) : Op → Handler × Out
  | .recv lvl pn ecn t ae => let r := h.receivedPacket pn ecn lvl t ae; (r.1, .recv r.2)
  | .ignore pn => (h.ignorePacketsBelow pn, .unit)
  | .drop lvl => match h.dropPackets lvl with
    | some h' => (h', .unit)
    | none => (h, .panic)
  | .ack lvl now oiq => let r := h.getAckFrame lvl now oiq; (r.1, .ack r.2)

inductive Space | ini | hs | app
deriving Repr, DecidableEq

def Level.space : Level → Space
  | .initial => .ini | .handshake => .hs | .zeroRTT => .app | .oneRTT => .app

/-- the packet number this op hands to a tracker's `ReceivedPacket`, if any -/
def registers (h : Handler) : Op → Option (Space × Int)
  | .recv .initial pn _ _ _ => if h.initial.isSome then some (.ini, pn) else none
  | .recv .handshake pn _ _ _ => if h.handshake.isSome then some (.hs, pn) else none
  | .recv .zeroRTT pn _ _ _ => if h.lowest1RTT ≠ invalidPN ∧ pn > h.lowest1RTT then none else some (.app, pn)
  | .recv .oneRTT pn _ _ _ => some (.app, pn)
  | _ => none

/-- ghost: numbers handed to the trackers, per space -/
structure Ghost where
  ini : List Int := []
  hs : List Int := []
  app : List Int := []

def Ghost.get (g : Ghost) : Space → List Int
  | .ini => g.ini | .hs => g.hs | .app => g.app

def Ghost.add (g : Ghost) : Space → Int → Ghost
  | .ini, p => { g with ini := p :: g.ini }
  | .hs, p => { g with hs := p :: g.hs }
  | .app, p => { g with app := p :: g.app }

structure St where
  h : Handler := {}
  g : Ghost := {}
  outs : List Out := []     -- newest first

def St.step (s : St) (op : Op) : St :=
  let r := hstep s.h op
  { h := r.1
    g := match registers s.h op with
         | some (sp, p) => s.g.add sp p
         | none => s.g
    outs := r.2 :: s.outs }

def run (ops : List Op) : St := ops.foldl St.step {}

/-- every registered number was carried by a `recv` operation of that space -/
def recvOps (sp : Space) (ops : List Op) : List Int :=
  ops.filterMap fun
    | .recv lvl pn _ _ _ => if Level.space lvl = sp then some pn else none
    | _ => none

end Uquic.Spec.RcvRun
