/-
Executable monitors for C05 (packet numbers), judged on what the implementation printed against
ghost state derived from the operations only.
-/
import Uquic.Model.Crypto.PN

namespace Uquic.Spec.PNMon

/-- hypothesis of `pn_roundtrip` (receiver form) for the length the implementation chose -/
def inWindow (len : Nat) (pn L : Int) : Bool :=
  decide (1 ≤ len) && decide (len ≤ 4) && decide (0 ≤ pn) && decide (pn < 2 ^ 62) && decide (-1 ≤ L) &&
  decide (L + 1 - 2 ^ (8 * len) / 2 < pn) && decide (pn ≤ L + 1 + 2 ^ (8 * len) / 2)

/-- hypothesis of `pn_roundtrip_sender` restricted to in-order delivery `largestAcked ≤ L < pn` -/
def senderHyp (pn la L : Int) : Bool :=
  decide (0 ≤ pn) && decide (pn < 2 ^ 62) && decide (-1 ≤ la) && decide (la < pn) &&
  decide (pn - la ≤ 2 ^ 31 + 1) && decide (la ≤ L) && decide (L < pn)

/-- ghost of a generator: everything it returned / reported as skipped so far -/
structure GenGhost where
  outs : List Int := []       -- newest first
  skipped : List Int := []
  lastPeek : Option Int := none
deriving Repr

end Uquic.Spec.PNMon
