/-
Executable statements of property C10, judged on the observer's `View` of what the implementation
put on the wire, against ghost state that is ONLY the spec named in the operation (and the scripted
random stream).  These are the *intended* meanings of the spec fields as the property text and the
field documentation give them — deliberately not the model's rendering of the Go control flow, so
that a monitor stays meaningful when code and model agree with each other but not with the spec.
-/
import Uquic.Spec.Observe
import Uquic.Model.UQuic.InitialBuild

namespace Uquic.Spec.ObserveMon
open Uquic.Spec.Observe Uquic.Model.Initial

/-- "first packet number": `InitPacketNumber` if it is a packet number at all (≤ 2^62-1), else 0 -/
def intendedFirstPN (spec : Spec) : Nat := if spec.initPN ≤ 4611686018427387903 then spec.initPN else 0

/-- "increment": the i-th Initial packet of the flight carries `first + i` -/
def intendedPN (spec : Spec) (i : Nat) : Nat := intendedFirstPN spec + i

/-- "per-packet packet-number encoding length": entry `min i last` of the list, else the single
    override, else the library's default rule (never 1 byte) -/
def intendedPnLen (spec : Spec) (i : Nat) : Nat :=
  if spec.pnLens.length > 0 then spec.pnLens.getD (min i (spec.pnLens.length - 1)) 0
  else if spec.pnLen1 ≠ 0 then spec.pnLen1
  else defaultPnLen (intendedPN spec i)

/-- entry `min i last` of `InitialPackets` (zero plan if none) -/
def intendedPlan (spec : Spec) (i : Nat) : Plan :=
  if spec.plans.length = 0 then {} else spec.plans.getD (min i (spec.plans.length - 1)) {}

def headerShapeOK (spec : Spec) (v : View) : Bool :=
  -- long header, fixed bit, type Initial (version 1: 00), reserved bits clear
  v.firstByte / 4 == 48 && v.version == 1 &&
  (if spec.dcidLen > 0 then v.dcidLen == spec.dcidLen else decide (8 ≤ v.dcidLen ∧ v.dcidLen ≤ 20)) &&
  v.scidLen == spec.scidLen && v.dcid.length == v.dcidLen && v.scid.length == v.scidLen

def pnOK (spec : Spec) (i : Nat) (v : View) : Bool :=
  v.pn == intendedPN spec i % 256 ^ v.pnLen

def pnLenOK (spec : Spec) (i : Nat) (v : View) : Bool := v.pnLen == intendedPnLen spec i

/-- token: the explicit one, or prefix ++ (the bytes drawn from the random stream at `tokOff`) with total
    length `max len |prefix|`, or absent -/
def tokenOK (spec : Spec) (s : Nat → Nat) (tokOff : Option Nat) (v : View) : Bool :=
  match spec.token with
  | .none => v.token.isEmpty
  | .explicit b => v.token == b
  | .synth pre len =>
    v.token.length == max len pre.length && v.token.take pre.length == pre &&
    (if max len pre.length > pre.length then
      match tokOff with
      | some off => v.token.drop pre.length == takeStream s off (max len pre.length - pre.length)
      | none => false
     else true)

/-- the random tail of a synthesised token (what must be fresh per dial) -/
def tokenTail (spec : Spec) (v : View) : List Nat :=
  match spec.token with
  | .synth pre _ => v.token.drop pre.length
  | _ => []

/-- PADDING bytes a declarative layout itself puts at the very end of the payload -/
def trailingPadQ (l : List QFrame) : Nat :=
  (l.reverse.takeWhile fun f => match f with | .padding _ => true | _ => false).foldl
    (fun acc f => match f with | .padding k => acc + k | _ => acc) 0

/-- `some n`: the builder of datagram `i` is declarative and ends its payload with `n` PADDING bytes -/
def ownTrailingPad (spec : Spec) (i : Nat) : Option Nat :=
  match spec.builder with
  | .nil => some 0
  | .frames l => some (trailingPadQ l)
  | .flight ds => (ds[i]?).map trailingPadQ
  | _ => none

/-- the packet ends in more PADDING than its declarative builder asked for -/
def fillOnOversize (spec : Spec) (i : Nat) (v : View) : Bool :=
  match ownTrailingPad spec i, v.frames with
  | some own, some fs =>
    (match fs.getLast? with
     | some f => f.kind == .padding && decide (f.len > own)
     | none => false)
  | _, _ => false

structure SizeVerdict where
  ok : Bool
  why : String := ""

/-- sizes: exact `PacketSize` (no trailing bytes) when set and the content fits; otherwise the datagram is
    `max(packetLen, UDP minimum or 1200)`; Length field = pnLen + |payload| + 16 in a 2-byte varint -/
def sizesOK (spec : Spec) (i : Nat) (v : View) (trailingZero : Bool) : SizeVerdict :=
  let p := intendedPlan spec i
  if v.lengthField ≠ v.pnLen + v.payloadLen + 16 then { ok := false, why := s!"Length={v.lengthField} pnLen={v.pnLen} payload={v.payloadLen}" }
  else if v.lengthVarintWidth ≠ 2 then { ok := false, why := s!"Length varint width {v.lengthVarintWidth}" }
  else if v.packetLen > v.datagramLen then { ok := false, why := "packet longer than its datagram" }
  else if !trailingZero then { ok := false, why := "non-zero bytes after the packet" }
  else if p.packetSize > 0 then
    if v.packetLen < p.packetSize then { ok := false, why := s!"packet {v.packetLen} < PacketSize {p.packetSize}" }
    else if v.trailingBytes ≠ 0 then { ok := false, why := s!"{v.trailingBytes} trailing bytes after an exact-size packet" }
    -- packetLen > PacketSize: the content did not fit the requested size ("must leave room"): tolerated, but then
    -- no exact-size PADDING may have been added: where the builder's own trailing PADDING is known from the
    -- spec, the packet must not end in a longer run of PADDING
    else if decide (v.packetLen > p.packetSize) && fillOnOversize spec i v then
      { ok := false, why := s!"packet {v.packetLen} > PacketSize {p.packetSize} although it ends in PADDING the spec did not ask for" }
    else { ok := true }
  else
    -- the UDP minimum (default 1200), which the packet buffer caps
    let m := min (if spec.udpMin = 0 then 1200 else spec.udpMin) maxPacketBufferSize
    if v.datagramLen ≠ max v.packetLen m then { ok := false, why := s!"datagram {v.datagramLen} packet {v.packetLen} minimum {m}" }
    else { ok := true }

/-- inclusive bounds on the number of PING and CRYPTO frames of one datagram carrying `dataLen` CRYPTO
    bytes under a `QUICRandomFrames` description -/
def rfCountsOK (rf : RF) (numPing numCrypto dataLen : Nat) : Bool :=
  decide (rf.minPing ≤ numPing ∧ numPing ≤ drawHi rf.minPing rf.maxPing) &&
  decide (min (max rf.minCrypto 1) dataLen ≤ numCrypto ∧ numCrypto ≤ min (max (drawHi rf.minCrypto rf.maxCrypto) 1) dataLen)

/-- the same for a random flight datagram: every non-empty range is cut independently -/
def rffCountsOK (d : RFD) (L numPing numCrypto : Nat) : Bool :=
  let lens := d.ranges.filterMap fun r => (resolve r.1 r.2 L).bind fun se => if se.2 > se.1 then some (se.2 - se.1) else none
  let lo := (lens.map fun r => min (max d.frames.minCrypto 1) r).foldl (· + ·) 0
  let hi := (lens.map fun r => min (max (drawHi (max d.frames.minCrypto 1) (max d.frames.maxCrypto 1)) 1) r).foldl (· + ·) 0
  decide (d.frames.minPing ≤ numPing ∧ numPing ≤ drawHi d.frames.minPing d.frames.maxPing) &&
  decide (lo ≤ numCrypto ∧ numCrypto ≤ hi)

def countQ (l : List QFrame) : Nat × Nat :=
  l.foldl (fun (c, p) f => match f with | .crypto _ _ => (c + 1, p) | .ping => (c, p + 1) | _ => (c, p)) (0, 0)

/-- frame counts within the builder's bounds for datagram `i` -/
def frameCountsOK (spec : Spec) (i L : Nat) (fs : List Frame) : Bool :=
  let nc := numCrypto fs; let np := numPing fs; let data := cryptoBytes fs
  match spec.builder with
  | .nil => nc == 1 && np == 0
  | .frames l => if l.length = 0 then nc == 1 && np == 0 else (nc, np) == countQ l
  | .random rf => rfCountsOK rf np nc data
  | .multi l => match rfFor l i with | some rf => rfCountsOK rf np nc data | none => false
  | .flight ds => match ds[i]? with | some l => (nc, np) == countQ l | none => false
  | .randFlight ds => match ds[i]? with | some d => rffCountsOK d L np nc | none => false

/-- what a conformant server needs in order to open the `i`-th Initial of the flight (the AEAD itself is
    property C05's subject and is trusted here): a header-protection sample, a packet number that decodes
    against the largest one processed so far, and a destination connection ID of at least 8 bytes -/
def serverCanOpen (fullPN : Nat) (largest : Int) (v : View) : Bool :=
  decide (v.pnLen + v.payloadLen ≥ 4) &&
  decide (decodePN v.pnLen largest v.pn = fullPN) &&
  decide (v.dcidLen ≥ 8)

end Uquic.Spec.ObserveMon
