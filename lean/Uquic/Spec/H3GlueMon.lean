/-
Executable monitors for the glue around the HTTP/3 field-section parsers (C19, driver h3g). They judge
what the PEER of the implementation observed (response status, RESET_STREAM / STOP_SENDING codes, what
the handler / the caller of RoundTrip was given) against the reference predicate of the field sections in
the op line. They import the reference predicate only, never the model.
-/
import Uquic.Spec.H3FieldsWF
import Uquic.Spec.H3FieldsMon

namespace Uquic.Spec.H3GlueMon
open Uquic.Spec.H3Fields Uquic.Spec.H3FieldsMon

abbrev Fail := String × String × String

/-- RFC 9114 §8.1 / RFC 9204 §6 -/
def H3_FRAME_ERROR : Nat := 0x106
def H3_EXCESSIVE_LOAD : Nat := 0x107
def H3_MESSAGE_ERROR : Nat := 0x10e
def QPACK_DECOMPRESSION_FAILED : Nat := 0x200

/-- every clause of the reference predicate except the size clause -/
def shapeOk (isReq : Bool) (fs : List Field) : Bool := (failingClauses isReq (sectionSize fs) fs).isEmpty

def pathByte (b : Nat) : Bool :=
  (48 ≤ b && b ≤ 57) || (97 ≤ b && b ≤ 122) || (65 ≤ b && b ≤ 90) || [45, 46, 47, 95, 61, 38, 63].contains b
/-- a :path every URL parser accepts: "/" followed by letters, digits and - . / _ = & ? -/
def plainPath (p : List Nat) : Bool := p.head? == some 47 && p.all pathByte

/-- one request as the raw client sent it -/
structure Msg where
  lim : Int
  enc : Int
  qerr : Bool
  fs : List Field
  dlen : Option Nat
  trl : Option (Int × List Field)

/-- what the raw client saw on the request stream, and whether the handler ran -/
structure SrvObs where
  status : String
  rd : String
  wr : String
  handled : Bool
  /-- the handler's view (text after `h=`) -/
  view : String

def isReject431 (o : SrvObs) : Bool := o.status == "431" && o.rd == "eof" && o.wr == s!"stop:{H3_EXCESSIVE_LOAD}" && !o.handled
def isReset (o : SrvObs) (c : Nat) : Bool := o.status == "-" && o.rd == s!"rst:{c}" && o.wr == s!"stop:{c}" && !o.handled

def hxDigit (n : Nat) : Char := if n < 10 then Char.ofNat (48 + n) else Char.ofNat (87 + n)
def hex (bs : List Nat) : String := String.ofList (bs.flatMap fun b => [hxDigit (b / 16), hxDigit (b % 16)])

def serverMonitors (m : Msg) (o : SrvObs) : List Fail :=
  let bad := failingClauses true m.lim m.fs
  let size := sectionSize m.fs
  let isConnect := fieldValue m.fs (B ":method") == B "CONNECT"
  -- a plain CONNECT carries no :path; every other request's :path goes through url.ParseRequestURI
  let urlFree := isConnect && fieldValue m.fs (B ":protocol") == []
  (if o.handled && (!bad.isEmpty || !requestRules m.fs || m.qerr || m.enc > m.lim) then
     [("handler_only_wellformed", "-", s!"the handler was called for a request section violating: {",".intercalate bad}" ++
        (if requestRules m.fs then "" else " request-rules") ++ (if m.qerr then " qpack-error" else "") ++
        (if m.enc > m.lim then " frame-over-limit" else ""))]
   else []) ++
  (if (m.enc > m.lim || (shapeOk true m.fs && size > m.lim)) && !isReject431 o then
     [("oversized_answered_431", "-", s!"a request whose field section is over the limit (frame {m.enc}, decoded size {size}, limit {m.lim}) " ++
        s!"must get a 431 response and H3_EXCESSIVE_LOAD; peer saw st={o.status} rd={o.rd} wr={o.wr} handled={o.handled}")]
   else []) ++
  (if m.enc ≤ m.lim && size ≤ m.lim && !m.qerr && (!shapeOk true m.fs || !requestRules m.fs) && !isReset o H3_MESSAGE_ERROR then
     [("malformed_reset_message_error", "-", s!"a malformed request within the size limit must be reset with H3_MESSAGE_ERROR; " ++
        s!"peer saw st={o.status} rd={o.rd} wr={o.wr} handled={o.handled}")]
   else []) ++
  (if !o.handled && !(isReject431 o || isReset o H3_MESSAGE_ERROR || (m.qerr && isReset o QPACK_DECOMPRESSION_FAILED)) then
     [("rejection_signalled", "-", s!"a rejected request must be answered by 431+H3_EXCESSIVE_LOAD, H3_MESSAGE_ERROR or " ++
        s!"(decoding error) QPACK_DECOMPRESSION_FAILED; peer saw st={o.status} rd={o.rd} wr={o.wr}")]
   else []) ++
  (if m.enc ≤ m.lim && bad.isEmpty && requestRules m.fs && !m.qerr && (urlFree || plainPath (fieldValue m.fs (B ":path"))) then
     (if !o.handled || o.status != "200" then
        [("wellformed_request_served", "-", s!"a well-formed request was not served: st={o.status} rd={o.rd} wr={o.wr} handled={o.handled}")]
      else if !(o.view.startsWith s!"ok m={hex (fieldValue m.fs (B ":method"))} ") ||
              !((o.view.splitOn s!" host={hex (fieldValue m.fs (B ":authority"))} ").length == 2) then
        [("request_handed_over", "-", s!"the handler saw another :method / :authority than the field section carries: {o.view}")]
      else [])
   else [])

/-- trailers: handed over only when well formed and within the limit; a bad trailer section fails the read -/
def trailerMonitors (who : String) (lim : Int) (trl : Option (Int × List Field)) (bodyShown : Bool) (rerr : Bool) (tvals : String)
    (hasTail : Bool := false) : List Fail :=
  if !bodyShown then [] else
  match trl with
  | none => if tvals != "-" then [("trailers_only_wellformed", "-", s!"{who}: trailer values although no trailer section was sent")] else []
  | some (tenc, tfs) =>
    let bad := trailerFailingClauses lim tfs
    (if tvals != "-" && (!bad.isEmpty || tenc > lim) then
       [("trailers_only_wellformed", "-", s!"{who}: trailers handed over from a section violating: {",".intercalate bad}" ++ (if tenc > lim then " frame-over-limit" else ""))]
     else []) ++
    (if (!bad.isEmpty || tenc > lim) && !rerr then
       [("bad_trailers_fail_the_read", "-", s!"{who}: reading the body succeeded although the trailer section is malformed or over the limit")]
     else []) ++
    (if bad.isEmpty && tenc ≤ lim && rerr && !hasTail then
       [("wellformed_trailers_accepted", "-", s!"{who}: reading the body failed although the trailer section is well formed")]
     else []) ++
    (if hasTail && !rerr then
       [("frames_after_trailers_fail_the_read", "-", s!"{who}: reading the body succeeded although DATA / HEADERS frames follow the trailer section")]
     else [])

/-! ### round 5: the state an error leaves behind -/

def unhexDigit (c : Char) : Nat :=
  let n := c.toNat
  if 48 ≤ n && n ≤ 57 then n - 48 else if 97 ≤ n && n ≤ 102 then n - 87 else if 65 ≤ n && n ≤ 70 then n - 55 else 0
def unhexL : List Char → List Nat
  | a :: b :: rest => (unhexDigit a * 16 + unhexDigit b) :: unhexL rest
  | _ => []
def lowerByte (b : Nat) : Nat := if 65 ≤ b && b ≤ 90 then b + 32 else b

/-- the `t=` text of the drivers (`<hexkey>:<hexvalue>,…;…` or `-`) as (lower-cased key, value) pairs -/
def parseTrailerValues (t : String) : List (List Nat × List Nat) :=
  if t == "-" || t == "" then [] else
  (t.splitOn ";").flatMap fun kv =>
    match kv.splitOn ":" with
    | [k, vs] => (vs.splitOn ",").map fun v => ((unhexL k.toList).map lowerByte, unhexL v.toList)
    | _ => [([], [])]

/-- a message whose read has returned (an error or the end) stays finished: a consumer that reads on
    gets no byte, and whatever was handed over as trailers was decoded from the message's trailer
    section — the FIRST HEADERS frame behind the head —, not from anything sent after it.
    `again`: bytes delivered by the later reads (none = the consumer did not read on). -/
def stickyMonitors (who : String) (trl : Option (Int × List Field)) (bodyShown : Bool) (again : Option Nat) (tvals : String) : List Fail :=
  if !bodyShown then [] else
  (match again with
   | some n => if n > 0 then
       [("rejected_trailers_stay_rejected", "-", s!"{who}: {n} body bytes were delivered by reads AFTER the read of the message had " ++
          "failed or ended (frames behind the trailer section must never reach the consumer)")]
     else []
   | none => []) ++
  (let first : List Field := match trl with | some (_, tfs) => tfs | none => []
   let foreign := (parseTrailerValues tvals).filter fun kv => !first.contains kv
   if !foreign.isEmpty then
     [("trailers_from_first_section_only", "-", s!"{who}: trailer values were handed over that the message's trailer section " ++
        s!"does not carry: {",".intercalate (foreign.map fun kv => hex kv.1 ++ "=" ++ hex kv.2)}")]
   else [])

/-! ### round 5: the response writer when stream writes fail (`rsp` op) -/

/-- a frame the raw peer read from the response stream -/
inductive WFrame
  /-- a HEADERS frame: its :status (none: it has none) and its fields -/
  | hdr (status : Option (List Nat)) (fs : List Field)
  | data (n : Nat)
  | other (what : String)

def parseWFrame (t : String) : WFrame :=
  if t.startsWith "D" then .data ((t.drop 1).toString.toNat?.getD 0)
  else if t.startsWith "H" && (t.splitOn ":").length ≥ 2 then
    let st := ((t.drop 1).toString.splitOn ":").headD ""
    let rest := ":".intercalate (((t.drop 1).toString.splitOn ":").drop 1)
    let fs : List Field := if rest == "" then [] else (rest.splitOn ";").map fun kv =>
      match kv.splitOn "=" with
      | [k, v] => (unhexL k.toList, unhexL v.toList)
      | _ => ([], [])
    .hdr (if st == "-" then none else some (st.toList.map Char.toNat)) fs
  else .other t

def parseWire (w : String) : List WFrame := if w == "-" || w == "" then [] else (w.splitOn ",").map parseWFrame

def isInterimStatus (st : List Nat) : Bool := st.length == 3 && st.head? == some 49

/-- RFC 9114 §4.1: interim header sections, THE header section, DATA frames, at most one trailer
    section. 0: before the header section, 1: behind it, 2: behind the trailers; none: not a response -/
def wirePhase : Nat → WFrame → Option Nat
  | 0, .hdr (some st) _ => if isInterimStatus st then some 0 else some 1
  | 1, .data _ => some 1
  | 1, .hdr none _ => some 2
  | _, _ => none

def wireLayout (w : List WFrame) : Option Nat := w.foldl (fun p f => p.bind (wirePhase · f)) (some 0)

def fmtWFrame : WFrame → String
  | .hdr (some st) _ => "HEADERS(" ++ String.ofList (st.map Char.ofNat) ++ ")"
  | .hdr none _ => "HEADERS(no :status)"
  | .data n => s!"DATA({n})"
  | .other t => t

/-- `endsWritable`: the write deadline is not expired when the handler returns (ghost state from the
    script); `id`: the X-Id value the handler set. Judged on the frames the PEER read. -/
def respMonitors (i : Nat) (endsWritable : Bool) (id : List Nat) (w : List WFrame) : List Fail :=
  let lay := wireLayout w
  (if lay.isNone then
     [("response_header_section_first", "-", s!"response {i}: the frames on the stream are not a response (the header section " ++
        s!"must come first, once): {" ".intercalate (w.map fmtWFrame)}")]
   else []) ++
  (if endsWritable && (lay == some 0) then
     [("response_header_not_lost", "-", s!"response {i}: stream writes worked when the handler returned, but no header section " ++
        s!"was sent: {" ".intercalate (w.map fmtWFrame)}")]
   else []) ++
  (w.flatMap fun f => match f with
    | .hdr (some st) fs =>
      let bad := failingClauses false (sectionSize fs) fs
      (if !bad.isEmpty || !responseRules fs then
         [("response_output_accepted", "-", s!"response {i}: a header section on the wire violates: {",".intercalate bad}" ++
            (if responseRules fs then "" else " response-rules"))]
       else []) ++
      (if !isInterimStatus st && fieldValue fs (B "x-id") != id then
         [("handler_fields_emitted", "-", s!"response {i}: the header section does not carry the handler's x-id field")]
       else [])
    | .hdr none fs =>
      if !(trailerFailingClauses (sectionSize fs) fs).isEmpty then
        [("response_output_accepted", "-", s!"response {i}: the trailer section on the wire is malformed")]
      else []
    | _ => [])

/-- what the raw server saw, and what RoundTrip returned -/
structure CliObs where
  stop : String
  ok : Bool
  /-- text after `r=` -/
  view : String

def clientMonitors (m : Msg) (o : CliObs) : List Fail :=
  let bad := failingClauses false m.lim m.fs
  (if o.ok && (!bad.isEmpty || !responseRules m.fs || m.qerr || m.enc > m.lim) then
     [("response_only_wellformed", "-", s!"RoundTrip returned a response whose field section violates: {",".intercalate bad}" ++
        (if responseRules m.fs then "" else " response-rules") ++ (if m.qerr then " qpack-error" else "") ++
        (if m.enc > m.lim then " frame-over-limit" else ""))]
   else []) ++
  (if !o.ok && !(o.stop == s!"stop:{H3_MESSAGE_ERROR}" || (m.enc > m.lim && o.stop == s!"stop:{H3_FRAME_ERROR}") ||
                 (m.qerr && o.stop == s!"stop:{QPACK_DECOMPRESSION_FAILED}")) then
     [("response_rejection_signalled", "-", s!"a rejected response must stop the stream with H3_MESSAGE_ERROR (H3_FRAME_ERROR for an " ++
        s!"oversized frame, QPACK_DECOMPRESSION_FAILED for a decoding error); the server saw {o.stop}")]
   else []) ++
  -- strconv.Atoi also wants the status to fit an int: judged for short status values only
  (if m.enc ≤ m.lim && bad.isEmpty && responseRules m.fs && !m.qerr && (fieldValue m.fs (B ":status")).length ≤ 18 then
     (if !o.ok then [("wellformed_response_accepted", "-", s!"a well-formed response was rejected ({o.stop})")]
      else if !(o.view.startsWith s!"ok code={String.ofList ((fieldValue m.fs (B ":status")).map Char.ofNat)} ") &&
              (fieldValue m.fs (B ":status")).all isDigitByte && (fieldValue m.fs (B ":status")).head? != some 48 then
        [("response_handed_over", "-", s!"RoundTrip returned another status than the field section carries: {o.view}")]
      else [])
   else [])

/-- one request written through the shared request writer, as the op describes it -/
structure ConcReq where
  method : List Nat
  host : List Nat
  path : List Nat
  x : List Nat

/-- the HEADERS frame a request wrote must carry THAT request's fields, however the writes interleave -/
def concMonitors (i : Nat) (c : ConcReq) (got : Option (List Field)) : List Fail :=
  match got with
  | none => [("own_fields_written", "-", s!"request {i}: the request writer failed / wrote no decodable HEADERS frame")]
  | some fs =>
    let bad := failingClauses true (sectionSize fs) fs
    (if fieldValue fs (B ":authority") != c.host || fieldValue fs (B ":path") != c.path ||
        fieldValue fs (B ":method") != c.method || fieldValue fs (B "x-id") != c.x then
       [("own_fields_written", "-", s!"request {i}: its HEADERS frame carries authority={hex (fieldValue fs (B ":authority"))} " ++
          s!"path={hex (fieldValue fs (B ":path"))} x-id={hex (fieldValue fs (B "x-id"))}, the request has " ++
          s!"authority={hex c.host} path={hex c.path} x-id={hex c.x}")]
     else []) ++
    (if !bad.isEmpty || !requestRules fs then
       [("writer_output_wellformed", "-", s!"request {i}: its HEADERS frame violates: {",".intercalate bad}")]
     else [])

end Uquic.Spec.H3GlueMon
