/-
Executable monitors for the glue around the HTTP/3 field-section parsers (C19, driver h3g). They judge
what the PEER of the implementation observed (response status, RESET_STREAM / STOP_SENDING codes, what
the handler / the caller of RoundTrip was given) against the reference predicate of the field sections in
the op line. They import the reference predicate only, never the model.
-/
import Uquic.Spec.H3FieldsWF
import Uquic.Spec.H3FieldsMon

namespace Uquic.Spec.H3GlueMon
open Uquic.Spec.H3Fields Uquic.Spec.H3FieldsMon

abbrev Fail := String × String × String

/-- RFC 9114 §8.1 / RFC 9204 §6 -/
def H3_FRAME_ERROR : Nat := 0x106
def H3_EXCESSIVE_LOAD : Nat := 0x107
def H3_MESSAGE_ERROR : Nat := 0x10e
def QPACK_DECOMPRESSION_FAILED : Nat := 0x200

/-- every clause of the reference predicate except the size clause -/
def shapeOk (isReq : Bool) (fs : List Field) : Bool := (failingClauses isReq (sectionSize fs) fs).isEmpty

def pathByte (b : Nat) : Bool :=
  (48 ≤ b && b ≤ 57) || (97 ≤ b && b ≤ 122) || (65 ≤ b && b ≤ 90) || [45, 46, 47, 95, 61, 38, 63].contains b
/-- a :path every URL parser accepts: "/" followed by letters, digits and - . / _ = & ? -/
def plainPath (p : List Nat) : Bool := p.head? == some 47 && p.all pathByte

/-- one request as the raw client sent it -/
structure Msg where
  lim : Int
  enc : Int
  qerr : Bool
  fs : List Field
  dlen : Option Nat
  trl : Option (Int × List Field)

/-- what the raw client saw on the request stream, and whether the handler ran -/
structure SrvObs where
  status : String
  rd : String
  wr : String
  handled : Bool
  /-- the handler's view (text after `h=`) -/
  view : String

def isReject431 (o : SrvObs) : Bool := o.status == "431" && o.rd == "eof" && o.wr == s!"stop:{H3_EXCESSIVE_LOAD}" && !o.handled
def isReset (o : SrvObs) (c : Nat) : Bool := o.status == "-" && o.rd == s!"rst:{c}" && o.wr == s!"stop:{c}" && !o.handled

def hxDigit (n : Nat) : Char := if n < 10 then Char.ofNat (48 + n) else Char.ofNat (87 + n)
def hex (bs : List Nat) : String := String.ofList (bs.flatMap fun b => [hxDigit (b / 16), hxDigit (b % 16)])

def serverMonitors (m : Msg) (o : SrvObs) : List Fail :=
  let bad := failingClauses true m.lim m.fs
  let size := sectionSize m.fs
  let isConnect := fieldValue m.fs (B ":method") == B "CONNECT"
  -- a plain CONNECT carries no :path; every other request's :path goes through url.ParseRequestURI
  let urlFree := isConnect && fieldValue m.fs (B ":protocol") == []
  (if o.handled && (!bad.isEmpty || !requestRules m.fs || m.qerr || m.enc > m.lim) then
     [("handler_only_wellformed", "-", s!"the handler was called for a request section violating: {",".intercalate bad}" ++
        (if requestRules m.fs then "" else " request-rules") ++ (if m.qerr then " qpack-error" else "") ++
        (if m.enc > m.lim then " frame-over-limit" else ""))]
   else []) ++
  (if (m.enc > m.lim || (shapeOk true m.fs && size > m.lim)) && !isReject431 o then
     [("oversized_answered_431", "-", s!"a request whose field section is over the limit (frame {m.enc}, decoded size {size}, limit {m.lim}) " ++
        s!"must get a 431 response and H3_EXCESSIVE_LOAD; peer saw st={o.status} rd={o.rd} wr={o.wr} handled={o.handled}")]
   else []) ++
  (if m.enc ≤ m.lim && size ≤ m.lim && !m.qerr && (!shapeOk true m.fs || !requestRules m.fs) && !isReset o H3_MESSAGE_ERROR then
     [("malformed_reset_message_error", "-", s!"a malformed request within the size limit must be reset with H3_MESSAGE_ERROR; " ++
        s!"peer saw st={o.status} rd={o.rd} wr={o.wr} handled={o.handled}")]
   else []) ++
  (if !o.handled && !(isReject431 o || isReset o H3_MESSAGE_ERROR || (m.qerr && isReset o QPACK_DECOMPRESSION_FAILED)) then
     [("rejection_signalled", "-", s!"a rejected request must be answered by 431+H3_EXCESSIVE_LOAD, H3_MESSAGE_ERROR or " ++
        s!"(decoding error) QPACK_DECOMPRESSION_FAILED; peer saw st={o.status} rd={o.rd} wr={o.wr}")]
   else []) ++
  (if m.enc ≤ m.lim && bad.isEmpty && requestRules m.fs && !m.qerr && (urlFree || plainPath (fieldValue m.fs (B ":path"))) then
     (if !o.handled || o.status != "200" then
        [("wellformed_request_served", "-", s!"a well-formed request was not served: st={o.status} rd={o.rd} wr={o.wr} handled={o.handled}")]
      else if !(o.view.startsWith s!"ok m={hex (fieldValue m.fs (B ":method"))} ") ||
              !((o.view.splitOn s!" host={hex (fieldValue m.fs (B ":authority"))} ").length == 2) then
        [("request_handed_over", "-", s!"the handler saw another :method / :authority than the field section carries: {o.view}")]
      else [])
   else [])

/-- trailers: handed over only when well formed and within the limit; a bad trailer section fails the read -/
def trailerMonitors (who : String) (lim : Int) (trl : Option (Int × List Field)) (bodyShown : Bool) (rerr : Bool) (tvals : String) : List Fail :=
  if !bodyShown then [] else
  match trl with
  | none => if tvals != "-" then [("trailers_only_wellformed", "-", s!"{who}: trailer values although no trailer section was sent")] else []
  | some (tenc, tfs) =>
    let bad := trailerFailingClauses lim tfs
    (if tvals != "-" && (!bad.isEmpty || tenc > lim) then
       [("trailers_only_wellformed", "-", s!"{who}: trailers handed over from a section violating: {",".intercalate bad}" ++ (if tenc > lim then " frame-over-limit" else ""))]
     else []) ++
    (if (!bad.isEmpty || tenc > lim) && !rerr then
       [("bad_trailers_fail_the_read", "-", s!"{who}: reading the body succeeded although the trailer section is malformed or over the limit")]
     else []) ++
    (if bad.isEmpty && tenc ≤ lim && rerr then
       [("wellformed_trailers_accepted", "-", s!"{who}: reading the body failed although the trailer section is well formed")]
     else [])

/-- what the raw server saw, and what RoundTrip returned -/
structure CliObs where
  stop : String
  ok : Bool
  /-- text after `r=` -/
  view : String

def clientMonitors (m : Msg) (o : CliObs) : List Fail :=
  let bad := failingClauses false m.lim m.fs
  (if o.ok && (!bad.isEmpty || !responseRules m.fs || m.qerr || m.enc > m.lim) then
     [("response_only_wellformed", "-", s!"RoundTrip returned a response whose field section violates: {",".intercalate bad}" ++
        (if responseRules m.fs then "" else " response-rules") ++ (if m.qerr then " qpack-error" else "") ++
        (if m.enc > m.lim then " frame-over-limit" else ""))]
   else []) ++
  (if !o.ok && !(o.stop == s!"stop:{H3_MESSAGE_ERROR}" || (m.enc > m.lim && o.stop == s!"stop:{H3_FRAME_ERROR}") ||
                 (m.qerr && o.stop == s!"stop:{QPACK_DECOMPRESSION_FAILED}")) then
     [("response_rejection_signalled", "-", s!"a rejected response must stop the stream with H3_MESSAGE_ERROR (H3_FRAME_ERROR for an " ++
        s!"oversized frame, QPACK_DECOMPRESSION_FAILED for a decoding error); the server saw {o.stop}")]
   else []) ++
  -- strconv.Atoi also wants the status to fit an int: judged for short status values only
  (if m.enc ≤ m.lim && bad.isEmpty && responseRules m.fs && !m.qerr && (fieldValue m.fs (B ":status")).length ≤ 18 then
     (if !o.ok then [("wellformed_response_accepted", "-", s!"a well-formed response was rejected ({o.stop})")]
      else if !(o.view.startsWith s!"ok code={String.ofList ((fieldValue m.fs (B ":status")).map Char.ofNat)} ") &&
              (fieldValue m.fs (B ":status")).all isDigitByte && (fieldValue m.fs (B ":status")).head? != some 48 then
        [("response_handed_over", "-", s!"RoundTrip returned another status than the field section carries: {o.view}")]
      else [])
   else [])

/-- one request written through the shared request writer, as the op describes it -/
structure ConcReq where
  method : List Nat
  host : List Nat
  path : List Nat
  x : List Nat

/-- the HEADERS frame a request wrote must carry THAT request's fields, however the writes interleave -/
def concMonitors (i : Nat) (c : ConcReq) (got : Option (List Field)) : List Fail :=
  match got with
  | none => [("own_fields_written", "-", s!"request {i}: the request writer failed / wrote no decodable HEADERS frame")]
  | some fs =>
    let bad := failingClauses true (sectionSize fs) fs
    (if fieldValue fs (B ":authority") != c.host || fieldValue fs (B ":path") != c.path ||
        fieldValue fs (B ":method") != c.method || fieldValue fs (B "x-id") != c.x then
       [("own_fields_written", "-", s!"request {i}: its HEADERS frame carries authority={hex (fieldValue fs (B ":authority"))} " ++
          s!"path={hex (fieldValue fs (B ":path"))} x-id={hex (fieldValue fs (B "x-id"))}, the request has " ++
          s!"authority={hex c.host} path={hex c.path} x-id={hex c.x}")]
     else []) ++
    (if !bad.isEmpty || !requestRules fs then
       [("writer_output_wellformed", "-", s!"request {i}: its HEADERS frame violates: {",".intercalate bad}")]
     else [])

end Uquic.Spec.H3GlueMon
