/-
REFERENCE predicate for C19, written from RFC 9114 §4.2 (field names lowercase, connection-specific
fields, TE), §4.2.2 (field section size), §4.3 / §4.3.1 / §4.3.2 (pseudo-header fields), §10.3
(field-value bytes; grammar of RFC 9110 §5.1/§5.5) and RFC 9110 §8.6 (Content-Length = 1*DIGIT,
repeated identical values allowed) — independently of the parser's control flow: every clause is a
declarative statement about the list of (name, value) pairs. It imports nothing from the model.
-/
namespace Uquic.Spec.H3Fields

abbrev Field := List Nat × List Nat

def B (s : String) : List Nat := s.toList.map Char.toNat

/-- a pseudo-header field name starts with ':' (RFC 9114 §4.3) -/
def isPseudoName (n : List Nat) : Bool := n.head? == some 58

/-- RFC 9110 §5.6.2 `tchar`, restricted to lower case (RFC 9114 §4.2) -/
def lowerTchar (b : Nat) : Bool :=
  (48 ≤ b && b ≤ 57) || (97 ≤ b && b ≤ 122) ||
  [33, 35, 36, 37, 38, 39, 42, 43, 45, 46, 94, 95, 96, 124, 126].contains b   -- ! # $ % & ' * + - . ^ _ ` | ~

/-- RFC 9110 §5.5 field-value bytes: VCHAR, obs-text, SP, HTAB (so NUL, CR, LF, other controls and DEL are forbidden) -/
def fieldValueByte (b : Nat) : Bool := b == 9 || (32 ≤ b && b ≤ 126) || 128 ≤ b

def isDigitByte (b : Nat) : Bool := 48 ≤ b && b ≤ 57

/-- RFC 9114 §4.2: connection-specific fields -/
def connectionSpecific : List (List Nat) :=
  [B "connection", B "keep-alive", B "proxy-connection", B "transfer-encoding", B "upgrade"]

/-- RFC 9114 §4.3.1 (+ RFC 8441/9220 `:protocol`) and §4.3.2 -/
def allowedPseudo (isReq : Bool) : List (List Nat) :=
  if isReq then [B ":method", B ":scheme", B ":authority", B ":path", B ":protocol"] else [B ":status"]

def nTe : List Nat := [116, 101]
def vTrailers : List Nat := [116, 114, 97, 105, 108, 101, 114, 115]
def nContentLength : List Nat := [99, 111, 110, 116, 101, 110, 116, 45, 108, 101, 110, 103, 116, 104]
example : nTe = B "te" ∧ vTrailers = B "trailers" ∧ nContentLength = B "content-length" := by decide

/-- RFC 9114 §4.2.2 -/
def fieldSize (f : Field) : Int := (f.1.length : Int) + (f.2.length : Int) + 32
def sectionSize (fs : List Field) : Int := (fs.map fieldSize).sum

/-! the clauses -/
def NameTokens (fs : List Field) : Prop :=
  ∀ f ∈ fs, isPseudoName f.1 = false → f.1 ≠ [] ∧ ∀ b ∈ f.1, lowerTchar b = true
def ValueBytes (fs : List Field) : Prop := ∀ f ∈ fs, ∀ b ∈ f.2, fieldValueByte b = true
def NoConnectionSpecific (fs : List Field) : Prop := ∀ f ∈ fs, f.1 ∉ connectionSpecific
def TeTrailers (fs : List Field) : Prop := ∀ f ∈ fs, f.1 = nTe → f.2 = vTrailers
def PseudoKnown (isReq : Bool) (fs : List Field) : Prop := ∀ f ∈ fs, isPseudoName f.1 = true → f.1 ∈ allowedPseudo isReq
def PseudoFirst (fs : List Field) : Prop := fs.Pairwise (fun a b => isPseudoName b.1 = true → isPseudoName a.1 = true)
def PseudoUnique (fs : List Field) : Prop := ((fs.filter (fun f => isPseudoName f.1)).map Prod.fst).Nodup
def ClSingle (fs : List Field) : Prop := ∀ f ∈ fs, ∀ g ∈ fs, f.1 = nContentLength → g.1 = nContentLength → f.2 = g.2
def ClNumeric (fs : List Field) : Prop :=
  ∀ f ∈ fs, f.1 = nContentLength → f.2 ≠ [] ∧ ∀ b ∈ f.2, isDigitByte b = true
def SizeOk (limit : Int) (fs : List Field) : Prop := sectionSize fs ≤ limit
/-- value of a decimal digit string -/
def decimalValue (s : List Nat) : Nat := s.foldl (fun a d => a * 10 + (d - 48)) 0
/-- net/http carries Content-Length as an int64 (Request.ContentLength / Response.ContentLength, -1 =
    unknown): a value that does not fit a non-negative int64 cannot be handed over faithfully -/
def ClRange (fs : List Field) : Prop := ∀ f ∈ fs, f.1 = nContentLength → decimalValue f.2 < 2 ^ 63

instance (fs) : Decidable (NameTokens fs) := by unfold NameTokens; infer_instance
instance (fs) : Decidable (ValueBytes fs) := by unfold ValueBytes; infer_instance
instance (fs) : Decidable (NoConnectionSpecific fs) := by unfold NoConnectionSpecific; infer_instance
instance (fs) : Decidable (TeTrailers fs) := by unfold TeTrailers; infer_instance
instance (r fs) : Decidable (PseudoKnown r fs) := by unfold PseudoKnown; infer_instance
instance (fs) : Decidable (PseudoFirst fs) := by unfold PseudoFirst; infer_instance
instance (fs) : Decidable (PseudoUnique fs) := by unfold PseudoUnique; infer_instance
instance (fs) : Decidable (ClSingle fs) := by unfold ClSingle; infer_instance
instance (fs) : Decidable (ClNumeric fs) := by unfold ClNumeric; infer_instance
instance (l fs) : Decidable (SizeOk l fs) := by unfold SizeOk; infer_instance
instance (fs) : Decidable (ClRange fs) := by unfold ClRange; infer_instance

/-- A header section that is safe to hand to net/http (the property's first sentence). -/
structure WellFormed (isReq : Bool) (limit : Int) (fs : List Field) : Prop where
  name_tokens : NameTokens fs
  value_bytes : ValueBytes fs
  no_connection_specific : NoConnectionSpecific fs
  te_trailers : TeTrailers fs
  pseudo_known : PseudoKnown isReq fs
  pseudo_first : PseudoFirst fs
  pseudo_unique : PseudoUnique fs
  cl_single : ClSingle fs
  cl_numeric : ClNumeric fs
  cl_range : ClRange fs
  size_ok : SizeOk limit fs

/-- names of the clauses that fail (what the oracle's monitor reports) -/
def failingClauses (isReq : Bool) (limit : Int) (fs : List Field) : List String :=
  (if decide (NameTokens fs) then [] else ["name_tokens"]) ++
  (if decide (ValueBytes fs) then [] else ["value_bytes"]) ++
  (if decide (NoConnectionSpecific fs) then [] else ["connection_specific"]) ++
  (if decide (TeTrailers fs) then [] else ["te"]) ++
  (if decide (PseudoKnown isReq fs) then [] else ["pseudo_known"]) ++
  (if decide (PseudoFirst fs) then [] else ["pseudo_first"]) ++
  (if decide (PseudoUnique fs) then [] else ["pseudo_unique"]) ++
  (if decide (ClSingle fs) then [] else ["cl_single"]) ++
  (if decide (ClNumeric fs) then [] else ["cl_numeric"]) ++
  (if decide (ClRange fs) then [] else ["cl_range"]) ++
  (if decide (SizeOk limit fs) then [] else ["size"])

/-- A trailer section (RFC 9114 §4.1: no pseudo-header fields; RFC 9110 §6.5.1 forbids fields needed
    for framing, routing, authentication, request modifiers, content handling in trailers). -/
def trailerForbidden : List (List Nat) := [
  B "authorization", B "cache-control", B "connection", B "content-encoding", B "content-length",
  B "content-range", B "content-type", B "expect", B "host", B "keep-alive", B "max-forwards",
  B "pragma", B "proxy-authenticate", B "proxy-authorization", B "proxy-connection", B "range",
  B "realm", B "te", B "trailer", B "transfer-encoding", B "www-authenticate"]

def NoPseudo (fs : List Field) : Prop := ∀ f ∈ fs, isPseudoName f.1 = false
def NoTrailerForbidden (fs : List Field) : Prop :=
  ∀ f ∈ fs, f.1 ∉ trailerForbidden ∧ (B "if-").isPrefixOf f.1 = false
instance (fs) : Decidable (NoPseudo fs) := by unfold NoPseudo; infer_instance
instance (fs) : Decidable (NoTrailerForbidden fs) := by unfold NoTrailerForbidden; infer_instance

structure TrailersWellFormed (limit : Int) (fs : List Field) : Prop where
  no_pseudo : NoPseudo fs
  name_tokens : NameTokens fs
  value_bytes : ValueBytes fs
  no_connection_specific : NoConnectionSpecific fs
  not_forbidden : NoTrailerForbidden fs
  size_ok : SizeOk limit fs

def trailerFailingClauses (limit : Int) (fs : List Field) : List String :=
  (if decide (NoPseudo fs) then [] else ["pseudo"]) ++
  (if decide (NameTokens fs) then [] else ["name_tokens"]) ++
  (if decide (ValueBytes fs) then [] else ["value_bytes"]) ++
  (if decide (NoConnectionSpecific fs) then [] else ["connection_specific"]) ++
  (if decide (NoTrailerForbidden fs) then [] else ["trailer_forbidden"]) ++
  (if decide (SizeOk limit fs) then [] else ["size"])

end Uquic.Spec.H3Fields
