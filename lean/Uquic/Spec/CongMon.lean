/-
Executable monitors of property C20.  They judge what the *implementation* printed (its
congestion window, slow-start flag, answers to CanSend / HasPacingBudget / Budget / SendMode)
against ghost state that is computed from the operations only — never from the model's state —
so that they stay meaningful when model and code disagree.

The property, clause by clause:
 (1) 2·MDS ≤ cwnd ≤ MaxCongestionWindowPackets·MDS + MDS after every operation;
 (2) cwnd never decreases on an acknowledgement; it decreases only on a loss whose packet number
     is above the largest packet sent at the previous cut-back (once per window of packets);
 (3) cwnd grows only on an acknowledgement outside recovery while the sender is window-limited
     (by a multiple of MDS, at most one per acknowledged packet) — or by SetMaxDatagramSize
     lifting it to exactly the new lower bound 2·MDS;
 (4) CanSend(bytesInFlight) / SendMode ∈ {any, pacing-limited} only while bytesInFlight < cwnd;
 (5) Budget ≤ one burst; bytes authorised by HasPacingBudget over any interval ≤ one burst +
     Σ ⌊1.25·bw·max(0,Δt)⌋ where bw = cwnd·10⁹/srtt is the implementation's own estimate and Δt the
     difference of consecutive send time stamps, in whatever order they come.
-/
import Uquic.Model.Cong.Sender

namespace Uquic.Spec.CongMon

open Uquic.Model.Cong

/-- the bandwidth (bytes/s, times 5/4) the property allows the pacer to use: ideal (unbounded)
arithmetic on the implementation's window and the estimator's smoothed RTT.  Every 64-bit
wrap-around in the code can only make the code's value smaller. -/
def idealAdjBw (cwnd : Nat) (srtt : Int) : Nat :=
  let d := if srtt = 0 then u64OfI64 timerGranularity else u64OfI64 srtt
  (cwnd * nsPerSecond / d) * 5 / 4

/-- one burst: what `maxBurstSize` may be at most -/
def idealBurst (cwnd : Nat) (srtt : Int) (pmds : Nat) : Nat :=
  Max.max (idealAdjBw cwnd srtt * (minPacingDelay + timerGranularity).toNat / nsPerSecond) (maxBurstSizePackets * pmds)

/-- bytes the pacer may add over `dt` nanoseconds -/
def idealAllowance (cwnd : Nat) (srtt : Int) (dt : Int) : Nat :=
  if dt > 0 then idealAdjBw cwnd srtt * dt.toNat / nsPerSecond else 0

structure Ghost where
  mds : Nat                       -- the sender's max datagram size (from new / mds operations)
  pmds : Nat                      -- the pacer's (1280 until the first SetMaxDatagramSize)
  srtt : Int
  largestSent : Int := -1         -- last ack-eliciting packet number sent
  largestAcked : Int := -1
  cutPN : Int := -1               -- largest sent when the current loss epoch started
  /-- pacer interval monitor: `some d` = max over start points j of
      (authorised bytes since send j) − burst_j − (allowance since send j) -/
  excess : Option Int := none
  lastSendT : Option Int := none
  /-- send times so far were positive and below 2^62 (they need not be monotonic) -/
  timeOK : Bool := true
deriving Repr

def Ghost.init (mds : Nat) (srtt : Int) : Ghost :=
  { mds := mds, pmds := pacerInitialMDS, srtt := srtt }

abbrev Fail := String × String × String

/-- (1) window bounds for the current datagram size -/
def checkBounds (g : Ghost) (w : Nat) : List Fail :=
  (if w < 2 * g.mds then [("cwnd_lower_bound", "-", s!"cwnd={w} < 2*{g.mds}")] else []) ++
  (if w > maxCwndPackets * g.mds + g.mds then [("cwnd_upper_bound", "-", s!"cwnd={w} > {maxCwndPackets}*{g.mds}+{g.mds}")] else [])

/-- `isCwndLimited` as the property understands it, on the implementation's pre-state outputs -/
def limited (mds w prior : Nat) (inSS : Bool) : Bool :=
  prior ≥ w || (inSS && prior > w / 2) || w - prior ≤ maxBurstPackets * mds

/-- acknowledgement of `n` consecutive packets starting at `pn`, all with the same
`priorInFlight` (one ACK frame).  `w`/`inSS` = implementation outputs before, `w'` after. -/
def onAcked (g : Ghost) (pn : Int) (n : Nat) (prior : Nat) (w : Nat) (inSS : Bool) (w' : Nat) : Ghost × List Fail :=
  -- packet numbers are int64 in the driver: a batch running past 2^63-1 wraps, its maximum is then 2^63-1
  let top := if pn + (n : Int) - 1 < 2 ^ 63 then pn + (n : Int) - 1 else 2 ^ 63 - 1
  let la := if n = 0 then g.largestAcked else Max.max g.largestAcked top
  let g' := { g with largestAcked := la }
  let fails : List Fail :=
    (if w' < w then [("no_decrease_on_ack", "-", s!"cwnd {w} -> {w'} on acked pn={pn} n={n}")] else []) ++
    (if w' > w then
      (if !limited g.mds w prior inSS then [("growth_only_when_limited", "-", s!"cwnd {w} -> {w'} with priorInFlight={prior} inSlowStart={inSS}")] else []) ++
      (if la ≠ -1 ∧ la ≤ g.cutPN then [("no_growth_in_recovery", "-", s!"cwnd {w} -> {w'} largestAcked={la} <= cutback={g.cutPN}")] else []) ++
      (if w ≥ maxCwndPackets * g.mds then [("no_growth_at_max", "-", s!"cwnd {w} -> {w'}")] else []) ++
      (if g.mds = 0 ∨ (w' - w) % g.mds ≠ 0 ∨ w' - w > n * g.mds then [("growth_step", "-", s!"cwnd {w} -> {w'} for {n} acks, mds={g.mds}")] else [])
     else [])
  (g', fails)

/-- a loss declaration -/
def onLost (g : Ghost) (pn : Int) (w w' : Nat) : Ghost × List Fail :=
  if pn ≤ g.cutPN then
    (g, (if w' < w then [("shrinks_once_per_window", "-", s!"cwnd {w} -> {w'} on loss of pn={pn} <= largest sent at last cut-back {g.cutPN}")] else []) ++
        (if w' > w then [("growth_on_loss", "-", s!"cwnd {w} -> {w'}")] else []))
  else
    ({ g with cutPN := g.largestSent }, if w' > w then [("growth_on_loss", "-", s!"cwnd {w} -> {w'}")] else [])

/-- SetMaxDatagramSize(m) that did not panic -/
def onMDS (g : Ghost) (m : Nat) (w w' : Nat) : Ghost × List Fail :=
  ({ g with mds := m, pmds := m },
   (if w' < w then [("shrink_on_mds", "-", s!"cwnd {w} -> {w'}")] else []) ++
   (if w' > w ∧ ¬ (w < 2 * m ∧ w' = 2 * m) then [("growth_on_mds", "-", s!"cwnd {w} -> {w'} m={m}")] else []))

/-- any other operation must leave the window alone -/
def onOther (w w' : Nat) (what : String) : List Fail :=
  if w' ≠ w then [("cwnd_changed_by_" ++ what, "-", s!"cwnd {w} -> {w'}")] else []

/-- a packet of `size` bytes handed to the pacer at time `t`; `hb` = what HasPacingBudget(t)
answered just before; `w` the implementation's window -/
def onSent (g : Ghost) (t : Int) (pn : Int) (size : Nat) (retrans : Bool) (hb : Bool) (w : Nat) : Ghost × List Fail :=
  let g := if retrans then { g with largestSent := pn } else g
  -- any order of time stamps is judged (a stamp earlier than the previous send earns no tokens);
  -- only stamps outside (0, 2^62) — the pacer's "never sent" value and int64 wrap-around — switch it off
  let ok := g.timeOK && decide (t > 0) && decide (t < 2 ^ 62)
  if !ok then ({ g with timeOK := false, excess := none, lastSendT := some t }, [])
  else
    let cnt : Int := if hb && decide (size ≤ g.mds) then size else 0
    let burst : Int := idealBurst w g.srtt g.pmds
    let fresh : Int := cnt - burst
    let d : Int := match g.excess, g.lastSendT with
      | some e, some t0 => Max.max fresh (e + cnt - (idealAllowance w g.srtt (t - t0) : Nat))
      | _, _ => fresh
    ({ g with excess := some d, lastSendT := some t },
     if d > 0 then [("pacer_interval_bound", "-", s!"authorised bytes exceed burst+1.25*bw*dt by {d} at t={t} (cwnd={w} srtt={g.srtt})")] else [])

/-- Budget(now) query -/
def onBudget (g : Ghost) (b : Nat) (w : Nat) : List Fail :=
  if b > idealBurst w g.srtt g.pmds then [("pacer_budget_cap", "-", s!"budget={b} > burst={idealBurst w g.srtt g.pmds}")] else []

end Uquic.Spec.CongMon
