/-
Executable helpers and monitor predicates for C01 (sender side / pair / datagram queue drivers).
Monitors are judged on what the implementation printed, against ghost state derived from the ops.
Core-only.
-/
import Uquic.Model.Stream.Send

namespace Uquic.Spec.SendMon
open Uquic.Model.Stream.Send

/-! ### hex -/

def hexDigit (n : Nat) : Char :=
  if n < 10 then Char.ofNat (48 + n) else Char.ofNat (87 + n)

def hexOfBytes (b : Bytes) : String :=
  String.ofList (b.foldr (fun x acc => hexDigit (x.toNat / 16) :: hexDigit (x.toNat % 16) :: acc) [])

def hexVal (c : Char) : Nat :=
  if '0' ≤ c && c ≤ '9' then c.toNat - 48
  else if 'a' ≤ c && c ≤ 'f' then c.toNat - 87
  else if 'A' ≤ c && c ≤ 'F' then c.toNat - 55
  else 0

def bytesOfHexChars : List Char → Bytes
  | a :: b :: rest => UInt8.ofNat (hexVal a * 16 + hexVal b) :: bytesOfHexChars rest
  | _ => []

/-- "-" and "" are the empty string -/
def bytesOfHex (s : String) : Bytes :=
  if s == "-" then [] else bytesOfHexChars s.toList

def hexOrDash (b : Bytes) : String := if b.isEmpty then "-" else hexOfBytes b

/-! ### byte-range bookkeeping -/

/-- is `i` inside one of the half-open ranges -/
def inRanges (rs : List (Nat × Nat)) (i : Nat) : Bool := rs.any fun r => decide (r.1 ≤ i) && decide (i < r.2)

/-- smallest position `≥ pos` not covered by the ranges (fuel = number of ranges + 1 passes) -/
def coveredFrom (rs : List (Nat × Nat)) (pos : Nat) : Nat :=
  let rec go (fuel : Nat) (pos : Nat) : Nat :=
    match fuel with
    | 0 => pos
    | fuel + 1 =>
      let next := rs.foldl (fun p r => if decide (r.1 ≤ p) && decide (p < r.2) then r.2 else p) pos
      if next == pos then pos else go fuel next
  go (rs.length + 1) pos

/-- `[0, upto)` is covered by the union of the ranges -/
def coversPrefix (rs : List (Nat × Nat)) (upto : Nat) : Bool := decide (upto ≤ coveredFrom rs 0)

def slice (w : Bytes) (off len : Nat) : Bytes := (w.drop off).take len

/-- frame data equals the written bytes at its offset -/
def frameFaithful (w : Bytes) (off : Nat) (d : Bytes) : Bool :=
  decide (off + d.length ≤ w.length) && slice w off d.length == d

def isPrefixOf (a w : Bytes) : Bool := decide (a.length ≤ w.length) && w.take a.length == a

end Uquic.Spec.SendMon
