/-
Independent functional specification of receivedPacketHistory (C07), written over the *set* of
tracked packet numbers instead of an interval list. It is the reference the monitors use (so that
they stay sharp beyond the range cap) and the abstract side of the refinement theorem
`Uquic.Props.C07.history_refines_set`.

  tracked : ascending list without repetition
  floor   : numbers below it have been forgotten on the peer's permission (DeleteBelow)
  cap     : when more than `cap` maximal runs exist, the lowest runs are forgotten
-/
import Uquic.Model.Ack.Rcv

namespace Uquic.Spec.RcvSet
open Uquic.Model.Rcv

/-- insert into an ascending list without repetition -/
def insertAsc (p : Int) : List Int → List Int
  | [] => [p]
  | x :: xs => if p < x then p :: x :: xs else if p = x then x :: xs else x :: insertAsc p xs

/-- maximal runs of consecutive numbers of an ascending list, as (start, end), HIGHEST run first
    (the order of `Backward()` / of an ACK frame) -/
def runsDescAux : List Int → List Range → List Range
  | [], acc => acc
  | x :: xs, [] => runsDescAux xs [(x, x)]
  | x :: xs, (s, e) :: acc => if x = e + 1 then runsDescAux xs ((s, x) :: acc) else runsDescAux xs ((x, x) :: (s, e) :: acc)

def runsDesc (l : List Int) : List Range := runsDescAux l []

structure SetHist where
  tracked : List Int := []
  floor : Int := invalidPN
deriving Repr, BEq, DecidableEq

/-- keep only the numbers of the `cap` highest runs -/
def capTo (cap : Nat) (l : List Int) : List Int :=
  let rs := runsDesc l
  if rs.length ≤ cap then l
  else match rs.take cap |>.getLast? with
    | some lowestKept => l.filter (fun x => decide (lowestKept.1 ≤ x))
    | none => []

def SetHist.recv (s : SetHist) (p : Int) : SetHist × Bool :=
  if p < s.floor then (s, false)
  else if s.tracked.contains p then (s, false)
  else ({ s with tracked := capTo maxNumAckRanges (insertAsc p s.tracked) }, true)

def SetHist.deleteBelow (s : SetHist) (p : Int) : SetHist :=
  if p < s.floor then s else { tracked := s.tracked.filter (fun x => decide (p ≤ x)), floor := p }

def SetHist.isDup (s : SetHist) (p : Int) : Bool := decide (p < s.floor) || s.tracked.contains p

def SetHist.ranges (s : SetHist) : List Range := runsDesc s.tracked

end Uquic.Spec.RcvSet
