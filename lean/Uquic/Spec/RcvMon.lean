/-
Executable monitors for C07, judged on what the implementation printed,
against ghost state derived from the operations only.
-/
import Uquic.Model.Ack.Rcv

namespace Uquic.Spec.RcvMon
open Uquic.Model.Rcv

/-- ranges (Smallest, Largest), highest first: each non-empty, strictly descending, non-adjacent
    (this is `validateAckRanges` of wire/ack_frame.go) -/
def rangesValid : List Range → Bool
  | [] => false
  | [r] => decide (r.1 ≤ r.2)
  | r :: q :: rest => decide (r.1 ≤ r.2) && decide (q.2 + 1 < r.1) && rangesValid (q :: rest)

def covers (rs : List Range) (q : Int) : Bool := rs.any (fun r => decide (r.1 ≤ q) && decide (q ≤ r.2))

/-- every number covered by `rs` is in `R` and `≥ floor` (bounded expansion: a range wider than
    `R` is long cannot be sound) -/
def coveredSubset (rs : List Range) (R : List Int) (floor : Int) : Bool :=
  rs.all fun r =>
    let w := (r.2 - r.1 + 1).toNat
    decide (w ≤ R.length) && decide (floor ≤ r.1) &&
      (List.range w).all (fun i => R.contains (r.1 + (i : Int)))

def maxOf : List Int → Option Int
  | [] => none
  | x :: xs => some (xs.foldl max x)

structure SpaceGhost where
  R : List Int := []              -- numbers handed to ReceivedPacket that were at/above the forget threshold
  unackedAE : List (Int × Int) := []   -- accepted ack-eliciting packets not yet covered by a returned ACK
  lastAck : Option (List Range) := none
  dropped : Bool := false
deriving Repr

structure Ghost where
  ini : SpaceGhost := {}
  hs : SpaceGhost := {}
  app : SpaceGhost := {}
  forgetBelow : Int := 0          -- max IgnorePacketsBelow so far (app data)
  aeSinceAck : Nat := 0
deriving Repr

end Uquic.Spec.RcvMon
