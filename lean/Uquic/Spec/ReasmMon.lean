/-
Specification side of C03, executable: the source byte string, the abstract received set
(`IvSet`, a normalised interval set = the domain of `Spec.ByteMap`), and the ghost bookkeeping the
monitors use.  Everything here is computed from the *operations* of a history only, never from the
model's state, so the monitors stay meaningful when model and code disagree.
-/
import Uquic.Model.Reassembly.Sorter

namespace Uquic.Spec.Reasm
open Uquic.Model.Reassembly

/-- the one underlying byte string of a case: byte `i` of the stream with salt `salt`.
Values are `< 199`, so the poison byte `0xEE` never occurs in it. -/
def srcByte (salt i : Nat) : UInt8 :=
  UInt8.ofNat ((((i % 4294967296) * 2654435761 + salt * 40503) / 128) % 199)

/-- bytes `[off, off+len)` of the source; `x ≠ 0` gives a *different* string (a peer that retransmits
other bytes: correspondence only, the content monitors are switched off). -/
def srcSeg (salt x off len : Nat) : Bytes :=
  (List.range len).map fun j => srcByte (salt + x) (off + j)

def poison : UInt8 := 0xEE

/-! ### interval sets: ascending, disjoint, non-adjacent half-open intervals -/

abbrev IvSet := List (Nat × Nat)

/-- insert `[a, b)` (`a < b`) -/
def ivInsert : IvSet → Nat → Nat → IvSet
  | [], a, b => [(a, b)]
  | (c, d) :: rest, a, b =>
    if b < c then (a, b) :: (c, d) :: rest
    else if d < a then (c, d) :: ivInsert rest a b
    else ivInsert rest (min a c) (max b d)

def ivCovers (s : IvSet) (p : Nat) : Bool := s.any fun iv => decide (iv.1 ≤ p) && decide (p < iv.2)

/-- is `[a, b)` a subset? -/
def ivCoversRange (s : IvSet) (a b : Nat) : Bool :=
  decide (b ≤ a) || s.any fun iv => decide (iv.1 ≤ a) && decide (b ≤ iv.2)

/-- end of the contiguous received run starting at `p` (`p` itself when `p` is missing) -/
def ivFrontier (s : IvSet) (p : Nat) : Nat :=
  match s.find? (fun iv => decide (iv.1 ≤ p) && decide (p < iv.2)) with
  | some iv => iv.2
  | none => p

/-- number of maximal missing intervals in `[0, ∞)` = length of the sorter's gap list -/
def ivGapCount : IvSet → Nat
  | [] => 1
  | (a, _) :: rest => (if a > 0 then 1 else 0) + rest.length + 1

/-- total number of bytes -/
def ivSize (s : IvSet) : Nat := s.foldl (fun acc iv => acc + (iv.2 - iv.1)) 0

def hexDigit (n : Nat) : Char :=
  if n < 10 then Char.ofNat (48 + n) else Char.ofNat (87 + n)

def hex (b : Bytes) : String :=
  String.ofList (b.flatMap fun x => [hexDigit (x.toNat / 16), hexDigit (x.toNat % 16)])

/-- FNV-1a, 64 bit -/
def fnv64 (b : Bytes) : UInt64 :=
  b.foldl (fun h x => (h ^^^ x.toUInt64) * 1099511628211) 14695981039346656037

def hex64 (v : UInt64) : String :=
  String.ofList ((List.range 16).map fun i => hexDigit ((v.toNat / 16 ^ (15 - i)) % 16))

/-- canonical text of a byte string on the line protocol: `<len>:<hex>` up to 24 bytes, `<len>:#<fnv64>` above -/
def fmtBytes (b : Bytes) : String :=
  if b.length ≤ 24 then s!"{b.length}:{hex b}" else s!"{b.length}:#{hex64 (fnv64 b)}"

/-- length announced by a `fmtBytes` token -/
def tokLen (t : String) : Nat := ((t.splitOn ":").headD "0").toNat?.getD 0

def unhexDigit (c : Char) : Nat :=
  if c.toNat ≥ 48 ∧ c.toNat ≤ 57 then c.toNat - 48
  else if c.toNat ≥ 97 ∧ c.toNat ≤ 102 then c.toNat - 87
  else 0

def unhexAux : List Char → Bytes
  | a :: b :: rest => UInt8.ofNat (unhexDigit a * 16 + unhexDigit b) :: unhexAux rest
  | _ => []

def unhex (s : String) : Bytes := unhexAux s.toList

/-- first index where `got` differs from the source at `off`, if any -/
def firstMismatch (salt off : Nat) (got : Bytes) : Option Nat :=
  (List.range got.length).find? fun j => got.getD j 0 ≠ srcByte salt (off + j)

end Uquic.Spec.Reasm
