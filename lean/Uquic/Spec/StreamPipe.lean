/-
C01 composition: sender model  →  network (any emitted frame delivered any number of times, in any order,
or never)  →  an ABSTRACT reliable reassembler given only by the contract `ReassemblyContract`
(the receive side — frame_sorter.go / receive_stream.go — is property C03, whose theorem is meant to
discharge this contract).  Core-only.
-/
import Uquic.Spec.SendRun

namespace Uquic.Spec.StreamPipe
open Uquic.Model.Stream.Send Uquic.Spec.SendRun

/-- what arrives at the receiver: the (offset, data, fin) of a STREAM frame -/
structure Segment where
  off : Nat
  data : Bytes
  fin : Bool
deriving Repr, DecidableEq

/-- a receive side: state, the two operations, and two ghost observations -/
structure Reassembler where
  R : Type
  init : R
  deliver : R → Segment → R
  /-- `Read` with a buffer of `n` bytes: new state, bytes returned, io.EOF reported -/
  read : R → Nat → R × Bytes × Bool
  /-- ghost: every segment handed in so far -/
  segs : R → List Segment
  /-- ghost: concatenation of everything `read` returned so far -/
  out : R → Bytes

inductive Reach (A : Reassembler) : A.R → Prop
  | init : Reach A A.init
  | deliver {r} (s : Segment) : Reach A r → Reach A (A.deliver r s)
  | read {r} (n : Nat) : Reach A r → Reach A (A.read r n).1

/-- positions `[0, c)` are covered by the union of the segments -/
def CoveredUpTo (segs : List Segment) (c : Nat) : Prop :=
  ∀ i, i < c → ∃ s ∈ segs, s.off ≤ i ∧ i < s.off + s.data.length

/-- every segment is a piece of the one source string `W` -/
def Consistent (W : Bytes) (segs : List Segment) : Prop := ∀ s ∈ segs, s.data <+: W.drop s.off

/-- The contract of a reliable reassembler: "the bytes readable so far are the longest prefix covered by
    the union of the delivered segments; EOF exactly when the FIN offset is reached". -/
structure ReassemblyContract (A : Reassembler) : Prop where
  segs_init : A.segs A.init = []
  out_init : A.out A.init = []
  segs_deliver : ∀ r s, Reach A r → ∀ x, x ∈ A.segs (A.deliver r s) ↔ x = s ∨ x ∈ A.segs r
  out_deliver : ∀ r s, Reach A r → A.out (A.deliver r s) = A.out r
  segs_read : ∀ r n, Reach A r → A.segs (A.read r n).1 = A.segs r
  out_read : ∀ r n, Reach A r → A.out (A.read r n).1 = A.out r ++ (A.read r n).2.1
  /-- every byte read was taken, at its position, from some delivered segment -/
  from_segment : ∀ r, Reach A r → ∀ i, i < (A.out r).length →
      ∃ s ∈ A.segs r, s.off ≤ i ∧ i < s.off + s.data.length ∧ (A.out r)[i]? = s.data[i - s.off]?
  read_len : ∀ r n, Reach A r → (A.read r n).2.1.length ≤ n
  /-- EOF is reported only when the position reached is the end of a delivered FIN segment -/
  eof_sound : ∀ r n, Reach A r → (A.read r n).2.2 = true →
      ∃ s ∈ A.segs r, s.fin = true ∧ s.off + s.data.length = (A.out (A.read r n).1).length
  /-- whatever is covered contiguously can be read (up to the buffer size) -/
  progress : ∀ r n W c, Reach A r → Consistent W (A.segs r) → CoveredUpTo (A.segs r) c → (A.out r).length ≤ c →
      min n (c - (A.out r).length) ≤ (A.read r n).2.1.length
  /-- once the whole source string has been read and its end is the end of a delivered FIN segment,
      `Read` reports EOF -/
  eof_complete : ∀ r n W, Reach A r → Consistent W (A.segs r) → 0 < n → W.length = (A.out r).length →
      (∃ s ∈ A.segs r, s.fin = true ∧ s.off + s.data.length = (A.out r).length) → (A.read r n).2.2 = true

/-- the frame as the receiver sees it -/
def segOf (f : Frame) : Segment := { off := f.offset, data := f.data, fin := f.fin }

/-- one step of the composed system -/
inductive PipeOp where
  | snd (op : Op)              -- any step of the sender
  | deliver (k : Nat)          -- the network delivers (a copy of) the k-th frame the sender ever emitted
  | read (n : Nat)             -- the application reads with an n-byte buffer
deriving Repr

structure Pipe (A : Reassembler) where
  s : State
  r : A.R
  /-- ghost: some `read` reported EOF -/
  eofSeen : Bool := false

def pipeStep {A : Reassembler} (p : Pipe A) : PipeOp → Pipe A
  | .snd op => { p with s := stepOp p.s op }
  | .deliver k =>
    match p.s.emitted[k]? with
    | some f => { p with r := A.deliver p.r (segOf f) }
    | none => p
  | .read n => { p with r := (A.read p.r n).1, eofSeen := p.eofSeen || (A.read p.r n).2.2 }

def pipeInit (A : Reassembler) (sid : Nat) (sup : Bool) : Pipe A := { s := init sid sup, r := A.init }

def pipeRun {A : Reassembler} (p : Pipe A) (ops : List PipeOp) : Pipe A := ops.foldl pipeStep p

/-- the sender part of a pipe history -/
def sndOps : List PipeOp → List Op
  | [] => []
  | .snd op :: rest => op :: sndOps rest
  | _ :: rest => sndOps rest

end Uquic.Spec.StreamPipe
