/-
Executable monitors for C16, the way of a datagram from the socket to the unpacker (driver `cidrx`). They judge what
the implementation printed for a datagram - who the transport handed it to, which packets of it the connection asked
the unpacker to open - against the datagram itself (the operation's text) and the routing table the implementation
printed on the same line (never the model's state).
-/
import Uquic.Model.ConnID.Receive

namespace Uquic.Spec.CidRxMon
open Uquic.Model.ConnID

/-- connection IDs the printed routing table routes to the connection under study -/
def routedToConn (rt : List (Bytes × String)) : List Bytes :=
  (rt.filter fun e => e.2 == "conn").map (·.1)

def hexDigit (n : Nat) : Char := if n < 10 then Char.ofNat (48 + n) else Char.ofNat (87 + n)

def hx (b : Bytes) : String :=
  if b.isEmpty then "-" else String.ofList (b.flatMap fun x => [hexDigit (x / 16 % 16), hexDigit (x % 16)])

/-- `idLen`: the length of the endpoint's connection IDs; `pkts`: the datagram; `to`, `rx`: what was printed -/
def judge (idLen : Nat) (pkts : List Pkt) (rt : List (Bytes × String)) (to : String) (rx : List Seen) :
    List (String × String × String) :=
  let routed := routedToConn rt
  let by_ := routeID idLen pkts
  -- a packet addressed to a connection ID that is not (or not any more) one of the connection's reached it
  (match rx.find? fun s => !routed.contains s.dcid with
   | some s => [("foreign_or_retired_id_reaches_connection", "-",
       s!"a packet addressed to connection ID {hx s.dcid}, which the transport does not route to the connection, was handed to the connection's unpacker")]
   | none => []) ++
  -- every packet coalesced into a datagram must carry the connection ID the datagram was routed by
  (match rx.find? fun s => some s.dcid != by_ with
   | some s => [("coalesced_packet_other_id_processed", "-",
       s!"the datagram was routed by connection ID {match by_ with | some i => hx i | none => "?"}; a packet of it addressed to {hx s.dcid} was handed to the connection's unpacker")]
   | none => []) ++
  (if to != "conn" && !rx.isEmpty then
     [("unrouted_datagram_reaches_connection", "-", s!"the transport handed the datagram to '{to}', yet the connection processed packets of it")]
   else []) ++
  -- precisely: a datagram addressed to an issued, unexpired ID is handed to the connection
  (match by_ with
   | some i => if routed.contains i && to != "conn" then
       [("issued_id_not_routed", "-", s!"a datagram addressed to connection ID {hx i} (routed to the connection) was handed to '{to}'")]
     else []
   | none => [])

end Uquic.Spec.CidRxMon
