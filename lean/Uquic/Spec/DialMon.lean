/-
Text plumbing and executable monitors for the `dial` driver (property C02). Monitors judge what the implementation
printed against facts taken from the op text only.
-/
import Uquic.Model.UQuic.Dial

namespace Uquic.Spec.DialMon
open Uquic.Model.UQuic.Dial

/-- a bracketed section `K[ tok … ]` of a result line, or a loose token (`kind = ""`) -/
structure Sec where
  kind : String
  toks : List String
deriving Repr, BEq

def words (s : String) : List String := (s.splitOn " ").filter (· ≠ "")

partial def parseSecs : List String → List Sec
  | [] => []
  | t :: rest =>
    if t.endsWith "[" then
      let body := rest.takeWhile (· ≠ "]")
      let after := (rest.dropWhile (· ≠ "]")).drop 1
      { kind := (t.dropEnd 1).toString, toks := body } :: parseSecs after
    else { kind := "", toks := [t] } :: parseSecs rest

def Sec.render (s : Sec) : String :=
  if s.kind == "" then " ".intercalate s.toks else s!"{s.kind}[ {" ".intercalate s.toks} ]"

def renderSecs (l : List Sec) : String := " ".intercalate (l.map Sec.render)

def getKV (toks : List String) (k : String) : Option String :=
  toks.findSome? fun t => if t.startsWith (k ++ "=") then some (t.drop (k.length + 1)).toString else none

def setKV (toks : List String) (k v : String) : List String :=
  toks.map fun t => if t.startsWith (k ++ "=") then s!"{k}={v}" else t

def dNat (s : String) : Nat := s.toNat?.getD 0

def hexVal (c : Char) : Option Nat :=
  if '0' ≤ c ∧ c ≤ '9' then some (c.toNat - '0'.toNat)
  else if 'a' ≤ c ∧ c ≤ 'f' then some (c.toNat - 'a'.toNat + 10) else none

def hexBytes : List Char → Option (List Nat)
  | [] => some []
  | [_] => none
  | a :: b :: rest => do
    let x ← hexVal a; let y ← hexVal b; let r ← hexBytes rest
    pure ((16 * x + y) :: r)

def hexDigit (n : Nat) : Char := if n < 10 then Char.ofNat (48 + n) else Char.ofNat (87 + n)

def toHex (b : List Nat) : String := String.ofList (b.flatMap fun x => [hexDigit (x / 16 % 16), hexDigit (x % 16)])

/-- `x0a8f52` → bytes; `-` (nothing observed) → none -/
def connIDOf (s : String) : Option ConnID :=
  if s.startsWith "x" then hexBytes (s.drop 1).toString.toList else none

def fmtConnID : Option ConnID → String
  | none => "-"
  | some b => "x" ++ toHex b

/-- the `isc=` fact: N (not listed) | E (listed empty) | X:<hex> -/
def iscOf (s : String) : Option ConnID :=
  if s == "E" then some [] else if s.startsWith "X:" then hexBytes (s.drop 2).toString.toList else none

def fmtIsc : Option ConnID → String
  | none => "N"
  | some [] => "E"
  | some b => "X:" ++ toHex b

/-- the spec facts of an `S[ … ]` section (`S[ nil ]`: no spec) -/
def specOf (toks : List String) : Option Spec :=
  if toks.head? == some "nil" then none else
  some { scidLen := dNat ((getKV toks "scid").getD "0"), dcidLen := dNat ((getKV toks "dcid").getD "0"),
         hasQTP := getKV toks "qtp" == some "1", iscid := iscOf ((getKV toks "isc").getD "N"),
         suppIscid := getKV toks "supp15" == some "1", ksPinned := getKV toks "ks" == some "1",
         tokLen := dNat ((getKV toks "tok").getD "0") }

/-- re-render an `S` section with the model's `isc`/`ks` -/
def renderSpecToks (orig : List String) (s : Spec) : List String :=
  setKV (setKV orig "isc" (fmtIsc s.iscid)) "ks" (if s.ksPinned then "1" else "0")

/-- derivation tokens (`der=`) that take the spec outside the property's family: a parameter the peer requires is
    removed or falsified, the DCID is shorter than a server accepts, the datagram floor is below the legal minimum -/
def breakingToken (t : String) : Bool :=
  match t.splitOn ":" with
  | ["supp", v] => (v.splitOn ".").contains "15"
  | ["iscidx", _] => true
  | ["dcid", v] => let n := dNat v; decide (0 < n ∧ n < 8)
  | ["min", v] => let n := dNat v; decide (0 < n ∧ n < 1200)
  | ["noqtp"] => true
  | _ => false

def derTokens (der : String) : List String := if der == "-" then [] else der.splitOn ","

def opWellFormed (der : String) : Bool := !(derTokens der).any breakingToken

/-- `up=<len>:<sha(sent)>:<sha(received)>`: exactly 10 KiB arrived and it is what was sent -/
def dataOK (v : String) : Bool :=
  match v.splitOn ":" with
  | [l, a, b] => l == "10240" && a == b && a ≠ "-"
  | _ => false

/-- parrot-table label of a `base=` id -/
def parrotLabel : String → Option String
  | "F116A" | "F116" => some "QUICFirefox_116A"
  | "F116B" => some "QUICFirefox_116B"
  | "F116C" => some "QUICFirefox_116C"
  | "C115v4" | "C115" => some "QUICChrome_115_IPv4"
  | "C115v6" => some "QUICChrome_115_IPv6"
  | "C146v4" | "C146" => some "QUICChrome_146_IPv4"
  | "C146v6" => some "QUICChrome_146_IPv6"
  | _ => none

end Uquic.Spec.DialMon
