/-
Executable monitors of property C13 on ONE delivered datagram: they judge what the implementation
did (its state before and after as read through the hook, and its reactions read from qlog) and never
look at the model's prediction.  The same predicates are what the theorems of `Uquic.Props.C13` prove
about the model (`gateDatagram`).
-/
import Uquic.Model.Handshake.Gate

namespace Uquic.Spec.GateMon
open Uquic.Model.Handshake

/-- the fields of the gate state a forged packet must never move -/
def coreEq (a b : GateState) : Bool :=
  a.version == b.version && a.receivedFirstPacket == b.receivedFirstPacket && a.receivedRetry == b.receivedRetry &&
  a.versionNegotiated == b.versionNegotiated && a.handshakeDestConnID == b.handshakeDestConnID &&
  a.origDestConnID == b.origDestConnID && a.retrySrcConnID == b.retrySrcConnID && a.destConnID == b.destConnID

/-- a reaction as observed: `drop`, `buffered`, nothing, or something that has an effect -/
inductive Obs | dropped | buffered | nothing | received | retryAccepted | vnRecreate | vnFail
deriving DecidableEq, Repr

def Obs.inert : Obs → Bool
  | .dropped | .buffered | .nothing => true
  | _ => false

/-- a Retry whose integrity tag does not verify for the connection ID in use -/
def badRetry (pre : GateState) (p : PacketSummary) : Bool :=
  p.kind == .retry && p.retryTagFor != some pre.destConnID

/-- a packet that must have no effect in state `pre`, whatever else is going on -/
def mustBeInert (pre : GateState) (p : PacketSummary) : Bool :=
  match p.kind with
  | .retry => pre.perspective == .server || badRetry pre p || pre.receivedFirstPacket || pre.receivedRetry || p.srcConnID == pre.destConnID
  | .vn => pre.perspective == .server || pre.receivedFirstPacket || pre.versionNegotiated || p.vnVersions.contains pre.version
  | .initial => !p.opens || (pre.receivedFirstPacket && p.srcConnID != pre.handshakeDestConnID)
  | _ => !p.opens

end Uquic.Spec.GateMon
