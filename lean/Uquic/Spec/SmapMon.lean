/-
Executable monitors for C15.  The ghost state is computed from the operations and from what the
implementation printed (never from the model's state), so the monitors stay meaningful when model
and code disagree.
-/
import Uquic.Model.Streams.Basic

namespace Uquic.Spec.SmapMon
open Uquic.Model.Streams

/-- ghost state of one stream type (both directions) -/
structure TG where
  -- incoming direction (the peer opens)
  inFirst : Int
  inLimit : Int
  /-- highest id the peer may open according to what the implementation advertised -/
  advMax : Int
  /-- last stream count advertised (initial limit, then MAX_STREAMS values) -/
  lastMS : Int
  /-- highest incoming id the implementation accepted a frame for -/
  inHighest : Int
  /-- incoming ids whose DeleteStream returned nil -/
  inDeleted : List Int := []
  /-- the id the next successful AcceptStream has to return -/
  accNext : Int
  accWaiting : List Nat := []
  -- outgoing direction (this side opens)
  outNext : Int
  /-- stream count granted by the peer (MAX_STREAMS / transport parameters seen so far) -/
  peerLimit : Int := 0
  sbSent : List Int := []
  /-- blocked OpenStreamSync callers in arrival order -/
  syncQ : List Nat := []
deriving Repr

def TG.fresh (t : STyp) (pers : Persp) (limit : Int) : TG :=
  { inFirst := firstIncoming t pers, inLimit := limit
    advMax := numToID limit t pers.opposite, lastMS := limit
    inHighest := firstIncoming t pers - 4, accNext := firstIncoming t pers
    outNext := firstOutgoing t pers }

structure Ghost where
  pers : Persp := .client
  b : TG := TG.fresh .bidi .client 0
  u : TG := TG.fresh .uni .client 0
  /-- caller id ↦ (is a sync opener, stream type) -/
  kinds : List (Nat × Bool × STyp) := []
  closed : Bool := false
  reset : Bool := false
  dead : Bool := false
  /-- the peer's (bidi, uni) stream counts at the moment of the last ResetFor0RTT: what a resumed client
      remembered; only used for coverage tags and diagnostics, the limits in force start over -/
  prevPeer : Option (Int × Int) := none
deriving Repr

def Ghost.fresh (pers : Persp) (lb lu : Int) : Ghost :=
  { pers := pers, b := TG.fresh .bidi pers lb, u := TG.fresh .uni pers lu }

def Ghost.tg (g : Ghost) : STyp → TG
  | .bidi => g.b
  | .uni => g.u
def Ghost.setTG (g : Ghost) (t : STyp) (x : TG) : Ghost :=
  match t with
  | .bidi => { g with b := x }
  | .uni => { g with u := x }

/-- number of incoming streams of this type the peer holds open: opened minus completed -/
def TG.openCount (x : TG) : Int := (x.inHighest - x.inFirst) / 4 + 1 - x.inDeleted.length

/-- streams that were both returned by AcceptStream and deleted -/
def TG.fullyDone (x : TG) : Int := (x.inDeleted.filter (· < x.accNext)).length

/-- highest id this side may open -/
def TG.outMax (x : TG) (t : STyp) (pers : Persp) : Int := numToID x.peerLimit t pers

end Uquic.Spec.SmapMon
