/-
Executable monitors for C16, judged on what the implementation printed
(callbacks it made and the state it exposes), against ghost state derived from
the operations and those outputs only — never from the model's state.
-/
import Uquic.Model.ConnID.Routing

namespace Uquic.Spec.CidMon
open Uquic.Model.ConnID

abbrev Fail := String × String × String

/-- what the implementation exposes of the manager after an operation -/
structure ImplM where
  aSeq : Nat := 0
  aId : Bytes := []
  aTok : Option Bytes := none
  q : List Nat := []
  /-- (path, seq, token) -/
  p : List (Nat × Nat × Bytes) := []
  per : Nat := 0
  /-- tokens registered in the real handler map -/
  rt : List Bytes := []
deriving Repr

/-- sequence numbers in use: active, queued, path probing -/
def ImplM.inUse (s : ImplM) : List Nat := s.aSeq :: s.q ++ s.p.map (·.2.1)

def ImplM.expectedTokens (s : ImplM) : List Bytes :=
  (match s.aTok with | some t => [t] | none => []) ++ s.p.map (·.2.2)

def hasDup : List Nat → Bool
  | [] => false
  | x :: xs => xs.contains x || hasDup xs

def retiredIn (evs : List Ev) : List Nat :=
  evs.filterMap fun | .retire s => some s | _ => none

/-- multiset equality of token lists -/
def sameMultiset (a b : List Bytes) : Bool :=
  a.length == b.length && a.all (fun x => a.count x == b.count x)

def sameSet (a b : List Bytes) : Bool := a.all b.contains && b.all a.contains

def applyTokEv (reg : List Bytes) : Ev → List Bytes
  | .addTok t => t :: reg
  | .rmTok t => reg.erase t
  | .retire _ => reg

structure MGhost where
  /-- in-use sequence numbers after the previous operation (implementation's view) -/
  prevU : List Nat := [0]
  /-- every sequence number for which a RETIRE_CONNECTION_ID was queued so far -/
  retired : List Nat := []
  /-- sequence numbers the peer has delivered (incl. 0 and the preferred address' 1) -/
  received : List Nat := [0]
  /-- registered stateless reset tokens (multiset) according to the add/remove callbacks -/
  reg : List Bytes := []
  closed : Bool := false
  /-- a retired sequence number came back into use (the unretired count of the ghost is then not meaningful) -/
  tainted : Bool := false
  /-- the connection would have been closed already (an error / panic was returned, or `close` was called) -/
  dead : Bool := false
  lastPer : Nat := 0
  /-- tokens that were, at some time, registered twice at once according to the add/remove callbacks (two connection
      IDs in use carried the same stateless reset token) -/
  shared : List Bytes := []
deriving Repr

/-- tokens that become registered twice at once while the callbacks `evs` are applied to the multiset `reg` -/
def sharedIn : List Bytes → List Ev → List Bytes
  | _, [] => []
  | reg, .addTok t :: rest => (if reg.contains t then [t] else []) ++ sharedIn (t :: reg) rest
  | reg, e :: rest => sharedIn (applyTokEv reg e) rest

/-- Ledger monitors for one manager operation.
    `rcv` = the sequence number delivered by this operation (NEW_CONNECTION_ID / preferred address), if it was processed. -/
def ledger (g : MGhost) (evs : List Ev) (s : ImplM) (rcv : Option Nat) : List Fail × Bool :=
  let U := s.inUse
  let rs := retiredIn evs
  let before := g.prevU ++ (match rcv with | some r => if g.prevU.contains r then [] else [r] | none => [])
  let f1 : List Fail := if hasDup U then
      [("cid_one_place", "-", s!"a sequence number is held twice: in use = {U}")] else []
  let f2 : List Fail := (before.filter fun x => !U.contains x && !rs.contains x).map fun x =>
      ("retire_reported", "-", s!"sequence number {x} left the set of connection IDs in use without RETIRE_CONNECTION_ID")
  let f3 : List Fail := (rs.filter fun x => U.contains x).map fun x =>
      ("retire_not_in_use",
       "-",
       s!"RETIRE_CONNECTION_ID queued for sequence number {x}, which is still in use ({U})")
  let f4 : List Fail := if hasDup rs then
      [("retire_once", "-", s!"one operation queued RETIRE_CONNECTION_ID twice for a sequence number: {rs}")] else []
  let back := U.filter fun x => !g.prevU.contains x && g.retired.contains x
  let f5 : List Fail := back.map fun x =>
      ("retired_id_reused",
       "-",
       s!"sequence number {x} was retired (RETIRE_CONNECTION_ID queued earlier) and is in use again")
  let all := f1 ++ f2 ++ f3 ++ f4 ++ f5
  (all, !all.isEmpty)

def tokenMonitors (reg : List Bytes) (closed : Bool) (s : ImplM) (shared : List Bytes := []) : List Fail :=
  let expected := if closed then [] else s.expectedTokens
  -- known finding C16-shared-reset-token, and nothing else: the map holds no stale token, and every token it lacks was
  -- registered twice at once earlier (the map is a set: the first removal deleted the entry)
  let missing := expected.filter fun t => !s.rt.contains t
  let cls := if s.rt.all expected.contains && !missing.isEmpty && missing.all shared.contains then "shared_token" else "-"
  (if sameMultiset reg expected then [] else
    [("tokens_exact", "-", s!"add/remove token callbacks leave {reg.length} tokens registered, the IDs in use have {expected.length}")]) ++
  (if sameSet s.rt expected then [] else
    [("tokens_registered_exact", cls, s!"the handler map holds {s.rt.length} reset tokens, the IDs in use have {expected.length}")])

/-! ### generator / routing ghost -/

structure GGhost where
  inited : Bool := false
  /-- issued and not retired by the peer: seq ↦ id (from NEW_CONNECTION_ID frames queued) -/
  act : List (Nat × Bytes) := []
  /-- retired by the peer, still routed until the time given -/
  ret : List (Int × Bytes) := []
  icd : Option Bytes := none
  highest : Nat := 0
  /-- largest peer limit set so far (0 = none) -/
  limit : Nat := 0
  idLen : Nat := 0
  /-- close: none | removeAll | replaced (local, deadline on the fake clock) -/
  closed : Bool := false
  closedLocal : Bool := false
  closedIDs : List Bytes := []
  deadline : Int := 0
  clock : Int := 0
  /-- packets delivered to the closed stand-in so far -/
  closedPkts : Nat := 0
  /-- connection IDs a second connection registered after the first one closed -/
  second : List Bytes := []
deriving Repr

def GGhost.live (g : GGhost) : List Bytes :=
  (match g.icd with | some i => [i] | none => []) ++ g.act.map (·.2) ++ g.ret.map (·.2)

def issueBound (limit : Nat) : Nat := max 1 (min limit maxIssuedConnectionIDs)

/-- routes as printed by the implementation: (id, kind) -/
def routeMonitors (g : GGhost) (routes : List (Bytes × String)) : List Fail :=
  if !g.inited then [] else
  if !g.closed then
    let conn := (routes.filter (·.2 == "conn")).map (·.1)
    let other := routes.filter (·.2 != "conn")
    (if sameSet conn g.live then [] else
      [("routes_exact", "-", s!"{conn.length} IDs are routed to the connection, {g.live.length} are issued and not expired")]) ++
    (if other.isEmpty then [] else [("routes_exact", "-", "a closed stand-in is registered while the connection is alive")])
  else
    -- the second connection's entries must survive the first connection's expiry
    let lost := g.second.filter fun i => !routes.contains (i, "conn2")
    let routes := routes.filter fun kv => !(kv.2 == "conn2" && g.second.contains kv.1)
    let pending := g.closedIDs.filter fun i => g.clock < g.deadline && !g.second.contains i
    let want := if g.closedLocal then "local" else "remote"
    (lost.map fun _ => ("expiry_keeps_foreign_entry", "-",
      "the routing entry of the second connection is gone (or not its own) after the closed connection's expiry")) ++
    (if (routes.any (·.2 == "conn")) then [("clean_after_close", "-", "an ID is still routed to the closed connection")] else []) ++
    (if sameSet (routes.map (·.1)) pending then [] else
      [("clean_after_close", "-", s!"{routes.length} IDs registered after close, expected {pending.length}")]) ++
    (if routes.all (·.2 == want) then [] else [("clean_after_close", "-", s!"closed stand-in of the wrong kind, expected {want}")])

end Uquic.Spec.CidMon
