/-
Ghost state of the independent Initial-key observer (property C05, driver `retrykeys`): which connection
ID the Initial keys of BOTH directions must be derived from at each point of a handshake, computed from
the packets on the wire only (RFC 9001 §5.2):

* the Destination Connection ID of the client's first Initial packet;
* after the client answered a Retry — visible as a client Initial whose Destination Connection ID is the
  Source Connection ID of a Retry packet seen before — that Retry's Source Connection ID;
* later changes of the Destination Connection ID (the client adopting the server's own connection ID
  from its first Initial / Handshake packet) do not change the keys.
-/
namespace Uquic.Spec.RetryKeysMon

abbrev Bytes := List UInt8

inductive Item where
  /-- an Initial packet: sender is the client?, version (1|2), offset of the packet number, DCID, SCID,
      token length, the whole protected packet -/
  | initial (fromClient : Bool) (ver pnOffset : Nat) (dcid scid : Bytes) (tokenLen : Nat) (pkt : Bytes)
  /-- a Retry packet (server → client): version, DCID, SCID, the whole packet including the integrity tag -/
  | retry (ver : Nat) (dcid scid pkt : Bytes)

structure Ghost where
  /-- DCID of the client's first Initial -/
  orig : Option Bytes := none
  /-- SCIDs of the Retry packets the server sent so far -/
  retrySCIDs : List Bytes := []
  /-- the connection ID the Initial keys currently derive from -/
  cur : Bytes := []
  /-- largest Initial packet number opened so far, per direction -/
  hiC : Int := -1
  hiS : Int := -1

def Ghost.keyCID (g : Ghost) : Bytes := g.cur

def Ghost.onRetry (g : Ghost) (scid : Bytes) : Ghost := { g with retrySCIDs := g.retrySCIDs ++ [scid] }

/-- the client puts an Initial with Destination Connection ID `dcid` on the wire -/
def Ghost.onClientInitial (g : Ghost) (dcid : Bytes) : Ghost :=
  match g.orig with
  | none => { g with orig := some dcid, cur := dcid }
  | some o =>
    if dcid == o then { g with cur := o }
    else if g.retrySCIDs.contains dcid then { g with cur := dcid }
    else g

/-- the wire events that matter for the rule -/
inductive WireEv where
  | clientInitial (dcid : Bytes)
  | retry (scid : Bytes)

def Ghost.onEv (g : Ghost) : WireEv → Ghost
  | .clientInitial d => g.onClientInitial d
  | .retry s => g.onRetry s

def Ghost.after (g : Ghost) : List WireEv → Ghost
  | [] => g
  | e :: es => (g.onEv e).after es

end Uquic.Spec.RetryKeysMon
