/-
The "echo" specification of the end-to-end driver h3e (property C18): what the server handler and
the client must observe for a request/response exchange spelled out in the operation line.
No protocol model here — net/http semantics, QPACK, gzip and the QUIC connection are exercised,
not modelled; this file only states the expected observation.
-/
import Uquic.Spec.H3Mon

namespace Uquic.Spec.H3Echo
open Uquic.Spec.H3Mon

structure Exch where
  method : String := "GET"
  path : String := "/"
  h : List (String × String) := []
  bLen : Nat := 0
  bSeed : Nat := 0
  t : List (String × String) := []
  status : Nat := 200
  info : String := "-"
  rh : List (String × String) := []
  rbLen : Nat := 0
  rbSeed : Nat := 0
  rt : List (String × String) := []
  flush : Bool := false
  gz : Bool := false
  /-- `some k`: the request body's source fails after `k` bytes -/
  bf : Option Nat := none
  /-- `some i`: HEAD twin of exchange `i` -/
  tw : Option Nat := none
deriving Repr, Inhabited

def parseKVs (s : String) : List (String × String) :=
  if s == "-" || s == "" then []
  else (s.splitOn ",").filterMap fun p =>
    match p.splitOn ":" with
    | k :: rest@(_ :: _) => some (k, ":".intercalate rest)
    | _ => none

def fmtKVs (l : List (String × String)) : String :=
  if l.isEmpty then "-" else ",".intercalate (l.map fun kv => kv.1 ++ ":" ++ kv.2)

def sortByName (l : List (String × String)) : List (String × String) :=
  l.mergeSort (fun a b => !(b.1 < a.1))

/-- request header fields as the handler sees them: cookie crumbs are joined with "; " -/
def reqHeaderView (h : List (String × String)) : List (String × String) :=
  let cookies := (h.filter (·.1 == "cookie")).map (·.2)
  let rest := h.filter (·.1 != "cookie")
  let withCookie := if cookies.isEmpty then rest else rest ++ [("cookie", ";~".intercalate cookies)]
  sortByName withCookie

def fnv64 (bs : List Nat) : UInt64 :=
  bs.foldl (fun h b => (h ^^^ b.toUInt64) * 1099511628211) 14695981039346656037

def hex16 (x : UInt64) : String :=
  let ds := (List.range 16).map fun i => "0123456789abcdef".toList.getD ((x.toNat / 16 ^ (15 - i)) % 16) '0'
  String.ofList ds

def bodySig (bs : List Nat) : String := s!"{bs.length}:{hex16 (fnv64 bs)}"

def Exch.hasReqBody (e : Exch) : Bool := e.method == "POST" || e.method == "PUT"
def Exch.noRespBody (e : Exch) : Bool := e.method == "HEAD" || e.status == 204 || e.status == 304

/-- what the handler must see.  When the client's body source fails (`bf`), how many bytes reach the
    handler before the stream reset depends on timing: `implB` (what the implementation reported) is
    taken as a witness and judged by the monitor `request_body_abort_is_error`; the read must end
    with an error. -/
def Exch.srvView (e : Exch) (implB : String) : String :=
  let body := if e.hasReqBody then pattern e.bLen e.bSeed else []
  let tr := if e.hasReqBody then sortByName e.t else []
  match e.bf with
  | some _ => s!"srv m={e.method} p={e.path} h={fmtKVs (reqHeaderView e.h)} b={implB} t=- rerr=1"
  | none => s!"srv m={e.method} p={e.path} h={fmtKVs (reqHeaderView e.h)} b={bodySig body} t={fmtKVs tr}"

/-- the Content-Length header the client must see, where the exchange determines it: the handler
    neither sets it nor flushes, no gzip, a status that allows a body — then a response below the
    4096-byte small-response limit, and every HEAD response, announces exactly the bytes the handler
    wrote; a larger streamed response announces none. `none`: not determined by the exchange. -/
def Exch.autoContentLength (e : Exch) : Option String :=
  if e.flush || e.gz || e.status == 204 || e.status == 304 then none
  else if e.method == "HEAD" then some (toString e.rbLen)
  else if e.rbLen < 4096 then some (toString e.rbLen) else some "-"

/-- what the client must see (`implCl`: the Content-Length header as reported, a witness judged by the
    monitors `auto_content_length` and `head_equals_get_headers`) -/
def Exch.cliView (e : Exch) (implCl : String) : String :=
  let body := if e.noRespBody then [] else pattern e.rbLen e.rbSeed
  let tr := if e.noRespBody then [] else sortByName e.rt
  s!"cli st={e.status} i={e.info} h={fmtKVs (sortByName e.rh)} b={bodySig body} t={fmtKVs tr} err=- cl={implCl}"

end Uquic.Spec.H3Echo
