/-
The "echo" specification of the end-to-end driver h3e (property C18): what the server handler and
the client must observe for a request/response exchange spelled out in the operation line.
No protocol model here — net/http semantics, QPACK, gzip and the QUIC connection are exercised,
not modelled; this file only states the expected observation.
-/
import Uquic.Spec.H3Mon
import Uquic.Model.H3.RespGlue

namespace Uquic.Spec.H3Echo
open Uquic.Spec.H3Mon

structure Exch where
  method : String := "GET"
  path : String := "/"
  h : List (String × String) := []
  bLen : Nat := 0
  bSeed : Nat := 0
  t : List (String × String) := []
  status : Nat := 200
  info : String := "-"
  rh : List (String × String) := []
  rbLen : Nat := 0
  rbSeed : Nat := 0
  rt : List (String × String) := []
  flush : Bool := false
  gz : Bool := false
  /-- `some k`: the request body's source fails after `k` bytes -/
  bf : Option Nat := none
  /-- `some i`: HEAD twin of exchange `i` -/
  tw : Option Nat := none
  /-- request trailers announced in the Trailer field: 0 none, 1 all, 2 only the first name -/
  ta : Nat := 1
  /-- `some (n, seed)`: the handler declares the regular payload as Content-Length and sends `n` more bytes -/
  ov : Option (Nat × Nat) := none
  /-- the client asks for gzip itself -/
  ae : Bool := false
deriving Repr, Inhabited

def parseKVs (s : String) : List (String × String) :=
  if s == "-" || s == "" then []
  else (s.splitOn ",").filterMap fun p =>
    match p.splitOn ":" with
    | k :: rest@(_ :: _) => some (k, ":".intercalate rest)
    | _ => none

def fmtKVs (l : List (String × String)) : String :=
  if l.isEmpty then "-" else ",".intercalate (l.map fun kv => kv.1 ++ ":" ++ kv.2)

def sortByName (l : List (String × String)) : List (String × String) :=
  l.mergeSort (fun a b => !(b.1 < a.1))

/-- request header fields as the handler sees them: cookie crumbs are joined with "; " -/
def reqHeaderView (h : List (String × String)) : List (String × String) :=
  let cookies := (h.filter (·.1 == "cookie")).map (·.2)
  let rest := h.filter (·.1 != "cookie")
  let withCookie := if cookies.isEmpty then rest else rest ++ [("cookie", ";~".intercalate cookies)]
  sortByName withCookie

def fnv64 (bs : List Nat) : UInt64 :=
  bs.foldl (fun h b => (h ^^^ b.toUInt64) * 1099511628211) 14695981039346656037

def hex16 (x : UInt64) : String :=
  let ds := (List.range 16).map fun i => "0123456789abcdef".toList.getD ((x.toNat / 16 ^ (15 - i)) % 16) '0'
  String.ofList ds

def bodySig (bs : List Nat) : String := s!"{bs.length}:{hex16 (fnv64 bs)}"

/-- the generated field value `*<len>.<seed>` stands for (character codes) -/
def padCodes (n seed : Nat) : List Nat :=
  (List.range n).map fun i =>
    let k := (seed + i * 7 + i / 13) % 36
    if k < 26 then 97 + k else 48 + (k - 26)

/-- a field value as the observer reports it: generated values expanded, long ones as `#len.fnv64` -/
def viewVal (v : String) : String :=
  if v.startsWith "*" then
    match (v.drop 1).toString.splitOn "." with
    | [a, b] =>
      let cs := padCodes (a.toNat?.getD 0) (b.toNat?.getD 0)
      if cs.length ≤ 40 then String.ofList (cs.map Char.ofNat) else s!"#{cs.length}.{hex16 (fnv64 cs)}"
    | _ => v
  else v

def viewKVs (l : List (String × String)) : List (String × String) := l.map fun kv => (kv.1, viewVal kv.2)

def Exch.hasReqBody (e : Exch) : Bool := e.method == "POST" || e.method == "PUT"
def Exch.noRespBody (e : Exch) : Bool := e.method == "HEAD" || e.status == 204 || e.status == 304

/-- what the handler must see.  When the client's body source fails (`bf`), how many bytes reach the
    handler before the stream reset depends on timing: `implB` (what the implementation reported) is
    taken as a witness and judged by the monitor `request_body_abort_is_error`; the read must end
    with an error. -/
def Exch.srvView (e : Exch) (implB : String) : String :=
  let body := if e.hasReqBody then pattern e.bLen e.bSeed else []
  let tr := if e.hasReqBody then sortByName e.t else []
  match e.bf with
  | some _ => s!"srv m={e.method} p={e.path} h={fmtKVs (reqHeaderView (viewKVs e.h))} b={implB} t=- rerr=1"
  | none => s!"srv m={e.method} p={e.path} h={fmtKVs (reqHeaderView (viewKVs e.h))} b={bodySig body} t={fmtKVs tr}"

/-- the Content-Length header the client must see, where the exchange determines it: the handler
    neither sets it nor flushes, no gzip, a status that allows a body — then a response below the
    4096-byte small-response limit, and every HEAD response, announces exactly the bytes the handler
    wrote; a larger streamed response announces none. `none`: not determined by the exchange. -/
def Exch.autoContentLength (e : Exch) : Option String :=
  if e.flush || e.gz || e.ov.isSome || e.status == 204 || e.status == 304 then none
  else if e.method == "HEAD" then some (toString e.rbLen)
  else if e.rbLen < 4096 then some (toString e.rbLen) else some "-"

open Uquic.Model.H3.RespGlue in
/-- the transport asked for gzip on its own (the driver never disables compression, sends no Range) -/
def Exch.reqGzip (e : Exch) : Bool := requestedGzip false e.method e.ae false

/-- the handler compresses: the exchange says so and the request carries Accept-Encoding: gzip -/
def Exch.zipped (e : Exch) : Bool := e.gz && (e.reqGzip || e.ae)

open Uquic.Model.H3.RespGlue in
/-- the tail of `ReadResponse` for this exchange.  `implCl` is the Content-Length field as the client
    reports it (a witness: whether the server adds one depends on its small-response buffering); when
    the response is decompressed transparently the field is gone and the limit is not observable here -/
def Exch.respOut (e : Exch) (implCl : String) : RespOut :=
  let transparent := e.reqGzip && e.zipped
  readResponseTail { status := e.status, declared := if transparent || implCl == "-" then none else implCl.toNat?,
                     ceGzip := e.zipped, requestedGzip := e.reqGzip, isConnect := false }

/-- what the client must see (`implCl`: the Content-Length header as reported, a witness judged by the
    monitors `auto_content_length` and `head_equals_get_headers`).  Round 4: res.ContentLength,
    res.Uncompressed and the Content-Encoding field follow the model of ReadResponse's tail; a response
    that carries more DATA than it declared delivers exactly the declared part and then fails. -/
def Exch.cliView (e : Exch) (implCl : String) : String :=
  let body := if e.noRespBody then [] else pattern e.rbLen e.rbSeed
  let tr := if e.noRespBody || e.ov.isSome then [] else sortByName e.rt
  let o := e.respOut implCl
  let cl := if o.keepContentLength then implCl else "-"
  let ce := if e.zipped && o.keepContentEncoding then "gzip" else "-"
  let err := if e.ov.isSome then "E:toomuch" else "-"
  let unc := if o.uncompressed then 1 else 0
  s!"cli st={e.status} i={e.info} h={fmtKVs (sortByName (viewKVs e.rh))} b={bodySig body} t={fmtKVs tr} err={err} cl={cl} rcl={o.contentLength} unc={unc} ce={ce}"

end Uquic.Spec.H3Echo
