/-
Ghost state for the C05 byte-level monitors: what the harness knows about each protected packet from
the operations and the implementation's own outputs.
-/
import Uquic.Model.Crypto.Packet

namespace Uquic.Spec.PktMon
open Uquic.Model.Packet

structure Rec where
  long : Bool
  dir : Nat
  pn : Int
  cidLen : Nat
  hdr : Bytes
  payload : Bytes
  /-- the protected packet as the implementation produced it -/
  data : Bytes
  /-- name of the key material installed when it was sealed -/
  epoch : String := ""
deriving Repr

/-- the mutation of an open op applied to the stored packet -/
def mutate (data : Bytes) (mu : String) (arg : Nat) : Bytes :=
  match mu with
  | "flip" =>
    if data.isEmpty then data else
      let k := arg % (8 * data.length)
      data.set (k / 8) ((data.getD (k / 8) 0) ^^^ (UInt8.ofNat (2 ^ (k % 8))))
  | "trunc" => if arg < data.length then data.take arg else data
  | "ext" => data ++ (List.range arg).map (fun i => UInt8.ofNat (0xa0 + i))
  | _ => data

/-- does the mutation change the packet (or open it with the wrong keys)? -/
def isTamper (data : Bytes) (mu : String) (arg : Nat) : Bool :=
  mu == "own" || mutate data mu arg != data

end Uquic.Spec.PktMon
