/-
C01 ∘ C03 — the end-to-end stream pipe with the REAL receive side.

`recvStream fc` packages C03's model of `ReceiveStream` (Uquic/Model/Reassembly/ReceiveStream.lean: frame
sorter, flow controller, `handleStreamFrame`, `Read`) as a `Reassembler` in the sense of C01's composition
(Uquic/Spec/StreamPipe.lean), so that C01's `Pipe`, `pipeStep`, `pipeRun` run the sender model against it:

  * `deliver` is `handleStreamFrame` on the frame's (offset, data, fin).  A frame the stream answers with an
    error (FLOW_CONTROL_ERROR, FINAL_SIZE_ERROR, the sorter's gap limit) closes the connection: the stream is
    closed for shutdown (`closeForShutdown`), `alive` becomes false and no further frame is handled.
  * `read` is `Read(p)` with `len(p) = n`; the Bool is "io.EOF was returned".
  * `segs`, `out`, `alive` are ghost fields (never read by a step).

`ContractOn A W ok` is C01's `ReassemblyContract` restricted to what the composition ever uses: the states
reached by delivering only *slices of one source string* `W` inside the offset space (`ReachW`), and — for
the two completeness clauses — the states `ok` in which no delivered frame was rejected.  The unrestricted
`ReassemblyContract` cannot hold of a receiver with a finite flow-control window (its `progress` clause
promises every covered byte, also those of a frame beyond the window), which is why the restriction is
explicit here.  `ReassemblyContract A → ContractOn A W (fun _ => True)` (Proofs/StreamE2EPipe.lean).
Core-only.
-/
import Uquic.Spec.StreamPipe
import Uquic.Model.Reassembly.ReceiveStream

namespace Uquic.Spec.StreamE2E
open Uquic.Model.Reassembly Uquic.Spec.StreamPipe

/-- the receive side of the pipe: the ReceiveStream model plus ghost observations -/
structure Rcv where
  s : RStream
  /-- ghost: every segment handed to `deliver`, newest first -/
  segs : List Segment := []
  /-- ghost: concatenation of everything `Read` returned -/
  out : List UInt8 := []
  /-- ghost: no STREAM frame was answered with an error so far -/
  alive : Bool := true

/-- the connection hands a STREAM frame to the stream (`handleStreamFrame`); an error closes the connection -/
def Rcv.deliver (r : Rcv) (x : Segment) : Rcv :=
  if r.alive then
    let o := r.s.handleStreamFrame x.off x.data x.fin none
    if o.err.isNone then { r with s := o.s, segs := x :: r.segs }
    else { r with s := o.s.closeForShutdown, segs := x :: r.segs, alive := false }
  else { r with segs := x :: r.segs }

/-- `Read(p)`, `len(p) = n` -/
def Rcv.read (r : Rcv) (n : Nat) : Rcv × List UInt8 × Bool :=
  let o := r.s.read n
  ({ r with s := o.s, out := r.out ++ o.data }, o.data, decide (o.status = .eof))

/-- C03's ReceiveStream model (with receive-side flow controller `fc`) as the receive side of C01's pipe -/
def recvStream (fc : FC) : Reassembler where
  R := Rcv
  init := { s := { fc := fc } }
  deliver := Rcv.deliver
  read := Rcv.read
  segs := Rcv.segs
  out := Rcv.out

/-- `x` is a slice of the source string `W`, inside the lower half of the offset space (C03's `StInBounds`) -/
def Slice (W : List UInt8) (x : Segment) : Prop :=
  x.data <+: W.drop x.off ∧ 2 * (x.off + x.data.length) < maxByteCount

/-- reachable when every delivered segment is a slice of `W` (any order, overlap, duplication, FIN anywhere) -/
inductive ReachW (A : Reassembler) (W : List UInt8) : A.R → Prop
  | init : ReachW A W A.init
  | deliver {r} (x : Segment) : Slice W x → ReachW A W r → ReachW A W (A.deliver r x)
  | read {r} (n : Nat) : ReachW A W r → ReachW A W (A.read r n).1

/-- C01's `ReassemblyContract`, clause by clause, on the states reachable by deliveries of slices of `W`;
    the two completeness clauses (`progress`, `eof_complete`) only in states `ok` (nothing was rejected). -/
structure ContractOn (A : Reassembler) (W : List UInt8) (ok : A.R → Prop) : Prop where
  segs_init : A.segs A.init = []
  out_init : A.out A.init = []
  segs_deliver : ∀ r s, ReachW A W r → ∀ x, x ∈ A.segs (A.deliver r s) ↔ x = s ∨ x ∈ A.segs r
  out_deliver : ∀ r s, ReachW A W r → A.out (A.deliver r s) = A.out r
  segs_read : ∀ r n, ReachW A W r → A.segs (A.read r n).1 = A.segs r
  out_read : ∀ r n, ReachW A W r → A.out (A.read r n).1 = A.out r ++ (A.read r n).2.1
  /-- every byte read was taken, at its position, from some delivered segment -/
  from_segment : ∀ r, ReachW A W r → ∀ i, i < (A.out r).length →
      ∃ s ∈ A.segs r, s.off ≤ i ∧ i < s.off + s.data.length ∧ (A.out r)[i]? = s.data[i - s.off]?
  read_len : ∀ r n, ReachW A W r → (A.read r n).2.1.length ≤ n
  /-- EOF is reported only when the position reached is the end of a delivered FIN segment -/
  eof_sound : ∀ r n, ReachW A W r → (A.read r n).2.2 = true →
      ∃ s ∈ A.segs r, s.fin = true ∧ s.off + s.data.length = (A.out (A.read r n).1).length
  /-- whatever is covered contiguously can be read (up to the buffer size) -/
  progress : ∀ r n c, ReachW A W r → ok r → CoveredUpTo (A.segs r) c → (A.out r).length ≤ c →
      min n (c - (A.out r).length) ≤ (A.read r n).2.1.length
  /-- once the whole source string has been read and its end is the end of a delivered FIN segment,
      `Read` reports EOF -/
  eof_complete : ∀ r n, ReachW A W r → ok r → 0 < n → W.length = (A.out r).length →
      (∃ s ∈ A.segs r, s.fin = true ∧ s.off + s.data.length = (A.out r).length) → (A.read r n).2.2 = true

/-- stream offsets stay in the lower half of the offset space: every frame the sender emitted ends below
    2^61 (QUIC offsets are below 2^62; C03's `StInBounds`) -/
def OffsetsBounded (s : Uquic.Model.Stream.Send.State) : Prop :=
  ∀ f ∈ s.emitted, 2 * (f.offset + f.data.length) < maxByteCount

end Uquic.Spec.StreamE2E
