/-
Prelude of the source-to-Lean translator (gofacts/trans.go): the meaning, over unbounded `Int`, of
the Go integer operators that have no core Lean counterpart.  Hand-written and TRUSTED (DESIGN §3.1a):
each definition is the two's-complement meaning of the Go operator on values that did not overflow.

* `shl a k` = `a << k`, `shr a k` = `a >> k` (arithmetic shift = floor division), any sign of `a`, `k ≥ 0`
  (a negative shift count panics in Go; the translator records `0 ≤ k` in `<fn>_safe`).
* `masklow a k` = `a & (1<<k - 1)`, `clearlow a k` = `a &^ (1<<k - 1)` = `a & ^(1<<k - 1)`: exact for either
  sign of `a` in two's complement (`Int.emod` is the non-negative remainder).
* `band`, `bor`, `bxor`: `&`, `|`, `^` on NON-NEGATIVE operands only (the translator records `0 ≤ a`,
  `0 ≤ b` in `<fn>_safe`); on negative operands these definitions are NOT the Go meaning.
-/
namespace Uquic.Trans

def shl (a k : Int) : Int := a * 2 ^ k.toNat
def shr (a k : Int) : Int := a / 2 ^ k.toNat
def masklow (a k : Int) : Int := a % 2 ^ k.toNat
def clearlow (a k : Int) : Int := a - a % 2 ^ k.toNat
def band (a b : Int) : Int := Int.ofNat (a.toNat &&& b.toNat)
def bor (a b : Int) : Int := Int.ofNat (a.toNat ||| b.toNat)
def bxor (a b : Int) : Int := Int.ofNat (a.toNat ^^^ b.toNat)

end Uquic.Trans
