/-
Property C11, round 4 — the life of one QUICSpec value.

A spec value is inspected (`TransportParameterIDs`), edited (`SuppressTransportParameters` assigned or extended, a
parameter appended, randomisation toggled) and dialled many times, and one dial can create several connections
(`UTransport.doDial` re-creates the connection after a Version Negotiation packet). These theorems say that, for
ALL such histories of the model `Uquic.Model.SpecLife`, what every connection attempt of every dial puts on the
wire is a function of the spec AS IT IS WRITTEN at that moment — its parameter list, its suppression list, its
randomisation flag — and of nothing an earlier inspection, dial or attempt left behind. Which value an attempt
works on is the regenerated fact `Uquic.Gen.UQuic.attemptOnSpecValue`; the per-attempt copy is
`cloneClientHelloSpecForDial` (regenerated shape `cloneCases`).
-/
import Uquic.Props.C11
import Uquic.Proofs.QtpLife

namespace Uquic.Props.C11Life
open Uquic.Model.QTP Uquic.Model.CloneSpec Uquic.Model.SpecLife Uquic.Spec.QtpMon Uquic.Proofs.Qtp Uquic.Gen.UQuic

/-- `newUClientConnection` works on a copy it makes itself (re-proved from the Go source on every run) -/
theorem attempt_on_own_copy : attemptOnSpecValue = false := by decide

/-- EVERY connection attempt of a dial — the first one and each one `doDial` re-creates — sends exactly what one
fresh dial of the spec as written sends (`wireOf`: suppress, shuffle, PopulateFromUQUIC with THAT attempt's
connection id, marshalled anew), independent of the attempts before it; and the dial leaves the spec value as it
was, so the next dial starts from the same spec. -/
theorem every_attempt_is_spec (s : Spec) (as : List Attempt) :
    life s (.dial as) =
      (s, .wires (as.map fun a => wireOf s.ext.ps s.sup (drawsOf s.rand a) a.scid)) := by
  unfold life
  rw [attempt_on_own_copy]
  simp only [step, runAttempts_unshared]

example : (life { ext := { ps := [⟨15, [], true⟩, ⟨4, [7], true⟩] } } (.dial [⟨[1, 1], []⟩, ⟨[2, 2], []⟩])).2 =
    .wires [some ({ nums := [(4, 7)], scid := [1, 1], override := [15, 2, 1, 1, 4, 1, 7] }, [15, 2, 1, 1, 4, 1, 7]),
            some ({ nums := [(4, 7)], scid := [2, 2], override := [15, 2, 2, 2, 4, 1, 7] }, [15, 2, 2, 2, 4, 1, 7])] := by decide

/-- no history of inspections, edits and dials ever leaves cached bytes in the spec's own extension value -/
theorem cache_stays_clear (s : Spec) (hc : s.ext.cache = none) (ops : List Op) :
    (lifeRun s ops).1.ext.cache = none := by
  unfold lifeRun
  rw [attempt_on_own_copy]
  exact run_unshared_cache s ops hc

/-- after ANY history every attempt of a dial is `wireOf` of the spec as it is then written -/
theorem every_attempt_is_spec_after (s₀ : Spec) (ops : List Op) (as : List Attempt) :
    let s := (lifeRun s₀ ops).1
    life s (.dial as) = (s, .wires (as.map fun a => wireOf s.ext.ps s.sup (drawsOf s.rand a) a.scid)) :=
  every_attempt_is_spec _ as

/-- what one attempt sends carries no identifier that the spec's suppression list — as it stands at the time of
the dial — lists (every GREASE identifier when 27 is listed), whatever the draws and the connection id -/
theorem listed_ids_never_on_wire (s : Spec) (a : Attempt) (own : Own) (bytes : List Nat)
    (h : wireOf s.ext.ps s.sup (drawsOf s.rand a) a.scid = some (own, bytes))
    (hwf : ∀ p ∈ s.ext.ps, WF p) (hscid : a.scid.length < varintLimit) :
    ∃ ws, parseQTP bytes = some ws ∧ ∀ w ∈ ws, specKeep s.sup w.1 = true := by
  obtain ⟨l, l', hl, hrw, hparse, _⟩ := Uquic.Props.C11.wire_is_spec _ _ _ _ own bytes h hwf hscid
  refine ⟨pairs l', hparse, ?_⟩
  intro w hw
  simp only [pairs, List.mem_map] at hw
  obtain ⟨p', hp', rfl⟩ := hw
  obtain ⟨p, hp, he⟩ := allRewritten_mem_id hrw p' hp'
  have hmem : p ∈ suppress s.ext.ps s.sup := by
    cases hd : drawsOf s.rand a with
    | none => rw [hd] at hl; simp only at hl; rw [← hl]; exact hp
    | some js => rw [hd] at hl; simp only at hl; exact hl.mem_iff.mp hp
  rw [suppress_eq_specSuppress] at hmem
  simp only [specSuppress, List.mem_filter] at hmem
  simp only [he]
  exact hmem.2

/-- a suppression list assigned at ANY point of a spec's life — after inspections, after earlier dials — is honoured
by the next dial: none of its identifiers is on the wire of any attempt -/
theorem suppress_edit_honoured (s₀ : Spec) (ops : List Op) (S : List Nat) (a : Attempt) (own : Own) (bytes : List Nat) :
    let s := (lifeRun s₀ (ops ++ [.setSup S])).1
    wireOf s.ext.ps s.sup (drawsOf s.rand a) a.scid = some (own, bytes) →
    (∀ p ∈ s.ext.ps, WF p) → a.scid.length < varintLimit →
    ∃ ws, parseQTP bytes = some ws ∧ ∀ w ∈ ws, specKeep S w.1 = true := by
  intro s h hwf hscid
  have hsup : s.sup = S := by
    simp only [s, lifeRun, run_append, run, step]
  have := listed_ids_never_on_wire s a own bytes h hwf hscid
  rwa [hsup] at this

/-- … and so is an extension of the list: every identifier appended is off the wire, and so is every one that was
listed before -/
theorem suppress_extension_honoured (s₀ : Spec) (ops : List Op) (S : List Nat) (a : Attempt) (own : Own) (bytes : List Nat) :
    let s₁ := (lifeRun s₀ ops).1
    let s := (lifeRun s₀ (ops ++ [.addSup S])).1
    wireOf s.ext.ps s.sup (drawsOf s.rand a) a.scid = some (own, bytes) →
    (∀ p ∈ s.ext.ps, WF p) → a.scid.length < varintLimit →
    ∃ ws, parseQTP bytes = some ws ∧ ∀ w ∈ ws, w.1 ∉ s₁.sup ++ S := by
  intro s₁ s h hwf hscid
  have hsup : s.sup = s₁.sup ++ S := by
    simp only [s, s₁, lifeRun, run_append, run, step]
  obtain ⟨ws, hp, hk⟩ := listed_ids_never_on_wire s a own bytes h hwf hscid
  refine ⟨ws, hp, fun w hw => ?_⟩
  have := (specKeep_iff s.sup w.1).mp (hk w hw)
  rw [hsup] at this
  exact this.1

/-- an inspection does not change what the next dial sends (it filters the spec's list in place, and suppression
is idempotent) … -/
theorem inspect_transparent (s : Spec) (a : Attempt) :
    let s' := (life s .inspect).1
    wireOf s'.ext.ps s'.sup (drawsOf s'.rand a) a.scid = wireOf s.ext.ps s.sup (drawsOf s.rand a) a.scid := by
  simp only [life, step, wireOf, Uquic.Props.C11.suppress_idempotent]

/-- … and what it reports is, for every attempt of a dial that follows (any draws, any connection id), the sorted
canonical identifiers found on the wire -/
theorem inspect_reports_next_dial (s : Spec) (a : Attempt) (own : Own) (bytes : List Nat)
    (h : wireOf s.ext.ps s.sup (drawsOf s.rand a) a.scid = some (own, bytes))
    (hwf : ∀ p ∈ s.ext.ps, WF p) (hscid : a.scid.length < varintLimit) :
    (life s .inspect).2 = .ids (transportParameterIDs s.ext.ps s.sup) ∧
    (parseQTP bytes).map (fun ws => sortIDs (ws.map fun w => canonID w.1)) = some (transportParameterIDs s.ext.ps s.sup) :=
  ⟨rfl, Uquic.Props.C11.ids_reported_eq_wire _ _ _ _ own bytes h hwf hscid⟩

/-- WITNESS that the per-attempt copy is needed: were the attempts of a dial to share one extension value (the
spec's own, or one copy made per DIAL), the connection re-created after Version Negotiation would replay the
abandoned attempt's bytes — its initial_source_connection_id, not the new connection's -/
theorem shared_value_replays_witness :
    ∃ (s : Spec) (as : List Attempt), s.ext.cache = none ∧
      (step true s (.dial as)).2 ≠ (step false s (.dial as)).2 ∧
      (step true s (.dial as)).1 ≠ s :=
  ⟨{ ext := { ps := [⟨15, [], true⟩] } }, [⟨[1], []⟩, ⟨[2], []⟩], rfl, by decide, by decide⟩

end Uquic.Props.C11Life
