/-
Property C16, continued — a transport that is dialled on again: "packets are routed to a connection for precisely its
issued and not yet expired IDs" for the connection ID a NEW connection gets from Transport.doDial / UTransport.doDial
(transport.go, u_transport.go) while an earlier connection of the same transport is in its closing period.

With zero-length connection IDs (a `ConnectionIDGenerator` of length 0; a QUICSpec with SrcConnIDLength 0 - every
Chrome spec) all connections of a transport share the empty ID. The previous connection may have been closed by the
application, by the peer, or by Dial itself (a Version Negotiation packet makes doDial close the first attempt and dial
again at once); its closed stand-in holds the ID until the expiry timer fires (3 PTO).

Model: `Model.ConnID.Redial` (histories of dial / close / destroy / time passing over `Routing`; doDial registers with
a plain assignment, `Routing.install`). Theorems:

* `latest_dial_routed`     for EVERY history, while the newest connection is open its ID is routed to it - whatever
                           stand-ins and pending expiry timers earlier connections left behind, whenever they fire;
* `redial_scenario_routed`, `redial_scenario_first_gone`  the end-to-end scenario of driver cide2e for every closing
                           period, gap and hold time, however the first connection ended (closed, cancelled dial);
* `add_refused_leaks`      kernel-checked witness that the model tells the code from the tempting "register through
                           packetHandlerMap.Add": Add refuses an ID that is in the table, so the new connection's ID
                           stays with the stand-in and is routed nowhere once the stand-in expires.

(`Props.C16.clean_after_close`, last clause, is the one-step version of the first theorem.)
Tie to the code: driver `cide2e`, op `redial` (real Transport / UTransport with and without QUICSpec, real server, both
close paths and Version Negotiation, second dial inside and after the closing period) with monitor `redial_routed_e2e`.
-/
import Uquic.Proofs.ConnIDRedial

namespace Uquic.Props.C16Dial
open Uquic.Model.ConnID Uquic.Proofs.ConnIDRedial

/-- On a transport that is dialled on again and again - connections closed locally or by the peer (closed stand-ins
    with expiry timers), destroyed, time passing, in ANY order and with ANY connection IDs, in particular the same
    (zero-length) ID for every connection - the ID of the newest connection is routed to that connection as long as it
    is open: a packet with this destination connection ID reaches it, not a stand-in, and no expiry takes it away. -/
theorem latest_dial_routed (ops : List DOp) (id : Bytes) :
    let s := DialSys.run false {} ops
    s.cur = some id → (s.r.deliver id).2 = Delivery.conn s.n := by
  intro s hc
  have h := (run_inv ops init_inv).routed id hc
  unfold Routing.deliver
  rw [h]

/-- The scenario driver cide2e runs end to end: dial, the first connection ends (closed by either side with any
    closing period, or destroyed by a cancelled dial - indeed whatever `endOp` is), dial again `gap` later, look again
    `hold` later: for every gap and hold time, with a shared (zero-length) ID or fresh IDs, the second connection's ID
    is routed to the second connection both times. -/
theorem redial_scenario_routed (zeroLen : Bool) (endOp : DOp) (gap hold : Int) :
    (redialScenario zeroLen endOp gap hold).2 = ("conn", "conn") := by
  unfold redialScenario
  generalize hid1 : (if zeroLen = true then ([] : Bytes) else [1]) = id1
  generalize hid2 : (if zeroLen = true then ([] : Bytes) else [2]) = id2
  have h0 := run_inv [.dial id1, endOp, .wait gap] init_inv
  have h1 := step_inv h0 (.dial id2)
  have h2 := step_inv h1 (.wait hold)
  have r1 := h1.routed id2 (by simp [DialSys.step])
  have r2 := h2.routed id2 (by simp [DialSys.step])
  simp only [r1, r2, kindOf]
  simp

/-- … and when the first connection was closed (either way) or destroyed, nothing in the table routes to a live
    connection when the second dial begins: only closed stand-ins are left of it. -/
theorem redial_scenario_first_gone (zeroLen : Bool) (gap hold : Int) (endOp : DOp)
    (he : (∃ l e, endOp = .close l e) ∨ endOp = .destroy) :
    (redialScenario zeroLen endOp gap hold).1 = 0 := by
  unfold redialScenario
  generalize (if zeroLen = true then ([] : Bytes) else [1]) = id1
  have hkeep : ∀ (r : Routing) (d : Int),
      (r.handlers.filter fun kv => match kv.2 with | .conn _ => true | _ => false) = [] →
      ((r.advance d).handlers.filter fun kv => match kv.2 with | .conn _ => true | _ => false) = [] := by
    intro r d h
    simp only [Routing.advance]
    generalize (r.timers.filter fun t => t.1 ≤ r.now + d) = due
    induction due generalizing r with
    | nil => exact h
    | cons t rest ih =>
      simp only [List.foldl]
      have : ((removeOwn t.2.1 t.2.2 r.handlers).filter fun kv => match kv.2 with | .conn _ => true | _ => false) = [] := by
        unfold removeOwn
        rw [List.filter_filter]
        rw [List.filter_eq_nil_iff] at h ⊢
        intro a ha hc
        simp only [Bool.and_eq_true] at hc
        exact h a ha hc.1
      exact ih { r with handlers := removeOwn t.2.1 t.2.2 r.handlers } this
  rcases he with ⟨l, e, rfl⟩ | rfl
  · simp only [DialSys.run, DialSys.step]
    apply List.length_eq_zero_iff.mpr
    apply hkeep
    cases l <;> simp [Routing.install, Routing.replaceWithClosed, setH]
  · simp only [DialSys.run, DialSys.step]
    apply List.length_eq_zero_iff.mpr
    apply hkeep
    simp [Routing.install, Routing.remove, setH]

/-- The model tells the code from "register the new connection through packetHandlerMap.Add": with a shared
    (zero-length) ID, a dial 40 ms after a local close leaves the ID with the closed stand-in, and after the closing
    period (600 ms) the new connection's ID is not routed at all - while the plain assignment routes it to the new
    connection throughout. -/
theorem add_refused_leaks :
    let ops : List DOp := [.dial [], .close true 600, .wait 40, .dial []]
    let a := DialSys.run true {} ops
    let b := DialSys.run false {} ops
    a.cur = some [] ∧ (a.r.deliver []).2 = Delivery.closedLocal true ∧ ((a.step true (.wait 600)).r.deliver []).2 = Delivery.none ∧
    (b.r.deliver []).2 = Delivery.conn 2 ∧ ((b.step false (.wait 600)).r.deliver []).2 = Delivery.conn 2 := by decide

/-! ## the statements are not vacuous -/

/-- three connections with the empty ID: closed by the peer, closed after Version Negotiation, the third one open while
    both expiry timers fire -/
example :
    let s := DialSys.run false {} [.dial [], .close false 300, .wait 10, .dial [], .close true 600, .dial [], .wait 400, .wait 400]
    s.cur = some [] ∧ s.n = 3 ∧ s.r.handlers = [([], Handler.conn 3)] ∧ s.r.timers = [] := by decide

end Uquic.Props.C16Dial
