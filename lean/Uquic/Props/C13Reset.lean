/-
Property C13 — state carried across a RESET of the connection (round 5).

(1) 0-RTT rejection and the framer (`Model.Handshake.FramerReset`, framer.go).  "0-RTT data is delivered … never if
rejected" has a second half the application relies on: what it sends again after the rejection (on the stream it
re-opens, which gets the SAME stream id) must go out.  Over ALL framer states, ALL histories of registrations,
removals, queued control frames, rejections and `Append` calls and ALL amounts of pending data:

* `rejection_forgets_every_stream`     after `Handle0RTTRejection` no stream is registered and none is queued; the
                                       control-frame queue keeps exactly its non-flow-control frames, in order; the
                                       streams with control frames are forgotten iff the source says so (shape fact
                                       `Gen.FramerReject.handle0RTTRejectionClearsStreamControl`);
* `rejection_forgets_stream_control`   UNDER the fact (the repaired handler): no stream with control frames survives;
* `no_control_frame_of_discarded_stream_sent`  UNDER the fact, over ALL histories before and after the rejection: a
                                       stream-related control frame (RESET_STREAM / STOP_SENDING / MAX_STREAM_DATA)
                                       that any later `Append` takes belongs to a stream that announced control frames
                                       AFTER the rejection - nothing of a discarded stream is sent;
* `old_rule_sends_frame_of_discarded_stream`  witness (kernel `decide`) for the handler without the clearing: the
                                       STOP_SENDING / RESET_STREAM a stream queued in the 0-RTT phase goes out after
                                       the rejection (finding C04-stale-reset-after-0rtt-rejection);
* `reopened_stream_is_queued`          a stream that registers after the rejection is queued, whatever was registered
                                       under its id before;
* `sched_always`                       in every reachable state every registered stream is in the queue;
* `registered_stream_is_served`        … and the next `Append` (with room) takes a frame from every registered stream
                                       that has data;
* `resent_data_goes_out`               composition: after ANY history, a rejection and the re-registration of stream
                                       `id` with data, the next `Append` carries a STREAM frame of `id`;
* `wrong_map_rule_starves_reopened_stream`  negative witness (kernel `decide`): a rejection handler that empties the
                                       neighbouring map `streamsWithControlFrames` instead of `activeStreams` leaves a
                                       stale registration behind - the re-opened stream is never queued, nothing is sent.

(2) One `QUICSpec` value, many connections (`Model.Handshake.SpecHeap`, u_connection.go
`cloneClientHelloSpecForDial` + the in-place rewrites of connection setup).  Over ALL heaps, ALL spec slices (any spare
capacity), ALL sequences of dials with arbitrary connection IDs and suppress lists:

* `dials_leave_caller_memory`          no array that existed before the first dial is written by any dial;
* `every_dial_sends_the_spec`          connection i's ClientHello carries the ORIGINAL spec's parameters (suppressed as
                                       asked) with connection i's own ID in the empty placeholder;
* `every_dial_authenticates`           … hence the server's `checkTransportParameters` (Auth model) accepts EVERY one of
                                       them: `initial_source_connection_id` equals the source connection ID of that
                                       connection's packets;
* `shared_array_second_dial_fails`     negative witness (`decide`): with the slice header copied and the backing array
                                       shared, the second connection advertises the FIRST connection's ID, the server
                                       answers TRANSPORT_PARAMETER_ERROR, and the caller's array has been written to.

Tie to the code: driver `rst` (the real framer under generated histories incl. rejections; the real
`cloneClientHelloSpecForDial` + `SuppressQUICTransportParameters` + `PopulateFromUQUIC` on spec slices with spare
capacity; the oracle runs these models) and, end to end, the `gate` driver's resumption scenarios with early data
larger than the congestion window and its Firefox-parrot dials (second dial, Version Negotiation re-dial).
-/
import Uquic.Model.Handshake.FramerReset
import Uquic.Model.Handshake.SpecHeap

namespace Uquic.Props.C13Reset

open Uquic.Model.Handshake Uquic.Model.Handshake.FramerReset

/-! ## (1) the framer across a 0-RTT rejection -/

/-- every registered stream is in the queue -/
def Sched (f : Framer) : Prop := ∀ id, id ∈ f.active → id ∈ f.queue

theorem rejection_forgets_every_stream (f : Framer) :
    (handle0RTTRejection f).active = [] ∧ (handle0RTTRejection f).queue = [] ∧
    (handle0RTTRejection f).frames = f.frames.filter (fun c => !c.1.flowControl) ∧
    (handle0RTTRejection f).ctrl =
      if Uquic.Gen.FramerReject.handle0RTTRejectionClearsStreamControl then [] else f.ctrl := ⟨rfl, rfl, rfl, rfl⟩

/-- either shape: registry, queue and control-frame queue as above -/
theorem rejectionWith_forgets_every_stream (b : Bool) (f : Framer) :
    (handle0RTTRejectionWith b f).active = [] ∧ (handle0RTTRejectionWith b f).queue = [] ∧
    (handle0RTTRejectionWith b f).frames = f.frames.filter (fun c => !c.1.flowControl) ∧
    (handle0RTTRejectionWith b f).ctrl = if b then [] else f.ctrl := ⟨rfl, rfl, rfl, rfl⟩

/-- the repaired handler: no stream that announced control frames during the 0-RTT phase is remembered -/
theorem rejection_forgets_stream_control (f : Framer)
    (h : Uquic.Gen.FramerReject.handle0RTTRejectionClearsStreamControl = true) :
    (handle0RTTRejection f).ctrl = [] := by
  simp [handle0RTTRejection, handle0RTTRejectionWith, h]

/-- no MAX_DATA / MAX_STREAM_DATA / MAX_STREAMS / …_BLOCKED frame of the rejected 0-RTT state survives, every other
queued control frame does -/
theorem rejection_filters_control_frames (f : Framer) (c : Ctl × Nat) :
    c ∈ (handle0RTTRejection f).frames ↔ c ∈ f.frames ∧ c.1.flowControl = false := by
  simp [handle0RTTRejection, handle0RTTRejectionWith, List.mem_filter]

theorem reopened_stream_is_queued (f : Framer) (id : Nat) :
    id ∈ (addActive (handle0RTTRejection f) id).queue ∧ id ∈ (addActive (handle0RTTRejection f) id).active := by
  simp [addActive, handle0RTTRejection, handle0RTTRejectionWith]

example : (addActive (handle0RTTRejectionWith false { active := [0, 4], queue := [4, 0], ctrl := [0], frames := [(.maxData, 1), (.ping, 2)] }) 0)
    = { active := [0], queue := [0], ctrl := [0], frames := [(.ping, 2)] } := by decide

example : (addActive (handle0RTTRejectionWith true { active := [0, 4], queue := [4, 0], ctrl := [0], frames := [(.maxData, 1), (.ping, 2)] }) 0)
    = { active := [0], queue := [0], ctrl := [], frames := [(.ping, 2)] } := by decide

theorem sched_init : Sched {} := by intro id h; cases h

theorem sched_addActive (f : Framer) (id : Nat) (h : Sched f) : Sched (addActive f id) := by
  intro x hx
  unfold addActive at *
  split at hx <;> rename_i hin
  · simpa [hin] using h x hx
  · simp [hin] at hx ⊢
    rcases hx with hx | hx
    · exact Or.inl (h x hx)
    · exact Or.inr hx

theorem sched_removeActive (f : Framer) (id : Nat) (h : Sched f) : Sched (removeActive f id) := by
  intro x hx
  simp [removeActive, List.mem_filter] at hx
  exact h x hx.1

theorem sched_addCtrl (f : Framer) (id : Nat) (h : Sched f) : Sched (addCtrl f id) := by
  intro x hx
  unfold addCtrl at *
  split at hx <;> rename_i hin <;> simp [hin] at hx ⊢ <;> exact h x hx

theorem sched_queueControl (f : Framer) (c : Ctl) (t : Nat) (h : Sched f) : Sched (queueControl f c t) := h

theorem sched_rejection (f : Framer) : Sched (handle0RTTRejection f) := by intro x hx; cases hx

theorem sched_appendControl (f : Framer) (cp : Nat → Nat) (h : Sched f) : Sched (appendControl f cp).1 := h

/-- loop invariant of the STREAM-frame loop: a registered id is still to come or was pushed back -/
theorem loop_inv (q : List Nat) (l : Loop) (h : ∀ id, id ∈ l.active → id ∈ q ∨ id ∈ l.back) :
    ∀ id, id ∈ (q.foldl loopStep l).active → id ∈ (q.foldl loopStep l).back := by
  induction q generalizing l with
  | nil => intro id hid; simpa using h id hid
  | cons i rest ih =>
    simp only [List.foldl_cons]
    apply ih
    intro id hid
    unfold loopStep at hid ⊢
    by_cases hi : i ∈ l.active
    · simp only [hi, if_true] at hid ⊢
      by_cases h0 : l.pend i = 0
      · simp only [h0, if_true] at hid ⊢
        simp [List.mem_filter] at hid
        rcases h id hid.1 with h1 | h1
        · simp at h1; rcases h1 with h1 | h1
          · exact absurd h1 hid.2
          · exact Or.inl h1
        · exact Or.inr h1
      · by_cases h1 : l.pend i = 1
        · simp only [h1, if_true] at hid ⊢
          simp [List.mem_filter] at hid
          rcases h id hid.1 with h2 | h2
          · simp at h2; rcases h2 with h2 | h2
            · exact absurd h2 hid.2
            · exact Or.inl h2
          · exact Or.inr h2
        · simp only [h0, h1, if_false] at hid ⊢
          rcases h id hid with h2 | h2
          · simp at h2; rcases h2 with h2 | h2
            · exact Or.inr (by simp [h2])
            · exact Or.inl h2
          · exact Or.inr (by simp [h2])
    · simp only [hi, if_false] at hid ⊢
      rcases h id hid with h2 | h2
      · simp at h2; rcases h2 with h2 | h2
        · exact absurd (h2 ▸ hid) hi
        · exact Or.inl h2
      · exact Or.inr h2

theorem sched_appendStreams (f : Framer) (pend : Nat → Nat) (h : Sched f) : Sched (appendStreams f pend).1 := by
  intro id hid
  simp only [appendStreams, runLoop] at hid ⊢
  exact loop_inv f.queue { active := f.active, pend := pend } (by intro x hx; exact Or.inl (h x hx)) id hid

/-- the operations of a connection on its framer; at every `Append` the streams have whatever they have -/
inductive Op
  | add (id : Nat) | remove (id : Nat) | ctrl (id : Nat) | queue (c : Ctl) (tag : Nat)
  | reject | appendStreams (pend : Nat → Nat) | appendControl (cpend : Nat → Nat)

def applyOp (f : Framer) : Op → Framer
  | .add id => addActive f id
  | .remove id => removeActive f id
  | .ctrl id => addCtrl f id
  | .queue c t => queueControl f c t
  | .reject => handle0RTTRejection f
  | .appendStreams p => (appendStreams f p).1
  | .appendControl p => (appendControl f p).1

def run (ops : List Op) : Framer := ops.foldl applyOp {}

theorem sched_applyOp (f : Framer) (o : Op) (h : Sched f) : Sched (applyOp f o) := by
  cases o with
  | add id => exact sched_addActive f id h
  | remove id => exact sched_removeActive f id h
  | ctrl id => exact sched_addCtrl f id h
  | queue c t => exact sched_queueControl f c t h
  | reject => exact sched_rejection f
  | appendStreams p => exact sched_appendStreams f p h
  | appendControl p => exact sched_appendControl f p h

theorem sched_foldl (ops : List Op) (f : Framer) (h : Sched f) : Sched (ops.foldl applyOp f) := by
  induction ops generalizing f with
  | nil => exact h
  | cons o rest ih => exact ih _ (sched_applyOp f o h)

/-- in every reachable state every registered stream is queued -/
theorem sched_always (ops : List Op) : Sched (run ops) := sched_foldl ops {} sched_init

theorem out_mono_step (l : Loop) (i x : Nat) (h : x ∈ l.out) : x ∈ (loopStep l i).out := by
  unfold loopStep
  split
  · split
    · exact h
    · split <;> simp [h]
  · exact h

theorem out_mono (q : List Nat) (l : Loop) (x : Nat) (h : x ∈ l.out) : x ∈ (q.foldl loopStep l).out := by
  induction q generalizing l with
  | nil => exact h
  | cons i rest ih => exact ih _ (out_mono_step l i x h)

theorem served_loop (q : List Nat) (l : Loop) (id : Nat) (hq : id ∈ q) (ha : id ∈ l.active) (hp : 0 < l.pend id) :
    id ∈ (q.foldl loopStep l).out := by
  induction q generalizing l with
  | nil => cases hq
  | cons i rest ih =>
    simp only [List.foldl_cons]
    by_cases hi : i = id
    · subst hi
      apply out_mono
      unfold loopStep
      simp only [ha, if_true]
      have h0 : ¬ l.pend i = 0 := by omega
      simp only [h0, if_false]
      split <;> simp
    · have hq' : id ∈ rest := by
        simp at hq; rcases hq with hq | hq
        · exact absurd hq.symm hi
        · exact hq
      have hne : id ≠ i := fun h => hi h.symm
      apply ih _ hq'
      · unfold loopStep
        split
        · split
          · simp [List.mem_filter, ha, hne]
          · split
            · simp [List.mem_filter, ha, hne]
            · exact ha
        · exact ha
      · unfold loopStep
        split
        · split
          · exact hp
          · split <;> simp [setPend, hne, hp]
        · exact hp

/-- `Append` (with room) takes a frame from every registered stream that has data -/
theorem registered_stream_is_served (f : Framer) (pend : Nat → Nat) (id : Nat)
    (h : Sched f) (ha : id ∈ f.active) (hp : 0 < pend id) : id ∈ (appendStreams f pend).2.2 := by
  simp only [appendStreams, runLoop]
  exact served_loop f.queue { active := f.active, pend := pend } id (h id ha) ha hp

/-- after ANY history, a rejection, and the re-registration of stream `id` (the stream the application opens again
gets the same id) followed by any further operations that do not remove it or run `Append`: the next `Append` carries
a STREAM frame of `id` -/
theorem resent_data_goes_out (before : List Op) (id : Nat) (pend : Nat → Nat) (hp : 0 < pend id) :
    id ∈ (appendStreams (addActive (handle0RTTRejection (run before)) id) pend).2.2 :=
  registered_stream_is_served _ pend id (sched_addActive _ id (sched_rejection _)) (reopened_stream_is_queued _ id).2 hp

/-- the same from the state itself: no hypothesis on what was registered before the rejection -/
theorem resent_data_goes_out_any_state (f : Framer) (id : Nat) (pend : Nat → Nat) (hp : 0 < pend id) :
    id ∈ (appendStreams (addActive (handle0RTTRejection f) id) pend).2.2 :=
  registered_stream_is_served _ pend id (sched_addActive _ id (sched_rejection _)) (reopened_stream_is_queued _ id).2 hp

/-- negative witness: empty the neighbouring map instead, and the stream the application re-opens under id 0 is
never queued - `Append` sends nothing although it has data (and `Sched` is broken) -/
theorem wrong_map_rule_starves_reopened_stream :
    ∃ f : Framer, Sched f ∧
      (appendStreams (addActive (handle0RTTRejectionWrongMap f) 0) (fun _ => 3)).2.2 = [] ∧
      ¬ Sched (addActive (handle0RTTRejectionWrongMap f) 0) := by
  refine ⟨{ active := [0], queue := [0] }, ?_, by decide, ?_⟩
  · intro id h; simpa using h
  · intro h
    have := h 0 (by decide)
    revert this; decide

/-! ### nothing of a discarded stream is sent (the repaired handler) -/

/-- the ids that announced control frames since the last rejection (all of them when there was none) -/
def ctrlSinceReject : List Op → List Nat
  | [] => []
  | .reject :: _ => []
  | .ctrl id :: rest => id :: ctrlSinceReject rest
  | _ :: rest => ctrlSinceReject rest

/-- `ops` newest first -/
def runRev (ops : List Op) : Framer := ops.foldr (fun o f => applyOp f o) {}

theorem run_eq_runRev (ops : List Op) : run ops = runRev ops.reverse := by
  simp [run, runRev, List.foldr_reverse]

/-- UNDER the fact: every stream the framer remembers as having control frames announced them after the last
rejection -/
theorem ctrl_since_reject (h : Uquic.Gen.FramerReject.handle0RTTRejectionClearsStreamControl = true) (rev : List Op) :
    ∀ id, id ∈ (runRev rev).ctrl → id ∈ ctrlSinceReject rev := by
  induction rev with
  | nil => intro id hid; simp [runRev] at hid
  | cons o rest ih =>
    intro id hid
    have e : runRev (o :: rest) = applyOp (runRev rest) o := rfl
    rw [e] at hid
    cases o with
    | add i =>
      have : (addActive (runRev rest) i).ctrl = (runRev rest).ctrl := by unfold addActive; split <;> rfl
      exact ih id (by simpa [applyOp, this] using hid)
    | remove i => exact ih id hid
    | ctrl i =>
      simp only [applyOp, addCtrl] at hid
      simp only [ctrlSinceReject]
      split at hid
      · exact List.mem_cons_of_mem _ (ih id hid)
      · simp at hid
        rcases hid with hid | hid
        · exact List.mem_cons_of_mem _ (ih id hid)
        · simp [hid]
    | queue c t => exact ih id hid
    | reject =>
      simp only [applyOp] at hid
      rw [rejection_forgets_stream_control _ h] at hid
      cases hid
    | appendStreams p => exact ih id hid
    | appendControl p => simp [applyOp, appendControl] at hid

/-- what `appendControl` takes from the streams are frames of streams the framer remembers -/
theorem appendControl_streams_mem (f : Framer) (cp : Nat → Nat) (id : Nat) (h : id ∈ (appendControl f cp).2.1) :
    id ∈ f.ctrl := by
  simp only [appendControl, List.mem_flatMap, List.mem_replicate] at h
  obtain ⟨a, ha, _, e⟩ := h
  exact e ▸ ha

/-- what came before the last rejection does not matter -/
theorem ctrlSinceReject_cut (r x : List Op) :
    ctrlSinceReject (r ++ Op.reject :: x) = ctrlSinceReject (r ++ [Op.reject]) := by
  induction r with
  | nil => simp [ctrlSinceReject]
  | cons o rest ih => cases o <;> simp [ctrlSinceReject, ih]

/-- **after a 0-RTT rejection no control frame of a discarded stream is sent** (the repaired handler): over ALL
histories `before` the rejection and ALL operations `after` it (registrations, further rejections, `Append` calls, any
pending amounts), a stream-related control frame (RESET_STREAM, STOP_SENDING, MAX_STREAM_DATA) in the next `Append`
belongs to a stream that announced it AFTER the rejection.  In particular directly after the rejection none is sent. -/
theorem no_control_frame_of_discarded_stream_sent
    (h : Uquic.Gen.FramerReject.handle0RTTRejectionClearsStreamControl = true)
    (before after : List Op) (cp : Nat → Nat) (id : Nat)
    (hs : id ∈ (appendControl (run (before ++ [.reject] ++ after)) cp).2.1) :
    id ∈ ctrlSinceReject (after.reverse ++ [.reject]) := by
  have h1 := appendControl_streams_mem _ cp id hs
  rw [run_eq_runRev] at h1
  have h2 := ctrl_since_reject h _ id h1
  have e : (before ++ [Op.reject] ++ after).reverse = after.reverse ++ Op.reject :: before.reverse := by simp
  rw [e, ctrlSinceReject_cut] at h2
  exact h2

theorem nothing_of_discarded_stream_right_after_rejection
    (h : Uquic.Gen.FramerReject.handle0RTTRejectionClearsStreamControl = true) (f : Framer) (cp : Nat → Nat) :
    (appendControl (handle0RTTRejection f) cp).2.1 = [] := by
  simp [appendControl, rejection_forgets_stream_control f h]

/-- witness for the handler WITHOUT the clearing (the source before the repair): stream 4 announced one control frame
(its RESET_STREAM / STOP_SENDING) in the 0-RTT phase; the rejection discards the stream; the next `Append` sends the
frame all the same.  With the clearing it does not. -/
theorem old_rule_sends_frame_of_discarded_stream :
    (appendControl (handle0RTTRejectionWith false (addCtrl {} 4)) (fun _ => 1)).2.1 = [4] ∧
    (appendControl (handle0RTTRejectionWith true (addCtrl {} 4)) (fun _ => 1)).2.1 = [] := by decide

/-! ## (2) one spec value, many connections -/

open Uquic.Model.Handshake.SpecHeap

theorem readArr_append_left (h : Heap) (x : List Param) (a : Nat) (ha : a < h.length) :
    readArr (h ++ [x]) a = readArr h a := by
  simp [readArr, List.getD_eq_getElem?_getD, List.getElem?_append_left ha]

theorem readArr_set_ne (h : Heap) (i a : Nat) (x : List Param) (hne : i ≠ a) :
    readArr (h.set i x) a = readArr h a := by
  simp [readArr, List.getD_eq_getElem?_getD, List.getElem?_set_ne hne]

theorem readArr_append_new (h : Heap) (x : List Param) : readArr (h ++ [x]) h.length = x := by
  simp [readArr, List.getD_eq_getElem?_getD]

theorem dial_length (spec : Slice) (h : Heap) (c : Conn) : (dial cloneFresh spec h c).1.length = h.length + 1 := by
  simp [dial, setup, cloneFresh]

/-- one dial writes to no array that existed before it -/
theorem dial_leaves_caller_memory (spec : Slice) (h : Heap) (c : Conn) (a : Nat) (ha : a < h.length) :
    readArr (dial cloneFresh spec h c).1 a = readArr h a := by
  simp only [dial, setup, cloneFresh]
  rw [readArr_set_ne _ _ _ _ (by omega), readArr_append_left _ _ _ ha]

/-- what one dial sends: the spec's parameters as the heap holds them, suppressed, with the connection's own ID -/
theorem dial_sends (spec : Slice) (h : Heap) (c : Conn) :
    (dial cloneFresh spec h c).2 = populate (suppress (view h spec) c.suppressIDs) c.scid := by
  simp only [dial, setup, cloneFresh, view, readArr_append_new]
  simp [List.take_take]

theorem view_congr (h h' : Heap) (s : Slice) (e : readArr h' s.arr = readArr h s.arr) : view h' s = view h s := by
  simp [view, e]

theorem dials_inv (spec : Slice) (n0 : Nat) (cs : List Conn) (h : Heap) (hn : n0 ≤ h.length) :
    n0 ≤ (dials cloneFresh spec h cs).1.length ∧
    ∀ a, a < n0 → readArr (dials cloneFresh spec h cs).1 a = readArr h a := by
  induction cs generalizing h with
  | nil => exact ⟨hn, fun _ _ => rfl⟩
  | cons c rest ih =>
    simp only [dials]
    have hl : n0 ≤ (dial cloneFresh spec h c).1.length := by rw [dial_length]; omega
    refine ⟨(ih _ hl).1, ?_⟩
    intro a ha
    rw [(ih _ hl).2 a ha, dial_leaves_caller_memory spec h c a (by omega)]

/-- no array that existed before the first dial - the spec's own backing array with its spare capacity, any other
buffer of the caller - is written by any dial -/
theorem dials_leave_caller_memory (spec : Slice) (h0 : Heap) (cs : List Conn) (a : Nat) (ha : a < h0.length) :
    readArr (dials cloneFresh spec h0 cs).1 a = readArr h0 a :=
  (dials_inv spec h0.length cs h0 (Nat.le_refl _)).2 a ha

theorem dials_send (spec : Slice) (n0 : Nat) (h0 : Heap) (hs : spec.arr < n0) (cs : List Conn) (h : Heap) (hn : n0 ≤ h.length)
    (same : ∀ a, a < n0 → readArr h a = readArr h0 a) :
    (dials cloneFresh spec h cs).2 = cs.map fun c => populate (suppress (view h0 spec) c.suppressIDs) c.scid := by
  induction cs generalizing h with
  | nil => rfl
  | cons c rest ih =>
    simp only [dials, List.map_cons]
    rw [dial_sends, view_congr h0 h spec (same _ hs)]
    congr 1
    apply ih
    · rw [dial_length]; omega
    · intro a ha
      rw [dial_leaves_caller_memory spec h c a (by omega), same a ha]

/-- connection i's ClientHello carries the ORIGINAL spec's parameters with connection i's own ID -/
theorem every_dial_sends_the_spec (spec : Slice) (h0 : Heap) (hs : spec.arr < h0.length) (cs : List Conn) :
    (dials cloneFresh spec h0 cs).2 = cs.map fun c => populate (suppress (view h0 spec) c.suppressIDs) c.scid :=
  dials_send spec h0.length h0 hs cs h0 (Nat.le_refl _) (fun _ _ => rfl)

/-- a spec with an empty `initial_source_connection_id` placeholder (and no filled-in one), not suppressed -/
def HasPlaceholder (ps : List Param) : Prop := (∃ p, p ∈ ps ∧ p.id = iscID) ∧ ∀ p, p ∈ ps → p.id = iscID → p.val = []

theorem suppress_cons_drop (p : Param) (rest : List Param) (ids : List Nat) (h : ids.contains p.id = true) :
    suppress (p :: rest) ids = suppress rest ids := by
  have h' : p.id ∈ ids := by simpa using h
  simp [suppress, h']

theorem suppress_cons_keep (p : Param) (rest : List Param) (ids : List Nat) (h : ids.contains p.id = false) :
    suppress (p :: rest) ids = p :: suppress rest ids := by
  have h' : ¬ p.id ∈ ids := by simpa using h
  simp [suppress, h']

theorem advertised_cons_hit (p : Param) (rest : List Param) (h : p.id = iscID) : advertised (p :: rest) = some p.val := by
  simp [advertised, h]

theorem advertised_cons_miss (p : Param) (rest : List Param) (h : p.id ≠ iscID) : advertised (p :: rest) = advertised rest := by
  simp [advertised, h]

theorem advertised_own (ps : List Param) (ids : List Nat) (scid : List Nat) (hp : HasPlaceholder ps) (hi : iscID ∉ ids) :
    advertised (populate (suppress ps ids) scid) = some scid := by
  induction ps with
  | nil => obtain ⟨⟨p, hp, _⟩, _⟩ := hp; cases hp
  | cons p rest ih =>
    obtain ⟨⟨q, hq, hqid⟩, hall⟩ := hp
    by_cases hpid : p.id = iscID
    · have hv : p.val = [] := hall p (by simp) hpid
      have hk : ids.contains p.id = false := by
        rw [hpid]; simpa using hi
      rw [suppress_cons_keep p rest ids hk]
      have : populate (p :: suppress rest ids) scid = { p with val := scid } :: populate (suppress rest ids) scid := by
        simp [populate, hpid, hv]
      rw [this, advertised_cons_hit _ _ (by simpa using hpid)]
    · have hq' : q ∈ rest := by
        simp at hq; rcases hq with hq | hq
        · exact absurd (hq ▸ hqid) hpid
        · exact hq
      have ih' := ih ⟨⟨q, hq', hqid⟩, fun r hr => hall r (by simp [hr])⟩
      cases hk : ids.contains p.id
      · rw [suppress_cons_keep p rest ids hk]
        have : populate (p :: suppress rest ids) scid = p :: populate (suppress rest ids) scid := by
          simp [populate, hpid]
        rw [this, advertised_cons_miss _ _ hpid]
        exact ih'
      · rw [suppress_cons_drop p rest ids hk]
        exact ih'

theorem own_id_authenticates (scid : List Nat) (ps : List Param) (h : advertised ps = some scid) :
    serverCheck scid ps = none := by
  simp [serverCheck, h, checkTransportParameters]

/-- what connection `c` sends when the spec's slice reads as in heap `h0` -/
def sentBy (h0 : Heap) (spec : Slice) (c : Conn) : List Param := populate (suppress (view h0 spec) c.suppressIDs) c.scid

/-- EVERY connection made from the one spec value passes the server's connection-ID authentication: the i-th
ClientHello is `sentBy` the i-th connection, and the server of that connection (whose packets carry `c.scid` as source
connection ID) accepts it -/
theorem every_dial_authenticates (spec : Slice) (h0 : Heap) (hs : spec.arr < h0.length) (cs : List Conn)
    (hp : HasPlaceholder (view h0 spec)) (hsup : ∀ c, c ∈ cs → iscID ∉ c.suppressIDs) :
    (dials cloneFresh spec h0 cs).2 = cs.map (sentBy h0 spec) ∧
    ∀ c, c ∈ cs → serverCheck c.scid (sentBy h0 spec c) = none :=
  ⟨every_dial_sends_the_spec spec h0 hs cs,
   fun c hc => own_id_authenticates c.scid _ (advertised_own _ _ _ hp (hsup c hc))⟩

example : HasPlaceholder (view [[⟨4, [1]⟩, ⟨iscID, []⟩, ⟨9, []⟩]] ⟨0, 2⟩) := by
  refine ⟨⟨⟨iscID, []⟩, by decide, rfl⟩, ?_⟩
  intro p hp hid
  have : p = ⟨4, [1]⟩ ∨ p = ⟨iscID, []⟩ := by simpa [view, readArr] using hp
  rcases this with h | h <;> subst h
  · exact absurd hid (by decide)
  · rfl

/-- negative witness: copy the slice header only (the array stays shared with the spec) and the second connection
advertises the FIRST connection's ID - the server answers TRANSPORT_PARAMETER_ERROR - and the caller's array has been
written to -/
theorem shared_array_second_dial_fails :
    ∃ (h0 : Heap) (spec : Slice) (c1 c2 : Conn), spec.arr < h0.length ∧ HasPlaceholder (view h0 spec) ∧
      (dials cloneShared spec h0 [c1, c2]).2.map advertised = [some c1.scid, some c1.scid] ∧
      serverCheck c2.scid ((dials cloneShared spec h0 [c1, c2]).2.getD 1 []) = some .initialSourceConnectionID ∧
      readArr (dials cloneShared spec h0 [c1, c2]).1 0 ≠ readArr h0 0 := by
  refine ⟨[[⟨4, [1]⟩, ⟨iscID, []⟩]], ⟨0, 2⟩, ⟨[1, 2, 3], []⟩, ⟨[4, 5, 6], []⟩, by decide, ?_, by decide, by decide, by decide⟩
  refine ⟨⟨⟨iscID, []⟩, by decide, rfl⟩, ?_⟩
  intro p hp hid
  have : p = ⟨4, [1]⟩ ∨ p = ⟨iscID, []⟩ := by simpa [view, readArr] using hp
  rcases this with h | h <;> subst h
  · exact absurd hid (by decide)
  · rfl

end Uquic.Props.C13Reset
