/-
Property C20, the configured maximum in every growth branch (round 4).

`Props/C20.cwnd_bounds` bounds the window after every history; the theorems here say HOW the bound
is kept once the window is at the maximum — in slow start and, the case a long-lived window-limited
flow actually meets, in Reno congestion avoidance: at or above `MaxCongestionWindowPackets·MDS`
no acknowledgement (and no other operation except an MTU step that lifts the floor) moves the
window, however many windows of acknowledgements arrive; below it, congestion avoidance adds one
datagram size only when a full window of packets has been acknowledged since the last increase.
The `cong` driver's `cap` style drives the real `cubicSender` into exactly these states (slow start
to the maximum, hybrid-slow-start exit without a loss, then several windows of acknowledgements).
-/
import Uquic.Model.Cong.Sender
import Uquic.Proofs.CongInv
import Uquic.Proofs.CongStep
import Uquic.Proofs.CongPacer

namespace Uquic.Props.C20Cap

open Uquic.Model.Cong Uquic.Proofs.Cong

/-- At or above the configured maximum no operation other than `SetMaxDatagramSize` increases the
window — whatever the state (slow start, congestion avoidance, recovery), the Reno ack counter,
`priorInFlight`, packet numbers or times. -/
theorem no_growth_at_max (s : Sender) (op : Op) (hmax : maxCwndPackets * s.mds ≤ s.cwnd)
    (hop : ∀ m, op ≠ .setMDS m) : (s.step op).1.cwnd ≤ s.cwnd := by
  have hmax' : ¬ s.cwnd < s.maxCwnd := by
    simp only [Sender.maxCwnd]; rw [Nat.mul_comm]; omega
  cases op with
  | sent t pn b r =>
    have := (onPacketSent_cwnd s t pn b r).1
    simp only [Sender.step]; omega
  | acked pn b prior t =>
    have := onPacketAcked_spec s pn prior
    simp only [] at this
    obtain ⟨_, _, hw⟩ := this
    simp only [Sender.step]
    rcases hw with hw | ⟨_, _, _, hx⟩
    · omega
    · exact absurd hx hmax'
  | lost pn b prior =>
    have := onCongestionEvent_spec s pn
    simp only [] at this
    obtain ⟨_, hw⟩ := this
    simp only [Sender.step]
    rcases hw with ⟨_, _, he⟩ | ⟨_, _, _, hw, _⟩
    · rw [he]; omega
    · rw [hw, minCwndPackets_eq]
      have h1 := renoCut_le s.cwnd
      have h2 : s.mds * 2 ≤ s.cwnd := by rw [maxCwndPackets_eq] at hmax; omega
      omega
  | exitSS =>
    have := (maybeExitSlowStart_cwnd s).1
    simp only [Sender.step]; omega
  | setMDS m => exact absurd rfl (hop m)
  | rtt r => simp only [Sender.step]; omega
  | idle => simp only [Sender.step]; omega

/-- an operation that is neither a loss report nor an MTU step -/
def Quiet : Op → Prop
  | .lost _ _ _ => False
  | .setMDS _ => False
  | _ => True

/-- one quiet operation at the maximum: window and datagram size stay -/
theorem pinned_step (s : Sender) (op : Op) (hmax : maxCwndPackets * s.mds ≤ s.cwnd) (hq : Quiet op) :
    (s.step op).1.cwnd = s.cwnd ∧ (s.step op).1.mds = s.mds := by
  have hmax' : ¬ s.cwnd < s.maxCwnd := by
    simp only [Sender.maxCwnd]; rw [Nat.mul_comm]; omega
  cases op with
  | sent t pn b r =>
    obtain ⟨hc, hm, _⟩ := onPacketSent_cwnd s t pn b r
    exact ⟨hc, hm⟩
  | acked pn b prior t =>
    have := onPacketAcked_spec s pn prior
    simp only [] at this
    obtain ⟨hm, _, hw⟩ := this
    simp only [Sender.step]
    rcases hw with hw | ⟨_, _, _, hx⟩
    · exact ⟨hw, hm⟩
    · exact absurd hx hmax'
  | lost pn b prior => exact absurd hq (by simp [Quiet])
  | exitSS =>
    obtain ⟨hc, hm, _⟩ := maybeExitSlowStart_cwnd s
    exact ⟨hc, hm⟩
  | setMDS m => exact absurd hq (by simp [Quiet])
  | rtt r => simp only [Sender.step]; exact ⟨trivial, trivial⟩
  | idle => simp only [Sender.step]; exact ⟨trivial, trivial⟩

/-- The long-lived window-limited flow: once the window is at (or, after an MTU step, up to one
packet above) the maximum, ANY number of further acknowledgements, sends, `MaybeExitSlowStart`
calls, RTT updates and idle periods — in slow start or in congestion avoidance — leaves it exactly
where it is.  Only a loss report or an MTU step can move it. -/
theorem window_pinned_at_max (ops : List Op) : ∀ (s : Sender), maxCwndPackets * s.mds ≤ s.cwnd →
    (∀ op ∈ ops, Quiet op) → (s.run ops).cwnd = s.cwnd ∧ (s.run ops).mds = s.mds := by
  induction ops with
  | nil => intro s _ _; exact ⟨rfl, rfl⟩
  | cons op ops ih =>
    intro s hmax hq
    simp only [Sender.run, List.foldl_cons]
    obtain ⟨hc, hm⟩ := pinned_step s op hmax (hq op (List.mem_cons_self ..))
    have := ih (s.step op).1 (by rw [hc, hm]; exact hmax) (fun o ho => hq o (List.mem_cons_of_mem _ ho))
    simp only [Sender.run] at this
    rw [this.1, this.2, hc, hm]
    exact ⟨rfl, rfl⟩

/-- `maybeIncreaseCwnd` outside slow start -/
theorem maybeIncreaseCwnd_ca (s : Sender) (prior : Nat) (hca : s.inSlowStart = false) :
    (s.maybeIncreaseCwnd prior).1.cwnd = s.cwnd ∨
    (s.mds ≠ 0 ∧ s.cwnd / s.mds ≤ wrapU64 (s.numAcked + 1) ∧ s.cwnd < s.maxCwnd ∧
      (s.maybeIncreaseCwnd prior).1.cwnd = s.cwnd + s.mds ∧ (s.maybeIncreaseCwnd prior).1.numAcked = 0) := by
  unfold Sender.maybeIncreaseCwnd
  by_cases h1 : s.isCwndLimited prior = true
  · by_cases h2 : s.cwnd ≥ s.maxCwnd
    · simp [h1, h2]
    · by_cases h4 : s.mds = 0
      · simp [h1, h2, hca, h4]
      · by_cases h5 : wrapU64 (s.numAcked + 1) ≥ s.cwnd / s.mds
        · refine Or.inr ⟨h4, h5, by omega, ?_, ?_⟩ <;> simp [h1, h2, hca, h4, h5]
        · simp [h1, h2, hca, h4, h5]
  · simp [h1]

/-- what `OnPacketAcked` leaves in the window and the ack counter -/
theorem onPacketAcked_fields (s : Sender) (pn : Int) (prior : Nat) :
    let s1 : Sender := { s with largestAcked := Max.max pn s.largestAcked }
    (s.onPacketAcked pn prior).1.cwnd = s.cwnd ∨
    ((s.onPacketAcked pn prior).1.cwnd = (s1.maybeIncreaseCwnd prior).1.cwnd ∧
     (s.onPacketAcked pn prior).1.numAcked = (s1.maybeIncreaseCwnd prior).1.numAcked) := by
  unfold Sender.onPacketAcked
  simp only []
  by_cases hr : ({ s with largestAcked := Max.max pn s.largestAcked } : Sender).inRecovery = true
  · simp [hr]
  · simp only [hr, Bool.false_eq_true, if_false]
    generalize ({ s with largestAcked := Max.max pn s.largestAcked } : Sender).maybeIncreaseCwnd prior = g
    obtain ⟨g1, g2⟩ := g
    refine Or.inr ?_
    split
    · exact ⟨rfl, rfl⟩
    · simp only []
      split <;> exact ⟨rfl, rfl⟩

/-- Reno congestion avoidance: outside slow start an acknowledgement increases the window only when
the ack counter reaches the window measured in packets (one datagram size per window of
acknowledged packets) and the window is below the maximum; the counter restarts from zero. -/
theorem ca_growth_once_per_window (s : Sender) (pn : Int) (b prior : Nat) (t : Int)
    (hca : s.inSlowStart = false) (h : s.cwnd < (s.step (.acked pn b prior t)).1.cwnd) :
    s.mds ≠ 0 ∧ s.cwnd / s.mds ≤ wrapU64 (s.numAcked + 1) ∧ s.cwnd < maxCwndPackets * s.mds ∧
      (s.step (.acked pn b prior t)).1.cwnd = s.cwnd + s.mds ∧ (s.step (.acked pn b prior t)).1.numAcked = 0 := by
  simp only [Sender.step] at h ⊢
  have hf := onPacketAcked_fields s pn prior
  simp only [] at hf
  rcases hf with hf | ⟨hc, hn⟩
  · omega
  · have hm := maybeIncreaseCwnd_ca ({ s with largestAcked := Max.max pn s.largestAcked } : Sender) prior hca
    rcases hm with hm | ⟨m1, m2, m3, m4, m5⟩
    · rw [hc, hm] at h; exact absurd h (Nat.lt_irrefl _)
    · refine ⟨m1, m2, ?_, by rw [hc, m4], by rw [hn, m5]⟩
      rw [Nat.mul_comm]; exact m3

/-! ### kernel-checked states at the maximum in congestion avoidance -/

/-- a sender in congestion avoidance (ssthresh = the window, no loss so far) with the Reno ack
counter one short of a full window -/
def atCap (cwnd : Nat) : Sender :=
  { Sender.new 1252 Rtt.default with cwnd := cwnd, ssthresh := cwnd, numAcked := 9999, largestSent := 40000 }

-- exactly at the maximum: the acknowledgement that completes the window does not grow it …
example : (atCap 12520000).inSlowStart = false ∧ (atCap 12520000).isCwndLimited 12520000 = true ∧
    ((atCap 12520000).step (.acked 30000 1252 12520000 7)).1.cwnd = 12520000 := by decide

-- … nor does it one byte below maximum + one packet (the window is no multiple of the datagram size after an MTU step) …
example : ((atCap 12521251).step (.acked 30000 1252 12521251 7)).1.cwnd = 12521251 := by decide

-- … while one packet below the maximum the same acknowledgement adds exactly one packet and reaches it.
example : ((atCap 12518748).step (.acked 30000 1252 12518748 7)).1.cwnd = 12520000 ∧
    ((atCap 12518748).step (.acked 30000 1252 12518748 7)).1.numAcked = 0 := by decide

end Uquic.Props.C20Cap
