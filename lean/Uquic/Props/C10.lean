/-
Property C10 — the Initial flight's headers, numbering, token and sizes are as the spec says.

Theorems over ALL specs, datagram indices, random streams and payloads of the model
`Uquic.Model.Initial` (the Go code it renders is named there), with the OBSERVER
`Uquic.Spec.Observe.observe` as the judge of what is on the wire.  Where the unchanged code violates the
full statement, the full statement is kept as a `def …_full : Prop`, the proved restriction is named
`…_partial`, and the negation is proved from a concrete witness (`…_witness`).
-/
import Uquic.Proofs.InitialSizes
import Uquic.Spec.ObserveMon

namespace Uquic.Props.C10
open Uquic.Model.Initial Uquic.Spec.Observe Uquic.Spec.ObserveMon Uquic.Proofs.Initial

/-! ### facts the other theorems stand on -/

/-- `ExtendedHeader.Append` writes the Length varint with the width `GetLength` reserves for it -/
theorem length_width_consistent : lenW = lenWGetLength ∧ lenW = 2 := by decide

theorem takeStream_length (s : Nat → Nat) (off n : Nat) : (takeStream s off n).length = n := by
  simp [takeStream]

theorem scid_length (spec : Spec) (s : Nat → Nat) : (scidFor spec s).length = spec.scidLen :=
  takeStream_length _ _ _

/-- the destination connection ID has the specified length, or a library-default one in 8..20 -/
theorem dcid_length (spec : Spec) (s : Nat → Nat) :
    (spec.dcidLen > 0 → (dcidFor spec s).length = spec.dcidLen) ∧
    (spec.dcidLen = 0 → 8 ≤ (dcidFor spec s).length ∧ (dcidFor spec s).length ≤ 20) := by
  unfold dcidFor
  constructor
  · intro h; rw [if_pos h]; exact takeStream_length _ _ _
  · intro h
    rw [if_neg (by omega), takeStream_length, minCIDLenInitial_eq, maxCIDLen_eq]
    omega

/-! ### 1. header_as_specified -/

/-- observe ∘ assemble: whatever `appendInitialPacketPayload` emits for the `i`-th Initial of a dial, the
    observer reads back exactly the specified connection IDs (and lengths), token, packet number (as
    truncated to its encoding length), encoding length, a Length field of `pnLen + |payload| + 16` in a
    2-byte varint, and the sizes `assemble` computed. -/
theorem header_as_specified (spec : Spec) (s : Nat → Nat) (tokOff i : Nat) (p : List Nat) (plan : Plan)
    (udpMin cap : Nat) (out : Out)
    (hs : spec.scidLen ≤ 20) (hd : spec.dcidLen ≤ 20)
    (ht : (tokenFor spec s tokOff).length < 4611686018427387904) (hcap : cap < 16384)
    (hok : assemble (hdrOf spec s tokOff i) p plan udpMin cap = .ok out) :
    ∃ v, observe out.plain out.datagramLen = some v ∧
      v.version = 1 ∧ v.firstByte = 192 + (pnLenFor spec i - 1) ∧
      v.scid = scidFor spec s ∧ v.scidLen = spec.scidLen ∧
      v.dcid = dcidFor spec s ∧ (spec.dcidLen > 0 → v.dcidLen = spec.dcidLen) ∧
      (spec.dcidLen = 0 → 8 ≤ v.dcidLen ∧ v.dcidLen ≤ 20) ∧
      v.token = tokenFor spec s tokOff ∧
      v.pnLen = pnLenFor spec i ∧ v.pn = pnFor spec i % 256 ^ pnLenFor spec i ∧
      v.lengthField = v.pnLen + v.payloadLen + 16 ∧ v.lengthVarintWidth = 2 ∧
      v.payloadLen = out.payloadLen ∧ v.packetLen = out.packetLen ∧ v.datagramLen = out.datagramLen ∧
      v.trailingBytes = out.datagramLen - out.packetLen ∧
      v.headerLen + v.payloadLen + 16 = v.packetLen := by
  obtain ⟨hpl, hlf, hpk, hfit, hpn, _, hplain⟩ := assemble_ok _ _ _ _ _ _ hok
  have hdl := dcid_length spec s
  have hsl := scid_length spec s
  have hhl := hdrLen_eq (hdrOf spec s tokOff i)
  rw [tagLen_eq] at hlf hpk
  have hdc : (hdrOf spec s tokOff i).dcid.length ≤ 20 := by
    show (dcidFor spec s).length ≤ 20
    by_cases h0 : spec.dcidLen > 0
    · rw [hdl.1 h0]; exact hd
    · exact (hdl.2 (by omega)).2
  have hobs := observe_bytes (hdrOf spec s tokOff i) out.lengthField
    (p ++ List.replicate (innerPad plan (hdrOf spec s tokOff i).len (hdrOf spec s tokOff i).pnLen p.length) 0) out.datagramLen
    (by show (1 : Nat) < 4294967296; omega) hdc (by show (scidFor spec s).length ≤ 20; rw [hsl]; exact hs)
    ht hpn (by omega)
  rw [← hplain] at hobs
  have hplen : (p ++ List.replicate (innerPad plan (hdrOf spec s tokOff i).len (hdrOf spec s tokOff i).pnLen p.length) 0).length = out.payloadLen := by
    simp [hpl]
  have hpnl : (hdrOf spec s tokOff i).pnLen = pnLenFor spec i := rfl
  refine ⟨_, hobs, rfl, rfl, rfl, hsl, rfl, hdl.1, hdl.2, rfl, rfl, rfl, ?_, rfl, hplen, ?_, rfl, ?_, ?_⟩
  · show out.lengthField = (hdrOf spec s tokOff i).pnLen + (p ++ List.replicate _ 0).length + 16
    rw [hplen, hlf]
  · show (hdrOf spec s tokOff i).len - (hdrOf spec s tokOff i).pnLen + out.lengthField = out.packetLen
    omega
  · show out.datagramLen - ((hdrOf spec s tokOff i).len - (hdrOf spec s tokOff i).pnLen + out.lengthField) = out.datagramLen - out.packetLen
    congr 1; omega
  · show (hdrOf spec s tokOff i).len + (p ++ List.replicate _ 0).length + 16 =
      (hdrOf spec s tokOff i).len - (hdrOf spec s tokOff i).pnLen + out.lengthField
    rw [hplen]; omega

/-! ### 2. pn_sequence_and_length -/

/-- first packet number and increment: the `i`-th Initial carries `initialPN + i`, where `initialPN` is
    `InitPacketNumber` if that is a packet number (≤ 2^62-1) and 0 otherwise -/
theorem pn_sequence (spec : Spec) (i : Nat) :
    pnFor spec i = initialPN spec + i ∧
    (spec.initPN ≤ 4611686018427387903 → initialPN spec = spec.initPN) ∧
    (spec.initPN > 4611686018427387903 → initialPN spec = 0) := by
  unfold pnFor initialPN
  rw [maxPN_eq]
  refine ⟨rfl, ?_, ?_⟩ <;> intro h
  · rw [if_neg (by omega)]
  · rw [if_pos h]

/-- per-packet encoding length, at full strength (every uint64 `InitPacketNumber`; `i` ranges over a Go `int`):
    the `i`-th Initial uses entry `min i last` of the length list, else the single override, else the default
    rule. (Before /repo e2b1c44 this failed for `InitPacketNumber > 2^62-1`: the list was indexed from the raw value.) -/
theorem pn_len (spec : Spec) (i : Nat) (hi : i < 9223372036854775808) : pnLenFor spec i = intendedPnLen spec i := by
  have hini : initialPN spec = intendedFirstPN spec := by
    unfold initialPN intendedFirstPN; rw [maxPN_eq]
    by_cases h : spec.initPN > 4611686018427387903
    · rw [if_pos h, if_neg (by omega)]
    · rw [if_neg h, if_pos (by omega)]
  have hb : initialPN spec ≤ 4611686018427387903 := by
    unfold initialPN; rw [maxPN_eq]; split <;> omega
  unfold pnLenFor intendedPnLen intendedPN pnFor pnBase
  rw [← hini]
  by_cases hl : spec.pnLens.length > 0
  · simp only [hl, if_true]
    have hw : wrap64 (((initialPN spec + i : Nat) : Int) - ((initialPN spec : Nat) : Int)) = (i : Int) := by
      unfold wrap64; omega
    rw [hw]
    have hn0 : ¬ ((i : Int) < 0) := by omega
    by_cases hge : i ≥ spec.pnLens.length
    · have h2 : (i : Int) ≥ (spec.pnLens.length : Nat) := by omega
      simp only [hn0, h2, if_true, if_false]
      rw [Nat.min_eq_right (by omega)]
    · have h2 : ¬ ((i : Int) ≥ (spec.pnLens.length : Nat)) := by omega
      simp only [hn0, h2, if_false, Int.toNat_natCast]
      rw [Nat.min_eq_left (by omega)]
  · simp only [hl, if_false]

/-- the spec that used to be the counterexample (`InitPacketNumber = 2^62`, lengths `[1, 2]`): the second
    Initial now uses 2 bytes -/
def beyondSpec : Spec := { initPN := 4611686018427387904, pnLens := [1, 2] }

example : pnLenFor beyondSpec 1 = 2 := by
  simp [beyondSpec, pnLenFor, pnFor, initialPN, pnBase, wrap64, maxPN_eq]

theorem pn_sequence_and_length (spec : Spec) (i : Nat) (hi : i < 9223372036854775808) :
    pnFor spec i = intendedPN spec i ∧ pnLenFor spec i = intendedPnLen spec i := by
  refine ⟨?_, pn_len spec i hi⟩
  unfold pnFor intendedPN initialPN intendedFirstPN; rw [maxPN_eq]
  by_cases h : spec.initPN > 4611686018427387903
  · rw [if_pos h, if_neg (by omega)]
  · rw [if_neg h, if_pos (by omega)]

/-- the plan index advances on every path (before /repo 2233b03 it stayed 0 for a nil FrameBuilder / empty
    QUICFrames): datagram `i` is packed with entry `min i last` of `InitialPackets` -/
theorem plan_index_advances (spec : Spec) (i : Nat) : planOf spec i = intendedPlan spec i := by
  unfold planOf planIdx planFor intendedPlan
  by_cases h0 : spec.plans.length = 0
  · rw [if_pos h0, if_pos h0]
  · rw [if_neg h0, if_neg h0]
    congr 1
    by_cases hge : i ≥ spec.plans.length
    · rw [if_pos hge]; omega
    · rw [if_neg hge]; omega

/-! ### 3. token_rules -/

theorem token_rules (spec : Spec) (s : Nat → Nat) (tokOff : Nat) :
    (spec.token = .none → tokenFor spec s tokOff = []) ∧
    (∀ b, spec.token = .explicit b → tokenFor spec s tokOff = b) ∧
    (∀ pre len, spec.token = .synth pre len →
      (tokenFor spec s tokOff).length = max len pre.length ∧
      (tokenFor spec s tokOff).take pre.length = pre ∧
      (tokenFor spec s tokOff).drop pre.length = takeStream s tokOff (max len pre.length - pre.length)) := by
  unfold tokenFor
  refine ⟨?_, ?_, ?_⟩
  · intro h; rw [h]
  · intro b h; rw [h]
  · intro pre len h
    rw [h]
    simp only [tokenLength, List.length_append, takeStream_length]
    refine ⟨by omega, take_append_len _ _ _ rfl, drop_append_len _ _ _ rfl⟩

/-- fresh per dial: if the random source supplies a different byte anywhere in the tail, the tokens differ -/
theorem token_fresh_per_dial (spec : Spec) (pre : List Nat) (len : Nat) (s s' : Nat → Nat) (off off' k : Nat)
    (h : spec.token = .synth pre len) (hk : k < max len pre.length - pre.length)
    (hdiff : s (off + k) ≠ s' (off' + k)) : tokenFor spec s off ≠ tokenFor spec s' off' := by
  intro heq
  have h1 := ((token_rules spec s off).2.2 pre len h).2.2
  have h2 := ((token_rules spec s' off').2.2 pre len h).2.2
  rw [heq, h2] at h1
  have := congrArg (fun l => l[k]?) h1
  simp [takeStream, hk] at this
  exact hdiff this.symm

/-- "… or absent", across dials: whatever specs were dialled before through the same caller `*Config`, the caller's
    Config is unchanged, so a spec without token settings dials with exactly the caller's own token source — no
    token at all when the caller configured none (the glue `UTransport.dial`: copy first, override the copy) -/
theorem caller_config_untouched (user : UserConf) (specs : List Spec) : afterDials user specs = user := by
  unfold afterDials
  induction specs with
  | nil => rfl
  | cons sp rest ih => simpa [List.foldl, dialConf] using ih

theorem token_absent_after_any_dials (specs : List Spec) (spec : Spec) (h : spec.token = .none) :
    (dialConf (afterDials {} specs) spec).2.tokenStore = .none := by
  rw [caller_config_untouched]; simp [dialConf, h]

/-! ### 4. sizes -/

/-- exact size, minimum padding, Length field arithmetic and varint-width consistency -/
theorem sizes (h : Hdr) (p : List Nat) (plan : Plan) (udpMin cap : Nat) (out : Out)
    (hok : assemble h p plan udpMin cap = .ok out) :
    out.lengthField = h.pnLen + out.payloadLen + 16 ∧
    out.packetLen = h.len + out.payloadLen + 16 ∧
    -- the header as serialised is as long as the header length the sizes were computed with
    (h.bytes out.lengthField).length = h.len ∧ out.plain.length + 16 = out.packetLen ∧
    -- a header-protection sample always exists
    h.pnLen + out.payloadLen ≥ 4 ∧
    -- exact PacketSize when the content fits, and never trailing bytes after an exact-size packet
    (plan.packetSize > 0 → h.len + p.length + 16 ≤ plan.packetSize → h.len + 4 + 16 ≤ plan.packetSize →
      out.packetLen = plan.packetSize) ∧
    (plan.packetSize > 0 → out.datagramLen = out.packetLen) ∧
    -- otherwise only the sample minimum is added inside the packet and the datagram is padded to the UDP
    -- minimum (or 1200), capped at the packet buffer
    (plan.packetSize = 0 → out.payloadLen = p.length + samplePad h.pnLen p.length ∧
      out.datagramLen = max out.packetLen (min (if udpMin = 0 then 1200 else udpMin) cap)) := by
  obtain ⟨hpl, hlf, hpk, _, hpn, hdg, hplain⟩ := assemble_ok _ _ _ _ _ _ hok
  rw [tagLen_eq] at *
  have hs := innerPad_sample plan h.len h.pnLen p.length hpn.2
  refine ⟨hlf, hpk, bytes_length _ _, ?_, by omega, ?_, ?_, ?_⟩
  · rw [hplain, List.length_append, bytes_length, hpk, hpl]; simp
  · intro hps hfit hmin
    rw [hpk, hpl]; unfold innerPad exactFill samplePad; rw [if_pos hps, tagLen_eq]
    split <;> omega
  · intro hps
    rw [hdg]; unfold datagramLenOf; rw [if_neg (by omega)]
  · intro hps
    have hf : exactFill plan h.len p.length = 0 := by unfold exactFill; rw [if_neg (by omega)]
    refine ⟨by rw [hpl]; unfold innerPad; rw [hf]; simp, ?_⟩
    rw [hdg]; unfold datagramLenOf; rw [if_pos hps, defaultUDPMin_eq, Nat.max_def, Nat.min_def]
    simp only []
    repeat' split
    all_goals omega

/-- CRYPTO split offsets: `CryptoLength = c` makes the packer pop exactly `c` CRYPTO bytes for the datagram,
    so the next datagram's CRYPTO data starts exactly `c` further on -/
theorem crypto_split_offsets (spec : Spec) (plan : Plan) (hdr off remaining maxSize : Nat)
    (hc : 0 < plan.cryptoLength) (hc2 : plan.cryptoLength < 16384)
    (hfit : hdr + cryptoFrameLen off plan.cryptoLength < maxSize - tagLen)
    (hrem : plan.cryptoLength ≤ remaining) :
    off + popLen spec plan hdr off remaining maxSize = off + plan.cryptoLength := by
  rw [popLen_cryptoLength spec plan hdr off remaining maxSize hc hc2 hfit hrem]

/-! ### 5. fits_buffer_or_error -/

/-- `appendInitialPacketPayload` never writes beyond the buffer: the packet AND the padded datagram are at most
    `cap` bytes, or one of the two diagnosable errors is returned (no hypothesis on the UDP minimum: it is capped
    at the buffer since /repo aedbf0e) -/
theorem fits_buffer_or_error (h : Hdr) (p : List Nat) (plan : Plan) (udpMin cap : Nat) :
    (∃ out, assemble h p plan udpMin cap = .ok out ∧ out.packetLen ≤ cap ∧ out.plain.length + 16 = out.packetLen ∧
      out.datagramLen ≤ cap) ∨
    (assemble h p plan udpMin cap = .error .nofit ∧
      h.len + (p.length + innerPad plan h.len h.pnLen p.length) + 16 > cap) ∨
    (assemble h p plan udpMin cap = .error .badPnLen ∧ (h.pnLen < 1 ∨ h.pnLen > 4)) := by
  cases hres : assemble h p plan udpMin cap with
  | ok out =>
    left
    obtain ⟨_, _, _, hfit, _, hdg, _⟩ := assemble_ok _ _ _ _ _ _ hres
    have hsz := sizes h p plan udpMin cap out hres
    refine ⟨out, rfl, hfit, hsz.2.2.2.1, ?_⟩
    rw [hdg]; unfold datagramLenOf
    simp only []
    repeat' split
    all_goals omega
  | error e =>
    right
    rcases assemble_err _ _ _ _ _ _ hres with ⟨he, hgt⟩ | ⟨he, hpn⟩
    · left; subst he; rw [tagLen_eq] at hgt; exact ⟨rfl, hgt⟩
    · right; subst he; exact ⟨rfl, hpn⟩

/-- `UDPDatagramMinSize: 1500` (above the 1452-byte buffer): the datagram is 1452 bytes -/
example : (assemble { dcid := List.replicate 8 0, scid := [], token := [], pn := 0, pnLen := 1 } [6, 0, 1, 1] {} 1500 1452).toOption.map
    (fun out => out.datagramLen) = some 1452 := by decide

/-! ### 6. decryptable -/

/-- the first packet number fits its own encoding -/
def PNRepresentable (spec : Spec) : Prop := initialPN spec < 256 ^ pnLenFor spec 0

instance (spec : Spec) : Decidable (PNRepresentable spec) := by unfold PNRepresentable; infer_instance

theorem initialPN_le (spec : Spec) : initialPN spec ≤ 4611686018427387903 := by
  unfold initialPN; rw [maxPN_eq]; split <;> omega

/-- `firstPNLen` (what `dial` looks at) is the encoding length the first Initial really gets -/
theorem firstPNLen_eq (spec : Spec) : firstPNLen spec = pnLenFor spec 0 := by
  have hb := initialPN_le spec
  unfold firstPNLen pnLenFor pnFor pnBase
  by_cases hl : spec.pnLens.length > 0
  · simp only [hl, if_true]
    have hw : wrap64 (((initialPN spec + 0 : Nat) : Int) - ((initialPN spec : Nat) : Int)) = 0 := by
      unfold wrap64; omega
    rw [hw]
    have hn0 : ¬ ((0 : Int) < 0) := by omega
    have h2 : ¬ ((0 : Int) ≥ (spec.pnLens.length : Nat)) := by omega
    simp only [hn0, h2, if_false, Int.toNat_zero]
  · simp only [hl, if_false]; rfl

/-- `Dial` returns the "cannot be encoded" error EXACTLY when the first packet number does not fit the (valid)
    encoding length of the first Initial packet: `initialPN ≥ 2^(8·firstPNLen)` -/
theorem dial_rejects_iff (spec : Spec) :
    dialRejects spec = true ↔
      (1 ≤ pnLenFor spec 0 ∧ pnLenFor spec 0 ≤ 4 ∧ initialPN spec ≥ 2 ^ (8 * pnLenFor spec 0)) := by
  unfold dialRejects; rw [firstPNLen_eq]; simp

/-- so every dial that goes ahead with a valid encoding length has a representable first packet number -/
theorem accepted_dial_representable (spec : Spec) (hacc : dialRejects spec = false)
    (hl : 1 ≤ pnLenFor spec 0 ∧ pnLenFor spec 0 ≤ 4) : PNRepresentable spec := by
  have h : ¬ (1 ≤ pnLenFor spec 0 ∧ pnLenFor spec 0 ≤ 4 ∧ initialPN spec ≥ 2 ^ (8 * pnLenFor spec 0)) := by
    intro hc
    have := (dial_rejects_iff spec).2 hc
    rw [hacc] at this
    cases this
  unfold PNRepresentable
  have hp : (256 : Nat) ^ pnLenFor spec 0 = 2 ^ (8 * pnLenFor spec 0) := by
    rw [show (256 : Nat) = 2 ^ 8 by rfl, ← Nat.pow_mul]
  rw [hp]; omega

/-- `InitPacketNumber: 300` with a 1-byte encoding, `2^31` in 2 bytes, `2^62-1` in 4 bytes are refused;
    `255` in 1 byte and `2^31` in 4 bytes are not -/
example : dialRejects { initPN := 300, pnLen1 := 1 } = true ∧ dialRejects { initPN := 2147483648, pnLens := [2, 4] } = true ∧
    dialRejects { initPN := 255, pnLen1 := 1 } = false ∧ dialRejects { initPN := 2147483648, pnLen1 := 4 } = false := by
  simp [dialRejects, firstPNLen, initialPN, maxPN_eq]

/-- a server that has processed nothing yet (largest = 0, as quic-go's opener) decodes the first Initial's
    truncated packet number to the number the client encrypted with — iff it is representable -/
theorem first_pn_decodes (pnLen pn : Nat) (hl : 1 ≤ pnLen ∧ pnLen ≤ 4) (hpn : pn < 4611686018427387904) :
    decodePN pnLen 0 ((pn % 256 ^ pnLen : Nat) : Int) = (pn : Int) ↔ pn < 256 ^ pnLen := by
  obtain ⟨h1, h4⟩ := hl
  have : pnLen = 1 ∨ pnLen = 2 ∨ pnLen = 3 ∨ pnLen = 4 := by omega
  rcases this with h | h | h | h <;> subst h <;> simp [decodePN] <;> omega

/-- every later Initial of the flight decodes against its predecessor, whatever the encoding length -/
theorem next_pn_decodes (pnLen pn : Nat) (hl : 1 ≤ pnLen ∧ pnLen ≤ 4) (_hpos : 0 < pn)
    (_hpn : pn < 4611686018427387904 - 4294967296) :
    decodePN pnLen ((pn : Int) - 1) ((pn % 256 ^ pnLen : Nat) : Int) = (pn : Int) := by
  obtain ⟨h1, h4⟩ := hl
  have : pnLen = 1 ∨ pnLen = 2 ∨ pnLen = 3 ∨ pnLen = 4 := by omega
  rcases this with h | h | h | h <;> subst h <;> simp [decodePN] <;> omega

/-- what a conformant server does with the first Initial the model emits for `(spec, s, p, plan)` of a dial
    that is not refused -/
def firstInitialOpens (spec : Spec) (s : Nat → Nat) (tokOff : Nat) (p : List Nat) (plan : Plan) (udpMin : Nat) : Bool :=
  if dialRejects spec then true else
  match assemble (hdrOf spec s tokOff 0) p plan udpMin 1452 with
  | .ok out => match observe out.plain out.datagramLen with
    | some v => serverCanOpen (pnFor spec 0) 0 v
    | none => false
  | .error _ => true

/-- full statement: the first datagram of every spec's flight (connection ID lengths 0..20) can be opened by a
    conformant server -/
def decryptable_full : Prop :=
  ∀ (spec : Spec) (s : Nat → Nat) (tokOff : Nat) (p : List Nat) (plan : Plan) (udpMin : Nat),
    spec.scidLen ≤ 20 → spec.dcidLen ≤ 20 → firstInitialOpens spec s tokOff p plan udpMin = true

/-- proved restriction. The only hypothesis that is a real gap is `hd8`: a `DestConnIDLength` of 1..7 is still
    honoured (known finding). The header-protection sample needs no hypothesis any more (`assemble` pads), and
    the packet number decodes for every dial that is not refused (`dialRejects spec = false`).
    (AEAD and header protection themselves are property C05's theorems.) -/
theorem decryptable_partial (spec : Spec) (s : Nat → Nat) (tokOff i : Nat) (p : List Nat) (plan : Plan)
    (udpMin cap : Nat) (out : Out) (v : View)
    (hs : spec.scidLen ≤ 20) (hd : spec.dcidLen ≤ 20) (hd8 : spec.dcidLen = 0 ∨ 8 ≤ spec.dcidLen)
    (ht : (tokenFor spec s tokOff).length < 4611686018427387904) (hcap : cap < 16384)
    (hacc : dialRejects spec = false)
    (hl0 : 1 ≤ pnLenFor spec 0 ∧ pnLenFor spec 0 ≤ 4)
    (hok : assemble (hdrOf spec s tokOff i) p plan udpMin cap = .ok out)
    (hobs : observe out.plain out.datagramLen = some v)
    (hrange : i < 4294967296) :
    serverCanOpen (pnFor spec i) (if i = 0 then 0 else (pnFor spec i : Int) - 1) v = true := by
  obtain ⟨v', hv', _, _, _, _, _, hdl1, hdl0, _, hpl, hpn, _, _, hpay, _⟩ :=
    header_as_specified spec s tokOff i p plan udpMin cap out hs hd ht hcap hok
  rw [hobs] at hv'
  injection hv' with hv'
  subst hv'
  obtain ⟨_, _, _, _, hlen, _, _⟩ := assemble_ok _ _ _ _ _ _ hok
  have hlen' : 1 ≤ pnLenFor spec i ∧ pnLenFor spec i ≤ 4 := hlen
  have hsample := (sizes _ _ _ _ _ _ hok).2.2.2.2.1
  have hrep := accepted_dial_representable spec hacc hl0
  have hb : initialPN spec < 4294967296 := by
    have h32 : 256 ^ pnLenFor spec 0 ≤ 4294967296 := by
      have : pnLenFor spec 0 = 1 ∨ pnLenFor spec 0 = 2 ∨ pnLenFor spec 0 = 3 ∨ pnLenFor spec 0 = 4 := by omega
      rcases this with h | h | h | h <;> rw [h] <;> decide
    unfold PNRepresentable at hrep
    omega
  unfold serverCanOpen
  simp only [Bool.and_eq_true, decide_eq_true_eq]
  refine ⟨⟨by rw [hpl, hpay]; exact hsample, ?_⟩, ?_⟩
  · rw [hpl, hpn]
    by_cases hi : i = 0
    · subst hi
      rw [if_pos rfl]
      exact (first_pn_decodes _ _ hlen' (by unfold pnFor; omega)).2 (by unfold PNRepresentable at hrep; unfold pnFor; simpa using hrep)
    · rw [if_neg hi]
      exact next_pn_decodes _ _ hlen' (by unfold pnFor; omega) (by unfold pnFor; omega)
  · rcases hd8 with h0 | h8
    · exact (hdl0 h0).1
    · rw [hdl1 (by omega)]; exact h8

/-- a lone PING with a 1-byte packet number (the former excluded point) is padded to 3 payload bytes and opens -/
theorem lone_ping_is_padded :
    firstInitialOpens { dcidLen := 8, pnLen1 := 1 } (fun _ => 0) 0 [1] {} 0 = true ∧
    (assemble (hdrOf { dcidLen := 8, pnLen1 := 1 } (fun _ => 0) 0 0) [1] {} 0 1452).toOption.map (·.payloadLen) = some 3 := by
  decide

/-- the remaining excluded point: `DestConnIDLength` 1..7 is honoured (a conformant server drops such Initials) -/
theorem decryptable_witness_dcid :
    firstInitialOpens { dcidLen := 5, pnLen1 := 1 } (fun _ => 0) 0 [6, 0, 1, 1] {} 0 = false := by
  decide

theorem decryptable_witness : ¬ decryptable_full := by
  intro h
  have := h { dcidLen := 5, pnLen1 := 1 } (fun _ => 0) 0 [6, 0, 1, 1] {} 0 (by decide) (by decide)
  revert this
  decide

/-! ### 7. within_max_packet_size -/

theorem dry_le_wire (crypto : List (Nat × Nat)) (base : Nat) :
    (crypto.map (fun f => cryptoFrameLen (f.1 - base) f.2)).sum ≤ (crypto.map (fun f => cryptoFrameLen f.1 f.2)).sum := by
  induction crypto with
  | nil => simp
  | cons f rest ih =>
    simp only [List.map_cons, List.sum_cons]
    have hf : cryptoFrameLen (f.1 - base) f.2 ≤ cryptoFrameLen f.1 f.2 := by
      have := varintLen_mono (show f.1 - base ≤ f.1 by omega)
      unfold cryptoFrameLen; omega
    omega

/-- the arithmetic of the `QUICRandomFrames` reserve path, for ALL outcomes `(crypto, pings)` of the draws:
    the packet stays within the connection's maximum packet size if
    * the frame overhead the builder adds (extra CRYPTO headers + PINGs, compared with the single frame the
      packer budgeted) is at most the reserve of 16 bytes, and
    * the size the spec itself asks for (`Length`, plus the growth of absolute over relative CRYPTO offsets)
      fits the maximum. -/
theorem within_max_packet_size_partial (spec : Spec) (rf : RF) (plan : Plan) (hdr off remaining maxSize : Nat)
    (crypto : List (Nat × Nat)) (pings : Nat)
    (hb : spec.builder = .random rf) (hplan : plan.cryptoLength = 0)
    (hlen : rf.length > paddingReserve) (hlen2 : rf.length ≤ 16384) (hpad : rf.minPad ≥ 1)
    (hbudget : hdr + rf.length - paddingReserve < maxSize - tagLen)
    (hpos : 0 < popLen spec plan hdr off remaining maxSize)
    (hover : (rfW rf crypto pings off).cryptoWireLen + pings ≤
      cryptoFrameLen off (popLen spec plan hdr off remaining maxSize) + paddingReserve)
    (hasked : hdr + (rf.length + ((rfW rf crypto pings off).cryptoWireLen -
      (crypto.map (fun f => cryptoFrameLen (f.1 - off) f.2)).sum)) + tagLen ≤ maxSize) :
    hdr + (rfW rf crypto pings off).payloadLen + tagLen ≤ maxSize := by
  have hsingle := popLen_reserve spec rf plan hdr off remaining maxSize hb hplan hlen hlen2 hpad hbudget hpos
  have hdry := dry_le_wire crypto off
  unfold W.payloadLen
  unfold rfW W.cryptoWireLen at *
  simp only [] at *
  unfold rfPad dryLen
  rw [paddingReserve_eq, tagLen_eq] at *
  omega

/-- the CRYPTO budget never exceeds `maxSize - tag`, for EVERY `CryptoLength` and builder (the comparison in
    `PackCoalescedPacket` is against `initialMaxSize`, not `maxSize`) -/
theorem cryptoBudget_le (spec : Spec) (plan : Plan) (hdr off maxSize : Nat) :
    cryptoBudget spec plan hdr off maxSize ≤ maxSize - tagLen := by
  unfold cryptoBudget
  simp only []
  repeat' split
  all_goals omega

/-- hence the packet the packer itself budgets — header, the ONE popped CRYPTO frame, tag — fits the
    connection's maximum packet size for every `CryptoLength` (also the ones just above a packet's capacity)
    and every offset; only frames a builder adds on top can exceed it (the two known findings) -/
theorem within_max_packet_size_popped (spec : Spec) (plan : Plan) (hdr off remaining maxSize : Nat)
    (hmax : maxSize ≤ 16384) (hhdr : hdr ≤ cryptoBudget spec plan hdr off maxSize)
    (hpos : 0 < popLen spec plan hdr off remaining maxSize) :
    hdr + cryptoFrameLen off (popLen spec plan hdr off remaining maxSize) + tagLen ≤ maxSize := by
  have hb := cryptoBudget_le spec plan hdr off maxSize
  have hfit := maxDataLen_fits off (cryptoBudget spec plan hdr off maxSize - hdr)
    (popLen spec plan hdr off remaining maxSize) (by unfold popLen; exact Nat.min_le_left _ _) hpos (by omega)
  rw [tagLen_eq] at *
  have hge : cryptoFrameLen off (popLen spec plan hdr off remaining maxSize) ≥ 1 := by unfold cryptoFrameLen; omega
  omega

/-- full statement: no emitted Initial exceeds the connection's current maximum packet size (for a spec whose
    own requested size fits it) -/
def within_max_packet_size_full : Prop :=
  ∀ (spec : Spec) (rf : RF) (plan : Plan) (hdr off remaining maxSize : Nat) (crypto : List (Nat × Nat)) (pings : Nat),
    spec.builder = .random rf → plan.cryptoLength = 0 → rf.length > paddingReserve → rf.length ≤ 16384 → rf.minPad ≥ 1 →
    hdr + rf.length - paddingReserve < maxSize - tagLen →
    0 < popLen spec plan hdr off remaining maxSize →
    -- the outcome is one the builder can produce: it cuts the popped bytes, within its frame-count bounds
    (crypto.map (·.2)).sum = popLen spec plan hdr off remaining maxSize →
    crypto.length < rf.maxCrypto → pings < rf.maxPing →
    hdr + (rf.length + ((rfW rf crypto pings off).cryptoWireLen -
      (crypto.map (fun f => cryptoFrameLen (f.1 - off) f.2)).sum)) + tagLen ≤ maxSize →
    hdr + (rfW rf crypto pings off).payloadLen + tagLen ≤ maxSize

/-- the built-in Chrome_146 spec (`QUICRandomFrames{1,4,6,14,2,6,1215}`, 8-byte DCID, empty SCID, no token,
    1-byte packet number: a 19-byte header) with the default maximum packet size 1280: 13 CRYPTO frames
    (12 × 92 + 91 = the 1195 bytes the packer popped) and 3 PINGs make a 1297-byte Initial packet -/
def chrome146Cuts : List (Nat × Nat) :=
  (List.range 12).map (fun k => (92 * k, 92)) ++ [(1104, 91)]

theorem within_max_packet_size_witness : ¬ within_max_packet_size_full := by
  intro h
  have := h { builder := .random { minPing := 1, maxPing := 4, minCrypto := 6, maxCrypto := 14, minPad := 2, maxPad := 6, length := 1215 } }
    { minPing := 1, maxPing := 4, minCrypto := 6, maxCrypto := 14, minPad := 2, maxPad := 6, length := 1215 }
    {} 19 0 1736 1280 chrome146Cuts 3 rfl rfl
  revert this
  decide

/-! ### the hypotheses are satisfiable by non-trivial states -/

/-- a Chrome-like spec (8-byte DCID, packet numbers from 1 with lengths [1,2], synthesised token): the second
    Initial of a dial with a 40-byte payload, padded to an exact 120 bytes -/
example : (assemble (hdrOf { dcidLen := 8, initPN := 1, pnLens := [1, 2], token := .synth [0] 12 } (fun k => k % 251) 40 1)
    (List.replicate 40 0) { packetSize := 120 } 0 1452).toOption.map (fun out => (out.packetLen, out.datagramLen, out.lengthField)) =
    some (120, 120, 90) := by decide

example : PNRepresentable { initPN := 1, pnLens := [1, 2] } := by decide

/-- an outcome within the reserve: two CRYPTO frames and one PING -/
example : (rfW { minPad := 2, maxPad := 6, length := 1215 } [(0, 600), (600, 595)] 1 0).cryptoWireLen + 1 ≤
    cryptoFrameLen 0 1195 + paddingReserve := by decide

example : popLen { builder := .random { minPing := 1, maxPing := 4, minCrypto := 6, maxCrypto := 14, minPad := 2, maxPad := 6, length := 1215 } }
    {} 19 0 1736 1280 = 1195 := by decide

example : popLen {} { cryptoLength := 999, packetSize := 1200 } 19 0 1736 1280 = 999 := by decide

end Uquic.Props.C10
