import Uquic.Model.UQuic.Initial
import Uquic.Model.UQuic.InitialBuild
import Uquic.Spec.Observe
import Uquic.Spec.ObserveMon

namespace Uquic.Props.C10
open Uquic.Model.Initial

/-- `ExtendedHeader.Append` writes the Length varint with the width `GetLength` reserves for it -/
theorem length_width_consistent : lenW = lenWGetLength ∧ lenW = 2 := by decide

end Uquic.Props.C10
