/-
Property C03 — stream and CRYPTO reassembly delivers exactly the sent byte sequence.

Theorems about the Lean models of frame_sorter.go, receive_stream.go, crypto_stream.go and the receive
side of the stream flow controller (Uquic/Model/Reassembly/*).  `src : Nat → UInt8` is the one
underlying byte string; a frame `(off, data)` is *consistent* when `data[j] = src (off + j)`.

  push_refines    every `Push` of a consistent frame preserves the sorter invariant `Inv` and adds exactly
                  the frame's offsets to the received set (or stops at the gap limit, delivered data untouched)
  pop_contiguous  `Pop` hands out `src[readPos, readPos+n)`; over every history of pushes and pops the
                  concatenation of all pops is the prefix `src[0, readPos)`; `Peek` returns source bytes
  buffers         conservation of receive buffers: over every history each buffer id is released at most
                  once, never while a queued frame still refers to it, and every displaced buffer is released
  final_size      a frame / reset contradicting the established final size gets FINAL_SIZE_ERROR and
                  changes nothing that was or will be delivered; an established final size never moves
  flow_limit      data beyond the advertised window gets FLOW_CONTROL_ERROR, nothing delivered changes
  crypto_limits   CRYPTO_BUFFER_EXCEEDED / PROTOCOL_VIOLATION exactly at the crypto stream's limits
  reader          (ReceiveStream) Read returns the source bytes at the read position, EOF exactly at the
                  final size, Peek the same bytes without consuming; over every history of frames, resets,
                  reads, peeks, cancels, shutdown the concatenation of all reads is a source prefix
-/
import Uquic.Proofs.SorterPop
import Uquic.Proofs.StreamOps
import Uquic.Proofs.CryptoGlue
import Uquic.Model.Reassembly.ReceiveStream
import Uquic.Model.Reassembly.Crypto

namespace Uquic.Props.C03
open Uquic.Model.Reassembly Uquic.Proofs.Sorter Uquic.Proofs.Stream Uquic.Proofs.Crypto

/-! ## 1. push refines the abstract received set -/

/-- `Inv` (Proofs/SorterInv.lean): gaps ascending, disjoint, non-adjacent, last one open-ended; queued
frames non-empty, pairwise disjoint, tiling exactly the complement of the gaps above `readPos`; every
queued byte equals the source byte at its offset.  It holds initially. -/
theorem inv_initial (src : Nat → UInt8) : Inv src ({} : Sorter) := inv_init src

/-- **push_refines.** For every state satisfying `Inv`, every consistent frame inside the offset space,
every release callback: `Push` never panics; it either answers the gap-limit error — `readPos`, hence
everything delivered so far, untouched — or preserves `Inv`, and the received set grows by exactly the
frame's offsets (`abs s' = abs s ∪ segment`; bytes are the source's by `Inv.data`). -/
theorem push_refines {src : Nat → UInt8} {s : Sorter} (h : Inv src s) (data : Bytes) (off : Nat) (cb : Option Nat)
    (hmax : off + data.length < maxByteCount) (hsrc : ∀ j, j < data.length → data[j]? = some (src (off + j))) :
    ((s.push data off cb).res = .ok ∨ (s.push data off cb).res = .tooManyGaps) ∧
    (s.push data off cb).s.readPos = s.readPos ∧
    ((s.push data off cb).res = .ok →
      Inv src (s.push data off cb).s ∧
      ∀ p, received (s.push data off cb).s p ↔ (received s p ∨ (s.readPos ≤ p ∧ off ≤ p ∧ p < off + data.length))) ∧
    ((s.push data off cb).res = .tooManyGaps → (s.push data off cb).s.gaps.length > maxStreamFrameSorterGaps) := by
  have sp := push_spec h data off cb hmax hsrc
  refine ⟨sp.res, sp.rp, ?_, sp.limit⟩
  intro hok
  refine ⟨sp.inv hok, ?_⟩
  intro p
  simp only [received, sp.rp, sp.gaps p]
  constructor
  · rintro ⟨h1, h2, h3⟩
    by_cases hin : off ≤ p ∧ p < off + data.length
    · exact Or.inr ⟨h1, hin.1, hin.2⟩
    · exact Or.inl ⟨h1, h2, fun hg => h3 ⟨hg, hin⟩⟩
  · rintro (⟨h1, h2, h3⟩ | ⟨h1, h2, h3⟩)
    · exact ⟨h1, h2, fun hc => h3 hc.1⟩
    · exact ⟨h1, by omega, fun hc => hc.2 ⟨h2, h3⟩⟩

/-- under `Inv` every received offset is backed by a queued frame holding the source byte -/
theorem received_is_source {src : Nat → UInt8} {s : Sorter} (h : Inv src s) {p : Nat} (hp : received s p) :
    ∃ x ∈ s.queue, x.1 ≤ p ∧ p < x.1 + x.2.data.length ∧ x.2.data[p - x.1]? = some (src p) :=
  received_byte h hp

/-- the hypotheses of `push_refines` are satisfiable by a non-trivial state: after `[10,13)` was pushed
there is one queued frame and two gaps, and a second, overlapping frame is accepted as well -/
example : ∃ s : Sorter, Inv (fun i => UInt8.ofNat i) s ∧ s.queue.length = 1 ∧ s.gaps.length = 2 := by
  have h0 := inv_initial (fun i => UInt8.ofNat i)
  have sp := push_spec h0 [10, 11, 12] 10 (some 1) (by unfold maxByteCount Uquic.Gen.Protocol.MaxByteCount; decide)
    (by intro j hj; match j, hj with | 0, _ => rfl | 1, _ => rfl | 2, _ => rfl)
  refine ⟨(({} : Sorter).push [10, 11, 12] 10 (some 1)).s, sp.inv (by decide), by decide, by decide⟩

/-! ## 2. pops are contiguous source bytes -/

/-- **pop_contiguous (one step).** Under `Inv`, `Pop` never panics. Either no frame starts at `readPos`
and nothing changes, or it returns offset `readPos`, a non-empty frame equal to the source bytes
`src[readPos, readPos+n)`, advances `readPos` by `n` and `Inv` holds again. -/
theorem pop_contiguous_step {src : Nat → UInt8} {s : Sorter} (h : Inv src s) :
    (s.pop = (s, .ok s.readPos none none)) ∨
    (∃ e : Entry, s.pop = ({ s with queue := qdel s.queue s.readPos, readPos := s.readPos + e.data.length },
                   .ok s.readPos (some e.data) e.cb) ∧
      e.data = srcSeg src s.readPos e.data.length ∧ 0 < e.data.length ∧
      Inv src { s with queue := qdel s.queue s.readPos, readPos := s.readPos + e.data.length }) := by
  rcases pop_spec h with ⟨_, hp⟩ | ⟨e, _, hp, hd, hpos, hI, _⟩
  · exact Or.inl hp
  · exact Or.inr ⟨e, hp, hd, hpos, hI⟩

/-- `Pop` returns nothing exactly when the byte at `readPos` has not been received -/
theorem pop_none_iff_missing {src : Nat → UInt8} {s : Sorter} (h : Inv src s) (hrp : s.readPos < maxByteCount) :
    (s.pop).2 = .ok s.readPos none none ↔ ¬ received s s.readPos := by
  rcases pop_spec h with ⟨hq, hp⟩ | ⟨e, he, hp, _, hpos, _, _⟩
  · rw [hp]
    simp only [true_iff]
    intro hr
    obtain ⟨x, hx, h1, h2⟩ := h.cov hr.1 hr.2.1 hr.2.2
    have hk : x.1 = s.readPos := by have := h.erp x hx; omega
    obtain ⟨k, e⟩ := x
    simp only at hk; subst hk
    exact (qget_none_iff.mp hq) e hx
  · rw [hp]
    constructor
    · intro hc; cases hc
    · intro hn
      exfalso
      apply hn
      refine ⟨Nat.le_refl _, hrp, fun hg => h.excl hg ⟨_, he, Nat.le_refl _, ?_⟩⟩
      show s.readPos < s.readPos + e.data.length
      omega

/-- **pop_contiguous (all histories).** For every finite sequence of pushes of segments of the one
source string — any order, overlap, duplication, different boundaries — interleaved with pops: the
concatenation of everything popped is exactly the source prefix `src[0, readPos)`, and as long as no
push hit the gap limit the invariant holds. -/
theorem pop_contiguous (src : Nat → UInt8) (ops : List SOp) (hops : ∀ op ∈ ops, InBounds op) :
    (runOps src ops).out = srcSeg src 0 (runOps src ops).s.readPos ∧
    ((runOps src ops).alive = true → Inv src (runOps src ops).s) :=
  ⟨(run_inv src ops hops).out, (run_inv src ops hops).inv⟩

/-- `Peek` is a function of the state (it cannot change what is received) and returns source bytes -/
theorem peek_is_source {src : Nat → UInt8} {s : Sorter} (h : Inv src s) (off n : Nat) (d : Bytes)
    (hp : s.peek off n = some d) : d = srcSeg src off n :=
  peek_spec h off n d hp

/-- a non-trivial history: two out-of-order overlapping pushes and two pops deliver `src[0,5)` -/
example : (runOps (fun i => UInt8.ofNat (i + 1)) [.push 2 3 (some 1), .pop, .push 0 3 (some 2), .pop, .pop]).out
    = [1, 2, 3, 4, 5] := by decide

/-! ## 3. buffers -/

/-- **buffers (one step).** A successful `Push` conserves buffers: the callbacks it fired together
with the callbacks still queued are a permutation of the callbacks queued before plus the new one.
Nothing is released twice, nothing queued is released, everything displaced is released. -/
theorem buffers_step {src : Nat → UInt8} {s : Sorter} (h : Inv src s) (data : Bytes) (off : Nat) (cb : Option Nat)
    (hmax : off + data.length < maxByteCount) (hsrc : ∀ j, j < data.length → data[j]? = some (src (off + j)))
    (hok : (s.push data off cb).res = .ok) :
    ((s.push data off cb).done ++ cbsOf (s.push data off cb).s.queue).Perm (cbList cb ++ cbsOf s.queue) :=
  (push_spec h data off cb hmax hsrc).bufs hok

/-- **buffers (all histories).** If every pushed buffer has a fresh id, then over every history: no id
is released twice; an id still referenced by a queued frame has not been released; and while no push
hit the gap limit every buffer ever pushed is either still queued or has been released (to the pool by
`Push`, or to the reader by `Pop`). -/
theorem buffers (src : Nat → UInt8) (ops : List SOp) (hops : ∀ op ∈ ops, InBounds op)
    (hfresh : (runOps src ops).pushed.Nodup) :
    (runOps src ops).released.Nodup ∧
    (∀ id ∈ cbsOf (runOps src ops).s.queue, id ∉ (runOps src ops).released) ∧
    ((runOps src ops).alive = true →
      ∀ id ∈ (runOps src ops).pushed, id ∈ (runOps src ops).released ∨ id ∈ cbsOf (runOps src ops).s.queue) := by
  obtain ⟨lost, hperm, hlost⟩ := (run_inv src ops hops).bufs
  have hnd : ((runOps src ops).released ++ cbsOf (runOps src ops).s.queue ++ lost).Nodup := hperm.nodup_iff.mpr hfresh
  rw [List.append_assoc] at hnd
  have h1 := List.nodup_append.mp hnd
  refine ⟨h1.1, ?_, ?_⟩
  · intro id hid hrel
    exact h1.2.2 id hrel id (List.mem_append_left _ hid) rfl
  · intro hal id hid
    have hl := hlost hal
    subst hl
    have := hperm.mem_iff.mpr hid
    simp only [List.append_nil, List.mem_append] at this
    exact this

/-! ## 4. final size and flow control -/

/-- the peer contradicts the final size the flow controller knows, or announces one below data it sent -/
def FinalSizeViolated (c : FC) (o : Nat) (fin : Bool) : Prop :=
  (c.receivedFinal = true ∧ (o > c.highest ∨ (fin = true ∧ o ≠ c.highest))) ∨
  (c.receivedFinal = false ∧ fin = true ∧ o < c.highest)

/-- `UpdateHighestReceived` answers FINAL_SIZE_ERROR exactly when the final size is contradicted -/
theorem final_size_iff (c : FC) (o : Nat) (fin : Bool) :
    (c.updateHighestReceived o fin).2 = some .finalSize ↔ FinalSizeViolated c o fin := by
  unfold FC.updateHighestReceived FinalSizeViolated
  cases hrf : c.receivedFinal <;> cases fin <;> simp <;> (repeat' split) <;> simp_all <;> omega

/-- `UpdateHighestReceived` answers FLOW_CONTROL_ERROR exactly when the final size is respected and the
new highest offset exceeds the stream's or the connection's advertised window -/
theorem flow_limit_iff (c : FC) (o : Nat) (fin : Bool) :
    (c.updateHighestReceived o fin).2 = some .flowControl ↔
      (¬ FinalSizeViolated c o fin ∧ o > c.highest ∧
        (o > c.window ∨ c.conn.highest + (o - c.highest) > c.conn.window)) := by
  unfold FC.updateHighestReceived FinalSizeViolated
  cases hrf : c.receivedFinal <;> cases fin <;> simp <;> (repeat' split) <;> simp_all <;> omega

/-- an established final size never moves: once the flow controller knows it, every accepted offset —
final or not — leaves it where it is -/
theorem final_size_stable (c : FC) (o : Nat) (fin : Bool) (hf : c.receivedFinal = true)
    (hok : (c.updateHighestReceived o fin).2 = none) :
    (c.updateHighestReceived o fin).1.highest = c.highest ∧ (c.updateHighestReceived o fin).1.receivedFinal = true ∧
    o ≤ c.highest ∧ (fin = true → o = c.highest) := by
  have h1 : ¬ FinalSizeViolated c o fin := by
    intro hv
    rw [(final_size_iff c o fin).mpr hv] at hok
    cases hok
  have h2 : o ≤ c.highest ∧ (fin = true → o = c.highest) := by
    unfold FinalSizeViolated at h1
    constructor
    · rcases Nat.lt_or_ge c.highest o with hlt | hge
      · exact absurd (Or.inl ⟨hf, Or.inl hlt⟩) h1
      · exact hge
    · intro hfin
      rcases Nat.lt_or_ge c.highest o with hlt | hge
      · exact absurd (Or.inl ⟨hf, Or.inl hlt⟩) h1
      · rcases Nat.lt_or_ge o c.highest with hlt2 | hge2
        · exact absurd (Or.inl ⟨hf, Or.inr ⟨hfin, by omega⟩⟩) h1
        · omega
  refine ⟨?_, ?_, h2.1, h2.2⟩
  · unfold FC.updateHighestReceived
    have ha : ¬(c.receivedFinal = true ∧ fin = true ∧ o ≠ c.highest) := fun hc => by have := h2.2 hc.2.1; exact hc.2.2 this
    have hb : ¬(c.receivedFinal = true ∧ o > c.highest) := fun hc => by omega
    rw [if_neg ha, if_neg hb]
    cases fin <;> simp <;> (repeat' split) <;> simp_all <;> omega
  · unfold FC.updateHighestReceived
    have ha : ¬(c.receivedFinal = true ∧ fin = true ∧ o ≠ c.highest) := fun hc => by have := h2.2 hc.2.1; exact hc.2.2 this
    have hb : ¬(c.receivedFinal = true ∧ o > c.highest) := fun hc => by omega
    rw [if_neg ha, if_neg hb]
    cases fin <;> simp <;> (repeat' split) <;> simp_all <;> omega

/-- **final_size / flow_limit (STREAM frame).** When the flow controller rejects the frame, the stream
answers with that error and neither the sorter (everything received), nor the read position, nor the
frame being read, nor the final offset change: nothing delivered or deliverable is corrupted. -/
theorem frame_rejected_unchanged (s : RStream) (off : Nat) (data : Bytes) (fin : Bool) (cb : Option Nat) (e : StreamErr)
    (h : (s.fc.updateHighestReceived (off + data.length) fin).2 = some e) :
    (s.handleStreamFrame off data fin cb).err = some e ∧
    (s.handleStreamFrame off data fin cb).s.sorter = s.sorter ∧
    (s.handleStreamFrame off data fin cb).s.readPos = s.readPos ∧
    (s.handleStreamFrame off data fin cb).s.cur = s.cur ∧
    (s.handleStreamFrame off data fin cb).s.rpif = s.rpif ∧
    (s.handleStreamFrame off data fin cb).s.finalOffset = s.finalOffset := by
  simp only [RStream.handleStreamFrame, h, FrameOut.complete, RStream.isNewlyCompleted]
  (repeat' split) <;> simp

/-- **final_size / flow_limit (RESET_STREAM, RESET_STREAM_AT).** The same for a reset whose final size
the flow controller rejects. -/
theorem reset_rejected_unchanged (s : RStream) (finalSize reliable code : Nat) (e : StreamErr)
    (hs : s.shutdown = false)
    (h : (s.fc.updateHighestReceived finalSize true).2 = some e) :
    (s.handleResetStreamFrame finalSize reliable code).err = some e ∧
    (s.handleResetStreamFrame finalSize reliable code).s.sorter = s.sorter ∧
    (s.handleResetStreamFrame finalSize reliable code).s.readPos = s.readPos ∧
    (s.handleResetStreamFrame finalSize reliable code).s.cur = s.cur ∧
    (s.handleResetStreamFrame finalSize reliable code).s.finalOffset = s.finalOffset ∧
    (s.handleResetStreamFrame finalSize reliable code).s.cancelledRemotely = s.cancelledRemotely ∧
    (s.handleResetStreamFrame finalSize reliable code).s.reliableSize = s.reliableSize := by
  simp only [RStream.handleResetStreamFrame, hs, Bool.false_eq_true, if_false, h, FrameOut.complete,
    RStream.isNewlyCompleted]
  (repeat' split) <;> simp

/-- the hypotheses are satisfiable: with final size 100 known, a frame ending at 120 is rejected -/
example : (({ receivedFinal := true, highest := 100, window := 1000, windowSize := 1000 } : FC).updateHighestReceived 120 false).2
    = some .finalSize := by decide

/-- and data beyond a 1000-byte window is a flow-control violation -/
example : (({ highest := 100, window := 1000, windowSize := 1000, conn := { window := 5000 } } : FC).updateHighestReceived 1001 false).2
    = some .flowControl := by decide

/-! ## 5. crypto stream limits -/

/-- **crypto_limits (1).** Data beyond `MaxCryptoStreamOffset` ⇒ CRYPTO_BUFFER_EXCEEDED, state unchanged. -/
theorem crypto_offset_limit (s : CryptoStream) (off : Nat) (data : Bytes)
    (h : off + data.length > maxCryptoStreamOffset) :
    s.handleCryptoFrame off data = (s, some .cryptoBufferExceeded) := by
  simp [CryptoStream.handleCryptoFrame, h]

/-- **crypto_limits (2).** After `Finish`, data above the highest offset seen ⇒ PROTOCOL_VIOLATION;
retransmissions at or below it are ignored; the state is unchanged either way. -/
theorem crypto_after_finish (s : CryptoStream) (off : Nat) (data : Bytes) (hf : s.finished = true)
    (h : off + data.length ≤ maxCryptoStreamOffset) :
    s.handleCryptoFrame off data =
      (s, if off + data.length > s.highestOffset then some .protocolViolation else none) := by
  have : ¬ off + data.length > maxCryptoStreamOffset := by omega
  simp only [CryptoStream.handleCryptoFrame, this, if_false, hf, if_true]
  split <;> rfl

/-- **crypto_limits (3).** `Finish` with queued data ⇒ PROTOCOL_VIOLATION (and the stream stays open);
with an empty queue it succeeds. -/
theorem crypto_finish (s : CryptoStream) :
    (s.queue.hasMoreData = true → s.finish = (s, some .protocolViolation)) ∧
    (s.queue.hasMoreData = false → s.finish = ({ s with finished := true }, none)) := by
  constructor <;> intro h <;> simp [CryptoStream.finish, h]

/-- **crypto_limits (4).** Inside the limits and before `Finish`, `HandleCryptoFrame` is `Push` without a
release callback: `push_refines` applies, so `GetCryptoData` (= `Pop`) delivers the source bytes in order. -/
theorem crypto_accept (s : CryptoStream) (off : Nat) (data : Bytes) (hf : s.finished = false)
    (h : off + data.length ≤ maxCryptoStreamOffset) :
    (s.handleCryptoFrame off data).1.queue = (s.queue.push data off none).s ∧
    (s.handleCryptoFrame off data).1.highestOffset = max s.highestOffset (off + data.length) := by
  have : ¬ off + data.length > maxCryptoStreamOffset := by omega
  simp only [CryptoStream.handleCryptoFrame, this, if_false, hf, Bool.false_eq_true]
  split <;> simp

theorem crypto_limit_below_offset_space : maxCryptoStreamOffset < maxByteCount := by
  unfold maxCryptoStreamOffset maxByteCount Uquic.Gen.Protocol.MaxCryptoStreamOffset Uquic.Gen.Protocol.MaxByteCount
  decide

/-! ## 6. what the reader of a ReceiveStream observes -/

/-- `SInv` (Proofs/StreamInv.lean): the sorter invariant; the frame being read is the source segment
ending at the sorter's read position; nothing was received beyond the flow controller's highest offset; a
known final offset is that (final) highest offset; `currentFrameIsLast` only once the final offset is
reached.  It holds for a new stream. -/
theorem stream_inv_initial (src : Nat → UInt8) (fc : FC) (h0 : fc.highest = 0) : SInv src { fc := fc } :=
  sinv_init src fc h0

/-- **Read.** From every state satisfying `SInv`, `Read(p)` with `|p| = n`: never panics; returns at most
`n` bytes and they are exactly the source bytes at the read position; the read position advances by
exactly that many; the invariant holds again; and `io.EOF` is reported only with the read position at
the established final offset — end-of-stream exactly at the final size. -/
theorem read_exact {src : Nat → UInt8} {s : RStream} (h : SInv src s) (n : Nat) :
    SInv src (s.read n).s ∧ (s.read n).data = srcSeg src s.readPos (s.read n).data.length ∧
    (s.read n).s.readPos = s.readPos + (s.read n).data.length ∧ (s.read n).data.length ≤ n ∧
    (s.read n).status ≠ .panic ∧
    ((s.read n).status = .eof → (s.read n).s.readPos = s.finalOffset ∧ s.finalOffset ≠ maxByteCount) := by
  obtain ⟨r1, r2, r3, _, r5, r6, r7⟩ := read_spec h n
  exact ⟨r1, r2, r3, r7, r6, r5⟩

/-- **Peek.** `Peek(b)` never panics, does not move the read position, returns source bytes at the read
position, and says EOF only when those bytes end at the final offset. -/
theorem peek_exact {src : Nat → UInt8} {s : RStream} (h : SInv src s) (n : Nat) (hn : 2 * n < maxByteCount) :
    SInv src (s.peek n).s ∧ (s.peek n).s.readPos = s.readPos ∧
    (s.peek n).data = srcSeg src s.readPos (s.peek n).data.length ∧ (s.peek n).data.length ≤ n ∧
    (s.peek n).status ≠ .panic ∧
    ((s.peek n).status = .eof → s.readPos + (s.peek n).data.length = s.finalOffset) := by
  have P := peek_stream_spec h n hn
  exact ⟨P.inv, P.rp, P.data, P.len, P.nopanic, fun he => (P.eof he).1⟩

/-- an accepted consistent STREAM frame keeps the stream invariant and does not move the read position -/
theorem frame_keeps_invariant {src : Nat → UInt8} {s : RStream} (h : SInv src s) (off len : Nat) (fin : Bool)
    (cb : Option Nat) (hmax : 2 * (off + len) < maxByteCount)
    (hok : (s.handleStreamFrame off (srcSeg src off len) fin cb).err = none) :
    SInv src (s.handleStreamFrame off (srcSeg src off len) fin cb).s ∧
    (s.handleStreamFrame off (srcSeg src off len) fin cb).s.readPos = s.readPos :=
  frame_sinv h off len fin cb hmax hok

/-- **RESET_STREAM / RESET_STREAM_AT.** From every state: `Read` reports the cancellation error only when
the stream was cancelled locally, or the peer reset it *and* the read position has reached the reliable
size — the reliable prefix (which by `read_exact` consists of source bytes) is delivered before the
reset error. -/
theorem reset_after_reliable_prefix (s : RStream) (n : Nat) (e : Option (Nat × Bool))
    (h : (s.read n).status = .cancelled e) :
    (s.read n).s.cancelledLocally = true ∨
    ((s.read n).s.cancelledRemotely = true ∧ (s.read n).s.readPos ≥ (s.read n).s.reliableSize) :=
  read_cancel_spec s n e h

/-- **reader (all histories).** For every finite sequence of STREAM frames cut from the one source string
(any order, overlap, duplication, FIN anywhere), RESET_STREAM / RESET_STREAM_AT, reads and peeks of
arbitrary sizes, CancelRead, closeForShutdown and control-frame pulls, up to the first frame or reset the
stream rejects: the concatenation of everything `Read` returned is exactly the source prefix
`src[0, readPos)`; no call panicked; every EOF was reported at the final size; every peek returned the
bytes at the read position. -/
theorem stream_reads_source (src : Nat → UInt8) (fc : FC) (h0 : fc.highest = 0) (ops : List StOp)
    (hops : ∀ op ∈ ops, StInBounds op) :
    (runSt src fc ops).out = srcSeg src 0 (runSt src fc ops).s.readPos ∧ (runSt src fc ops).good = true ∧
    ((runSt src fc ops).alive = true → SInv src (runSt src fc ops).s) :=
  ⟨(runSt_inv src fc h0 ops hops).out, (runSt_inv src fc h0 ops hops).good, (runSt_inv src fc h0 ops hops).inv⟩

/-- a non-trivial stream history: out-of-order frames with FIN, partial reads, a peek, EOF at size 5 -/
example : (runSt (fun i => UInt8.ofNat (i + 1)) { window := 100, windowSize := 100, conn := { window := 100, windowSize := 100 } }
    [.frame 3 2 true (some 1), .read 4, .frame 0 3 false (some 2), .peek 2, .read 2, .read 10]).out = [1, 2, 3, 4, 5] := by
  decide

/-! ## 7. the crypto stream behind the packet glue (`Conn.handleFrames` / `Conn.handleCryptoFrame`) -/

/-- **crypto glue (one frame).** `HandleCryptoFrame` followed by the `GetCryptoData` drain loop, for a
consistent frame inside the crypto buffer limit on an open stream whose sorter satisfies `Inv`: never
panics; unless the gap limit is hit, `Inv` holds again, the messages handed to the TLS stack are exactly
the source bytes from the old to the new read position, nothing deliverable is left in the queue, and the
recorded highest offset is the *maximum* of the old one and the frame's end. -/
theorem crypto_handle_and_drain {src : Nat → UInt8} (s : CryptoStream) (h : Inv src s.queue) (off len : Nat)
    (hopen : s.finished = false) (hlim : off + len ≤ maxCryptoStreamOffset) :
    ((s.handleAndDrain off (srcSeg src off len)).2.1 = none ∨ (s.handleAndDrain off (srcSeg src off len)).2.1 = some .tooManyGaps) ∧
    ((s.handleAndDrain off (srcSeg src off len)).2.1 = none →
      Inv src (s.handleAndDrain off (srcSeg src off len)).1.queue ∧
      (s.handleAndDrain off (srcSeg src off len)).2.2.flatten =
        srcSeg src s.queue.readPos ((s.handleAndDrain off (srcSeg src off len)).1.queue.readPos - s.queue.readPos) ∧
      qget (s.handleAndDrain off (srcSeg src off len)).1.queue.queue (s.handleAndDrain off (srcSeg src off len)).1.queue.readPos = none ∧
      (s.handleAndDrain off (srcSeg src off len)).1.highestOffset = max s.highestOffset (off + len)) := by
  obtain ⟨a1, a2⟩ := handleAndDrain_spec s h off len hopen hlim
  refine ⟨a1, fun he => ?_⟩
  obtain ⟨b1, _, b3, b4, _, b6⟩ := a2 he
  exact ⟨b1, b3, b4, b6⟩

/-- **crypto glue (one packet).** All CRYPTO frames of a packet, in packet order, every one accepted: the
messages handed to TLS, concatenated, are exactly the source bytes from the old to the new read position. -/
theorem crypto_packet_delivers_source {src : Nat → UInt8} (frames : List (Nat × Nat)) (s : CryptoStream)
    (h : Inv src s.queue) (hopen : s.finished = false) (hlim : ∀ f ∈ frames, f.1 + f.2 ≤ maxCryptoStreamOffset)
    (hok : ∀ r ∈ (s.handlePacket (frames.map fun f => (f.1, srcSeg src f.1 f.2))).2.1, r = none) :
    Inv src (s.handlePacket (frames.map fun f => (f.1, srcSeg src f.1 f.2))).1.queue ∧
    (s.handlePacket (frames.map fun f => (f.1, srcSeg src f.1 f.2))).2.2.flatten =
      srcSeg src s.queue.readPos
        ((s.handlePacket (frames.map fun f => (f.1, srcSeg src f.1 f.2))).1.queue.readPos - s.queue.readPos) := by
  obtain ⟨c1, _, c3⟩ := handlePacket_spec frames s h hopen hlim hok
  exact ⟨c1, c3⟩

/-- **highest offset = maximum.** Over every history of CRYPTO frames (any order), `GetCryptoData` and
`Finish`: the recorded highest offset is at least the end of every frame that was handled while the
stream was open. -/
theorem crypto_highest_is_max (ops : List COp) : ∀ hi ∈ (crun ops).acc, hi ≤ (crun ops).s.highestOffset :=
  crun_inv ops

/-- **retransmissions after Finish are ignored.** After any such history that ended with the stream
finished, a CRYPTO frame that ends at or below the end of *any* frame handled while the stream was open —
a retransmission with the same or with different boundaries, whatever the arrival order was — is ignored
without an error and without changing the stream; PROTOCOL_VIOLATION is reserved for data above the
highest offset (`crypto_after_finish`). -/
theorem crypto_retransmission_after_finish_ignored (ops : List COp) (hf : (crun ops).s.finished = true)
    (off : Nat) (data : Bytes) (hi : Nat) (hacc : hi ∈ (crun ops).acc) (hle : off + data.length ≤ hi)
    (hlim : off + data.length ≤ maxCryptoStreamOffset) :
    (crun ops).s.handleCryptoFrame off data = ((crun ops).s, none) := by
  have h1 := crun_inv ops hi hacc
  rw [crypto_after_finish _ off data hf hlim]
  have : ¬ off + data.length > (crun ops).s.highestOffset := by omega
  simp [this]

/-- a non-trivial instance: three frames arrive in the order 3rd, 2nd, 1st, are read, the stream is
finished, and a retransmission of the 3rd frame is ignored -/
example :
    let ops : List COp := [.frame 6 [7, 8, 9], .frame 3 [4, 5, 6], .frame 0 [1, 2, 3], .get, .get, .get, .finish]
    (crun ops).s.finished = true ∧ (crun ops).s.handleCryptoFrame 6 [7, 8, 9] = ((crun ops).s, none) := by
  decide

end Uquic.Props.C03
