import Uquic.Model.Reassembly.ReceiveStream
import Uquic.Model.Reassembly.Crypto
namespace Uquic.Props.C03
open Uquic.Model.Reassembly
theorem placeholder : (1 : Nat) = 1 := rfl
end Uquic.Props.C03
