/-
Property C08 for internal/handshake/session_ticket.go (an anchored file whose unexported `sessionTicket` type
no exported entry point reaches): the session ticket envelope round-trips, refuses other revisions, and the
extra-data tag finds exactly this library's entry.

* `ticket_roundtrip`              `Unmarshal(Marshal(p))` = the ticket normal form of `p` (the seven limits and
                                  two flags of `Props.C08More.tp_ticket_parse_marshal`), for every valid `p`;
* `ticket_length`                 the ticket is the revision varint followed by exactly the bytes
                                  `MarshalForSessionTicket` writes on its own (so appending behind the revision
                                  changes nothing — the `at … tpst` ops of the driver check the code for this);
* `ticket_other_revision_refused` a ticket that starts with any other revision is refused, whatever follows;
* `ticket_unmarshal_total`        every byte string gets an answer: a value or one of the three errors
                                  (the transport parameter part never panics: `C08.tp_parse_never_panics`);
* `extra_roundtrip`               `findSessionStateExtraData(… ‖ addSessionStateExtraPrefix(b) ‖ …)` = `b` when no
                                  earlier entry carries the tag; `extra_absent`: `nil` when none does.

Tie to the code: ops `stk`, `stkdec`, `stkx` of driver `wire` through the `//go:build verif` exporters of
harness/hooks/internal/handshake/verif_c08ticket.go.
-/
import Uquic.Props.C08
import Uquic.Props.C08More
import Uquic.Model.Wire.Ticket

namespace Uquic.Props.C08Ticket

open Uquic.Model.Wire Uquic.Model.Wire.Ticket Uquic.Model.Wire.TP Uquic.Model.Wire.TP.RT

theorem revision_fits : revision ≤ Uquic.Model.Wire.maxVarInt8 := by decide

/-- `Unmarshal(Marshal(p))` is the ticket normal form of `p` -/
theorem ticket_roundtrip (p : Params) (b : Bytes) (hv : ValidTicket p) (hm : ticketMarshal p = some b) :
    ticketUnmarshal b = .ok (normalizeTicket p) := by
  unfold ticketMarshal at hm
  cases hmt : marshalForSessionTicket p with
  | none => rw [hmt] at hm; cases hm
  | some t =>
    rw [hmt] at hm
    injection hm with hb
    subst hb
    unfold ticketUnmarshal
    rw [Uquic.Props.C08.varint_parse_append revision revision_fits t]
    simp only [ne_eq, not_true_eq_false, ↓reduceIte, List.drop_left']
    have hl : (Varint.enc revision).length = Varint.len revision := Uquic.Props.C08.varint_length_exact revision revision_fits
    rw [← hl, List.drop_left, Uquic.Props.C08More.tp_ticket_parse_marshal p t hv hmt]

/-- the envelope adds the revision varint and nothing else -/
theorem ticket_length (p : Params) (b t : Bytes) (hm : ticketMarshal p = some b) (ht : marshalForSessionTicket p = some t) :
    b = Varint.enc revision ++ t ∧ b.length = Varint.len revision + t.length := by
  unfold ticketMarshal at hm
  rw [ht] at hm
  injection hm with hb
  subst hb
  refine ⟨rfl, ?_⟩
  have hl : (Varint.enc revision).length = Varint.len revision := Uquic.Props.C08.varint_length_exact revision revision_fits
  rw [List.length_append, hl]

/-- any other revision is refused before the parameters are looked at -/
theorem ticket_other_revision_refused (rev : Nat) (hr : rev ≤ Uquic.Model.Wire.maxVarInt8) (hne : rev ≠ revision) (rest : Bytes) :
    ticketUnmarshal (Varint.enc rev ++ rest) = .error (.revision rev) := by
  unfold ticketUnmarshal
  have hp : Varint.parse (Varint.enc rev ++ rest) = .ok (rev, Varint.len rev) := Uquic.Props.C08.varint_parse_append rev hr rest
  rw [hp]
  simp [hne]

/-- every input is answered -/
theorem ticket_unmarshal_total (b : Bytes) :
    (∃ p, ticketUnmarshal b = .ok p) ∨ ticketUnmarshal b = .error .revRead ∨ (∃ r, ticketUnmarshal b = .error (.revision r)) ∨
    (∃ e, ticketUnmarshal b = .error (.tp e)) := by
  unfold ticketUnmarshal
  cases Varint.parse b with
  | error e => exact Or.inr (Or.inl rfl)
  | ok vl =>
    obtain ⟨rev, l⟩ := vl
    by_cases h : rev ≠ revision
    · simp only [if_pos h]; exact Or.inr (Or.inr (Or.inl ⟨rev, rfl⟩))
    · simp only [if_neg h]
      cases unmarshalFromSessionTicket (b.drop l) with
      | ok p => exact Or.inl ⟨p, rfl⟩
      | error e => exact Or.inr (Or.inr (Or.inr ⟨e, rfl⟩))

theorem hasPrefix_add (b : Bytes) : hasPrefix (addExtraPrefix b) = true := by
  unfold hasPrefix addExtraPrefix
  exact List.isPrefixOf_iff_prefix.mpr (List.prefix_append _ _)

/-- this library's entry is found behind any number of foreign entries, and comes back without the tag -/
theorem extra_roundtrip (before after : List Bytes) (b : Bytes) (hb : ∀ x ∈ before, hasPrefix x = false) :
    findExtra (before ++ addExtraPrefix b :: after) = some b := by
  induction before with
  | nil =>
    simp only [List.nil_append, findExtra, hasPrefix_add, ↓reduceIte]
    unfold addExtraPrefix
    rw [List.drop_left]
  | cons x rest ih =>
    simp only [List.cons_append, findExtra, hb x (List.mem_cons_self ..)]
    exact ih (fun y hy => hb y (List.mem_cons_of_mem _ hy))

/-- no tagged entry: `nil` -/
theorem extra_absent (xs : List Bytes) (hb : ∀ x ∈ xs, hasPrefix x = false) : findExtra xs = none := by
  induction xs with
  | nil => rfl
  | cons x rest ih =>
    simp only [findExtra, hb x (List.mem_cons_self ..)]
    exact ih (fun y hy => hb y (List.mem_cons_of_mem _ hy))

/-! ### non-vacuity -/

example : ∃ b, ticketMarshal exampleParams = some b ∧ ticketUnmarshal b = .ok (normalizeTicket exampleParams) := by
  have hs : (ticketMarshal exampleParams).isSome = true := by decide
  cases h : ticketMarshal exampleParams with
  | none => rw [h] at hs; cases hs
  | some b =>
    refine ⟨b, rfl, ticket_roundtrip exampleParams b ?_ h⟩
    exact ⟨by decide, by decide, by decide⟩

example : findExtra [[1, 2, 3], addExtraPrefix [9, 9], addExtraPrefix [7]] = some [9, 9] := by decide

end Uquic.Props.C08Ticket
