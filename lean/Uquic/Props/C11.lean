import Uquic.Model.UQuic.QTP
import Uquic.Spec.QtpMon
namespace Uquic.Props.C11
end Uquic.Props.C11
