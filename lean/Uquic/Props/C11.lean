/-
Property C11 — ClientHello and transport parameters on the wire are exactly the spec's.

Every theorem quantifies over all parameter lists (standard, raw/fake, GREASE, duplicates), all suppression
lists, all shuffle draws and all source connection ids of the model `Uquic.Model.QTP`, which is tied to the
Go code by regenerated facts (`Uquic.Gen.UQuic`) and the `qtp` correspondence driver. The executable
monitors of `Uquic.Spec.QtpMon` judge the implementation against the same statements.
-/
import Uquic.Proofs.QtpBasic
import Uquic.Proofs.QtpWire
import Uquic.Proofs.QtpShuffle
import Uquic.Proofs.QtpPopulate
import Uquic.Proofs.QtpFrameKinds
import Uquic.Proofs.QtpClone

namespace Uquic.Props.C11
open Uquic.Model.QTP Uquic.Model.CloneSpec Uquic.Model.FrameKinds Uquic.Spec.QtpMon Uquic.Proofs.Qtp Uquic.Gen.UQuic

/-! ## GREASE identifiers -/

/-- `IsGREASEQTPID` (with the constants the Go source has now) accepts exactly the reserved ids `31·n + 27`,
and the canonical GREASE id is the smallest of them -/
theorem grease_ids (id : Nat) : (isGrease id = true ↔ ∃ n, id = 31 * n + 27) ∧ QTPGrease = 27 := by
  refine ⟨?_, rfl⟩
  have := isGrease_iff id
  simpa [greaseModulus, QTPGrease] using this

example : isGrease 27 = true ∧ isGrease 58 = true ∧ isGrease 26 = false ∧ isGrease 4611686018427387803 = true := by decide

/-! ## Suppression -/

/-- suppression yields the order-preserving sub-list of the parameters whose id is not listed and — iff the
canonical GREASE id is listed — is not a GREASE id: exactly those are removed, nothing else changes -/
theorem suppress_exact (ps : List Param) (S : List Nat) :
    suppress ps S = ps.filter (fun p => specKeep S p.id) ∧
    (suppress ps S).Sublist ps ∧
    ∀ p, p ∈ suppress ps S ↔ p ∈ ps ∧ p.id ∉ S ∧ ¬ (27 ∈ S ∧ ∃ n, p.id = 31 * n + 27) := by
  have h := suppress_eq_specSuppress ps S
  refine ⟨h, ?_, ?_⟩
  · rw [h]; exact List.filter_sublist
  · intro p
    rw [h]
    simp only [specSuppress, List.mem_filter, specKeep_iff]
    have : p.id % 31 = 27 ↔ ∃ n, p.id = 31 * n + 27 :=
      ⟨fun h => ⟨p.id / 31, by omega⟩, fun ⟨n, hn⟩ => by omega⟩
    rw [this]

theorem suppress_idempotent (ps : List Param) (S : List Nat) :
    suppress (suppress ps S) S = suppress ps S := by
  rw [suppress_eq_specSuppress (suppress ps S) S, suppress_eq_specSuppress ps S]
  simp [specSuppress, List.filter_filter]

theorem suppress_nil (ps : List Param) : suppress ps [] = ps := by
  simp [suppress]

example : suppress [⟨58, [7], false⟩, ⟨1, [1], true⟩, ⟨27, [], false⟩, ⟨58, [], false⟩, ⟨32, [2], true⟩] [27, 32, 99]
    = [⟨1, [1], true⟩] := by decide
example : suppress [⟨58, [7], false⟩, ⟨1, [1], true⟩, ⟨27, [], false⟩] [58] = [⟨1, [1], true⟩, ⟨27, [], false⟩] := by decide

/-! ## The wire carries the spec's parameters -/

/-- uTLS's encoding read back by the model's own reader gives the same `(id, value)` list: same ids
(GREASE included), same values, same order -/
theorem marshal_reads_back (ps : List Param) (hwf : ∀ p ∈ ps, WF p) :
    parseQTP (marshal ps) = some (pairs ps) :=
  parseQTP_marshal ps hwf

example : parseQTP (marshal [⟨27 + 31 * 1000, [1, 2], false⟩, ⟨1, varint 30000, true⟩]) =
    some [(31027, [1, 2]), (1, [128, 0, 117, 48])] := by decide

/-- One dial (u_connection.go:110-140: suppress, optional shuffle, PopulateFromUQUIC, marshal): the bytes
handed to the TLS extension read back as the spec's list after suppression — in spec order without
randomisation, as a permutation of it with randomisation, whatever the draws — where the only value that may
differ is that of an empty `InitialSourceConnectionID`, which receives a connection id. The connection's
`ClientOverride` is the same byte string. -/
theorem wire_is_spec (ps : List Param) (S : List Nat) (draws : Option (List Nat)) (scid : List Nat)
    (own : Own) (bytes : List Nat)
    (h : wireOf ps S draws scid = some (own, bytes))
    (hwf : ∀ p ∈ ps, WF p) (hscid : scid.length < varintLimit) :
    ∃ l l', (match draws with
             | none => l = suppress ps S
             | some _ => l.Perm (suppress ps S)) ∧
      AllRewritten l l' ∧ parseQTP bytes = some (pairs l') ∧ own.override = bytes := by
  have hsub : ∀ l : List Param, l.Perm (suppress ps S) → ∀ p ∈ l, WF p := fun l hperm p hp =>
    hwf p ((suppress_exact ps S).2.1.subset (hperm.mem_iff.mp hp))
  cases draws with
  | none =>
    simp only [wireOf] at h
    obtain ⟨l', h1, h2, h3⟩ := wire_of_list (suppress ps S) scid own bytes h (hsub _ (List.Perm.refl _)) hscid
    exact ⟨suppress ps S, l', rfl, h1, h2, h3⟩
  | some js =>
    simp only [wireOf] at h
    have hperm := shuffleWith_perm js (suppress ps S)
    obtain ⟨l', h1, h2, h3⟩ := wire_of_list (shuffleWith js (suppress ps S)) scid own bytes h (hsub _ hperm) hscid
    exact ⟨_, l', hperm, h1, h2, h3⟩

/-! ## Reported ids = what a fingerprinter canonicalising the wire sees -/

/-- `TransportParameterIDs` is the sorted list of the canonicalised ids of the parameters that survive
suppression, duplicates kept -/
theorem ids_reported_eq_canon_sort (ps : List Param) (S : List Nat) :
    isCanonSortOf (transportParameterIDs ps S) ((specSuppress ps S).map (·.id)) = true := by
  simp only [isCanonSortOf, Bool.and_eq_true, List.isPerm_iff, sortedLE_iff]
  refine ⟨sortIDs_sorted _, ?_⟩
  unfold transportParameterIDs
  rw [suppress_eq_specSuppress]
  refine (sortIDs_perm _).trans ?_
  simp [canonIDs, canonID_eq_specCanon, List.map_map, Function.comp_def]

/-- the reported list does not depend on the order of the parameters -/
theorem ids_reported_perm_invariant {l l' : List Param} (h : l.Perm l') :
    sortIDs (canonIDs l) = sortIDs (canonIDs l') :=
  sortIDs_eq_of_perm (canonIDs_perm h)

/-- For every dial — any draws, any connection id — canonicalising and sorting the ids found on the wire
gives exactly what `TransportParameterIDs` reported for the spec -/
theorem ids_reported_eq_wire (ps : List Param) (S : List Nat) (draws : Option (List Nat)) (scid : List Nat)
    (own : Own) (bytes : List Nat)
    (h : wireOf ps S draws scid = some (own, bytes))
    (hwf : ∀ p ∈ ps, WF p) (hscid : scid.length < varintLimit) :
    (parseQTP bytes).map (fun ws => sortIDs (ws.map (fun w => canonID w.1))) = some (transportParameterIDs ps S) := by
  obtain ⟨l, l', hl, hrw, hparse, _⟩ := wire_is_spec ps S draws scid own bytes h hwf hscid
  have hperm : l.Perm (suppress ps S) := by
    cases draws with
    | none => simp at hl; rw [hl]
    | some _ => exact hl
  rw [hparse]
  simp only [Option.map_some, Option.some.injEq, pairs, List.map_map, Function.comp_def]
  have : (l'.map fun p => canonID p.id) = canonIDs l' := rfl
  rw [this, allRewritten_canonIDs hrw]
  exact ids_reported_perm_invariant hperm

/-- the canonical view of the transport parameters is the same on every dial, whatever the per-dial
randomisation did -/
theorem fingerprint_view_stable (ps : List Param) (S : List Nat) (d₁ d₂ : Option (List Nat)) (c₁ c₂ : List Nat)
    (o₁ o₂ : Own) (b₁ b₂ : List Nat)
    (h₁ : wireOf ps S d₁ c₁ = some (o₁, b₁)) (h₂ : wireOf ps S d₂ c₂ = some (o₂, b₂))
    (hwf : ∀ p ∈ ps, WF p) (hc₁ : c₁.length < varintLimit) (hc₂ : c₂.length < varintLimit) :
    (parseQTP b₁).map (fun ws => sortIDs (ws.map (fun w => canonID w.1))) =
    (parseQTP b₂).map (fun ws => sortIDs (ws.map (fun w => canonID w.1))) := by
  rw [ids_reported_eq_wire ps S d₁ c₁ o₁ b₁ h₁ hwf hc₁, ids_reported_eq_wire ps S d₂ c₂ o₂ b₂ h₂ hwf hc₂]

example : transportParameterIDs [⟨58, [], false⟩, ⟨4, [1], true⟩, ⟨27, [], false⟩, ⟨1, [1], true⟩, ⟨89, [], false⟩] [89]
    = [1, 4, 27, 27] := by decide

/-! ## The connection's own record -/

/-- `PopulateFromUQUIC`: `ClientOverride` is the marshalling of the (rewritten) list, i.e. the wire bytes;
every integer field it records equals the last value the wire carries for that id; the recorded source
connection id is the last one on the wire (when every such parameter has uTLS's type) -/
theorem own_record_equals_wire (scid : List Nat) (ps : List Param) (own : Own) (ps' : List Param)
    (h : populate scid ps = some (own, ps'))
    (hwf : ∀ p ∈ ps, WF p) (hscid : scid.length < varintLimit) :
    own.override = marshal ps' ∧ AllRewritten ps ps' ∧
    parseQTP own.override = some (pairs ps') ∧
    (∀ id, kindOf id = 1 → getNum own.nums id = lastNum (pairs ps') id none) ∧
    ((∀ p ∈ ps, kindOf p.id = 3 → p.typed = true) → own.scid = lastScid (pairs ps') scid) := by
  unfold populate at h
  cases hp : popLoop { scid := scid } ps with
  | none => simp [hp] at h
  | some r =>
    obtain ⟨o, l'⟩ := r
    simp only [hp, Option.some.injEq, Prod.mk.injEq] at h
    obtain ⟨rfl, rfl⟩ := h
    obtain ⟨hrw, hnum, hsc, hwf'⟩ := popLoop_spec _ ps o l' hp
    refine ⟨rfl, hrw, parseQTP_marshal l' (hwf' hwf hscid).1, ?_, ?_⟩
    · intro id hk
      have := hnum id hk
      simpa [getNum] using this
    · intro hall
      exact hsc hall

/-- `PopulateFromUQUIC` panics exactly when some parameter with an id it type-asserts is not of uTLS's
type for that id, or a given source connection id is longer than a connection id can be -/
theorem populate_panics_iff (scid : List Nat) (ps : List Param) :
    populate scid ps = none ↔ ∃ p ∈ ps, Panics p := by
  unfold populate
  cases hp : popLoop { scid := scid } ps with
  | none => simp only [true_iff]; exact (popLoop_none_iff _ ps).mp hp
  | some r =>
    simp only [false_iff, reduceCtorEq]
    intro hex
    have := (popLoop_none_iff { scid := scid } ps).mpr hex
    rw [hp] at this
    cases this

example : (populate [9, 9] [⟨1, varint 30000, true⟩, ⟨15, [], true⟩, ⟨4, varint 5, true⟩, ⟨4, varint 70, true⟩]).map
    (fun r => (getNum r.1.nums 1, getNum r.1.nums 4, r.1.scid, r.1.override)) =
    some (some 30000, some 70, [9, 9], [1, 4, 128, 0, 117, 48, 15, 2, 9, 9, 4, 1, 5, 4, 2, 64, 70]) := by decide
example : populate [] [⟨1, [5], false⟩] = none := by decide

/-! ## Randomisation -/

/-- for every draw sequence (every transposition sequence Fisher–Yates can perform) the shuffled list is a
permutation of the input: no parameter lost, duplicated or altered -/
theorem shuffle_is_permutation {α : Type} (js : List Nat) (l : List α) : (shuffleWith js l).Perm l :=
  shuffleWith_perm js l

/-- every permutation of the list is produced by some draw sequence `rand.Shuffle` can make (`0 ≤ j_i ≤ i`) -/
theorem every_permutation_reachable {α : Type} (l q : List α) (h : q.Perm l) :
    ∃ js : List Nat, js.length = l.length ∧ validDraws l.length js ∧ shuffleWith js l = q :=
  shuffleWith_reach l q h

example : shuffleWith [1, 0, 1] [10, 20, 30, 40] = [30, 40, 10, 20] := by decide
example : validDraws 4 [1, 0, 1] := by unfold validDraws; decide

/-! ## The per-dial copy of the ClientHelloSpec (`cloneClientHelloSpecForDial`)

A dial works on a copy of the spec's extension list; which fields the fresh values copy is regenerated from
the Go source (`Uquic.Gen.UQuic.cloneCases`), so these theorems are re-proved against the code as it is. -/

/-- the copy preserves every spec-given field of every extension, in order; only per-connection state (the
cached marshalling of the transport parameters) is dropped -/
theorem clone_preserves_spec (es : List Ext) : (cloneSpec es).map specView = es.map specView := by
  simp only [cloneSpec, List.map_map]
  apply List.map_congr_left
  intro e _
  exact cloneExt_specView e

/-- the copy never carries bytes cached by an earlier dial -/
theorem clone_is_fresh (ps : List Param) (c : Option (List Nat)) : cloneExt (.qtp ps c) = .qtp ps none := by
  have h := clone_copies_all.2.2.1
  simp [cloneExt, h]

/-- for every spec, tls.Config server name and fresh keys: the content each extension has in the ClientHello
of a dial is what uTLS produces for the spec's value — a pinned server name stays, an empty one takes the
Config's; the key-share groups and their order are the spec's; the transport parameters are marshalled anew
(never an earlier dial's cached bytes); every other extension is the spec's value itself -/
theorem dial_extensions_are_spec (cfgName : List Nat) (keyFor : Nat → List Nat) (es : List Ext) :
    ((cloneSpec es).map (dialExt cfgName keyFor)).map wireContent = es.map (specContent cfgName) := by
  simp only [cloneSpec, List.map_map]
  apply List.map_congr_left
  intro e _
  exact wireContent_dial_clone cfgName keyFor e

example : wireContent (dialExt [99] (fun _ => [1, 2, 3]) (cloneExt (.sni [102, 114]))) = .name [102, 114] := by decide
example : wireContent (dialExt [99] (fun _ => [1, 2, 3]) (cloneExt (.sni []))) = .name [99] := by decide
example : wireContent (dialExt [99] (fun _ => [1, 2, 3]) (cloneExt (.qtp [⟨1, [5], true⟩] (some [7, 7])))) = .bytes [1, 1, 5] := by decide

/-! ## The frame-type set of the flight

The reference fingerprint also hashes the *set* of frame types of the Initial packets; per-dial randomisation
reaches it only through the number of PING frames a `QUICRandomFrames` builder draws. -/

/-- for every built-in spec with a random frame builder the frame-type set is the same on every dial
(proved below from the regenerated bounds; it was false until /repo 5ba7891 raised Chrome_115's MinPING) -/
def frame_kinds_stable_full : Prop := ∀ b ∈ randomFramePing, pingStable b.2.1 b.2.2

/-- the PING membership of the frame-type set is draw-independent exactly when the bounds exclude the zero
draw or force it -/
theorem frame_kinds_stable_partial (mn mx : Nat) : pingStable mn mx ↔ (1 ≤ mn ∨ mx ≤ 1) :=
  pingStable_iff mn mx

/-- so the full statement is decided by the regenerated bounds (the oracle evaluates this) -/
theorem frame_kinds_stable_full_iff :
    frame_kinds_stable_full ↔ (randomFramePing.all fun b => pingStableB b.2.1 b.2.2) = true := by
  unfold frame_kinds_stable_full
  simp only [List.all_eq_true, pingStableB, Bool.or_eq_true, decide_eq_true_eq]
  constructor
  · intro h b hb; exact (pingStable_iff _ _).mp (h b hb)
  · intro h b hb; exact (pingStable_iff _ _).mpr (h b hb)

/-- FULL STRENGTH: with the bounds the Go source has now, no built-in spec's frame-type set depends on the
per-dial draws (a bound that again allows both zero and some PING frames makes this proof fail) -/
theorem frame_kinds_stable : frame_kinds_stable_full :=
  frame_kinds_stable_full_iff.mpr (by decide)

/-- the negation witness, with Chrome_115's bounds as they were found: zero and one PING are both drawn -/
theorem frame_kinds_unstable_witness : ¬ pingStable 0 10 := by
  rw [pingStable_iff]; omega

example : pingStable 1 4 := (pingStable_iff 1 4).mpr (Or.inl (Nat.le_refl 1))

end Uquic.Props.C11
