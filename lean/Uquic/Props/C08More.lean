/-
Property C08 — wire codecs are total, length-consistent and round-trip: the theorems the first
round left to correspondence and monitors only.

  (1) transport parameters: `Unmarshal ∘ Marshal` (both perspectives, every parameter incl.
      preferred_address, stateless_reset_token, the connection-ID parameters, max_datagram_frame_size,
      the greased parameter) and `UnmarshalFromSessionTicket ∘ MarshalForSessionTicket`, with the
      normalisation stated exactly; the length of what `Marshal` writes
  (2) Retry packets: `ExtendedHeader.Append` → `parseHeader`, token / integrity-tag split
  (3) `ParseConnectionID` / `ParseArbitraryLenConnectionIDs` agree with the header parsers
  (4) DATAGRAM `MaxDataLen` fits its budget (range tight)
  (5) `quicvarint.Read` agrees with `quicvarint.Parse`

Only the property theorems live here; helper lemmas are in `Uquic/Proofs/WireMore*.lean`, the
definitions used in the statements in `Uquic/Model/Wire/More*.lean`.  The models are the ones the
`wire` and `wiremore` correspondence drivers compare with /repo.
-/
import Uquic.Proofs.WireMoreTP5
import Uquic.Proofs.WireMoreCID
import Uquic.Proofs.WireMoreRetry
import Uquic.Proofs.WireMoreDatagram
import Uquic.Proofs.WireMoreVarint

namespace Uquic.Props.C08More
open Uquic.Model.Wire Uquic.Model.Wire.Varint Uquic.Model.Wire.Varint.BR Uquic.Proofs.Wire Uquic.Proofs.WireMore

/-! ## (1) transport parameters -/

section TP
open Uquic.Model.Wire.TP Uquic.Model.Wire.TP.RT

/-- `tp_parse_marshal`: for EVERY `TransportParameters` value `p` that respects the Go types (`Typed`)
    and the RFC ranges the parser enforces (`Valid`), from either perspective, for every greased
    parameter (id not interpreted by the parser — see `tp_grease_unknown` —, any value bytes) on which
    `Marshal` does not panic: `Unmarshal(Marshal(p, pers), pers) = normalize p pers`.
    `normalize` is the identity except: `MaxIdleTimeout` is truncated to ms and raised to
    `MinRemoteIdleTimeout`; `MaxAckDelay` is truncated to ms and `MinAckDelay` to µs; an absent
    (zero) `MaxUDPPayloadSize` reads as `MaxByteCount`; a preferred address whose port or address is
    all-zero reads as the invalid `netip.AddrPort`; a client does not write stateless_reset_token,
    original_destination_connection_id, preferred_address and retry_source_connection_id.
    Parameters equal to their default (max_ack_delay 25 ms, ack_delay_exponent 3,
    active_connection_id_limit 2) are omitted on the wire and read back as the default; the greased
    parameter is skipped. -/
theorem tp_parse_marshal (p : Params) (pers g : Nat) (gv b : Bytes)
    (hpers : pers = perspectiveClient ∨ pers = perspectiveServer)
    (hg : isKnownID g = false) (ht : Typed p) (hv : Valid p pers)
    (hm : marshal p pers g gv = some b) :
    unmarshal b pers false = .ok (normalize p pers) := by
  rcases hpers with rfl | rfl
  · exact tp_roundtrip_client p g gv b hg ht hv hm
  · exact tp_roundtrip_server p g gv b hg ht hv hm

/-- values already in normal form come back unchanged: `unmarshal (marshal v) = ok v` -/
theorem tp_parse_marshal_canonical (p : Params) (pers g : Nat) (gv b : Bytes)
    (hpers : pers = perspectiveClient ∨ pers = perspectiveServer)
    (hg : isKnownID g = false) (ht : Typed p) (hv : Valid p pers) (hcanon : normalize p pers = p)
    (hm : marshal p pers g gv = some b) :
    unmarshal b pers false = .ok p := by
  rw [tp_parse_marshal p pers g gv b hpers hg ht hv hm, hcanon]

/-- the greased parameter `Marshal` really writes — id `27 + 31·random[0]`, `random[1] % 16` value
    bytes — is never interpreted by the parser and never makes `Append` panic -/
theorem tp_grease_unknown (r0 : Nat) (h : r0 < 256) (gv : Bytes) (hl : gv.length < 16) :
    isKnownID (greaseID r0) = false ∧ itemsFit [Item.v (greaseID r0), .v gv.length, .raw gv] = true := by
  refine ⟨grease_unknown r0 h, ?_⟩
  have := max8_eq
  simp [itemsFit, fits, greaseID]
  omega

/-- `tp_marshal_length`: `Marshal` / `MarshalForSessionTicket` write exactly `Len(id) + Len(len) + len`
    bytes per parameter (`itemsLen` adds `quicvarint.Len` of every varint and the raw lengths) -/
theorem tp_marshal_length (p : Params) (pers g : Nat) (gv b : Bytes) (hm : marshal p pers g gv = some b) :
    b.length = Varint.len g + Varint.len gv.length + gv.length + itemsLen (marshalItems p pers) := by
  unfold marshal at hm
  simp only at hm
  split at hm
  · rename_i hfit
    injection hm with hb
    rw [← hb, itemsBytes_length _ hfit]
    simp only [List.cons_append, List.nil_append, itemsLen]
    omega
  · simp at hm

theorem tp_ticket_marshal_length (p : Params) (b : Bytes) (hm : marshalForSessionTicket p = some b) :
    b.length = itemsLen (ticketItems p) := by
  unfold marshalForSessionTicket at hm
  split at hm
  · rename_i hfit
    injection hm with hb
    rw [← hb, itemsBytes_length _ hfit]
  · simp at hm

/-- session ticket: `UnmarshalFromSessionTicket(MarshalForSessionTicket(p))` returns the seven limits
    and the two flags the ticket remembers; every other field is the receiver's default -/
theorem tp_ticket_parse_marshal (p : Params) (b : Bytes) (hv : ValidTicket p)
    (hm : marshalForSessionTicket p = some b) :
    unmarshalFromSessionTicket b = .ok (normalizeTicket p) :=
  tp_roundtrip_ticket p b hv hm

example : Typed exampleParams ∧ Valid exampleParams perspectiveServer ∧ Valid exampleParams perspectiveClient
    ∧ ValidTicket exampleParams := by
  refine ⟨⟨by decide, by decide, by decide, by decide, by decide, ?_, ?_, ?_, ?_⟩,
    ⟨by decide, by decide, by decide, by decide, by decide, by decide, ?_, ?_⟩,
    ⟨by decide, by decide, by decide, by decide, by decide, by decide, ?_, ?_⟩, ⟨by decide, by decide, by decide⟩⟩
  all_goals simp (config := {decide := true}) [exampleParams, TypedOpt, TypedPA, TypedAddr]

example : (marshal exampleParams perspectiveServer (greaseID 7) [1, 2, 3]).isSome = true
    ∧ (marshal exampleParams perspectiveClient (greaseID 255) []).isSome = true
    ∧ (marshalForSessionTicket exampleParams).isSome = true := by decide +kernel

example : normalize exampleParams perspectiveServer = exampleParams := by decide +kernel

end TP

/-! ## (2) Retry packets -/

open Uquic.Model.Wire.Hdr in
/-- `retry_header_roundtrip`: a Retry header (QUIC v1 / v2) written by `ExtendedHeader.Append` has no
    Length and no packet number (the packet-number arguments are ignored) and is
    `7 + |dcid| + |scid| + |token|` bytes long; followed by the 16-byte Retry integrity tag it parses
    back to the same header with `ParsedLen` = the whole packet: the token is exactly what lies
    between the source connection ID and the last 16 bytes, which are the tag. A Retry without token is
    rejected (`io.EOF`), as RFC 9000 §17.2.5 requires a non-empty token. -/
theorem retry_header_roundtrip (h : Header) (pn pnLen : Nat) (tag : Bytes)
    (ht : h.ptype = ptRetry) (hv : h.version = version1 ∨ h.version = version2)
    (hd : h.dest.length ≤ 20) (hs : h.src.length ≤ 20) (htag : tag.length = 16) :
    ∃ b first, appendLong h pn pnLen h.version = .ok b ∧
      b.length = 1 + 4 + 1 + h.dest.length + 1 + h.src.length + h.token.length ∧
      (h.token ≠ [] →
        parseHeader (b ++ tag) = ({ h with typeByte := first, length := 0, parsedLen := b.length + 16 }, none) ∧
        (b ++ tag).drop ((b ++ tag).length - 16) = tag) ∧
      (h.token = [] → (parseHeader (b ++ tag)).2 = some .eof) :=
  retryHeader_roundtrip h pn pnLen tag ht hv hd hs htag

example : ∃ h : Uquic.Model.Wire.Hdr.Header, h.ptype = Uquic.Model.Wire.Hdr.ptRetry ∧ h.version = Uquic.Model.Wire.Hdr.version2
    ∧ h.token ≠ [] ∧ h.dest.length = 20 :=
  ⟨{ ptype := 2, version := 0x6b3343cf, token := [1, 2, 3], dest := List.replicate 20 5 }, by decide, by decide, by decide, by decide⟩

/-! ## (3) connection IDs read ahead of the header -/

open Uquic.Model.Wire.Hdr in
/-- `parse_connection_id_stable`.
    Long header: whenever `parseHeader` gets past the connection IDs (success or
    `ErrUnsupportedVersion`), `ParseConnectionID` returns the same destination connection ID for the same
    bytes, whatever short-header length the caller passes.
    Short header: whenever `ParseShortHeader` succeeds with connection ID length `n`, `ParseConnectionID`
    returns the `n` bytes between the first byte and the packet number.
    Always: the result is a slice of the packet of the announced length (never beyond the buffer), at
    most 20 bytes for long headers. -/
theorem parse_connection_id_stable :
    (∀ (data : Bytes) (h : Header) (e : Option HErr) (n : Nat),
      parseHeader data = (h, e) → (e = none ∨ e = some .unsupportedVersion) → (data.getD 0 0).toNat / 128 % 2 = 1 →
      parseConnectionID data n = .ok h.dest ∧ h.dest.length = (data.getD 5 0).toNat ∧ 6 + h.dest.length ≤ data.length) ∧
    (∀ (data : Bytes) (n : Nat) (o : ShortOut), parseShortHeader data n = .ok o →
      parseConnectionID data n = .ok ((data.drop 1).take n) ∧ ((data.drop 1).take n).length = n ∧
        o.n = 1 + n + o.pnLen ∧ o.n ≤ data.length) ∧
    (∀ (cid : Bytes) (pn pnLen kp : Nat) (b rest : Bytes), appendShortHeader cid pn pnLen kp = some b →
      parseConnectionID (b ++ rest) cid.length = .ok cid) ∧
    (∀ (data : Bytes) (n : Nat) (c : Bytes), parseConnectionID data n = .ok c →
      ∃ off, off + c.length ≤ data.length ∧ c = (data.drop off).take c.length ∧
        (if (data.getD 0 0).toNat / 128 % 2 = 0 then off = 1 ∧ c.length = n
         else off = 6 ∧ c.length = (data.getD 5 0).toNat ∧ c.length ≤ Hdr.maxConnIDLen)) :=
  ⟨parseConnectionID_long, parseConnectionID_short, parseConnectionID_appendShort, parseConnectionID_in_buffer⟩

open Uquic.Model.Wire.Hdr in
/-- `parse_arbitrary_len_connection_ids_stable`.
    Whenever `parseHeader` gets past the connection IDs, `ParseArbitraryLenConnectionIDs` returns the same
    two IDs and `7 + |dcid| + |scid|` bytes parsed, within the packet.
    For any version (IDs of up to 255 bytes, RFC 8999): every success has the invariant layout
    `first ‖ version ‖ dcil ‖ dcid ‖ scil ‖ scid ‖ tail`, reports exactly the bytes before `tail`, stays
    inside the buffer and depends only on those bytes; and every packet with that layout is accepted. -/
theorem parse_arbitrary_len_connection_ids_stable :
    (∀ (data : Bytes) (h : Header) (e : Option HErr),
      parseHeader data = (h, e) → (e = none ∨ e = some .unsupportedVersion) →
      parseArbitraryLenConnectionIDs data = .ok (7 + h.dest.length + h.src.length, h.dest, h.src) ∧
        7 + h.dest.length + h.src.length ≤ data.length) ∧
    (∀ (data : Bytes) (n : Nat) (d s : Bytes), parseArbitraryLenConnectionIDs data = .ok (n, d, s) →
      n ≤ data.length ∧ n = 7 + d.length + s.length ∧ d.length < 256 ∧ s.length < 256 ∧
        parseArbitraryLenConnectionIDs (data.take n) = .ok (n, d, s) ∧
        ∃ f v1 v2 v3 v4 tail, data = f :: v1 :: v2 :: v3 :: v4 :: u8 d.length :: (d ++ u8 s.length :: (s ++ tail))) ∧
    (∀ (f v1 v2 v3 v4 : UInt8) (dest src tail : Bytes), dest.length < 256 → src.length < 256 →
      parseArbitraryLenConnectionIDs (f :: v1 :: v2 :: v3 :: v4 :: u8 dest.length :: (dest ++ u8 src.length :: (src ++ tail))) =
        .ok (7 + dest.length + src.length, dest, src)) := by
  refine ⟨parseArb_long, fun data n d s h => ?_, fun f v1 v2 v3 v4 dest src tail hd hs => parseArb_layout f v1 v2 v3 v4 dest src tail hd hs⟩
  obtain ⟨h1, h2, h3, h4, h5⟩ := parseArb_stable data n d s h
  obtain ⟨f, v1, v2, v3, v4, tail, hdata, _⟩ := parseArb_inv data n d s h
  exact ⟨h1, h2, h3, h4, h5, f, v1, v2, v3, v4, tail, hdata⟩

example : Uquic.Model.Wire.Hdr.parseArbitraryLenConnectionIDs
    ([0xc3, 0xff, 0x00, 0x00, 0x1d, 21] ++ List.replicate 21 7 ++ [0] ++ [1, 2, 3]) = .ok (28, List.replicate 21 7, []) := by
  rfl

/-! ## (4) DATAGRAM -/

/-- `datagram_max_data_len_fits`: a DATAGRAM frame carrying at most `MaxDataLen(budget)` (and at least
    one) bytes encodes to at most `budget` bytes — for every budget without a length field, and for
    budgets up to 16386 with one (callers are bounded by the packet size, and `MaxDatagramSize` is
    16383). The range is tight: see `datagram_max_data_len_tight`. -/
theorem datagram_max_data_len_fits (dlp : Bool) (data : Bytes) (budget : Nat)
    (hm : dlp = true → budget ≤ 16386) (hmax : budget ≤ maxVarInt8)
    (hn : data.length ≤ datagramMaxDataLen dlp budget) (hpos : 0 < data.length) :
    (Frame.datagram dlp data).bytes.length ≤ budget :=
  datagram_maxDataLen_fits dlp data budget hm hmax hn hpos

/-- with a budget of 16387 `MaxDataLen` admits 16384 bytes, whose frame is 16389 bytes long: the 1-byte
    correction of `MaxDataLen` does not cover a 4-byte length field -/
theorem datagram_max_data_len_tight :
    ∃ data : Bytes, data.length ≤ datagramMaxDataLen true 16387 ∧ 0 < data.length ∧
      (Frame.datagram true data).bytes.length > 16387 :=
  datagram_maxDataLen_witness

example : datagramMaxDataLen true 1200 = 1197 ∧ datagramMaxDataLen false 1200 = 1199 ∧ datagramMaxDataLen true 65 = 63 := by
  decide

/-! ## (5) quicvarint.Read -/

/-- `varint_read_eq_parse`: on the same unread bytes, `quicvarint.Read` (one `ReadByte` at a time)
    returns the value `quicvarint.Parse` returns and advances the reader by the count `Parse` reports;
    it fails exactly when `Parse` fails (with the reader's `io.EOF` where `Parse` says
    `io.ErrUnexpectedEOF`), then having drained the reader. Hence the branch-for-branch model agrees
    with the `read` function of the first-round model. -/
theorem varint_read_eq_parse (b : Bytes) :
    (∀ v n, parse b = .ok (v, n) → readBR b = (some v, b.drop n)) ∧
    (∀ e, parse b = .error e → readBR b = (none, [])) ∧
    (readBR b).1 = (Varint.read b).1 ∧ b.length - (readBR b).2.length = (Varint.read b).2 :=
  ⟨readBR_of_parse b, readBR_of_parse_error b, (readBR_eq_read b).1, (readBR_eq_read b).2⟩

example : readBR [0xc2, 0x19, 0x7c, 0x5e, 0xff, 0x14, 0xe8, 0x8c, 0xaa] = (some 151288809941952652, [0xaa]) := by decide
example : readBR [0x80, 0x01] = (none, []) ∧ parse [0x80, 0x01] = .error .ueof := ⟨by decide, rfl⟩

end Uquic.Props.C08More
