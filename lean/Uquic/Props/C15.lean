import Uquic.Model.Streams.Map
namespace Uquic.Props.C15
open Uquic.Model.Streams
theorem placeholder : (1 : Nat) = 1 := rfl
end Uquic.Props.C15
