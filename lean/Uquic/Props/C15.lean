/-
Property C15 — stream concurrency limits and stream-ID discipline.

Models: `Uquic/Model/Streams/{Basic,Incoming,Outgoing,Map}.lean` (streams_map_incoming.go,
streams_map_outgoing.go, streams_map.go, internal/protocol/stream.go).  Every theorem quantifies
over *arbitrary lists of atomic steps* (all interleavings of peer frames, local calls split at mutex
granularity, cancellations, deletions in any order, close), any stream type, both perspectives and
any configured limit.  Constants come from `Uquic.Gen.Protocol` (regenerated from /repo).
-/
import Uquic.Proofs.StreamsIncomingRun
import Uquic.Proofs.StreamsOutgoingRun
import Uquic.Proofs.StreamsMap
import Uquic.Proofs.StreamsMapLift
import Uquic.Proofs.StreamsGlue
import Uquic.Generated.Streams

namespace Uquic.Props.C15
open Uquic.Model.Streams Uquic.Proofs.Streams

/-! ## incoming streams -/

/-- reachable states of an incoming map satisfy the invariant -/
theorem incoming_reachable_inv (t : STyp) (p : Persp) (n : Int) (hn : 0 ≤ n) (ops : List InOp)
    (hw : ∀ op ∈ ops, op.wf (firstIncoming t p)) :
    InInv (firstIncoming t p) ((Incoming.new t n p).run ops).1 :=
  run_inv _ (firstIncoming_range t p).1 (firstIncoming_range t p).2 ops _ (inv_new t p n hn) hw

/-- **incoming_bounded.**  After any history, the streams in the map plus the credit still
    outstanding never exceed the configured limit `n`; in particular the peer never holds more than `n`
    open incoming streams (entries awaiting accept-then-delete still count), and a frame is answered
    with STREAM_LIMIT_ERROR exactly when its id is above the advertised maximum. -/
theorem incoming_bounded (t : STyp) (p : Persp) (n : Int) (hn : 0 ≤ n) (ops : List InOp)
    (hw : ∀ op ∈ ops, op.wf (firstIncoming t p)) :
    let m := ((Incoming.new t n p).run ops).1
    m.dead = false →
      (m.streams.length : Int) + (m.maxStream + 4 - m.nextOpen) / 4 ≤ n ∧
      (m.streams.length : Int) ≤ n ∧
      m.nextOpen ≤ m.maxStream + 4 ∧
      ∀ id, (m.getOrOpen id).2 = .err .limit ↔ id > m.maxStream := by
  intro m hd
  have hfr := firstIncoming_range t p
  have hinv := incoming_reachable_inv t p n hn ops hw
  have hmn : m.maxNum = n := run_maxNum _ hfr.1 hfr.2 ops _ (inv_new t p n hn) hw
  have hm : ((Incoming.new t n p).run ops).1 = m := rfl
  rw [hm] at hinv
  clear_value m
  rcases hinv with h | ⟨o, a, h⟩
  · rw [hd] at h; simp at h
  · have hopen := h.hopen
    refine ⟨?_, ?_, ?_, getOrOpen_limit_iff m⟩ <;>
      rcases h.credit with ⟨h1, h2, h3, h4⟩ | ⟨c, h1, h2, h3, h4⟩ <;>
      first
      | (rw [h4] at *; simp at *; omega)
      | omega

example : ((Incoming.new .bidi 2 .server).run [.getOrOpen 4, .accCall 1, .accLocked 1, .delete 0, .getOrOpen 12]).1.streams.length = 1 := by
  decide

/-- **credit_monotone.**  The MAX_STREAMS values queued over any history are strictly increasing,
    all above the initial limit and never above 2^60. -/
theorem credit_monotone (t : STyp) (p : Persp) (n : Int) (hn : 0 ≤ n) (ops : List InOp)
    (hw : ∀ op ∈ ops, op.wf (firstIncoming t p)) :
    let evs := ((Incoming.new t n p).run ops).2
    (msVals evs).Pairwise (· < ·) ∧ ∀ v ∈ msVals evs, n < v ∧ v ≤ maxStreamCount := by
  intro evs
  have hfr := firstIncoming_range t p
  obtain ⟨_, h2, h3⟩ := run_credit _ hfr.1 hfr.2 ops _ (inv_new t p n hn) hw
  have hc : credit (firstIncoming t p) (Incoming.new t n p) = n := by
    simp only [credit, Incoming.new]
    by_cases h0 : n = 0
    · subst h0; simp [numToID, invalidStreamID, Uquic.Gen.Protocol.InvalidStreamID]; omega
    · rw [numToID_incoming t p n h0]; omega
  refine ⟨h2, fun v hv => ?_⟩
  have := h3 v hv
  rw [hc] at this
  exact ⟨this.1, this.2.2⟩

/-- … and credit is issued only as streams fully complete: a step queues MAX_STREAMS only if it is
    the deletion of a stream that was already accepted, or the acceptance of a stream that was
    already deleted. -/
theorem credit_only_on_completion (t : STyp) (p : Persp) (n : Int) (hn : 0 ≤ n) (ops : List InOp)
    (hw : ∀ op ∈ ops, op.wf (firstIncoming t p)) (op : InOp) (hop : op.wf (firstIncoming t p)) :
    let m := ((Incoming.new t n p).run ops).1
    (m.step op).2.frames ≠ [] →
      (∃ id, op = .delete id ∧ id < m.nextAccept) ∨
      (∃ a, op = .accLocked a ∧ lookup m.streams m.nextAccept = some true) := by
  intro m
  have hfr := firstIncoming_range t p
  exact (step_facts _ hfr.1 hfr.2 m op (incoming_reachable_inv t p n hn ops hw) hop).frames

example : msVals ((Incoming.new .uni 1 .client).run [.getOrOpen 3, .delete 3, .accCall 7, .accLocked 7]).2 = [2] := by
  decide

/-- **accept_once_in_order.**  Over any history the ids returned by `AcceptStream` are exactly
    `first, first+4, …` — each once, no gap, in order. -/
theorem accept_once_in_order (t : STyp) (p : Persp) (n : Int) (hn : 0 ≤ n) (ops : List InOp)
    (hw : ∀ op ∈ ops, op.wf (firstIncoming t p)) :
    let evs := ((Incoming.new t n p).run ops).2
    acceptedIds evs =
      (List.range (acceptedIds evs).length).map (fun (i : Nat) => firstIncoming t p + 4 * (i : Int)) := by
  intro evs
  have hfr := firstIncoming_range t p
  exact (run_accept _ hfr.1 hfr.2 ops _ (inv_new t p n hn) hw).1

/-- A stream the peer opened and that was not yet accepted is still in the map even when it was
    already completed (deleted), and a ready `AcceptStream` caller of an open map is handed it. -/
theorem deleted_before_accept_still_returned (t : STyp) (p : Persp) (n : Int) (hn : 0 ≤ n) (ops : List InOp)
    (hw : ∀ op ∈ ops, op.wf (firstIncoming t p)) :
    let m := ((Incoming.new t n p).run ops).1
    m.dead = false → m.nextAccept < m.nextOpen →
      (lookup m.streams m.nextAccept).isSome ∧
      ∀ c a, m.findAcc c = some a → a.ready = true → m.closeErr = none →
        (m.accLocked c).2.1 = some (.stream m.nextAccept) := by
  intro m hd hlt
  have hfr := firstIncoming_range t p
  have hinv := incoming_reachable_inv t p n hn ops hw
  have hm : ((Incoming.new t n p).run ops).1 = m := rfl
  rw [hm] at hinv
  clear_value m
  rcases hinv with h | ⟨o, a, h⟩
  · rw [hd] at h; simp at h
  · have hopen := h.hopen
    have hacc := h.hacc
    have hs : (lookup m.streams m.nextAccept).isSome := by
      rw [lookup_isSome_iff, hacc]
      exact h.pending a (Nat.le_refl _) (by omega)
    refine ⟨hs, fun c a' hf hr hc => ?_⟩
    exact (accLocked_core _ hfr.1 hfr.2 m o a c h).progress a' hf hr hc hs

example : acceptedIds ((Incoming.new .bidi 3 .server).run
    [.getOrOpen 4, .delete 0, .accCall 1, .accLocked 1, .accCall 2, .accLocked 2]).2 = [0, 4] := by decide

/-- Observation (DESIGN §7 C15): at the granularity of the model (`newStreamChan` as a one-slot buffer,
    `GetOrOpenStream` as one atomic step) two concurrent `AcceptStream` callers and two streams opened by
    one frame can leave the second caller asleep although its stream is in the map, until the next
    stream is opened — this is the schedule in which the second non-blocking send finds the slot still
    full.  The Go runtime hands a send directly to a *parked* receiver, so at quiescent points the
    correspondence observes both callers waking; the oracle accepts either schedule, and the monitors
    judge the union of what all acceptors return. -/
theorem observation_two_acceptors_single_slot :
    let m := ((Incoming.new .bidi 5 .server).run
      [.accCall 1, .accLocked 1, .accCall 2, .accLocked 2, .getOrOpen 4, .accRecv 1, .accLocked 1]).1
    (m.accs.map (·.aid) = [2]) ∧ (lookup m.streams m.nextAccept).isSome = true ∧ m.chan = false ∧
    (m.accs.all (fun a => !a.ready)) = true := by decide

/-! ## outgoing streams -/

theorem outgoing_reachable_inv (t : STyp) (p : Persp) (ops : List OutOp) (hw : ∀ op ∈ ops, op.wf) :
    FifoInv ((Outgoing.new t p).run ops).1 ∧ (∃ k, IdInv ((Outgoing.new t p).run ops).1 k) ∧
    ((Outgoing.new t p).run ops).1.typ = t ∧ ((Outgoing.new t p).run ops).1.pers = p := by
  obtain ⟨h1, h2, _, h4, h5⟩ := orun_inv ops _ 0 (fifo_new t p) (idinv_new t p) hw
  exact ⟨h1, h2, h4, h5⟩

/-- **outgoing_ids.**  Over any history the ids handed out by `OpenStream` / `OpenStreamSync` are
    exactly `first, first+4, …` for the opener's perspective and stream type, each is of that type and
    initiator, and none exceeds the peer's limit. -/
theorem outgoing_ids (t : STyp) (p : Persp) (ops : List OutOp) (hw : ∀ op ∈ ops, op.wf) :
    let r := (Outgoing.new t p).run ops
    openedIds r.2 = (List.range (openedIds r.2).length).map (fun (i : Nat) => firstOutgoing t p + 4 * (i : Int)) ∧
    ∀ id ∈ openedIds r.2, typeOf id = t ∧ initiatedBy id = p ∧ id ≤ r.1.maxStream := by
  intro r
  obtain ⟨h1, _, h3⟩ := orun_ids ops _ 0 (fifo_new t p) (idinv_new t p) hw
  refine ⟨h1, fun id hid => ?_⟩
  have hmem := hid
  rw [h1] at hmem
  simp only [List.mem_map, List.mem_range] at hmem
  obtain ⟨i, _, hi⟩ := hmem
  have hfr := firstOutgoing_range t p
  have h0 : 0 ≤ id := by
    have : (Outgoing.new t p).nextStream = firstOutgoing t p := rfl
    rw [this] at hi; omega
  have hcl := (id_class t p id h0).mpr ⟨i, hi.symm⟩
  exact ⟨hcl.1, hcl.2, h3 id hid⟩

/-- `OpenStream` fails with the limit error while `OpenStreamSync` callers are queued. -/
theorem open_fails_while_queued (t : STyp) (p : Persp) (ops : List OutOp) (hw : ∀ op ∈ ops, op.wf) :
    let m := ((Outgoing.new t p).run ops).1
    m.closeErr = none → m.openQueue ≠ [] → (m.step .openStream).2.opened = some (.err .limitReached) := by
  intro m hc hq
  obtain ⟨hf, ⟨k, hi⟩, _, _⟩ := outgoing_reachable_inv t p ops hw
  exact (out_step_facts m .openStream k hf hi trivial).overtake rfl hc hq

example : openedIds ((Outgoing.new .uni .server).run
    [.setMax 1, .openStream, .openStream, .syncCall 5 false, .setMax 3, .recv 5, .wakeLocked 5]).2 = [3, 7] := by
  decide

/-- **blocked_once_per_limit.**  The limits carried by the STREAMS_BLOCKED frames queued over any
    history are strictly increasing (so at most one per limit value), none exceeds the peer's current
    limit, and whenever some queued caller cannot be served within the limit, a STREAMS_BLOCKED for the
    current limit has been sent. -/
theorem blocked_once_per_limit (t : STyp) (p : Persp) (ops : List OutOp) (hw : ∀ op ∈ ops, op.wf) :
    let r := (Outgoing.new t p).run ops
    (sbVals r.2).Pairwise (· < ·) ∧ (sbVals r.2).Nodup ∧
    (∀ v ∈ sbVals r.2, 0 ≤ v ∧ v ≤ limitNum r.1) ∧
    (r.1.closeErr = none → r.1.openQueue ≠ [] →
      r.1.nextStream - 4 + 4 * (r.1.openQueue.length : Int) > r.1.maxStream → r.1.blockedSent = true) := by
  intro r
  obtain ⟨_, _, h3, h4⟩ := orun_sb ops _ 0 (fifo_new t p) (idinv_new t p) hw
  obtain ⟨_, ⟨k, hi⟩, _, _⟩ := outgoing_reachable_inv t p ops hw
  have h0 : limitNum (Outgoing.new t p) = 0 := by
    simp [limitNum, Outgoing.new, invalidStreamNum, Uquic.Gen.Protocol.InvalidStreamNum]
  refine ⟨h3, ?_, ?_, hi.blocked⟩
  · rw [List.nodup_iff_pairwise_ne]
    exact h3.imp (fun h => by omega)
  · intro v hv
    have := h4 v hv
    rw [h0] at this
    exact ⟨this.1, this.2.2.1⟩

/-- Each STREAMS_BLOCKED carries the limit in force when it is queued. -/
theorem blocked_carries_current_limit (t : STyp) (p : Persp) (ops : List OutOp) (hw : ∀ op ∈ ops, op.wf)
    (op : OutOp) (hop : op.wf) :
    let m := ((Outgoing.new t p).run ops).1
    sbOfFrames (m.step op).2.frames = [] ∨ sbOfFrames (m.step op).2.frames = [limitNum (m.step op).1] := by
  intro m
  obtain ⟨hf, ⟨k, hi⟩, _, _⟩ := outgoing_reachable_inv t p ops hw
  rcases (out_step_facts m op k hf hi hop).sb.sent with h | h
  · exact Or.inl h
  · exact Or.inr h.1

example : sbVals ((Outgoing.new .bidi .client).run
    [.openStream, .openStream, .setMax 1, .openStream, .openStream, .syncCall 1 false, .setMax 2]).2 = [0, 1] := by
  decide

/-- **fifo_no_lost_wakeup.**  In every reachable state of an open map: the blocked
    `OpenStreamSync` callers are exactly the queue, in arrival order; only the head of the queue can hold
    a wake-up token or be past its `select`; and if a stream can be opened (`nextStream ≤ maxStream`)
    the head holds a token or is already running — no wake-up is lost, also after cancellations.
    Moreover a caller that is handed a stream was the head of the queue at that moment. -/
theorem fifo_no_lost_wakeup (t : STyp) (p : Persp) (ops : List OutOp) (hw : ∀ op ∈ ops, op.wf) :
    let m := ((Outgoing.new t p).run ops).1
    (m.closeErr = none → m.procs.map (·.wid) = m.openQueue) ∧
    (m.closeErr = none → ∀ q ∈ m.procs, (q.flag = true ∨ q.phase = .woken) → m.openQueue.head? = some q.wid) ∧
    (m.closeErr = none → m.nextStream ≤ m.maxStream → ∀ w rest, m.openQueue = w :: rest →
      ∃ q ∈ m.procs, q.wid = w ∧ (q.flag = true ∨ q.phase ≠ .waiting)) ∧
    (∀ op : OutOp, op.wf → ∀ w id, (w, Ret.stream id) ∈ (m.step op).2.rets →
      m.openQueue = [] ∨ m.openQueue.head? = some w) := by
  intro m
  obtain ⟨hf, ⟨k, hi⟩, _, _⟩ := outgoing_reachable_inv t p ops hw
  exact ⟨hf.queue, hf.headOnly, hf.noLost,
    fun op hop w id hm => ((out_step_facts m op k hf hi hop).served w id hm).2⟩

/-- sync openers are served in arrival order: the callers handed streams by
    `[syncCall 1, syncCall 2, syncCall 3, cancel 2, setMax 2, …wake-ups…]` -/
example : (((Outgoing.new .bidi .client).run
    [.syncCall 1 false, .syncCall 2 false, .syncCall 3 false, .cancelCtx 2, .ctxDone 2, .setMax 2,
     .cancelLocked 2, .recv 1, .wakeLocked 1, .recv 3, .wakeLocked 3]).2.flatMap (·.rets)) =
    [(2, .err .ctxCanceled), (1, .stream 0), (3, .stream 4)] := by decide

/-! ## the dispatch in `streamsMap` -/

/-- **direction_errors.**  For both perspectives: a STREAM / RESET_STREAM / STREAM_DATA_BLOCKED frame
    naming a locally initiated unidirectional stream, a STOP_SENDING / MAX_STREAM_DATA frame naming a
    peer-initiated unidirectional stream, and any such frame naming a locally initiated stream that
    was never opened, raise STREAM_STATE_ERROR; a locally opened stream that was deleted yields
    `nil, nil`; and peer-initiated ids reach the incoming map of their type only in its id class. -/
theorem direction_errors (m : Map) (id : SID) (hd : m.dead = false) :
    (typeOf id = .uni → initiatedBy id = m.pers →
      ∃ e, (m.step (.recvFrame id)).2.frameRes = some (.error e) ∧ e.isStateError = true) ∧
    (typeOf id = .uni → initiatedBy id ≠ m.pers →
      ∃ e, (m.step (.sendFrame id)).2.frameRes = some (.error e) ∧ e.isStateError = true) ∧
    (typeOf id = .bidi → initiatedBy id = m.pers → id ≥ m.outBidi.nextStream →
      ∃ e, (m.step (.recvFrame id)).2.frameRes = some (.error e) ∧ e.isStateError = true) ∧
    (initiatedBy id = m.pers → id ≥ (m.out (typeOf id)).nextStream →
      ∃ e, (m.step (.sendFrame id)).2.frameRes = some (.error e) ∧ e.isStateError = true) ∧
    (initiatedBy id = m.pers → id < (m.out (typeOf id)).nextStream →
      (m.out (typeOf id)).streams.contains id = false → (m.step (.sendFrame id)).2.frameRes = some (.ok none)) ∧
    (0 ≤ id → initiatedBy id ≠ m.pers → ∃ j : Nat, id = firstIncoming (typeOf id) m.pers + 4 * (j : Int)) := by
  refine ⟨fun h1 h2 => ⟨_, (recv_wrong_direction m id hd h1 h2).1, rfl⟩,
    fun h1 h2 => ⟨_, (send_wrong_direction m id hd h1 h2).1, rfl⟩,
    fun h1 h2 h3 => ⟨_, local_never_opened_recv m id hd h1 h2 h3, rfl⟩,
    fun h2 h3 => ⟨_, local_never_opened_send m id hd h2 h3, rfl⟩,
    fun h1 h2 h3 => local_deleted_nil m id hd h1 h2 h3,
    fun h0 h1 => incoming_class _ _ id h0 rfl h1⟩

example : ((Map.new .client 1 1).step (.recvFrame 2)).2.frameRes = some (.error .stateInvalidRecv) := rfl
example : ((Map.new .server 1 1).step (.sendFrame 5)).2.frameRes = some (.error .statePeerOpen) := rfl

/-- **reset_for_0rtt.**  `ResetFor0RTT` on a map that was not closed before: all four sub-maps equal
    their initial state, `reset` is set, the replaced maps carry `Err0RTTRejected` as their close error
    with every wait channel closed, so that every caller blocked in them returns `Err0RTTRejected` at
    its next step; until `UseResetMaps` every Open/Accept call is answered with `Err0RTTRejected`. -/
theorem reset_for_0rtt (m : Map) (hc1 : m.inBidi.chanClosed = false)
    (hc2 : m.inUni.chanClosed = false) :
    let m' := m.resetFor0RTT.1
    m.resetFor0RTT.2 = false ∧ m'.reset = true ∧
    m'.outBidi = (Map.new m.pers m.maxInBidi m.maxInUni).outBidi ∧
    m'.outUni = (Map.new m.pers m.maxInBidi m.maxInUni).outUni ∧
    m'.inBidi = (Map.new m.pers m.maxInBidi m.maxInUni).inBidi ∧
    m'.inUni = (Map.new m.pers m.maxInBidi m.maxInUni).inUni ∧
    (∀ o ∈ m'.oldOut, o ∈ m.oldOut ∨ (o.closeErr = some .rejected0RTT ∧
      ∀ w q, o.findProc w = some q → q.phase = .woken → (o.wakeLocked w).2 = some (.err .rejected0RTT))) ∧
    (∀ i ∈ m'.oldIn, i ∈ m.oldIn ∨ (i.closeErr = some .rejected0RTT ∧ i.chanClosed = true)) ∧
    (m'.dead = false → ∀ t c b, (m'.step (.openStream t)).2.opened = some (.err .rejected0RTT) ∧
      (m'.step (.openSync t c b)).2.rets = [(c, .err .rejected0RTT)] ∧
      (m'.step (.accept t c)).2.rets = [(c, .err .rejected0RTT)]) := by
  intro m'
  obtain ⟨r1, r2, r3, r4, r5, r6, _, _, _, r10, r11⟩ := reset_for_0rtt_maps m hc1 hc2
  refine ⟨r1, r2, r3, r4, r5, r6, ?_, ?_, ?_⟩
  · intro o ho
    rcases r10 o ho with h | h | h
    · exact Or.inl h
    · right; subst h
      exact ⟨rfl, fun w q hf hp => wake_after_close _ _ w q rfl hf hp⟩
    · right; subst h
      exact ⟨rfl, fun w q hf hp => wake_after_close _ _ w q rfl hf hp⟩
  · intro i hi
    rcases r11 i hi with h | h
    · exact Or.inl h
    · exact Or.inr ⟨h.1, h.2.1⟩
  · intro hd' t c b
    have := calls_while_reset m' hd' r2 t c b
    exact ⟨this.1, this.2.1, this.2.2.1⟩

/-- blocked callers really come back with `Err0RTTRejected`: two sync openers and one acceptor -/
example :
    let m0 := Map.new .client 1 1
    let m1 := [MapOp.openSync .bidi 1 false, .openSync .bidi 2 false, .accept .uni 3, .accLocked 3, .resetFor0RTT].foldl
      (fun m o => (m.step o).1) m0
    (m1.quiesce 100).2.1 = [(1, .err .rejected0RTT), (2, .err .rejected0RTT), (3, .err .rejected0RTT)] ∧
    ((m1.quiesce 100).1.outBidi.nextStream, (m1.quiesce 100).1.outBidi.procs) = (m0.outBidi.nextStream, []) := by decide

/-! ## the whole `streamsMap`, both perspectives -/

/-- run a list of map operations -/
def runMap (m : Map) (ops : List MapOp) : Map := ops.foldl (fun m o => (m.step o).1) m

/-- **map_submaps_reachable.**  After any history of `streamsMap` operations (peer frames with
    arbitrary non-negative ids, local calls and their internal steps, deletions, MAX_STREAMS, transport
    parameters, close, ResetFor0RTT, UseResetMaps), for either perspective, each of the four current
    sub-maps is a reachable state of its own transition system — so every sub-map theorem above holds
    of it. -/
theorem map_submaps_reachable (pers : Persp) (nb nu : Int) (ops : List MapOp) (hw : ∀ op ∈ ops, op.wf) :
    ∀ t, (∃ os : List OutOp, (∀ o ∈ os, o.wf) ∧
            (runMap (Map.new pers nb nu) ops).out t = ((Outgoing.new t pers).run os).1) ∧
         (∃ is : List InOp, (∀ o ∈ is, o.wf (firstIncoming t pers)) ∧
            (runMap (Map.new pers nb nu) ops).inc t = ((Incoming.new t (limOf nb nu t) pers).run is).1) := by
  intro t
  have h := reach_run pers nb nu ops _ (reach_new pers nb nu) hw
  exact ⟨h.out t, h.inc t⟩

/-- the concurrency bound for the whole map: for both perspectives and both stream types, the peer
    never holds more open incoming streams than the configured limit, and STREAM_LIMIT_ERROR is raised
    exactly above the advertised maximum -/
theorem map_incoming_bounded (pers : Persp) (nb nu : Int) (hnb : 0 ≤ nb) (hnu : 0 ≤ nu) (ops : List MapOp)
    (hw : ∀ op ∈ ops, op.wf) (t : STyp) :
    ((runMap (Map.new pers nb nu) ops).inc t).dead = false →
      ((((runMap (Map.new pers nb nu) ops).inc t).streams.length : Int) ≤ limOf nb nu t ∧
       ∀ id, (((runMap (Map.new pers nb nu) ops).inc t).getOrOpen id).2 = .err .limit ↔
          id > ((runMap (Map.new pers nb nu) ops).inc t).maxStream) := by
  intro hd
  obtain ⟨_, is, his, he⟩ := map_submaps_reachable pers nb nu ops hw t
  have hl : 0 ≤ limOf nb nu t := by cases t <;> simpa [limOf]
  have := incoming_bounded t pers (limOf nb nu t) hl is his
  simp only at this
  rw [he] at hd ⊢
  have h := this hd
  exact ⟨h.2.1, h.2.2.2⟩

/-- the FIFO / no-lost-wake-up invariant for the whole map -/
theorem map_outgoing_fifo (pers : Persp) (nb nu : Int) (ops : List MapOp) (hw : ∀ op ∈ ops, op.wf) (t : STyp) :
    FifoInv ((runMap (Map.new pers nb nu) ops).out t) ∧ ∃ k, IdInv ((runMap (Map.new pers nb nu) ops).out t) k := by
  obtain ⟨⟨os, hos, he⟩, _⟩ := map_submaps_reachable pers nb nu ops hw t
  rw [he]
  have := outgoing_reachable_inv t pers os hos
  exact ⟨this.1, this.2.1⟩

example : ((runMap (Map.new .server 1 1) [.recvFrame 0, .recvFrame 4]).inc .bidi).streams.length = 1 := by decide

/-! ## the glue between the connection and its streams map -/

/-- **first_frame_error_wins.**  `Conn.handleFrames` (frame loop with `handleErr` / `skipHandling`, traced
    or not): the frames of a packet are handled in order up to and including the first one whose
    handler fails, no later frame is handled, and the result is that frame's error — in particular a
    STREAM_LIMIT_ERROR / STREAM_STATE_ERROR raised by the streams map is what the connection is closed
    with, whatever frames (ACK, PING, …) follow in the same packet, with tracing on or off.  Depends on
    the regenerated fact that every dispatch branch has its `if skipHandling { continue }` guard. -/
theorem first_frame_error_wins (m : Map) (trace : Bool) (fs : List PFrame) :
    m.handleFrames trace fs = firstErrorSpec handleOne m fs :=
  frameLoop_eq_spec handleOne PFrame.guarded trace all_guarded fs m

/-- the same for any handler and any state -/
theorem first_frame_error_wins_generic {σ F E} (h : σ → F → σ × Option E) (guard : F → Bool)
    (hg : ∀ f, guard f = true) (trace : Bool) (s : σ) (fs : List F) :
    handleFramesG h guard trace s fs = firstErrorSpec h s fs :=
  frameLoop_eq_spec h guard trace hg fs s

/-- … and the guards are needed: without the guard, a traced packet [failing frame, harmless frame]
    returns no error at all. -/
theorem first_frame_error_needs_guards :
    handleFramesG (fun (s : Nat) (ok : Bool) => (s + 1, if ok then none else some 7)) (fun _ => false) true 0 [false, true]
      = (2, none) ∧
    firstErrorSpec (fun (s : Nat) (ok : Bool) => (s + 1, if ok then none else some 7)) 0 [false, true] = (1, some 7) := by
  decide

example : ((Map.new .server 1 1).handleFrames true [.stream 8, .ack true, .ping]).2 = some .limit := by decide
example : ((Map.new .client 1 1).handleFrames false [.ping, .stop 3, .stream 1]).2 = some .stateInvalidSend := by decide

/-- **covering_config_is_advertised.**  `configCoveringAdvertised` sets each incoming stream limit of the
    Config to the transport parameter advertised for the same stream type, whatever the Config said
    (shape and fields regenerated from the source; /repo ad4f2a6). -/
theorem covering_config_is_advertised (conf p : Limits) : coverConfig conf p = p := coverConfig_eq conf p

/-- the shape before ad4f2a6 (`c.X = max(c.X, p.<field>)`) is the pointwise maximum -/
theorem covering_config_old_shape_is_pointwise_max (conf p : Limits) :
    coverConfigMax conf p = ⟨max conf.bidi p.bidi, max conf.uni p.uni⟩ := coverConfigMax_eq conf p

/-- full statement for a given `configCoveringAdvertised`: for every constructor, Config and spec, the
    limit the streams map enforces is the one the peer was told -/
def EnforcedEqualsAdvertised (cover : Limits → Limits → Limits) : Prop :=
  ∀ (k : ConnKind) (conf spec : Limits), enforcedLimitsWith cover k conf spec = advertisedLimits k conf spec

/-- **enforced_limit_equals_advertised.**  For servers, plain clients AND spec-driven clients, every
    Config (0, negative, above 2^60, …) and every spec (parameter listed or not): the incoming stream
    limits the streams map is created with are exactly initial_max_streams_bidi / _uni handed to TLS. -/
theorem enforced_limit_equals_advertised (k : ConnKind) (conf spec : Limits) :
    enforcedLimits k conf spec = advertisedLimits k conf spec := by
  cases k <;> simp only [enforcedLimits, enforcedLimitsWith, advertisedLimits, coverConfig_eq]

theorem enforced_limit_equals_advertised_full : EnforcedEqualsAdvertised coverConfig :=
  enforced_limit_equals_advertised

/-- with the old shape it still holds for servers and plain clients, and for a spec-driven client
    whenever the populated Config does not exceed the spec's parameters … -/
theorem old_shape_partial (k : ConnKind) (conf spec : Limits) :
    (k ≠ .uclient → enforcedLimitsWith coverConfigMax k conf spec = advertisedLimits k conf spec) ∧
    (k = .uclient → (populate conf).bidi ≤ (specParams spec).bidi → (populate conf).uni ≤ (specParams spec).uni →
      enforcedLimitsWith coverConfigMax k conf spec = advertisedLimits k conf spec) := by
  refine ⟨?_, ?_⟩
  · intro hk; cases k <;> first | rfl | exact absurd rfl hk
  · intro hk h1 h2; subst hk
    simp only [enforcedLimitsWith, advertisedLimits, coverConfigMax_eq]
    have e1 : max (populate conf).bidi (specParams spec).bidi = (specParams spec).bidi := by omega
    have e2 : max (populate conf).uni (specParams spec).uni = (specParams spec).uni := by omega
    rw [e1, e2]

/-- **old_max_shape_violates.**  … but the full statement is FALSE for the old shape (fixed finding
    `C15-config-above-spec`, regression corpus/C15/sglue/01-config-above-spec.ops): a client driven by a
    spec that advertises 16 streams per type (the Firefox parrots) with a default Config enforced 100.
    A tree that goes back to `max` regenerates `coverKeepsConfig = true`, `coverConfig` becomes
    `coverConfigMax` and `enforced_limit_equals_advertised` stops checking. -/
theorem old_max_shape_violates : ¬ EnforcedEqualsAdvertised coverConfigMax := by
  intro h
  have := h .uclient ⟨0, 0⟩ ⟨16, 16⟩
  revert this; decide

/-- of the two shapes gofacts accepts (same-type source fields), exactly the `advertised` one gives the
    full statement -/
theorem enforced_equals_advertised_iff_shape (keeps : Bool) :
    EnforcedEqualsAdvertised (coverConfigWith keeps ["MaxBidiStreamNum"] ["MaxUniStreamNum"]) ↔ keeps = false := by
  cases keeps with
  | true => exact ⟨fun h => absurd h old_max_shape_violates, fun h => by cases h⟩
  | false =>
    refine ⟨fun _ => rfl, ?_⟩
    intro _ k conf spec
    cases k <;> simp [enforcedLimitsWith, advertisedLimits, coverConfigWith, coverOne, maxOver, paramField]

/-! ## shape of the Go code the atomic-step modelling relies on -/

/-- Every sub-map method that the model treats as one atomic step takes the map's mutex in its
    first statement (regenerated from /repo by gofacts; a method that stops doing so breaks this). -/
theorem atomic_steps_lock_at_entry : Uquic.Gen.Streams.allLockAtEntry = true := by decide

/-- Every dispatch branch of `Conn.handleFrames` (STREAM, ACK, DATAGRAM, the rest) skips handling once
    an earlier frame of the packet failed; `configCoveringAdvertised` derives each stream limit from
    the parameter of the same stream type and from nothing else (both regenerated from /repo). -/
theorem glue_shape : Uquic.Gen.Streams.allSkipGuards = true ∧
    Uquic.Gen.Streams.coverBidiSources = ["MaxBidiStreamNum"] ∧
    Uquic.Gen.Streams.coverUniSources = ["MaxUniStreamNum"] ∧ Uquic.Gen.Streams.coverKeepsConfig = false ∧
    Uquic.Gen.Streams.coverShape = "advertised" := by
  decide

end Uquic.Props.C15
