/-
Property C17, round 5: "All goroutines, timers and routing entries of the connection are released" - the part
that lives in the TRANSPORT. A single-use transport (quic.Listen / ListenAddr / ListenEarly, quic.Dial) has a
read-loop goroutine, a send-queue goroutine and possibly a socket of its own; once its listener is closed they
have to go when the last connection's routing entries go. Model: Uquic.Model.Close.TrLife (one event = one call
of closeServer / Add / Remove / ReplaceWithClosed / its expiry callback / Close; tied to transport.go by the
`closeu` driver's `trlife` ops on a real Transport, and by the regenerated fact
`Uquic.Gen.CloseTr.removeStopsListening`).

* `transport_released_replace_path`: for EVERY history without a Remove call (connections that end through
  ReplaceWithClosed: local close, transport error, remote CONNECTION_CLOSE), whenever the listener of a
  single-use transport is closed and nothing is routed, the read loop has returned.
* `transport_released_if_remove_stops`: the same for ALL histories when Remove also looks at the table.
* `transport_released_full_witness`: with Remove as a bare delete (the tree as found) a history exists after
  which a drained single-use transport still runs: listener closed while a connection lives, the connection
  then ends by an immediate close (idle timeout, stateless reset, destroy).  => finding C17-single-use-remove-path.
* `emptiness_must_be_read_after_delete`: an expiry callback that samples "no handlers left" BEFORE deleting its
  own entries never stops the transport whose last stand-in it retires.
* `read_loop_stops_only_when_drained`: no call other than Transport.Close stops the read loop over a non-empty
  routing table, and `stopped_needs_close_error`: never while the listener is open.
-/
import Uquic.Proofs.C17Life

namespace Uquic.Props.C17Life
open Uquic.Model.Close.TrLife Uquic.Proofs.C17Life

/-- the sentence, for every history: -/
def transport_released_full (cfg : Cfg) : Prop := ∀ es : List Ev, Released cfg (run cfg {} es)

theorem transport_released_replace_path (cfg : Cfg) (es : List Ev) (h : ∀ e ∈ es, e.isRemove = false) :
    Released cfg (run cfg {} es) :=
  released_run cfg es {} (Or.inr h) (by intro _ hc; simp at hc)

theorem transport_released_if_remove_stops (cfg : Cfg) (h : cfg.removeStops = true) :
    transport_released_full cfg :=
  fun es => released_run cfg es {} (Or.inl h) (by intro _ hc; simp at hc)

/-- hypotheses satisfiable, non-trivially: a listener closed over a live connection that then closes locally -/
example : let cfg : Cfg := ⟨true, true, 2, 3, false⟩
    let s := run cfg {} [.listen, .add 0, .closeListener, .replace 0 true, .wait 2, .wait 1]
    s.closeErr = true ∧ s.handlers = [] ∧ s.stopped = true ∧ s.connClosed = true
    ∧ (run cfg {} [.listen, .add 0, .closeListener, .replace 0 true, .wait 2]).stopped = false := by decide

/-- the tree as found: Remove is a bare delete, and the sentence fails on the immediate-close path -/
theorem transport_released_full_witness :
    ¬ transport_released_full ⟨true, false, 1, 3, false⟩ := by
  intro h
  exact absurd (h [.listen, .add 0, .closeListener, .remove 0]) (by decide)

/-- the expiry callback with the emptiness test hoisted above the delete loop -/
def fireStale (cfg : Cfg) (s : Tr) (t : Timer) : Tr :=
  let s1 := { s with handlers := s.handlers.filter (fun e => !((idsOf cfg t.k).contains e.1 && e.2 == t.standin)) }
  if s.handlers.isEmpty then maybeStop cfg s1 else s1

/-- a stale emptiness test can never see the table it is about to empty: retiring the LAST stand-in (the table is
    non-empty before, empty after) leaves a running read loop running -/
theorem emptiness_must_be_read_after_delete (cfg : Cfg) (s : Tr) (t : Timer)
    (hne : s.handlers ≠ []) (hrun : s.stopped = false) :
    (fireStale cfg s t).stopped = false ∧
    ((fireStale cfg s t).handlers = [] → cfg.single = true → s.closeErr = true → (fire cfg s t).stopped = true) := by
  unfold fireStale
  have : s.handlers.isEmpty = false := by
    cases hh : s.handlers with
    | nil => exact absurd hh hne
    | cons => rfl
  simp only [this, Bool.false_eq_true, if_false]
  refine ⟨hrun, ?_⟩
  intro hh hs hc
  exact released_fire cfg s t hs (by unfold fire; rw [stopIfDrained_closeErr]; exact hc)
    (by unfold fire; rw [stopIfDrained_handlers]; exact hh)

/-- the read loop is never stopped over a non-empty routing table, except by Transport.Close -/
theorem read_loop_stops_only_when_drained (cfg : Cfg) (s : Tr) (e : Ev) (hrun : s.stopped = false)
    (hne : e ≠ .close) (hst : (step cfg s e).stopped = true) : (step cfg s e).handlers = [] := by
  have hd : Drained s := by intro h; rw [hrun] at h; cases h
  cases e with
  | listen => simp only [step] at hst; split at hst <;> simp_all
  | closeListener =>
    simp only [step] at hst ⊢
    split
    · rename_i ho
      simp only [ho, if_true] at hst
      exact drained_stopIfDrained cfg _ (by intro h; simp [hrun] at h) hst
    · rename_i ho; simp only [ho] at hst; simp_all
  | add k => simp [step, hrun] at hst
  | replace k wp => simp [step, hrun] at hst
  | remove k =>
    simp only [step] at hst ⊢
    split
    · rename_i ho
      simp only [ho, if_true] at hst
      exact drained_stopIfDrained cfg _ (by intro h; simp [hrun] at h) hst
    · rename_i ho; simp only [ho] at hst; simp_all
  | wait ms =>
    simp only [step] at hst ⊢
    exact drained_fireAll cfg _ _ (by intro h; simp [hrun] at h) hst
  | close => exact absurd rfl hne

/-- a stopped read loop implies a recorded close error, and a recorded close error a closed listener: the
    transport never stops reading while it can still accept connections -/
theorem stopped_needs_close_error (cfg : Cfg) (es : List Ev) :
    let s := run cfg {} es
    (s.stopped = true → s.closeErr = true) ∧ (s.closeErr = true → s.serverOpen = false) := by
  suffices h : ∀ s : Tr, ((s.stopped = true → s.closeErr = true) ∧ (s.closeErr = true → s.serverOpen = false)) →
      ((run cfg s es).stopped = true → (run cfg s es).closeErr = true) ∧ ((run cfg s es).closeErr = true → (run cfg s es).serverOpen = false) by
    exact h {} (by simp)
  induction es with
  | nil => intro s h; exact h
  | cons e es ih =>
    intro s h
    apply ih
    exact inv_step cfg s e h
where
  inv_step (cfg : Cfg) (s : Tr) (e : Ev)
      (h : (s.stopped = true → s.closeErr = true) ∧ (s.closeErr = true → s.serverOpen = false)) :
      ((step cfg s e).stopped = true → (step cfg s e).closeErr = true) ∧
      ((step cfg s e).closeErr = true → (step cfg s e).serverOpen = false) := by
    have hms : ∀ s : Tr, ((s.stopped = true → s.closeErr = true) ∧ (s.closeErr = true → s.serverOpen = false)) →
        (((stopIfDrained cfg s).stopped = true → (stopIfDrained cfg s).closeErr = true) ∧
         ((stopIfDrained cfg s).closeErr = true → (stopIfDrained cfg s).serverOpen = false)) := by
      intro s h
      unfold stopIfDrained maybeStop
      split
      · split
        · rename_i hc; simp at hc; simp [hc.2]; exact h.2 hc.2
        · exact h
      · exact h
    cases e with
    | listen =>
      simp only [step]; split
      · exact h
      · rename_i hc; simp at hc; simp [hc.1]
        cases hs : s.stopped with
        | false => rfl
        | true => have := h.1 hs; simp [hc.1] at this
    | closeListener =>
      simp only [step]; split
      · apply hms; simp; intro hs; exact Or.inl (h.1 hs)
      · exact h
    | add k => simpa [step] using h
    | replace k wp => simpa [step] using h
    | remove k =>
      simp only [step]; split
      · apply hms; simpa using h
      · simpa using h
    | wait ms =>
      simp only [step]
      have hf : ∀ (ts : List Timer) (s : Tr), ((s.stopped = true → s.closeErr = true) ∧ (s.closeErr = true → s.serverOpen = false)) →
          (((fireAll cfg s ts).stopped = true → (fireAll cfg s ts).closeErr = true) ∧
           ((fireAll cfg s ts).closeErr = true → (fireAll cfg s ts).serverOpen = false)) := by
        intro ts
        induction ts with
        | nil => intro s h; exact h
        | cons t ts ih =>
          intro s h
          apply ih
          unfold fire
          apply hms
          simpa using h
      apply hf
      simpa using h
    | close =>
      simp only [step, doClose]
      split
      · rename_i hc; simp [hc]; exact h.2 hc
      · simp

end Uquic.Props.C17Life
