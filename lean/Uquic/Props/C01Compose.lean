/-
C01 ∘ C03 — stream data end to end: C01's `ReassemblyContract` discharged by C03's ReceiveStream model.

C01 (Props/C01.lean) proved `read_is_prefix` / `read_complete` for the sender model composed with an ABSTRACT
receive side given only by `ReassemblyContract`.  C03 (Props/C03.lean) proved that the model of the REAL receive
side (frame_sorter.go, receive_stream.go, the receive half of the flow controller) hands the reader exactly
the source bytes.  Here the two are composed: C01's pipe (`Uquic.Spec.StreamPipe.pipeRun`) runs the SendStream
model against `recvStream fc` — C03's `RStream` model, `deliver` = `handleStreamFrame`, `read` = `Read`
(Spec/StreamE2E.lean) — and no receive-side hypothesis is left.

  receive_stream_meets_contract   C03's model satisfies C01's contract, clause by clause, on every state
                                  reached by delivering slices of one source string (any order / overlap /
                                  duplication, FIN anywhere) and reading with any buffer sizes (`ContractOn`);
                                  the two completeness clauses while no frame was rejected
  contract_relativised            `ContractOn` is implied by C01's `ReassemblyContract` (it is the part of the
                                  contract the composition uses)
  stream_end_to_end_prefix        every sender history × every delivery schedule × every sequence of reads:
                                  bytes read are a prefix of bytes written; EOF only after all of them, closed
  stream_end_to_end_complete      all bytes and the FIN delivered, nothing rejected: a read returns the next
                                  min(n, remaining) bytes with nil / io.EOF, never an error; EOF once all is read
  stream_end_to_end_drain         … hence reading to EOF yields exactly the bytes written

Why `ContractOn` and not the literal `ReassemblyContract (recvStream fc)`: the literal contract quantifies over
deliveries of arbitrary (mutually inconsistent) segments and promises every covered byte (`progress`) — false
of any receiver with a finite flow-control window or a gap limit.  The composition only ever delivers frames
the sender emitted, which are slices of `written` (C01 `sent_frames_faithful`), so the restriction loses nothing.

Hypotheses that remain, all explicit and on the SENDER/network side:
  * `NoBoundaryAfterReset` — C01's side condition (SetReliableBoundary is not called on a reset stream);
  * `OffsetsBounded` — emitted frames end below 2^61 (C03's `StInBounds`; QUIC offsets are < 2^62);
  * for completeness only: `alive` — no delivered frame was answered with FLOW_CONTROL_ERROR / FINAL_SIZE_ERROR /
    the sorter's gap limit (the delivery respected the advertised window; receive windows are static in this
    pipe — MAX_STREAM_DATA issuance is C03/C04), every byte range and a FIN frame were delivered.
A rejected frame (prefix theorem) closes the connection: the stream is closed for shutdown, what was read stays
a prefix and later reads return nothing (`frame_rejected_unchanged` of C03 is the per-step fact).
Receiver-side CancelRead and RESET_STREAM delivery are not steps of this pipe (C03 covers them per stream).
-/
import Uquic.Proofs.StreamE2EFinal
import Uquic.Proofs.SendRefReasm

namespace Uquic.Props.C01Compose
open Uquic.Model.Stream.Send Uquic.Spec.SendRun Uquic.Spec.StreamPipe Uquic.Spec.StreamE2E
open Uquic.Proofs.Send Uquic.Proofs.StreamE2E
open Uquic.Model.Reassembly (FC RStream RStatus maxByteCount)

/-! ## 1. C03's ReceiveStream model is an instance of C01's contract -/

/-- **The contract is discharged.** For every receive-side flow controller `fc` of a new stream and every
    source string `W`: on all states of C03's ReceiveStream model reached by `handleStreamFrame` of slices of
    `W` (any order, overlap, duplication, any FIN bits; frames the stream rejects close it) and `Read`s of any
    sizes, every clause of C01's `ReassemblyContract` holds — `progress` and `eof_complete` as long as no
    frame was rejected. -/
theorem receive_stream_meets_contract (fc : FC) (h0 : fc.highest = 0) (W : List UInt8) :
    ContractOn (recvStream fc) W (fun r : Rcv => r.alive = true) :=
  recvStream_contract fc h0 W

/-- `ContractOn` asks no more than C01's contract did: any reassembler meeting `ReassemblyContract` meets it. -/
theorem contract_relativised {A : Reassembler} (C : ReassemblyContract A) (W : List UInt8) :
    ContractOn A W (fun _ => True) :=
  contractOn_of_contract C W

/-- and the reference reassembler of C01 is an instance, so `ContractOn` is satisfiable independently -/
example (W : List UInt8) : ContractOn Uquic.Proofs.RefReasm.ref W (fun _ => True) :=
  contract_relativised Uquic.Proofs.RefReasm.ref_contract W

/-! ## 2. end to end -/

/-- **stream_end_to_end_prefix.** For every history of the SendStream model (without SetReliableBoundary on an
    already reset stream), every delivery schedule — any emitted frame handed to the ReceiveStream model's
    `handleStreamFrame` any number of times, in any order, or never — and every sequence of `Read`s of any
    sizes, interleaved arbitrarily: the concatenation of all bytes `Read` returned is a prefix of the bytes
    written, and io.EOF was returned only if the stream was closed and every byte written has been read.
    No assumption on the receive side; flow-control / final-size / gap-limit rejections included. -/
theorem stream_end_to_end_prefix (fc : FC) (h0 : fc.highest = 0) (sid : Nat) (sup : Bool) (ops : List PipeOp)
    (hc : NoBoundaryAfterReset (init sid sup) (sndOps ops))
    (hB : OffsetsBounded (pipeRun (pipeInit (recvStream fc) sid sup) ops).s) :
    let p := pipeRun (pipeInit (recvStream fc) sid sup) ops
    Rcv.out p.r <+: p.s.written ∧
    (p.eofSeen = true → p.s.finishedWriting = true ∧ Rcv.out p.r = p.s.written) :=
  prefix_on (recvStream_contract fc h0 _) (e2e_inv fc h0 sid sup ops hc hB)

/-- **stream_end_to_end_complete.** After any such history: if the writer closed, no delivered frame was
    rejected, the delivered frames cover every byte written and a FIN frame was delivered, then `Read` with an
    `n`-byte buffer (`n > 0`) returns exactly the next `min n remaining` bytes of the stream and ends with nil
    or io.EOF — never an error, never "would block"; a buffer at least as large as the remainder leaves
    nothing unread; and once nothing is unread `Read` reports io.EOF.
    (`finishedWriting` follows from the delivered FIN — it is listed because it is the property's premise.) -/
theorem stream_end_to_end_complete (fc : FC) (h0 : fc.highest = 0) (sid : Nat) (sup : Bool) (ops : List PipeOp)
    (hc : NoBoundaryAfterReset (init sid sup) (sndOps ops))
    (hB : OffsetsBounded (pipeRun (pipeInit (recvStream fc) sid sup) ops).s) :
    let p := pipeRun (pipeInit (recvStream fc) sid sup) ops
    p.s.finishedWriting = true → Rcv.alive p.r = true →
    CoveredUpTo (Rcv.segs p.r) p.s.written.length → (∃ x ∈ Rcv.segs p.r, x.fin = true) →
    ∀ n, 0 < n →
      ((Rcv.s p.r).read n).data =
        (p.s.written.drop (Rcv.out p.r).length).take (min n (p.s.written.length - (Rcv.out p.r).length)) ∧
      (((Rcv.s p.r).read n).status = .ok ∨ ((Rcv.s p.r).read n).status = .eof) ∧
      (p.s.written.length - (Rcv.out p.r).length ≤ n → Rcv.out (Rcv.read p.r n).1 = p.s.written) ∧
      (Rcv.out p.r = p.s.written → ((Rcv.s p.r).read n).status = .eof) :=
  fun _ hal hcov hfin n hn => e2e_complete fc h0 sid sup ops ⟨hc, hB, hal, hcov, hfin⟩ n hn

/-- **Reading to EOF yields all bytes.** In the situation of `stream_end_to_end_complete`, any further
    sequence of `Read`s with non-empty buffers whose sizes add up to at least the unread remainder, followed by
    one more `Read`, has returned exactly the bytes written, and io.EOF was reported. -/
theorem stream_end_to_end_drain (fc : FC) (h0 : fc.highest = 0) (sid : Nat) (sup : Bool) (ops : List PipeOp)
    (hc : NoBoundaryAfterReset (init sid sup) (sndOps ops))
    (hB : OffsetsBounded (pipeRun (pipeInit (recvStream fc) sid sup) ops).s) :
    let p := pipeRun (pipeInit (recvStream fc) sid sup) ops
    p.s.finishedWriting = true → Rcv.alive p.r = true →
    CoveredUpTo (Rcv.segs p.r) p.s.written.length → (∃ x ∈ Rcv.segs p.r, x.fin = true) →
    ∀ (ns : List Nat) (m : Nat), (∀ n ∈ ns, 0 < n) → 0 < m → p.s.written.length - (Rcv.out p.r).length ≤ ns.sum →
      let q := pipeRun p (ns.map PipeOp.read ++ [.read m])
      Rcv.out q.r = p.s.written ∧ q.eofSeen = true ∧ q.s.written = p.s.written :=
  fun _ hal hcov hfin ns m hpos hm hsum => e2e_drain fc h0 sid sup ops ⟨hc, hB, hal, hcov, hfin⟩ ns m hpos hm hsum

/-! ## 3. non-vacuity -/

/-- a receive window of 1000 bytes (stream) / 5000 bytes (connection) -/
def exFC : FC := { window := 1000, windowSize := 1000, conn := { window := 5000, windowSize := 5000 } }

/-- Write 12 bytes, Close; the packer pops `[0,7)` and `[7,12)+FIN`; frame 0 is LOST (never delivered) and
    retransmitted SPLIT into `[0,3)` and `[3,7)`; delivery order: the FIN frame first (a read then would
    block), `[3,7)`, `[0,3)`, then DUPLICATES of `[3,7)` and of the FIN frame; reads of 4, 5, 100, 1 bytes. -/
def exOps : List PipeOp :=
  [.snd (.write [1, 2, 3, 4, 5, 6, 7, 8, 9, 10, 11, 12]), .snd .close,
   .snd (.pop 10 1000 false), .snd (.pop 100 1000 false), .snd (.lost 0),
   .snd (.pop 6 1000 false), .snd (.pop 100 1000 false),
   .deliver 1, .read 4, .deliver 3, .deliver 2, .deliver 3, .deliver 1, .read 5, .read 100, .read 1]

theorem exOps_noBoundary (s : State) : NoBoundaryAfterReset s (sndOps exOps) := by
  intro pre post h
  exfalso
  have hm : Op.boundary ∈ sndOps exOps := by rw [h]; simp
  revert hm
  decide

set_option maxRecDepth 100000 in
/-- the sender emitted four frames: the lost one, the FIN frame, and the two halves of the retransmission -/
example : (pipeRun (pipeInit (recvStream exFC) 4 false) exOps).s.emitted.map (fun f => (f.offset, f.data.length, f.fin)) =
    [(0, 7, false), (7, 5, true), (0, 3, false), (3, 4, false)] := by decide

set_option maxRecDepth 100000 in
/-- … everything was read, in order, exactly once, and EOF was reported; nothing was rejected -/
example :
    let p := pipeRun (pipeInit (recvStream exFC) 4 false) exOps
    Rcv.out p.r = [1, 2, 3, 4, 5, 6, 7, 8, 9, 10, 11, 12] ∧ p.eofSeen = true ∧ Rcv.alive p.r = true ∧
    (Rcv.segs p.r).length = 5 := by decide

set_option maxRecDepth 100000 in
/-- the first read (only the FIN frame `[7,12)` delivered) returned nothing; after the out-of-order and
    duplicate deliveries the second read returned `[0,5)` -/
example : Rcv.out (pipeRun (pipeInit (recvStream exFC) 4 false) (exOps.take 9)).r = [] ∧
    Rcv.out (pipeRun (pipeInit (recvStream exFC) 4 false) (exOps.take 14)).r = [1, 2, 3, 4, 5] := by decide

set_option maxRecDepth 100000 in
/-- the hypotheses of `stream_end_to_end_complete` / `_drain` are satisfiable: before the reads of `exOps`
    (13 steps) the writer has closed, nothing was rejected, `[0,12)` is covered and the FIN was delivered,
    offsets are bounded — although frame 0 never arrived -/
example :
    let p := pipeRun (pipeInit (recvStream exFC) 4 false) (exOps.take 13)
    p.s.finishedWriting = true ∧ Rcv.alive p.r = true ∧ (∃ x ∈ Rcv.segs p.r, x.fin = true) ∧
    (∀ i, i < p.s.written.length → ∃ s ∈ Rcv.segs p.r, s.off ≤ i ∧ i < s.off + s.data.length) ∧
    (∀ f ∈ p.s.emitted, 2 * (f.offset + f.data.length) < maxByteCount) ∧
    segOf { offset := 0, data := [1, 2, 3, 4, 5, 6, 7] } ∉ Rcv.segs p.r := by decide

/-- hence the general theorem applies to this history -/
example :
    let p := pipeRun (pipeInit (recvStream exFC) 4 false) exOps
    Rcv.out p.r <+: p.s.written ∧ (p.eofSeen = true → p.s.finishedWriting = true ∧ Rcv.out p.r = p.s.written) :=
  stream_end_to_end_prefix exFC rfl 4 false exOps (exOps_noBoundary _) (by
    unfold OffsetsBounded; decide)

set_option maxRecDepth 100000 in
/-- a frame beyond the advertised window is rejected (FLOW_CONTROL_ERROR): the stream is shut down, what
    was read stays a prefix (`stream_end_to_end_prefix` covers this run), later reads return nothing -/
example :
    let p := pipeRun (pipeInit (recvStream { window := 4, windowSize := 4, conn := { window := 100, windowSize := 100 } }) 4 false)
      [.snd (.write [1, 2, 3, 4, 5, 6, 7, 8]), .snd (.pop 7 1000 false), .snd (.pop 100 1000 false),
       .deliver 0, .read 2, .deliver 1, .read 10]
    Rcv.alive p.r = false ∧ Rcv.out p.r = [1, 2] ∧ (Rcv.s p.r).shutdown = true := by decide

end Uquic.Props.C01Compose
