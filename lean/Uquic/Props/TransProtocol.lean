/-
Tie theorems, packet-number arithmetic (property C05): the hand-written model functions of
Uquic/Model/Crypto/PN.lean EQUAL the definitions regenerated from internal/protocol/packet_number.go by the
source-to-Lean translator (gofacts/trans.go → Uquic.Generated.TransProtocol) on every run.

Range hypotheses (Go types: PacketNumberLen uint8, PacketNumber int64; the translation is over unbounded Int):
* `DecodePacketNumber`: any length ≥ 0 (Go: `PacketNumberLen` ∈ {1,2,3,4}), `largest ≥ -1`
  (`InvalidPacketNumber` or a packet number), `truncated ≥ 0`.  `…_safe` (operands of `|` non-negative) is
  proved from these.  `length*8` (uint8) ≤ 32 and every intermediate is below 2^63 for `largest < 2^62`.
* `PacketNumberLengthForHeader`: none (all Int); the Go subtraction `pn - largestAcked` cannot wrap for
  packet numbers in [-1, 2^62).
-/
import Uquic.Generated.TransProtocol
import Uquic.Model.Crypto.PN
import Uquic.Proofs.TransLemmas

namespace Uquic.Props.TransProtocol
open Uquic.Model.PN Uquic.Proofs.Trans
open Uquic.Gen.TransProtocol (DecodePacketNumber DecodePacketNumber_safe PacketNumberLengthForHeader)

/-- `protocol.DecodePacketNumber`: model = source, for every legal length and every non-negative input -/
theorem DecodePacketNumber_model_is_source (len : Nat) (largest truncated : Int)
    (hL : -1 ≤ largest) :
    decodePN len largest truncated = DecodePacketNumber (len : Int) largest truncated := by
  have hk : ((len : Int) * 8) = ((8 * len : Nat) : Int) := by push_cast; omega
  have hk' : (8 * (len : Int)) = ((8 * len : Nat) : Int) := by push_cast; omega
  unfold decodePN DecodePacketNumber
  simp only [hk, hk', bor_clearlow _ _ _ (show (0 : Int) ≤ largest + 1 by omega), shl_one]
  tdiv_norm
  all_goals try simp only [show (4611686018427387904 : Int) = 2 ^ 62 by decide]
  all_goals
    generalize candidateBits (8 * len) (largest + 1) truncated = c
    generalize (2 : Int) ^ (8 * len) = w
    tie_arith

/-- the operands of `|` in `DecodePacketNumber` are non-negative (so the prelude's `bor` is Go's `|`) -/
theorem DecodePacketNumber_no_wrap (len : Nat) (largest truncated : Int) (hL : -1 ≤ largest) (ht : 0 ≤ truncated) :
    DecodePacketNumber_safe (len : Int) largest truncated := by
  unfold DecodePacketNumber_safe
  (repeat' constructor) <;> first | assumption | omega | exact clearlow_nonneg _ _ (by omega)

/-- `protocol.PacketNumberLengthForHeader`: model = source for all inputs -/
theorem PacketNumberLengthForHeader_model_is_source (pn largestAcked : Int) :
    ((pnLenForHeader pn largestAcked : Nat) : Int) = PacketNumberLengthForHeader pn largestAcked := by
  unfold pnLenForHeader PacketNumberLengthForHeader invalidPN Uquic.Gen.Protocol.InvalidPacketNumber
  tie_arith

example : DecodePacketNumber 2 0xa82f30ea 0x9b32 = 0xa82f9b32 := by decide

end Uquic.Props.TransProtocol
