/-
C20 ∘ C06 — C20's `send_gating` ("SendMode = SendAny | SendPacingLimited only if bytesInFlight < cwnd") is a
theorem about a stand-alone decision function (Uquic/Model/Cong/Sender.lean `sendMode`) whose handler facts
(amplification limit, tracked packets, numProbesToSend, ptoMode, bytesInFlight) are free parameters.  Here
the gating is stated and proved over the FULL sent-packet-handler model of C06 (Uquic/Model/Ack/Sent.lean,
whose `SendMode` has the congestion controller's CanSend / HasPacingBudget answers as environment inputs),
for the states the handler actually reaches:

  * `send_gating_full` — in every state reached by any history, SendMode answers SendAny / SendPacingLimited
    only if the controller's CanSend, asked about the handler's CURRENT `bytesInFlight`, said yes (and no
    probe is pending, the amplification limit is not hit, fewer than MaxOutstandingSentPackets are tracked);
    every other answer is SendNone, SendAck or a PTO mode;
  * `send_gating_full_in_flight` — … and under C06's caller contract that `bytesInFlight` is exactly the total
    size of the tracked in-flight packets (`in_flight_balanced`), so the window is consulted with the bytes
    really outstanding;
  * `send_gating_full_cwnd`, `sendMode_is_C20_decision` — with C20's congestion-controller model plugged in:
    the full model's SendMode IS C20's decision function on the handler's own fields, and new data is
    released only while the outstanding bytes are below cwnd;
  * `tracked_limits_only_restrict` — the 20 000 / 25 000 tracked-packet limits can only replace an answer by
    SendNone, or new data (SendAny / SendPacingLimited) by SendAck.

Property theorems only.  Helper lemmas and the vocabulary of the statements: Uquic/Proofs/AmpRefineFrame.lean
(`PtoOK`: ptoMode is only ever SendNone or a PTO mode) and Uquic/Proofs/AmpRefineGate.lean (`numTracked`,
`Restrictive`, `MoreRestrictive`, `sendModeNoLimits`, `modeCode`, `ptoOf`).
-/
import Uquic.Props.C06
import Uquic.Proofs.AmpRefineGate

namespace Uquic.Props.C06Compose
open Uquic.Model.Sent Uquic.Proofs.Sent Uquic.Proofs.AmpRefine Uquic.Props.C06

/-- complete case analysis of `SendMode` in a state with a legal `ptoMode`: the answer releases new data
    (SendAny / SendPacingLimited) exactly when all gates are open, and is restrictive otherwise -/
theorem sendMode_cases (s : State) (hp : PtoOK s) (cs pb : Bool) :
    ((s.sendMode cs pb = sendAny ∨ s.sendMode cs pb = sendPacingLimited) ∧
        s.isAmplificationLimited = false ∧ numTracked s < maxOutstandingSentPackets ∧ s.numProbesToSend ≤ 0 ∧ cs = true ∧
        (s.sendMode cs pb = sendAny ↔ pb = true)) ∨
    (Restrictive (s.sendMode cs pb) ∧
        (s.isAmplificationLimited = true ∨ numTracked s ≥ maxOutstandingSentPackets ∨ s.numProbesToSend > 0 ∨ cs = false)) := by
  obtain ⟨d1, d2, d3, d4, d5, d6, d7, d8, d9, d10, d11⟩ := codes_distinct
  have hlt : maxOutstandingSentPackets < maxTrackedSentPackets := by decide
  unfold State.sendMode
  simp only []
  show (_ ∧ _ ∧ numTracked s < _ ∧ _) ∨ (_ ∧ (_ ∨ numTracked s ≥ _ ∨ _))
  have hnt : s.app.hist.len + optLen s.initial + optLen s.handshake = numTracked s := rfl
  rw [hnt]
  by_cases h1 : s.isAmplificationLimited = true
  · rw [if_pos h1]; exact Or.inr ⟨Or.inl rfl, Or.inl h1⟩
  · rw [if_neg h1]
    by_cases h2 : numTracked s ≥ maxTrackedSentPackets
    · rw [if_pos h2]; exact Or.inr ⟨Or.inl rfl, Or.inr (Or.inl (by omega))⟩
    · rw [if_neg h2]
      by_cases h3 : s.numProbesToSend > 0
      · rw [if_pos h3]
        refine Or.inr ⟨?_, Or.inr (Or.inr (Or.inl h3))⟩
        rcases hp with h | h | h | h <;> rw [h] <;> simp [Restrictive]
      · rw [if_neg h3]
        cases cs with
        | false => rw [if_pos (show (!false) = true by decide)]; exact Or.inr ⟨Or.inr (Or.inl rfl), Or.inr (Or.inr (Or.inr rfl))⟩
        | true =>
          rw [if_neg (show ¬ (!true) = true by decide)]
          by_cases h5 : numTracked s ≥ maxOutstandingSentPackets
          · rw [if_pos h5]; exact Or.inr ⟨Or.inr (Or.inl rfl), Or.inr (Or.inl h5)⟩
          · rw [if_neg h5]
            left
            have h1' : s.isAmplificationLimited = false := by simpa using h1
            cases pb with
            | false =>
              rw [if_pos (show (!false) = true by decide)]
              exact ⟨Or.inr rfl, h1', by omega, by omega, rfl, ⟨fun h => absurd h.symm d11, fun h => by cases h⟩⟩
            | true =>
              rw [if_neg (show ¬ (!true) = true by decide)]
              exact ⟨Or.inl rfl, h1', by omega, by omega, rfl, ⟨fun _ => rfl, fun _ => rfl⟩⟩

/-! ## 1. gating over the full model -/

/-- `send_gating_full`.  Let `s` be the state reached by ANY history of the full handler model from a fresh
handler (client or server, any environment inputs; the history may end in an error or panic).  Let the
congestion controller be any function `cc` from a byte count to its CanSend answer, and `pb` any
HasPacingBudget answer; `SendMode` asks `cc` about the handler's own `bytesInFlight`.  Then:
  (1) if SendMode answers SendAny or SendPacingLimited, then `cc s.bytesInFlight = true` — the window was
      consulted with the accounted bytes in flight and said yes —, no PTO probe is pending, the amplification
      limit is not hit, fewer than MaxOutstandingSentPackets packets are tracked, and the answer is SendAny
      exactly when the pacer has budget;
  (2) otherwise the answer is SendNone, SendAck or one of the three PTO modes (C20's hypothesis `hpto`, here
      a proved invariant of the handler: `ptoMode` is only ever assigned SendNone or a PTO mode). -/
theorem send_gating_full (pn : PN) (val client : Bool) (nts : PN) (ops : List (Op × StepEnv))
    (cc : Int → Bool) (pb : Bool) :
    let s := ((State.new pn val client nts).run ops).s
    let m := s.sendMode (cc s.bytesInFlight) pb
    ((m = sendAny ∨ m = sendPacingLimited) →
        cc s.bytesInFlight = true ∧ s.numProbesToSend ≤ 0 ∧ s.isAmplificationLimited = false ∧
        numTracked s < maxOutstandingSentPackets ∧ (m = sendAny ↔ pb = true)) ∧
    (¬ (m = sendAny ∨ m = sendPacingLimited) → Restrictive m) := by
  intro s m
  have hp : PtoOK s := run_ptoOK ops _ (new_ptoOK pn val client nts)
  rcases sendMode_cases s hp (cc s.bytesInFlight) pb with ⟨h0, h1, h2, h3, h4, h5⟩ | ⟨h0, _⟩
  · exact ⟨fun _ => ⟨h4, h3, h1, h2, h5⟩, fun hn => absurd h0 hn⟩
  · exact ⟨fun hm => absurd hm (restrictive_not_new_data h0), fun _ => h0⟩

/-- `pto_mode_legal`: in every state reached by any history (whatever its outcome), `ptoMode` holds SendNone or
one of the three PTO modes — C20's `send_gating` hypothesis `hpto` ("ptoMode is only ever SendNone or a PTO
mode in sent_packet_handler.go", there justified by reading the code) is an invariant of the full model — and
it is faithfully represented in C20's enumeration. -/
theorem pto_mode_legal (pn : PN) (val client : Bool) (nts : PN) (ops : List (Op × StepEnv)) :
    let s := ((State.new pn val client nts).run ops).s
    PtoOK s ∧ ptoOf s.ptoMode ≠ .any ∧ ptoOf s.ptoMode ≠ .pacingLimited ∧ modeCode (ptoOf s.ptoMode) = s.ptoMode := by
  intro s
  have hp : PtoOK s := run_ptoOK ops _ (new_ptoOK pn val client nts)
  exact ⟨hp, (ptoOf_not_new_data _).1, (ptoOf_not_new_data _).2, modeCode_ptoOf hp⟩

/-- `send_gating_full_in_flight`.  … and after every history that obeys C06's caller contract and completed
normally, the `bytesInFlight` the window is consulted with is exactly the total size of the tracked packets
counted in flight (C06 `in_flight_balanced`): new data is released only if
`CanSend(Σ sizes of the outstanding in-flight packets)` holds. -/
theorem send_gating_full_in_flight (pn : PN) (val client : Bool) (nts : PN) (ops : List (Op × StepEnv))
    (hv : ValidRun (State.new pn val client nts) ops) (hok : ((State.new pn val client nts).run ops).res = .ok)
    (cc : Int → Bool) (pb : Bool) :
    let s := ((State.new pn val client nts).run ops).s
    let m := s.sendMode (cc s.bytesInFlight) pb
    (m = sendAny ∨ m = sendPacingLimited) →
      cc (spaceFlight s.initial + spaceFlight s.handshake + wsum flightOf s.app.hist.packets) = true ∧
      0 ≤ spaceFlight s.initial + spaceFlight s.handshake + wsum flightOf s.app.hist.packets := by
  intro s m hm
  obtain ⟨b1, b2, _⟩ := in_flight_balanced pn val client nts ops hv hok
  have g := ((send_gating_full pn val client nts ops cc pb).1 hm).1
  exact ⟨by rw [← b1]; exact g, by rw [← b1]; exact b2⟩

/-- a history for the examples: a client sends two Initial packets (1200 + 300 bytes), the second is
acknowledged; 1200 bytes stay in flight.  Later a PTO fires. -/
def gOps : List (Op × StepEnv) :=
  [(.send .initial 1000 (-1) 1200 false false [⟨1, true⟩] [], wEnv),
   (.send .initial 2000 (-1) 300 false false [⟨3, true⟩] [], wEnv),
   (.ack .initial 3000 [(1, 1)], wEnv)]

set_option maxRecDepth 100000 in
/-- the hypotheses are satisfiable and all three kinds of answer occur: with a window of 40064 bytes SendAny /
SendPacingLimited; with a window of 1200 bytes (= bytes in flight) SendAck; after a PTO the probe mode,
whatever the window says -/
example : let r := (State.new 0 false true 300).run gOps
    r.res = .ok ∧ ValidRun (State.new 0 false true 300) gOps ∧ r.s.bytesInFlight = 1200 ∧
    r.s.sendMode ((fun b => decide (b < 40064)) r.s.bytesInFlight) true = sendAny ∧
    r.s.sendMode ((fun b => decide (b < 40064)) r.s.bytesInFlight) false = sendPacingLimited ∧
    r.s.sendMode ((fun b => decide (b < 1200)) r.s.bytesInFlight) true = sendAck ∧
    ((State.new 0 false true 300).run [(.send .initial 1000 (-1) 1200 false false [⟨1, true⟩] [], wEnv),
      (.timeout 400000000, wEnv)]).s.sendMode true true = sendPTOInitial := by decide

/-! ## 2. with C20's congestion-controller model -/

open Uquic.Model in
/-- `sendMode_is_C20_decision`: in every state with a legal `ptoMode` (every reachable state), the full
model's `SendMode`, with C20's sender model `c` answering CanSend / HasPacingBudget, IS C20's decision
function `Cong.sendMode` evaluated on the handler's own fields — so C20's `send_gating` is about the function
the handler computes in every reachable state, not only on a fresh handler. -/
theorem sendMode_is_C20_decision (s : State) (hp : PtoOK s) (c : Cong.Sender) (now : Int) :
    s.sendMode (c.canSend s.bytesInFlight.toNat) (c.hasPacingBudget now) =
      modeCode (Cong.sendMode c s.isAmplificationLimited (numTracked s).toNat maxTrackedSentPackets.toNat
        maxOutstandingSentPackets.toNat s.numProbesToSend.toNat (ptoOf s.ptoMode) s.bytesInFlight.toNat now) := by
  have hn := numTracked_nonneg s
  have e1 : maxTrackedSentPackets = 25000 := by decide
  have e2 : maxOutstandingSentPackets = 20000 := by decide
  have t1 : (25000 : Int).toNat = 25000 := rfl
  have t2 : (20000 : Int).toNat = 20000 := rfl
  unfold State.sendMode Cong.sendMode
  simp only []
  have hnt : s.app.hist.len + optLen s.initial + optLen s.handshake = numTracked s := rfl
  rw [hnt, e1, e2, t1, t2]
  by_cases h1 : s.isAmplificationLimited = true
  · rw [if_pos h1, if_pos h1]; rfl
  · rw [if_neg h1, if_neg h1]
    by_cases h2 : numTracked s ≥ 25000
    · have n2 : (numTracked s).toNat ≥ 25000 := by omega
      rw [if_pos h2, if_pos n2]; rfl
    · have n2 : ¬ (numTracked s).toNat ≥ 25000 := by omega
      rw [if_neg h2, if_neg n2]
      by_cases h3 : s.numProbesToSend > 0
      · have n3 : s.numProbesToSend.toNat > 0 := by omega
        rw [if_pos h3, if_pos n3]
        exact (modeCode_ptoOf hp).symm
      · have n3 : ¬ s.numProbesToSend.toNat > 0 := by omega
        rw [if_neg h3, if_neg n3]
        cases c.canSend s.bytesInFlight.toNat with
        | false =>
          rw [if_pos (show (!false) = true by decide), if_pos (show (!false) = true by decide)]; rfl
        | true =>
          rw [if_neg (show ¬ (!true) = true by decide), if_neg (show ¬ (!true) = true by decide)]
          by_cases h5 : numTracked s ≥ 20000
          · have n5 : (numTracked s).toNat ≥ 20000 := by omega
            rw [if_pos h5, if_pos n5]; rfl
          · have n5 : ¬ (numTracked s).toNat ≥ 20000 := by omega
            rw [if_neg h5, if_neg n5]
            cases c.hasPacingBudget now with
            | false =>
              rw [if_pos (show (!false) = true by decide), if_pos (show (!false) = true by decide)]; rfl
            | true =>
              rw [if_neg (show ¬ (!true) = true by decide), if_neg (show ¬ (!true) = true by decide)]; rfl

open Uquic.Model in
/-- `send_gating_full_cwnd`.  After every history of the full handler that obeys C06's caller contract and
completed normally, for every state `c` of C20's sender model (any congestion window) and every time:
if `SendMode` — the controller being asked `CanSend(bytesInFlight)` and `HasPacingBudget(now)` — answers
SendAny or SendPacingLimited, then the total size of the tracked in-flight packets is below the congestion
window. -/
theorem send_gating_full_cwnd (pn : PN) (val client : Bool) (nts : PN) (ops : List (Op × StepEnv))
    (hv : ValidRun (State.new pn val client nts) ops) (hok : ((State.new pn val client nts).run ops).res = .ok)
    (c : Cong.Sender) (now : Int) :
    let s := ((State.new pn val client nts).run ops).s
    let m := s.sendMode (c.canSend s.bytesInFlight.toNat) (c.hasPacingBudget now)
    (m = sendAny ∨ m = sendPacingLimited) →
      spaceFlight s.initial + spaceFlight s.handshake + wsum flightOf s.app.hist.packets < (c.cwnd : Int) ∧
      s.bytesInFlight < (c.cwnd : Int) := by
  intro s m hm
  obtain ⟨b1, b2, _⟩ := in_flight_balanced pn val client nts ops hv hok
  have g := ((send_gating_full pn val client nts ops (fun b => c.canSend b.toNat) (c.hasPacingBudget now)).1 hm).1
  have hlt : s.bytesInFlight.toNat < c.cwnd := by simpa [Cong.Sender.canSend] using g
  have h0 : 0 ≤ s.bytesInFlight := b2
  have : s.bytesInFlight < (c.cwnd : Int) := by omega
  exact ⟨by rw [← b1]; exact this, this⟩

open Uquic.Model in
set_option maxRecDepth 100000 in
/-- hypotheses satisfiable, conclusion not vacuous: on C20's fresh sender (window 40064) the state after `gOps`
(1200 bytes in flight) gets SendAny; on a sender whose window was cut to the 2-packet floor … it still does;
the decision-function identity is exercised on that non-fresh handler state -/
example : let s := ((State.new 0 false true 300).run gOps).s
    s.sendMode ((Cong.Sender.new 1252 Cong.Rtt.default).canSend s.bytesInFlight.toNat)
      ((Cong.Sender.new 1252 Cong.Rtt.default).hasPacingBudget 1) = sendAny ∧
    Cong.sendMode (Cong.Sender.new 1252 Cong.Rtt.default) s.isAmplificationLimited (numTracked s).toNat 25000 20000
      s.numProbesToSend.toNat (ptoOf s.ptoMode) s.bytesInFlight.toNat 1 = .any ∧ numTracked s = 2 := by decide

/-! ## 3. the tracked-packet limits only restrict -/

/-- the limits as regenerated from internal/protocol/params.go: MaxOutstandingSentPackets = 2 ·
MaxCongestionWindowPackets = 20 000 < MaxTrackedSentPackets = 25 000 (the "must be larger" of the source
comment) -/
theorem tracked_limit_constants :
    maxOutstandingSentPackets = 20000 ∧ maxTrackedSentPackets = 25000 ∧
    maxOutstandingSentPackets = 2 * Uquic.Gen.Protocol.MaxCongestionWindowPackets ∧
    maxOutstandingSentPackets < maxTrackedSentPackets := by decide

/-- `tracked_limits_only_restrict`.  For EVERY state of the full model and all congestion answers: compared
with the function without the `numTrackedPackets` tests, SendMode
  * gives the same answer while fewer than MaxOutstandingSentPackets (20 000) packets are tracked;
  * from MaxOutstandingSentPackets on, only replaces new data (SendAny / SendPacingLimited) by SendAck — PTO
    probes, the amplification verdict and the congestion verdict are untouched;
  * from MaxTrackedSentPackets (25 000) on, answers SendNone;
  in all cases the answer is `MoreRestrictive` than the unlimited one: the limits never turn a restrictive
  answer into a permission and never release new data the congestion controller refused. -/
theorem tracked_limits_only_restrict (s : State) (cs pb : Bool) :
    MoreRestrictive (s.sendMode cs pb) (sendModeNoLimits s cs pb) ∧
    (numTracked s < maxOutstandingSentPackets → s.sendMode cs pb = sendModeNoLimits s cs pb) ∧
    (maxOutstandingSentPackets ≤ numTracked s → numTracked s < maxTrackedSentPackets →
      s.sendMode cs pb = (if sendModeNoLimits s cs pb = sendAny ∨ sendModeNoLimits s cs pb = sendPacingLimited
        then (if s.numProbesToSend > 0 then s.ptoMode else sendAck) else sendModeNoLimits s cs pb)) ∧
    (maxTrackedSentPackets ≤ numTracked s → s.sendMode cs pb = sendNone) := by
  obtain ⟨d1, d2, d3, d4, d5, d6, d7, d8, d9, d10, d11⟩ := codes_distinct
  have hlt : maxOutstandingSentPackets < maxTrackedSentPackets := by decide
  unfold State.sendMode sendModeNoLimits
  simp only []
  have hnt : s.app.hist.len + optLen s.initial + optLen s.handshake = numTracked s := rfl
  rw [hnt]
  by_cases h1 : s.isAmplificationLimited = true
  · rw [if_pos h1, if_pos h1]
    refine ⟨Or.inl rfl, fun _ => rfl, fun _ _ => ?_, fun _ => rfl⟩
    rw [if_neg (by intro h; rcases h with h | h; exact d1 h.symm; exact d6 h.symm)]
  · rw [if_neg h1, if_neg h1]
    by_cases h2 : numTracked s ≥ maxTrackedSentPackets
    · rw [if_pos h2]
      exact ⟨Or.inr (Or.inl rfl), fun h => by omega, fun _ h => by omega, fun _ => rfl⟩
    · rw [if_neg h2]
      by_cases h3 : s.numProbesToSend > 0
      · rw [if_pos h3, if_pos h3]
        refine ⟨Or.inl rfl, fun _ => rfl, fun _ _ => ?_, fun h => by omega⟩
        split <;> rfl
      · rw [if_neg h3, if_neg h3]
        cases cs with
        | false =>
          rw [if_pos (show (!false) = true by decide), if_pos (show (!false) = true by decide)]
          refine ⟨Or.inl rfl, fun _ => rfl, fun _ _ => ?_, fun h => by omega⟩
          rw [if_neg (by intro h; rcases h with h | h; exact d2 h.symm; exact d7 h.symm)]
        | true =>
          rw [if_neg (show ¬ (!true) = true by decide), if_neg (show ¬ (!true) = true by decide)]
          by_cases h5 : numTracked s ≥ maxOutstandingSentPackets
          · rw [if_pos h5]
            cases pb with
            | false =>
              rw [if_pos (show (!false) = true by decide)]
              exact ⟨Or.inr (Or.inr ⟨rfl, Or.inr rfl⟩), fun h => by omega, fun _ _ => by rw [if_pos (Or.inr rfl), if_neg h3], fun h => by omega⟩
            | true =>
              rw [if_neg (show ¬ (!true) = true by decide)]
              exact ⟨Or.inr (Or.inr ⟨rfl, Or.inl rfl⟩), fun h => by omega, fun _ _ => by rw [if_pos (Or.inl rfl), if_neg h3], fun h => by omega⟩
          · rw [if_neg h5]
            exact ⟨Or.inl rfl, fun _ => rfl, fun h => by omega, fun h => by omega⟩

/-- the limit branches are reachable in the model: with 20 000 tracked packet-number slots the answer drops
from SendAny to SendAck, with 25 000 to SendNone; a pending PTO probe is still allowed at 20 000 -/
example :
    sendModeNoLimits (trackedState 20000 0) true true = sendAny ∧ (trackedState 20000 0).sendMode true true = sendAck ∧
    (trackedState 19999 0).sendMode true true = sendAny ∧
    (trackedState 25000 0).sendMode true true = sendNone ∧ (trackedState 20000 1).sendMode true true = sendPTOAppData := by
  refine ⟨by decide, ?_, ?_, ?_, ?_⟩ <;> rw [trackedState_sendMode] <;> decide

end Uquic.Props.C06Compose
