/-
C09, round 4 — Initial CRYPTO framing always carries the complete ClientHello at true offsets:
the glue between the frame builders and the packer / loss recovery.

1. `validate_ok_fits` — validateInitialFlight accepts only plans that can be sent as described: every
   datagram fits the frame budget of the packet it is planned for, INCLUDING datagrams beyond the end
   of the budget list (they are packed with the last InitialPackets entry, hence held against the last
   budget). The monitor predicate `firstOversize` (validate_fits / ff_fits / rff_fits / pf_plan_fits)
   is a consequence.
2. `marshal_carries_what_it_registers` — MarshalInitialPacketPayload on ANY list of non-empty CRYPTO
   frames (one fresh pop, several pops, retransmissions queued in any order, split frames): when it
   returns a payload, the payload carries exactly the bytes of the frames it was handed — which are the
   frames registered with the packet for loss recovery — at their true stream offsets. The base
   offset handed to the builder is the LOWEST OFFSET OF THE FRAMES BEING PACKED, not anything derived
   from the stream's write offset.
3. `perdatagram_packet_carries_registered`, `perdatagram_retransmission_covers` — the per-datagram
   path on a model of the packer (Initial crypto stream, retransmission queue, CryptoLength /
   padding-reserve budgets, registration): for EVERY history of PackCoalescedPacket calls, loss
   declarations (the first datagram only, a Retry, retransmissions lost again, …) and later writes
   that does not end in a failed PackCoalescedPacket, every packet carries at true offsets exactly
   what it registers, and once the stream and the retransmission queue are empty the packets that
   were not lost cover everything that was written.
4. `noncontiguous_retransmission_fails` — the finding: frames of two non-adjacent ranges in one
   retransmission packet make MarshalInitialPacketPayload fail (the connection is closed); this is why
   3. is stated for histories without a failed call. The model follows the tree through the generated
   fact `marshalReassembleFatal`; `noncontiguous_retransmission_sent_as_is` / `noncontiguous_history_recovers`
   are the statements for a tree in which the proposed repair has been made.
-/
import Uquic.Props.C09
import Uquic.Proofs.FramesGlueValidate
import Uquic.Proofs.FramesGlueSession

namespace Uquic.Props.C09Glue
open Uquic.Spec.Framing Uquic.Spec.FramingMon Uquic.Model.UQuic.Frames Uquic.Model.UQuic.PerDatagram
open Uquic.Proofs.Frames Uquic.Proofs.Glue
open Uquic.Proofs.Planned (CovF)

/-! ## 1. an accepted flight plan fits its packets -/

/-- datagram `j` of an accepted plan is at most as long as `budgets[min j last]` whenever that
    budget is known (positive): surplus datagrams are held against the last budget -/
theorem validate_ok_fits {ps : List (List UInt8)} {budgets : List Int} {n : Int} {rs : List (Nat × Nat)}
    (h : validate ps budgets n = .ok rs) (j : Nat) (hj : j < ps.length) (b : Int)
    (hb : budgets[min j (budgets.length - 1)]? = some b) (hpos : b > 0) : ((ps[j]).length : Int) ≤ b :=
  validate_fits h j hj b hb hpos

/-- … so the monitors `validate_fits`, `ff_fits`, `rff_fits`, `pf_plan_fits` never fire on a plan the
    model of validateInitialFlight accepts -/
theorem validate_ok_monitor_fits {ps : List (List UInt8)} {budgets : List Int} {n : Int}
    {rs : List (Nat × Nat)} (h : validate ps budgets n = .ok rs) : firstOversize ps budgets = none := by
  unfold firstOversize
  rw [List.findSome?_eq_none_iff]
  intro i hi
  have hi' : i < ps.length := List.mem_range.mp hi
  cases hb : budgets[min i (budgets.length - 1)]? with
  | none => rfl
  | some b =>
    simp only []
    by_cases hpos : b > 0
    · have := validate_ok_fits h i hi' b hb hpos
      have e : (ps.getD i []).length = (ps[i]).length := by
        rw [List.getD_eq_getElem?_getD, List.getElem?_eq_getElem hi']; rfl
      rw [e]
      have : ¬ (((ps[i]).length : Int) > b) := by omega
      simp [this]
    · simp [hpos]

/-- hypotheses satisfiable, and the surplus datagram matters: two datagrams, ONE budget of 4 bytes -/
example : validate [[6, 0, 1, 7], [6, 1, 1, 8]] [4] 2 = .ok [(0, 1), (1, 1)] := by decide
example : validate [[6, 0, 1, 7], [6, 1, 2, 8, 9]] [4] 3 = .err "toolarge@1" := by decide

/-! ## 2. MarshalInitialPacketPayload carries what the packet registers -/

/-- what "the packet carries exactly what it registers" means: the payload is a sequence of
    PADDING/PING/CRYPTO frames, every CRYPTO frame holds the bytes of the stream `W` at its absolute
    offset, and the CRYPTO frames cover exactly the bytes of the frames `reg` -/
def CarriesRegistered (W p : List UInt8) (reg : List (Nat × List UInt8)) : Prop :=
  ∃ fs, readFrames p = some fs ∧ (∀ c ∈ cryptoOf fs, sliceEq W 0 c.1 c.2 = true) ∧
    ∀ i, CovF (cryptoOf fs) i ↔ CovF reg i

/-- For every builder inside its contract (`BuilderFits`: nothing for QUICRandomFrames /
    QUICMultiDatagramFrames; lowest offset ≤ MaxUint16 on the pass-through path; a QUICFrames layout
    must tile the share), every datagram index, draw and shuffle, and ANY non-empty list of non-empty
    CRYPTO frames that are true cuts of the stream `W`: a payload returned by
    MarshalInitialPacketPayload carries exactly what was handed in (= what is registered with the
    packet). When the frames reassemble into one range `[lo, lo+n)` — always, for a fresh pop — the
    builder was handed exactly `(W[lo, lo+n), lo)` and its CRYPTO frames lie inside that range
    (`carriesAt`); when they do not (non-adjacent retransmissions) and the tree does not treat that as
    an error (`marshalReassembleFatal = false`), the frames go out as they are. -/
theorem marshal_carries_what_it_registers (fb : Builder) (idx : Int) (frames : List (Nat × List UInt8)) (d : Draws)
    (perm : List Nat) (W p : List UInt8) (idx' : Int) (hW : W.length ≤ maxVarInt8) (hne : frames ≠ [])
    (ht : ∀ f ∈ frames, Truth W f)
    (hfit : ∀ lo n, 0 < n → lo + n ≤ W.length → BuilderFits fb lo n)
    (h : marshalInitial fb idx false frames d perm = .ok (p, idx')) :
    idx' = idx + 1 ∧ CarriesRegistered W p frames ∧
      ((∃ lo n, 0 < n ∧ lo + n ≤ W.length ∧ carriesAt W 0 lo (lo + n) [p] = true ∧
          ∀ i, CovF frames i ↔ (lo ≤ i ∧ i < lo + n)) ∨
        (Uquic.Gen.Frames.marshalReassembleFatal = false ∧ wireAll frames = some p)) := by
  have hok := framesOk_of_truth hW ht
  rcases marshal_reassembles fb idx frames d perm p idx' hok hne h with ⟨cd, lo, R, hidx, hb⟩ | ⟨hfat, hw, hidx⟩
  · obtain ⟨hle, hcd⟩ := R.of_truthful (W := W) (fun f hf => ⟨(ht f hf).2.1, (ht f hf).2.2⟩)
    have hpos := R.nonempty hok
    have hc := builderCallM_carries fb idx d perm p R hok hne (hfit lo cd.length hpos hle) hb
    rw [hcd] at hc
    have hcar := carries_subslice (W := W) (lo := lo) (n := cd.length) (ps := [p]) hle hc
    have hcov : ∀ i, CovF frames i ↔ (lo ≤ i ∧ i < lo + cd.length) := by
      intro i
      constructor
      · rintro ⟨f, hf, a, b⟩
        have := R.low f hf
        have := (R.piece f hf).1
        omega
      · rintro ⟨a, b⟩
        exact R.cover i a b
    refine ⟨hidx, ?_, Or.inl ⟨lo, cd.length, hpos, hle, hcar, hcov⟩⟩
    obtain ⟨fs, hr, hd, hcv⟩ := carriesAt_elim hcar
    refine ⟨fs, readAll_single hr, fun c hc' => (hd c hc').1, ?_⟩
    intro i
    rw [hcov]
    constructor
    · rintro ⟨c, hc', a, b⟩
      have := hd c hc'
      omega
    · rintro ⟨a, b⟩
      exact hcv i a b
  · refine ⟨hidx, ⟨frames.map (fun f => Frame.crypto f.1 f.2), readFrames_wireAll frames p hw, ?_, ?_⟩, Or.inr ⟨hfat, hw⟩⟩
    · rw [cryptoOf_map_crypto]
      intro c hc'
      obtain ⟨_, t2, t3⟩ := ht c hc'
      exact sliceEq_iff.mpr ⟨by omega, by omega, by simpa using t3⟩
    · rw [cryptoOf_map_crypto]; intro i; exact Iff.rfl

/-- hypotheses satisfiable: the retransmission of the FIRST 3 bytes of a 6-byte stream (queued after
    the later frame), pass-through builder: the payload starts at offset 0, not at the write offset -/
example : marshalInitial .none 1 false [(2, [12]), (0, [10, 11])] ⟨[], true⟩ [] =
    .ok ([6, 2, 1, 12, 6, 0, 2, 10, 11], 2) := by decide

/-! ## 3. the per-datagram path under loss recovery -/

/-- ONE PackCoalescedPacket call in any reachable state: the packet carries, at true offsets, exactly
    the bytes of the frames it registers for loss recovery, and these are true cuts of the stream. -/
theorem perdatagram_packet_carries_registered {W : List UInt8} {s s' : PD} {d : Draws} {perm : List Nat}
    {p : List UInt8} {reg : List (Nat × List UInt8)} (h16 : W.length ≤ 16383) (hinv : Inv W s)
    (hfit : ∀ lo n, 0 < n → lo + n ≤ W.length → BuilderFits s.fb lo n)
    (hp : pack s d perm = (s', .pkt p reg)) :
    (∀ f ∈ reg, Truth W f) ∧ CarriesRegistered W p reg := by
  obtain ⟨T, hfb, hidx⟩ := takeFrames_spec h16 hinv
  unfold pack at hp
  unfold finish at hp
  by_cases he : (takeFrames s).2.isEmpty = true
  · rw [if_pos he] at hp
    have := (Prod.mk.inj hp).2
    simp at this
  · rw [if_neg he] at hp
    cases hm : marshalInitial (takeFrames s).1.fb (takeFrames s).1.idx false (takeFrames s).2 d perm with
    | ok v =>
      obtain ⟨q, idx'⟩ := v
      rw [hm] at hp
      simp only [] at hp
      obtain ⟨_, hout⟩ := Prod.mk.inj hp
      simp only [PackOut.pkt.injEq] at hout
      obtain ⟨rfl, rfl⟩ := hout
      have hne : (takeFrames s).2 ≠ [] := by
        intro hnil; rw [hnil] at he; simp at he
      rw [hfb] at hm
      have hW : W.length ≤ maxVarInt8 := by rw [maxVarInt8_eq]; omega
      have := marshal_carries_what_it_registers s.fb _ _ d perm W q idx' hW hne T.frames hfit hm
      exact ⟨T.frames, this.2.1⟩
    | err e => rw [hm] at hp; simp only [] at hp; have := (Prod.mk.inj hp).2; simp at this
    | panic => rw [hm] at hp; simp only [] at hp; have := (Prod.mk.inj hp).2; simp at this
    | wrap => rw [hm] at hp; simp only [] at hp; have := (Prod.mk.inj hp).2; simp at this

/-- `perdatagram_retransmission_covers`: take ANY ClientHello, ANY per-datagram builder, ANY
    InitialPackets CryptoLengths, packet size and header length, and ANY history of
    PackCoalescedPacket calls (any draws and shuffles), loss declarations (any subset of the datagrams
    and of the retransmissions, in any order — the first datagram only, a Retry re-queueing
    everything) and later writes to the Initial stream, in which no PackCoalescedPacket call fails.
    The state stays inside the invariant (`Inv`: every frame held anywhere is a true cut of the stream,
    every byte is accounted for), so once nothing is left to send — empty stream, empty
    retransmission queue — the packets that were NOT lost together register (and by
    `perdatagram_packet_carries_registered` carry) every byte that was written. -/
theorem perdatagram_retransmission_covers (fb : Builder) (cls : List Int) (maxSize hdrLen : Int)
    (CH : List UInt8) (ops : List Op) (s : PD) (h16 : (CH ++ writtenBy ops).length ≤ 16383)
    (hr : run (fresh fb cls maxSize hdrLen CH) ops = some s) :
    Inv (CH ++ writtenBy ops) s ∧
    (s.queue = [] → s.cs.buf = [] → ∀ i, i < (CH ++ writtenBy ops).length → ∃ fs, some fs ∈ s.sent ∧ CovF fs i) := by
  have hinv := run_inv ops CH _ s h16 (fresh_inv fb cls maxSize hdrLen CH) hr
  refine ⟨hinv, ?_⟩
  intro hq hb i hi
  rcases hinv.acc i hi with c | c | c
  · exfalso
    have hs := hinv.stream
    have := hs.buf
    rw [hb] at this
    have hl := congrArg List.length this
    simp only [List.length_nil, List.length_drop] at hl
    have := hs.woNonneg
    omega
  · rw [hq] at c; obtain ⟨f, hf, _⟩ := c; simp at hf
  · exact c

/-- non-vacuity: a 5-byte ClientHello, pass-through builder, CryptoLength 3 for the first datagram; the
    flight (2 datagrams), the FIRST datagram is lost and retransmitted: the history does not fail,
    nothing is left to send, and the retransmission went out at offset 0 -/
example : (run (fresh .none [3, 0] 1200 20 [1, 2, 3, 4, 5])
    [.pack ⟨[], true⟩ [], .pack ⟨[], true⟩ [], .lose 0, .pack ⟨[], true⟩ [], .pack ⟨[], true⟩ []]).map
      (fun s => s.sent) = some [none, some [(3, [4, 5])], some [(0, [1, 2, 3])], none] := by decide
example : (run (fresh .none [3, 0] 1200 20 [1, 2, 3, 4, 5])
    [.pack ⟨[], true⟩ [], .pack ⟨[], true⟩ [], .lose 0, .pack ⟨[], true⟩ [], .pack ⟨[], true⟩ []]).map
      (fun s => s.queue ++ [(s.cs.buf.length, s.cs.buf)]) = some [(0, [])] := by decide

/-! ## 4. the finding: non-adjacent ranges in one retransmission packet

`Uquic.Gen.Frames.marshalReassembleFatal` is read from the tree (gofacts): `true` for the tree this
check was built on. The statements below are implications, so they are checked — by kernel evaluation —
whichever value the tree has: before the repair the first two say what goes wrong, after it the last
two say that the frames go out as they are and the history recovers. -/

/-- frames of two ranges that are not adjacent cannot be reassembled: MarshalInitialPacketPayload
    fails, PackCoalescedPacket returns the error and the connection is closed (known finding
    C09-noncontiguous-retransmission) — whatever the builder -/
theorem noncontiguous_retransmission_fails : Uquic.Gen.Frames.marshalReassembleFatal = true →
    marshalInitial .none 3 false [(0, [10, 11]), (4, [14])] ⟨[], true⟩ [] = .err "reassemble" ∧
    marshalInitial (.random { minPing := 0, maxPing := 0, minCrypto := 1, maxCrypto := 1, minPad := 0, maxPad := 0, length := 0 })
      3 false [(0, [10, 11]), (4, [14])] ⟨[], true⟩ [0] = .err "reassemble" := by
  decide

/-- … and a whole history that runs into it: ClientHello of 6 bytes in three datagrams (CryptoLength 2, 2, 2),
    datagrams 0 and 2 are lost, datagram 1 is not: the next PackCoalescedPacket fails -/
theorem noncontiguous_history_fails : Uquic.Gen.Frames.marshalReassembleFatal = true →
    run (fresh .none [2, 2, 2, 0] 1200 20 [1, 2, 3, 4, 5, 6])
      [.pack ⟨[], true⟩ [], .pack ⟨[], true⟩ [], .pack ⟨[], true⟩ [], .lose 0, .lose 2, .pack ⟨[], true⟩ []] = none := by
  decide

/-- the repaired tree: the same frames go out exactly as the packer produced them -/
theorem noncontiguous_retransmission_sent_as_is : Uquic.Gen.Frames.marshalReassembleFatal = false →
    marshalInitial .none 3 false [(0, [10, 11]), (4, [14])] ⟨[], true⟩ [] = .ok ([6, 0, 2, 10, 11, 6, 4, 1, 14], 4) := by
  decide

/-- the repaired tree: the same history goes on, the retransmission registers both ranges -/
theorem noncontiguous_history_recovers : Uquic.Gen.Frames.marshalReassembleFatal = false →
    (run (fresh .none [2, 2, 2, 0] 1200 20 [1, 2, 3, 4, 5, 6])
      [.pack ⟨[], true⟩ [], .pack ⟨[], true⟩ [], .pack ⟨[], true⟩ [], .lose 0, .lose 2, .pack ⟨[], true⟩ []]).map
        (fun s => s.sent) = some [none, some [(2, [3, 4])], none, some [(0, [1, 2]), (4, [5, 6])]] := by
  decide

end Uquic.Props.C09Glue
