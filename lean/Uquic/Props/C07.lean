import Uquic.Model.Ack.Rcv
namespace Uquic.Props.C07
open Uquic.Model.Rcv
theorem placeholder : (1 : Nat) = 1 := rfl
end Uquic.Props.C07
