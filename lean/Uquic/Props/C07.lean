/-
C07 — ACKs acknowledge only what was received; duplicates are never processed twice.

Property theorems only (helper lemmas live in Uquic/Proofs/Rcv*.lean). Every statement quantifies
over ALL histories `ops` of the ReceivedPacketHandler API (`Uquic.Spec.RcvRun.Op`) or of the
app-data tracker API (`AOp`); the ghost sets are defined in Uquic/Spec/RcvRun.lean.
-/
import Uquic.Proofs.RcvTimely
import Uquic.Proofs.RcvRefine
import Uquic.Spec.RcvMon

namespace Uquic.Props.C07
open Uquic.Model.Rcv Uquic.Spec.RcvRun Uquic.Proofs.Rcv Uquic.Spec.RcvSet

/-- the history of a space in a handler state (`none`: the space was dropped) -/
def histOf (h : Handler) : Space → Option Hist
  | .ini => h.initial.map (·.hist)
  | .hs => h.handshake.map (·.hist)
  | .app => some h.app.t.hist

theorem histOf_inv (ops : List Op) (sp : Space) (hist : Hist) (hh : histOf (run ops).h sp = some hist) :
    ∃ F, HistInv hist ((run ops).g.get sp) F := by
  have inv := HInv.run ops
  cases sp with
  | ini =>
    simp only [histOf, Option.map_eq_some_iff] at hh
    obtain ⟨t, ht, rfl⟩ := hh
    exact inv.ini t ht
  | hs =>
    simp only [histOf, Option.map_eq_some_iff] at hh
    obtain ⟨t, ht, rfl⟩ := hh
    exact inv.hs t ht
  | app =>
    simp only [histOf, Option.some.injEq] at hh
    subst hh; exact inv.app

/-- 1. `ranges_wf`: after every history, in every space, the tracked ranges are descending, disjoint,
    non-adjacent, non-empty intervals, and there are at most MaxNumAckRanges of them. -/
theorem ranges_wf (ops : List Op) (sp : Space) (hist : Hist) (hh : histOf (run ops).h sp = some hist) :
    WF hist.ranges ∧ hist.ranges.length ≤ maxNumAckRanges := by
  obtain ⟨F, inv⟩ := histOf_inv ops sp hist hh
  exact ⟨inv.wf, inv.len⟩

/-- the ghost set only contains numbers that a `recv` operation of that space carried -/
theorem registered_were_received (ops : List Op) (sp : Space) :
    ∀ q ∈ (run ops).g.get sp, q ∈ recvOps sp ops := by
  unfold run
  suffices ∀ (s : St) (pre : List Op), (∀ q ∈ s.g.get sp, q ∈ recvOps sp pre) →
      ∀ q ∈ (ops.foldl St.step s).g.get sp, q ∈ recvOps sp (pre ++ ops) by
    simpa using this {} [] (by cases sp <;> simp [Ghost.get])
  induction ops with
  | nil => intro s pre h; simpa using h
  | cons op rest ih =>
    intro s pre h
    have := ih (s.step op) (pre ++ [op]) (by
      intro q hq
      simp only [recvOps, List.filterMap_append, List.mem_append]
      simp only [St.step] at hq
      cases hr : registers s.h op with
      | none => rw [hr] at hq; exact Or.inl (h q hq)
      | some spp =>
        obtain ⟨sp', p⟩ := spp
        rw [hr] at hq
        by_cases hsp : sp' = sp
        · subst hsp
          have hq' : q = p ∨ q ∈ s.g.get sp' := by
            cases sp' <;> simpa [Ghost.add, Ghost.get] using hq
          rcases hq' with rfl | hq'
          · right
            cases op with
            | recv lvl pn ecn t ae =>
              cases lvl <;> simp [registers] at hr <;> (try obtain ⟨_, hr1, hr2⟩ := hr) <;>
                simp_all [Level.space]
            | ignore _ => simp [registers] at hr
            | drop _ => simp [registers] at hr
            | ack _ _ _ => simp [registers] at hr
          · exact Or.inl (h q hq')
        · have hq' : q ∈ s.g.get sp := by
            cases sp' <;> cases sp <;> simp_all [Ghost.add, Ghost.get]
          exact Or.inl (h q hq'))
    simpa [List.append_assoc] using this

/-- bridge to the executable predicate that mirrors `validateAckRanges` of wire/ack_frame.go -/
theorem rangesValid_of_WF (l : List Range) (h : WF l) (hne : l ≠ []) : Uquic.Spec.RcvMon.rangesValid l = true := by
  induction l with
  | nil => exact absurd rfl hne
  | cons r rest ih =>
    cases rest with
    | nil => simp [Uquic.Spec.RcvMon.rangesValid, h.1]
    | cons q rest' =>
      simp only [Uquic.Spec.RcvMon.rangesValid, Bool.and_eq_true, decide_eq_true_eq]
      exact ⟨⟨h.1, h.2.1 q (by simp)⟩, ih h.2.2 (by simp)⟩

/-- the ranges of an ACK frame returned by `GetAckFrame` are the tracked history of that space -/
theorem ack_ranges_are_history (h : Handler) (lvl : Level) (now : Int) (oiq : Bool) (a : Ack)
    (ha : (h.getAckFrame lvl now oiq).2 = some a) :
    ∃ hist, histOf h (Level.space lvl) = some hist ∧ a.ranges = hist.ranges ∧ lvl ≠ .zeroRTT := by
  cases lvl with
  | initial =>
    simp only [Handler.getAckFrame] at ha
    cases hi : h.initial with
    | none => simp [hi] at ha
    | some t =>
      simp only [hi] at ha
      exact ⟨t.hist, by simp [histOf, Level.space, hi], tracker_getAck_ranges t a ha, by decide⟩
  | handshake =>
    simp only [Handler.getAckFrame] at ha
    cases hi : h.handshake with
    | none => simp [hi] at ha
    | some t =>
      simp only [hi] at ha
      exact ⟨t.hist, by simp [histOf, Level.space, hi], tracker_getAck_ranges t a ha, by decide⟩
  | zeroRTT => simp [Handler.getAckFrame] at ha
  | oneRTT =>
    simp only [Handler.getAckFrame] at ha
    exact ⟨h.app.t.hist, by simp [histOf, Level.space], app_getAck_ranges h.app now oiq a ha, by decide⟩

/-- 2. `ack_sound`: after ANY history, an ACK frame returned for encryption level `lvl`
    * has ranges that satisfy `validateAckRanges` (descending, disjoint, non-adjacent) whenever it has any,
    * covers only packet numbers that a `recv` of that number space carried, and
    * covers nothing below the threshold the peer allowed this endpoint to forget. -/
theorem ack_sound (ops : List Op) (lvl : Level) (now : Int) (oiq : Bool) (a : Ack)
    (ha : ((run ops).h.getAckFrame lvl now oiq).2 = some a) :
    WF a.ranges ∧
    (a.ranges ≠ [] → Uquic.Spec.RcvMon.rangesValid a.ranges = true) ∧
    (∀ q, covers a.ranges q → q ∈ recvOps (Level.space lvl) ops) ∧
    (lvl = .oneRTT → 0 < (run ops).h.app.ignoreBelow → ∀ q, covers a.ranges q → (run ops).h.app.ignoreBelow ≤ q) := by
  obtain ⟨hist, hh, hr, _⟩ := ack_ranges_are_history _ lvl now oiq a ha
  obtain ⟨F, inv⟩ := histOf_inv ops _ hist hh
  rw [hr]
  refine ⟨inv.wf, rangesValid_of_WF _ inv.wf, ?_, ?_⟩
  · intro q hq
    exact registered_were_received ops _ q (inv.sound q hq).1
  · intro hl hpos q hq
    subst hl
    simp only [histOf, Level.space, Option.some.injEq] at hh
    subst hh
    have thr := (HInv.run ops).thr
    rcases thr with ⟨h0, _⟩ | ⟨_, he⟩
    · omega
    · rw [← he]; exact (inv.sound q hq).2

/-- 2b. `ack_includes_largest`: the first range of the ACK ends at the largest registered number
    that is not below the forget threshold. -/
theorem ack_includes_largest (ops : List Op) (lvl : Level) (now : Int) (oiq : Bool) (a : Ack)
    (ha : ((run ops).h.getAckFrame lvl now oiq).2 = some a) :
    ∃ hist, histOf (run ops).h (Level.space lvl) = some hist ∧
      ∀ q ∈ (run ops).g.get (Level.space lvl), q < hist.deletedBelow ∨
        ∃ top, a.ranges.head? = some top ∧ q ≤ top.2 ∧ top.2 ∈ (run ops).g.get (Level.space lvl) := by
  obtain ⟨hist, hh, hr, _⟩ := ack_ranges_are_history _ lvl now oiq a ha
  obtain ⟨F, inv⟩ := histOf_inv ops _ hist hh
  refine ⟨hist, hh, ?_⟩
  intro q hq
  rcases inv.top q hq with h | ⟨t, ht, hle⟩
  · exact Or.inl h
  · exact Or.inr ⟨t, by rw [hr]; exact ht, hle, (inv.sound t.2 (head_covered inv.wf ht)).1⟩

/-- 4a. `dup_sound`: a number reported as (potentially) duplicate was handed to this space before,
    or lies below the forget threshold. -/
theorem dup_sound (ops : List Op) (sp : Space) (hist : Hist) (hh : histOf (run ops).h sp = some hist) (p : Int)
    (hd : hist.isPotentiallyDuplicate p = true) :
    p ∈ (run ops).g.get sp ∨ p < hist.deletedBelow := by
  obtain ⟨F, inv⟩ := histOf_inv ops sp hist hh
  unfold Hist.isPotentiallyDuplicate at hd
  split at hd
  · rename_i h; exact Or.inr h
  · exact Or.inl (inv.sound p ((dupScan_iff p _ inv.wf).mp hd)).1

/-- 4b. `dup_complete`: every number handed to this space is recognised as a duplicate, unless the
    range cap (MaxNumAckRanges) has dropped the range that contained it. `F` is exactly the list of
    ranges dropped by the cap (`capDropped`), see `HistInv.recv`. -/
theorem dup_complete (ops : List Op) (sp : Space) (hist : Hist) (hh : histOf (run ops).h sp = some hist) :
    ∃ F, ∀ p ∈ (run ops).g.get sp, hist.isPotentiallyDuplicate p = true ∨ covers F p := by
  obtain ⟨F, inv⟩ := histOf_inv ops sp hist hh
  refine ⟨F, ?_⟩
  intro p hp
  unfold Hist.isPotentiallyDuplicate
  rcases inv.complete p hp with h | h | h
  · left; split
    · rfl
    · exact (dupScan_iff p _ inv.wf).mpr h
  · left; simp [h]
  · exact Or.inr h

/-- the cap drops nothing while the history has room: with at most MaxNumAckRanges ranges after
    insertion, `capDropped` is empty (so below the cap, duplicate detection is complete). -/
theorem capDropped_nil_of_room (h : Hist) (p : Int) (hroom : (addRev p h.ranges).1.length ≤ maxNumAckRanges) :
    capDropped h p = [] := by
  unfold capDropped; split
  · rfl
  · exact List.drop_eq_nil_of_le hroom

/-- 5. `new_iff_not_duplicate`: `ReceivedPacket` reports a number as new exactly when
    `IsPotentiallyDuplicate` would have said "no" — so the tracker's BUG error is returned only for
    numbers the duplicate test flags, and a flagged number is never registered as new a second time. -/
theorem new_iff_not_duplicate (ops : List Op) (sp : Space) (hist : Hist) (hh : histOf (run ops).h sp = some hist) (p : Int) :
    (hist.receivedPacket p).2 = true ↔ hist.isPotentiallyDuplicate p = false := by
  obtain ⟨F, inv⟩ := histOf_inv ops sp hist hh
  unfold Hist.receivedPacket Hist.isPotentiallyDuplicate
  split
  · simp
  · simp only
    have h1 := addRev_isNew p hist.ranges inv.wf
    have h2 := dupScan_iff p hist.ranges inv.wf
    cases hb : (addRev p hist.ranges).2 <;> cases hd : dupScan p hist.ranges <;> simp_all

/-- 3a. `ack_immediate`: in the Initial and Handshake spaces an accepted ack-eliciting packet makes
    `GetAckFrame` return a frame at once. -/
theorem ack_immediate (t t' : Tracker) (pn : Int) (ecn : Nat)
    (h : t.receivedPacket pn ecn true = some t') : (t'.getAckFrame).2.isSome = true := by
  have := (tracker_recv_some h).2.2.2
  unfold Tracker.getAckFrame
  simp [this]

/-- 3b. `ack_timely`: for every history of the app-data tracker that respects the caller contract,
    every accepted ack-eliciting packet (arrival time `x.2`) not yet covered by a returned ACK has
    an ACK queued, or the alarm is set and due no later than max_ack_delay after its arrival. -/
theorem ack_timely (ops : List AOp) (hc : ContractAll {} ops) :
    ∀ x ∈ (runT ops).pend,
      (runT ops).a.ackQueued = true ∨ ((runT ops).a.ackAlarm ≠ 0 ∧ (runT ops).a.ackAlarm ≤ x.2 + maxAckDelay) := by
  intro x hx
  have inv := TInv.run ops hc
  cases hq : (runT ops).a.ackQueued with
  | true => exact Or.inl rfl
  | false => exact Or.inr (inv.alarm hq x hx)

/-- 3c. the ACK is queued at the latest on the `packetsBeforeAck`-th (2nd) ack-eliciting packet -/
theorem ack_on_second (ops : List AOp) (hc : ContractAll {} ops) :
    ((runT ops).pend.length : Int) ≥ packetsBeforeAck → (runT ops).a.ackQueued = true := by
  intro h
  have inv := TInv.run ops hc
  cases hq : (runT ops).a.ackQueued with
  | true => rfl
  | false => have := inv.few hq; omega

/-- 3d. a packet that fills a gap reported in the last ACK, a CE-marked packet, and a packet that
    reveals a new gap each queue an ACK immediately (statement about one `ReceivedPacket` step from
    any state whose last ACK has ranges). -/
theorem ack_queued_on_gap_ce (a : AppTracker) (pn : Int) (ecn : Nat) (t : Int)
    (hla : ∀ la, a.t.lastAck = some la → la.ranges ≠ []) :
    ∃ a', a.queueStep pn ecn t = some a' ∧
      (a.isMissing pn = some true → a'.ackQueued = true) ∧
      (ecn = ecnCE → a'.ackQueued = true) ∧
      (a.hasNewMissingPackets = some true → a'.ackQueued = true) := by
  obtain ⟨a', h, _, _, _, _, _, h1, h2, h3⟩ := queueStep_spec a pn ecn t hla
  exact ⟨a', h, h1, h2, h3⟩

/-- 3e. `ack_due_is_produced`: while an ack-eliciting packet is pending, `GetAckFrame(now, false)`
    returns a frame; `GetAckFrame(now, true)` returns one as soon as the ACK is queued or the alarm
    has expired. -/
theorem ack_due_is_produced (ops : List AOp) (hc : ContractAll {} ops) (now : Int)
    (hp : (runT ops).pend ≠ []) :
    ((runT ops).a.getAckFrame now false).2.isSome = true ∧
    (((runT ops).a.ackQueued = true ∨ ((runT ops).a.ackAlarm ≠ 0 ∧ (runT ops).a.ackAlarm ≤ now)) →
      ((runT ops).a.getAckFrame now true).2.isSome = true) := by
  have inv := TInv.run ops hc
  have hn := inv.newAck hp
  constructor
  · unfold AppTracker.getAckFrame Tracker.getAckFrame
    simp [hn]
  · intro h
    unfold AppTracker.getAckFrame Tracker.getAckFrame
    rcases h with h | ⟨h1, h2⟩
    · simp [hn, h]
    · have : ¬ ((runT ops).a.ackAlarm > now) := by omega
      simp [hn, h1, this]

/-- 5b. `no_panic_under_contract`: under the caller contract no `ReceivedPacket` call panics
    (the index-out-of-range in `lastAck.LargestAcked()` needs an ACK without ranges). -/
theorem no_panic_under_contract (ops : List AOp) (hc : ContractAll {} ops) : (runT ops).panicked = false :=
  (TInv.run ops hc).noPanic


/-! ### refinement to the set-based specification (`Uquic.Spec.RcvSet`)

The executable monitors of the correspondence harness judge the implementation against
`SetHist` (the plain set of tracked packet numbers with a forget threshold and the run cap).
These theorems prove that the interval-list model computes exactly that specification, for every
history — so what the monitors check is what the model (and, by the correspondence, the code) does. -/

inductive HOp
  | recv (p : Int)
  | del (p : Int)

def HOp.onHist (h : Hist) : HOp → Hist
  | .recv p => (h.receivedPacket p).1
  | .del p => h.deleteBelow p

def HOp.onSet (s : SetHist) : HOp → SetHist
  | .recv p => (s.recv p).1
  | .del p => s.deleteBelow p

def runH (ops : List HOp) : Hist := ops.foldl HOp.onHist {}
def runS (ops : List HOp) : SetHist := ops.foldl HOp.onSet {}

theorem rel_run (ops : List HOp) : Rel (runH ops) (runS ops) := by
  unfold runH runS
  suffices ∀ h s, Rel h s → Rel (ops.foldl HOp.onHist h) (ops.foldl HOp.onSet s) from this _ _ Rel.init
  induction ops with
  | nil => intro h s r; exact r
  | cons op rest ih =>
    intro h s r
    apply ih
    cases op with
    | recv p => exact (r.recv p).1
    | del p => exact r.del p

/-- 6. `history_refines_set`: after ANY history of ReceivedPacket / DeleteBelow calls the tracked
    ranges are exactly the maximal runs of the specification's tracked set (highest first — the order
    of an ACK frame), the forget thresholds agree, the duplicate test answers the same, and the next
    ReceivedPacket reports "new" exactly when the specification does. -/
theorem history_refines_set (ops : List HOp) :
    (runH ops).ranges = (runS ops).ranges ∧
    (runH ops).deletedBelow = (runS ops).floor ∧
    (∀ p, (runH ops).isPotentiallyDuplicate p = (runS ops).isDup p) ∧
    (∀ p, ((runH ops).receivedPacket p).2 = ((runS ops).recv p).2) := by
  have r := rel_run ops
  exact ⟨r.ranges_eq, r.floor, r.dup_eq, fun p => (r.recv p).2⟩

example : (runH [.recv 5, .recv 7, .recv 6, .del 6, .recv 2]).ranges = [(6, 7)] := by decide
example : (runS [.recv 5, .recv 7, .recv 6, .del 6, .recv 2]).tracked = [6, 7] := by decide

/-! ### non-vacuity: concrete reachable states satisfy the hypotheses -/

/-- a history with a gap, a duplicate, a late packet and a forget-below update -/
def exampleOps : List Op :=
  [.recv .oneRTT 2 1 1000 true, .recv .oneRTT 5 1 2000 true, .recv .oneRTT 5 1 2500 true,
   .recv .oneRTT 3 1 3000 false, .ignore 3, .recv .initial 0 1 10 true]

example : histOf (run exampleOps).h .app = some { ranges := [(5, 5), (3, 3)], deletedBelow := 3 } := by decide
example : ((run exampleOps).h.getAckFrame .oneRTT 4000 false).2.isSome = true := by decide
example : ((run exampleOps).h.getAckFrame .initial 4000 false).2.isSome = true := by decide

def exampleAOps : List AOp := [.recv 1 1 1000 true, .ignore 1, .recv 4 1 2000 false, .recv 2 1 3000 true]
theorem exampleAOps_contract : ContractAll {} exampleAOps :=
  ⟨by simp [Contract], Or.inr ⟨(1, 1), by decide, by decide⟩, by simp [Contract], by simp [Contract], trivial⟩
example : (runT exampleAOps).pend ≠ [] := by decide

/-- outside the contract the panic is real (and the model predicts it): forget above everything
    received, take the (range-less) ACK, receive another ack-eliciting packet -/
example : (runT [.recv 1 1 1000 true, .ignore 5, .ack 2000 false, .recv 7 1 3000 true]).panicked = true := by decide

end Uquic.Props.C07
