import Uquic.Model.Close.Blocked
import Uquic.Model.Close.Idle
namespace Uquic.Props.C17
theorem placeholder : True := trivial
end Uquic.Props.C17
