/-
C17 — every way a connection ends unblocks callers, informs the peer, frees resources.

Property theorems only (helper lemmas: Uquic/Proofs/Close*.lean). Models: Uquic/Model/Close/{Conn,Blocked,Idle,Dial}.lean.
That goroutines and timers really terminate / fire, and that returns are "prompt" in time, is runtime behaviour:
the end-to-end driver `closee` is the support for those sentences (see checks/C17.json level_note).
-/
import Uquic.Proofs.CloseConn
import Uquic.Proofs.CloseBlocked
import Uquic.Proofs.CloseIdle
import Uquic.Proofs.CloseDial

namespace Uquic.Props.C17
open Uquic.Model.Close Uquic.Proofs.Close

/-! ## ties to the source text (regenerated facts) -/

/-- the model tests the error classes in the order of the Go `switch` in `handleCloseError` -/
theorem switchOrder_matches : Uquic.Gen.Close.closeSwitchOrder = modelSwitchOrder := by decide

/-- `connIDManager.Close` is the deferred call of `handleCloseError` (it runs last) -/
theorem deferred_last_matches : Uquic.Gen.Close.closeDeferredLast = "c.connIDManager.Close" := by decide

/-- both `doDial`s have the cancellation clause the step model assumes -/
theorem doDial_shape_matches :
    Uquic.Gen.Close.doDialCancelShape = Uquic.Model.Dial.cancelShape ∧
    Uquic.Gen.Close.uDoDialCancelShape = Uquic.Model.Dial.cancelShape := by decide

/-! ## 1. first cause wins -/

/-- For any sequence of close requests (closeLocal / destroyImpl / run-loop errors, in the order their
    compare-and-swap executes) the recorded cause is the first one, the run loop is signalled, and any further
    requests change nothing. -/
theorem first_cause_wins (e : CloseError) (rest more : List CloseError) :
    (requests {} (e :: rest)).closeErr = some e ∧
    (requests {} (e :: rest)).closeChan = true ∧
    (requests (requests {} (e :: rest)) more).closeErr = some e :=
  ⟨requests_first e rest, requests_closeChan _ _ (Or.inl (by simp)),
   requests_of_some more _ e (requests_first e rest)⟩

example : (requests {} [⟨some { id := 1, asApp := some (7, false) }, false⟩, ⟨some { id := 2, isIdle := true }, true⟩]).closeErr
    = some ⟨some { id := 1, asApp := some (7, false) }, false⟩ := by decide

/-! ## 2. every caller is unblocked with the one cause -/

/-- The error value every stream, the datagram queue and the context receive is one and the same: the
    recorded error itself, except that a non-immediate error of unknown type is replaced by a local
    INTERNAL_ERROR transport error (and a nil error by `&ApplicationError{}` for the streams only). -/
theorem one_cause_distributed (env : Env) (ce : CloseError) :
    (∀ c, Effect.streamsClose c ∈ runTail env ce → c = (classify ce).cause) ∧
    (∀ c, Effect.datagramClose c ∈ runTail env ce → c = (classify ce).cause) ∧
    (∀ r, Effect.ctxCancel r ∈ runTail env ce → r = (classify ce).ret) ∧
    Effect.streamsClose (classify ce).cause ∈ runTail env ce ∧
    Effect.ctxCancel (classify ce).ret ∈ runTail env ce ∧
    (ce.err ≠ none → (classify ce).ret = some (classify ce).cause) := by
  refine ⟨?_, ?_, ?_, ?_, ?_, ?_⟩
  · intro c h
    cases hd : env.hasDatagramQueue <;> cases hq : (env.hasQlog && !(classify ce).recreate) <;>
      cases hr : (env.hasQlog && !ce.isRecreate) <;> simp_all [runTail, handleCloseError]
  · intro c h
    cases hd : env.hasDatagramQueue <;> cases hq : (env.hasQlog && !(classify ce).recreate) <;>
      cases hr : (env.hasQlog && !ce.isRecreate) <;> simp_all [runTail, handleCloseError]
  · intro r h
    cases hd : env.hasDatagramQueue <;> cases hq : (env.hasQlog && !(classify ce).recreate) <;>
      cases hr : (env.hasQlog && !ce.isRecreate) <;> simp_all [runTail, handleCloseError]
  · simp [runTail, handleCloseError]
  · simp [runTail, handleCloseError]
  · intro hne
    unfold classify
    cases hce : ce.err with
    | none => exact absurd hce hne
    | some e =>
      simp only
      split <;> (try split) <;> (try split) <;> (try split) <;> (try split) <;> (try split) <;> (try split) <;> simp

/-- how the recorded error is mapped -/
theorem cause_mapping (ce : CloseError) (e : Err) (h : ce.err = some e) :
    (classify ce).cause = .orig e ∨
    ((classify ce).cause = .internal e ∧ ce.immediate = false ∧ e.isIdle = false ∧ e.isHsTimeout = false ∧
      e.asReset = false ∧ e.asVN = false ∧ e.asRecreate = false ∧ e.asApp = none ∧ e.asTr = none ∧
      (classify ce).trCode = some internalError) := by
  unfold classify
  simp only [h]
  split
  · left; rfl
  · split
    · left; rfl
    · split
      · left; rfl
      · split
        · left; rfl
        · split
          · left; rfl
          · split
            · left; rfl
            · split
              · left; rfl
              · right
                simp_all

/-- After the fan-out of `handleCloseError` (`streamsMap.CloseWithError` + `datagramQueue.CloseWithError`),
    for every history `pre` of calls / wake-ups / arrivals before it:
    (a) every pending Read, Write, AcceptStream, OpenStreamSync, ReceiveDatagram, SendDatagram entry is woken;
    (b) its wake step returns the cause (all calls but ReceiveDatagram always; ReceiveDatagram as soon as
        nothing is queued);
    (c) after any further history `post`, every new call returns the cause immediately (same proviso). -/
theorem all_unblocked_same_cause (s : Sys) (pre : List Step) (c : Cause)
    (hfresh : ∀ r ∈ s.res, r.closeErr = none) (hpre : ∀ st ∈ pre, ∀ c', st ≠ .fanout c') :
    let s1 := (s.run (pre ++ [.fanout c])).1
    (∀ w ∈ s1.waiters, w.signalled = true) ∧
    (∀ w, s1.waiters.find? (fun x => x.id == w.id && x.signalled) = some w → w.res < s1.res.length →
        (w.kind.errFirst = true ∨ (s1.getRes w.res).avail = 0) → (s1.step (.wake w.id)).2 = [(w.id, .err c)]) ∧
    (∀ post : List Step, ∀ id k i, i < ((s1.run post).1).res.length →
        (k.errFirst = true ∨ (((s1.run post).1).getRes i).avail = 0) →
        (((s1.run post).1).step (.call id k i)).2 = [(id, .err c)]) := by
  intro s1
  have hs1 : s1 = ((s.run pre).1.step (.fanout c)).1 := by
    simp only [s1, run_append, Sys.run]
  have hclosed : ClosedWith s1 c := by
    intro o ho
    rw [hs1, fanout_errs, run_errs s pre hpre] at ho
    simp [errs] at ho
    obtain ⟨r, hr, rfl⟩ := ho
    simp [hfresh r hr]
  refine ⟨?_, ?_, ?_⟩
  · rw [hs1]; exact fanout_signalled _ c
  · intro w hfind hi hk
    exact wake_closed s1 c hclosed w hfind hi hk
  · intro post id k i hi hk
    exact (call_closed _ c (closedWith_run s1 c hclosed post) id k i hi hk).1

/-- A ReceiveDatagram call on the closed queue returns a datagram queued before the close (one fewer remains) or the
    cause: at most `avail` calls succeed. -/
theorem datagram_calls_drain (k : CallKind) (r : Res) (c : Cause) (h : r.closeErr = some c) :
    (attempt k r).2 = .err c ∨ ((attempt k r).2 = .ok ∧ (attempt k r).1.avail + 1 = r.avail) :=
  attempt_closed_datagram k r c h

/-- A later SendDatagram returns the cause whatever the state of the send queue (`datagramQueue.Add` looks at
    the closed channel before the queue length). -/
theorem later_send_datagram_returns_cause (r : Res) (c : Cause) (h : r.closeErr = some c) :
    (attempt .sendDatagram r).2 = .err c := by
  simp [attempt, CallKind.errFirst, h]

example : ((({ res := [{}, {}] } : Sys).run [.call 1 .read 0, .call 2 .receiveDatagram 1, .fanout .appZero]).1.waiters.length) = 2 := by decide

/-! ## 3. the peer is informed exactly when due -/

/-- A CONNECTION_CLOSE is put on the wire exactly when the close is not a remote one, not immediate, and this
    is not a client that has not sent a packet yet; then the routing entries are handed to a local stand-in
    that keeps the packet. A remote close leaves a silent stand-in, everything else removes the entries. -/
theorem peer_informed_iff_due (persp : Perspective) (sentFirstPacket : Bool) (ce : CloseError) :
    ((routingOf persp sentFirstPacket ce).sent.isSome = true ↔
      ((classify ce).isRemote = false ∧ ce.immediate = false ∧ ¬ (persp = .client ∧ sentFirstPacket = false))) ∧
    ((routingOf persp sentFirstPacket ce).sent.isSome = true →
      (routingOf persp sentFirstPacket ce).sent = some (ccFrameOf (classify ce).cause) ∧
      standInOf (routingOf persp sentFirstPacket ce) = some (.closedLocal 0)) ∧
    ((classify ce).isRemote = true → standInOf (routingOf persp sentFirstPacket ce) = some .closedRemote) := by
  unfold routingOf
  simp only
  cases hr : (classify ce).isRemote <;> cases hi : ce.immediate <;> cases persp <;> cases sentFirstPacket <;>
    simp [Routing.sent, standInOf]

/-- the code on the wire matches the cause -/
theorem close_frame_matches (e : Err) :
    (∀ code r, e.asTr = some (code, r) → ccFrameOf (.orig e) = { isApp := false, code := code }) ∧
    (∀ code r, e.asTr = none → e.asApp = some (code, r) → ccFrameOf (.orig e) = { isApp := true, code := code }) ∧
    ccFrameOf (.internal e) = { isApp := false, code := internalError } ∧
    (∀ f : CCFrame, f.isApp = true → f.onWire false = (false, applicationErrorErrorCode)) ∧
    (∀ f : CCFrame, f.onWire true = (f.isApp, f.code)) := by
  refine ⟨?_, ?_, rfl, ?_, ?_⟩
  · intro code r h; simp [ccFrameOf, h]
  · intro code r h1 h2; simp [ccFrameOf, h1, h2]
  · intro f hf; simp [CCFrame.onWire, hf]
  · intro f; simp [CCFrame.onWire]

/-- the local stand-in answers the n-th packet (1 ≤ n < 2^32) iff n is a power of two; the remote one never -/
theorem standin_backoff (n : Nat) (hn : n < 4294967295) :
    (((StandIn.closedLocal 0).feed n).1.handlePacket.2 = true ↔ ∃ k, n + 1 = 2 ^ k) ∧
    (∀ m, (StandIn.closedRemote.feed m).2 = 0) := by
  constructor
  · rw [feed_counter n 0 (by omega)]
    have hmod : (0 + n + 1) % 4294967296 = n + 1 := by omega
    simp only [StandIn.handlePacket, hmod]
    rw [← onesCount_eq_one (n + 1)]
    simp
  · intro m; rw [remote_feed]

example : ((StandIn.closedLocal 0).feed 9).2 = 4 := by simp [StandIn.feed, StandIn.handlePacket, onesCount]

/-- order of the fan-out: streams first, then the datagram queue, the routing replacement exactly once, and the
    connection-ID manager (which removes the stateless-reset token) last -/
theorem close_effects_order (env : Env) (ce : CloseError) :
    (handleCloseError env ce).head? = some (.streamsClose (classify ce).cause) ∧
    (handleCloseError env ce).getLast? = some .connIDManagerClose ∧
    ((handleCloseError env ce).filter (fun e => match e with | .routing _ => true | _ => false)) =
      [.routing (routingOf env.persp env.sentFirstPacket ce)] := by
  cases hd : env.hasDatagramQueue <;> cases hq : env.hasQlog <;> cases hr : (classify ce).recreate <;>
    simp [handleCloseError, hd, hq, hr]

/-! ## 4. idle timeout window -/

open Uquic.Model.Idle Uquic.Proofs.Idle in
/-- With `T = max(idleTimeout, 3·PTO)` and `s` the idle start (last packet received, or the first ack-eliciting
    packet sent after it):
    (a) the run loop's idle check can succeed only at `now ≥ s + T`, hence never earlier than the negotiated
        period after the last packet received, and only while no keep-alive is due (keep-alives off or a PING
        unanswered);
    (b) the timer deadline is never later than `s + T`, and equals it when nothing earlier is due;
    (c) while a keep-alive is due and unsent its deadline is strictly before the idle deadline;
    (d) receipt of a packet at `t` restarts the window at `t` and re-enables keep-alives. -/
theorem idle_timeout_window (st : St) (pto : Int) (hc : st.handshakeComplete = true) :
    (∀ now, st.loopCheck pto now = .idleTimeout →
        now ≥ st.idleStart + st.idlePeriod pto ∧ now ≥ st.lastPacketReceivedTime + st.idleTimeout ∧
        now ≥ st.lastPacketReceivedTime + 3 * pto ∧
        (st.nextKeepAlive pto = 0 ∨ now < st.nextKeepAlive pto)) ∧
    (0 ≤ pto → st.keepAliveInterval ≤ st.idleTimeout → ∀ b a l p, st.timerDeadline pto b a l p ≤ st.nextIdle pto) ∧
    (∀ b, (st.nextKeepAlive pto = 0 ∨ b ≠ .none) → st.timerDeadline pto b 0 0 0 = st.nextIdle pto) ∧
    (0 < pto → st.keepAliveInterval ≤ st.idleTimeout / 2 → 0 ≤ st.idleTimeout → st.keepAlivePeriod ≠ 0 →
        st.keepAlivePingSent = false → st.nextKeepAlive pto ≠ 0 → st.nextKeepAlive pto < st.nextIdle pto) ∧
    (∀ t, (st.onPacketReceived t).idleStart = t ∧ (st.onPacketReceived t).nextIdle pto = t + st.idlePeriod pto ∧
        (st.onPacketReceived t).keepAlivePingSent = false ∧
        (st.idleStart ≤ t → st.nextIdle pto ≤ (st.onPacketReceived t).nextIdle pto)) := by
  refine ⟨?_, ?_, ?_, ?_, ?_⟩
  · intro now h
    have := loopCheck_idle st pto now h
    have hs := idleStart_ge_lr st
    have hp := idlePeriod_ge st pto
    rcases this.2 with ⟨h1, _⟩ | ⟨_, h2⟩
    · rw [hc] at h1; exact absurd h1 (by simp)
    · unfold St.nextIdle at h2
      exact ⟨by omega, by omega, by omega, this.1⟩
  · intro hpto hkai b a l p
    exact Int.le_trans (timerDeadline_le_base st pto b a l p) (baseDeadline_le_nextIdle st pto b hc hpto hkai)
  · intro b h
    rw [timerDeadline_no_alarm, baseDeadline_idle st pto b hc h]
  · intro hpto hkai hit hon hunsent _
    have := nextKeepAlive_lt_nextIdle st pto hpto hkai hit hon hunsent
    omega
  · intro t
    refine ⟨onPacketReceived_idleStart st t, onPacketReceived_nextIdle st t pto, rfl, ?_⟩
    intro ht
    rw [onPacketReceived_nextIdle]
    unfold St.nextIdle
    omega

open Uquic.Model.Idle in
example : ({ lastPacketReceivedTime := 1000, idleTimeout := 500, keepAlivePeriod := 200, keepAliveInterval := 200 } : St).loopCheck 30 1500
    = .keepAlivePing ∧
    ({ lastPacketReceivedTime := 1000, idleTimeout := 500 } : St).loopCheck 30 1500 = .idleTimeout := by decide

open Uquic.Model.Idle Uquic.Proofs.Idle in
/-- the idle timeout an endpoint ends up with is at most its own setting, and its keep-alive interval at most
    half of it (the hypothesis of (c) above) -/
theorem negotiated_bounds (cfg peer kap : Int) :
    (negotiate cfg peer kap).2 ≤ (negotiate cfg peer kap).1 / 2 ∧ (negotiate cfg peer kap).1 ≤ cfg :=
  ⟨(negotiate_bounds cfg peer kap).1, (negotiate_bounds cfg peer kap).2.1⟩

/-! ## 5. dial cancellation waits for the run loop -/

open Uquic.Model.Dial Uquic.Proofs.Dial in
/-- For every interleaving of context cancellation, handshake completion, the run loop ending, the goroutine's
    completion signal and doDial's own steps (with any resolution of Go's select choice): doDial returns the
    cancellation result only after it asked the connection to close, `Conn.run` has returned (its context is
    done) AND the goroutine's completion signal on errChan / recreateChan has been received. -/
theorem dial_cancel_waits (es : List Ev) (h : (run {} es).pc = .returned .cancelled) :
    (run {} es).ctxDone = true ∧ (run {} es).closeRequested = true ∧ (run {} es).runReturned = true ∧
    (run {} es).signalled = true ∧ (run {} es).signalTaken = true := by
  have := (inv_run {} es inv_init).2.2.2.2 h
  exact ⟨this.2.2.2.2, this.2.2.2.1, this.2.2.1, this.1, this.2.1⟩

open Uquic.Model.Dial in
example : (run {} [.cancel, .dialStep 0, .runReturns false, .dialStep 0, .goroutineSignals, .dialStep 0]).pc = .returned .cancelled := by decide

open Uquic.Model.Dial in
/-- without the completion signal the cancelled dial does not return -/
example : (run {} [.cancel, .dialStep 0, .runReturns false, .dialStep 0, .dialStep 0]).pc = .waiting := by decide

end Uquic.Props.C17
