/-
Property C18, round 5: the ring buffer behind the framer's stream queue (internal/utils/ringbuffer)
IS a FIFO queue — for every initial capacity and EVERY sequence of PushBack / PopFront / PeekFront /
Len / Empty / Clear, growth while the ring is wrapped (headPos != 0) included.  A request stream
that became active is therefore handed out by the queue exactly once per activation, in order:
no concurrent request can be dropped from (or duplicated in) the send schedule by the queue.

Helper lemmas: Uquic/Proofs/RingBuffer.lean.  Tie to the source: `len` / `empty` are proved equal
to the translation of the Go methods (Uquic.Props.TransRing); the methods with slice effects
(grow, PushBack, PopFront, Clear) are tied by the `ringq` differential driver.
-/
import Uquic.Model.Util.RingBuffer
import Uquic.Proofs.RingBuffer

namespace Uquic.Props.C18Ring
open Uquic.Model.Util.RingBuffer

/-- a freshly initialised ring of any capacity is a well-formed empty queue -/
theorem init_is_empty_queue (n : Nat) : (({} : RB).init n).WF ∧ (({} : RB).init n).toList = [] :=
  ⟨RB.init_WF n, RB.init_toList n⟩

/-- `grow` keeps the queue whatever the head position is (the ring is full or has no slots) -/
theorem grow_preserves_queue (r : RB) (h : r.WF) (hf : r.full = true ∨ r.cap = 0) :
    r.grow.WF ∧ r.grow.toList = r.toList ∧ r.grow.full = false ∧ 0 < r.grow.cap :=
  ⟨RB.grow_WF r h, RB.grow_toList r h hf, RB.grow_full r, RB.grow_cap_pos r⟩

/-- `PushBack` appends -/
theorem pushBack_appends (r : RB) (x : Int) (h : r.WF) :
    (r.pushBack x).WF ∧ (r.pushBack x).toList = r.toList ++ [x] :=
  RB.pushBack_spec r x h

/-- `PopFront` removes and returns the oldest element; on an empty queue it panics and changes nothing -/
theorem popFront_takes_oldest (r : RB) (h : r.WF) :
    match r.toList with
    | [] => r.popFront = (none, r)
    | v :: q => r.popFront.1 = some v ∧ r.popFront.2.WF ∧ r.popFront.2.toList = q := by
  cases hq : r.toList with
  | nil => exact RB.popFront_nil r h hq
  | cons v q =>
    obtain ⟨h1, h2, h3⟩ := RB.popFront_cons r h v q hq
    rw [h1]
    exact ⟨rfl, h2, h3⟩

/-- `PeekFront` returns the oldest element without removing it -/
theorem peekFront_is_head (r : RB) (h : r.WF) : r.peekFront = r.toList.head? :=
  RB.peekFront_spec r h

/-- `Len` and `Empty` speak about the queue -/
theorem len_empty_spec (r : RB) (h : r.WF) : r.len = r.toList.length ∧ r.empty = r.toList.isEmpty := by
  refine ⟨(RB.toList_length r).symm, ?_⟩
  rw [Bool.eq_iff_iff, List.isEmpty_iff, RB.toList_eq_nil_iff r h]

/-- `Clear` empties the queue -/
theorem clear_empties (r : RB) : r.clear.WF ∧ r.clear.toList = [] :=
  ⟨RB.clear_WF r, RB.clear_toList r⟩

/-- MAIN: observational equality with a FIFO list, all capacities, all operation sequences -/
theorem ring_is_fifo_queue (n : Nat) (ops : List Op) :
    runRB (({} : RB).init n) ops = runQ [] ops :=
  RB.run_eq ops _ [] (RB.init_WF n) (RB.init_toList n)

/-- the growth-while-wrapped situation is reachable and handled: three stream ids, the first one
re-queued (pop + push), a fourth pushed while the ring is full with its head at slot 1 -/
example : runRB {} [.push 0, .push 4, .pop, .push 0, .push 8, .pop, .pop, .pop, .len] =
    [.unit, .unit, .val 0, .unit, .unit, .val 4, .val 0, .val 8, .num 0] := by decide

/-- `grow` as the statement is NOT insensitive to where the new tail is put: with the tail right
behind the elements copied from the head segment only (`n` of the first `copy`), a ring that grows
while wrapped loses the wrapped elements. -/
def growTailAfterHeadSegment (r : RB) : RB := { r.grow with tail := r.ring.length - r.head }

theorem grow_tail_position_matters :
    ∃ r : RB, r.WF ∧ r.full = true ∧ (growTailAfterHeadSegment r).toList ≠ r.toList := by
  refine ⟨{ ring := [1, 2], head := 1, tail := 1, full := true }, ?_, rfl, ?_⟩
  · unfold RB.WF RB.cap; decide
  · decide

end Uquic.Props.C18Ring
