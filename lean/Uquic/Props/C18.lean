/-
C18 — HTTP/3 carries requests and responses end to end without loss or alteration.
Property theorems only (helper lemmas live in Uquic/Proofs/H3*.lean).
-/
import Uquic.Model.H3.Writer
import Uquic.Spec.H3Mon

namespace Uquic.Props.C18
open Uquic.Model.H3

/-- every method call on an optional logger / qlogger / tracer in http3/*.go is dominated by a nil
    check (facts regenerated from the source by gofacts/x_h3guards.go) -/
theorem no_unguarded_optional_call : ∀ s ∈ Uquic.Gen.H3Guards.sites, s.guarded = true := by decide

end Uquic.Props.C18
