/-
C18 — HTTP/3 carries requests and responses end to end without loss or alteration.

Property theorems only (helper lemmas live in Uquic/Proofs/H3*.lean). The statements quantify over
ALL frame sequences (`WFrame`, any valid varint length classes), ALL chunkings of the byte stream
(`cells : List (Nat × Bool)` with `cells.map (·.1) = encFrames fs` — the flags are the delivery
boundaries of the QUIC stream) and ALL read-size sequences `ns` (including zero-length reads).
`expect` (Uquic/Spec/H3Wire.lean) is the RFC 9114 reading of a frame sequence.
-/
import Uquic.Proofs.H3Body
import Uquic.Proofs.H3Writer
import Uquic.Proofs.H3Uni
import Uquic.Spec.H3Mon

namespace Uquic.Props.C18
open Uquic.Model.H3 Uquic.Spec.H3Wire Uquic.Proofs.H3

/-- a request stream that carries exactly `cells` and then FIN -/
def streamOf (mh : Nat) (cells : List (Nat × Bool)) : MsgStream :=
  { p := { u := { cells := cells, term := .fin } }, maxHdr := mh }

theorem streamOf_inv (mh : Nat) (fs : List WFrame) (hok : ∀ f ∈ fs, f.ok)
    (hctl : ∀ f ∈ fs, kindOf f.ty ≠ .settings ∧ kindOf f.ty ≠ .goaway)
    (cells : List (Nat × Bool)) (hcells : cells.map (·.1) = encFrames fs) :
    Inv mh (streamOf mh cells) [] false fs :=
  { term := rfl, cc := rfl, cells := by simpa [streamOf, fl] using hcells, rem := rfl, ptr := rfl, mh := rfl,
    ok := hok, ctl := hctl }

/-- 1. `data_reassembly`.  For ANY frame sequence (DATA, HEADERS, unknown and reserved types), ANY
    chunking of the byte stream and ANY read sizes:
    (a) the bytes returned are a prefix of the concatenation of the DATA payloads before the trailers;
    (b) the first error is exactly the one the specification names (`eof` for a clean end, the
        reserved-frame / ill-placed-frame error otherwise) and at that point ALL of those bytes and
        nothing else have been returned;
    (c) reads of positive size do reach that point (no livelock on empty frames);
    (d) after a clean end or a reserved frame nothing is ever returned again, and a reserved frame
        has closed the connection with H3_FRAME_UNEXPECTED. -/
theorem data_reassembly (mh : Nat) (fs : List WFrame) (hok : ∀ f ∈ fs, f.ok)
    (hctl : ∀ f ∈ fs, kindOf f.ty ≠ .settings ∧ kindOf f.ty ≠ .goaway)
    (cells : List (Nat × Bool)) (hcells : cells.map (·.1) = encFrames fs) (ns : List Nat) :
    ((streamOf mh cells).readMany ns).2.1 <+: (expect mh false fs).1 ∧
    (∀ e, ((streamOf mh cells).readMany ns).2.2 = some e →
        e = (expect mh false fs).2 ∧ ((streamOf mh cells).readMany ns).2.1 = (expect mh false fs).1) ∧
    ((∀ n ∈ ns, 0 < n) → (encFrames fs).length < ns.length → ((streamOf mh cells).readMany ns).2.2.isSome) ∧
    (∀ e, ((streamOf mh cells).readMany ns).2.2 = some e → (e = .eof ∨ ∃ t, e = .reserved t) →
        ∀ ms, (((streamOf mh cells).readMany ns).1.readMany ms).2.1 = []) ∧
    (∀ t, ((streamOf mh cells).readMany ns).2.2 = some (.reserved t) →
        ((streamOf mh cells).readMany ns).1.p.cc = some errFrameUnexpected) := by
  obtain ⟨h1, h2, h3⟩ := readMany_spec (mh := mh) ns _ _ _ _ (streamOf_inv mh fs hok hctl cells hcells)
  simp only [List.nil_append] at h1 h2
  refine ⟨h1, fun e he => ⟨(h2 e he).1, (h2 e he).2.1⟩, ?_, ?_, ?_⟩
  · intro hpos hlen
    exact h3 hpos (by simpa [meas] using hlen)
  · intro e he hk ms
    exact dead_readMany ((h2 e he).2.2.1 hk) ms
  · intro t he
    exact (h2 _ he).2.2.2 ⟨t, rfl⟩

/-- hypotheses of `data_reassembly` are satisfiable by a non-trivial stream: DATA "AB", an unknown
    frame (type 0x21, 2-byte length encoding), DATA "C", trailers, delivered in two chunks -/
def exFrames : List WFrame := [⟨0, [65, 66], 0, 0⟩, ⟨33, [1, 2, 3], 0, 1⟩, ⟨0, [67], 0, 0⟩, ⟨1, [9], 0, 0⟩]
def exCells : List (Nat × Bool) := markChunk ((encFrames exFrames).take 5) ++ markChunk ((encFrames exFrames).drop 5)

example : (∀ f ∈ exFrames, f.ok) ∧ (∀ f ∈ exFrames, kindOf f.ty ≠ .settings ∧ kindOf f.ty ≠ .goaway) ∧
    exCells.map (·.1) = encFrames exFrames ∧
    ((streamOf 100 exCells).readMany [1, 0, 5, 5, 5, 5, 5]).2 = ([65, 66, 67], some .eof) := by
  decide

/-- unknown frame types contribute nothing -/
theorem unknown_frames_contribute_nothing (mh : Nat) (tr : Bool) (f : WFrame) (fs : List WFrame)
    (h : kindOf f.ty = .skip) : expect mh tr (f :: fs) = expect mh tr fs := by
  simp [expect, h]

/-- every frame type other than those `ParseNext` knows is skipped (the dispatch table is
    regenerated from http3/frames.go) -/
theorem unknown_types_are_skipped (t : Nat) (h : t ∉ [0, 1, 2, 4, 6, 7, 8, 9]) : kindOf t = .skip := by
  by_cases ht : t < 14
  · have all : ∀ t < 14, t ∉ [0, 1, 2, 4, 6, 7, 8, 9] → kindOf t = .skip := by decide
    exact all t ht h
  · have hb : ∀ p ∈ Uquic.Gen.H3.parseNextCases, p.1 < 14 := by decide
    have hl : Uquic.Gen.H3.parseNextCases.lookup t = none := by
      rw [List.lookup_eq_none_iff]
      intro p hp
      have := hb p hp
      simp only [bne_iff_ne, ne_eq]
      omega
    simp [kindOf, hl]

/-- the reserved types of RFC 9114 §7.2.8 are rejected with H3_FRAME_UNEXPECTED (0x105) -/
theorem reserved_types_rejected :
    (∀ t ∈ [2, 6, 8, 9], kindOf t = .reserved) ∧ Uquic.Gen.H3.reservedCloseCode = 0x105 ∧
      errFrameUnexpected = 0x105 := by decide

/-- SETTINGS / GOAWAY on a request stream (well-formed, so that `ParseNext` returns them):
    `Stream.Read` fails with "unexpected frame" and closes the connection with H3_FRAME_UNEXPECTED -/
theorem ill_placed_control_frame_rejected (s : MsgStream) (n : Nat) (p1 : PState) (f : Frame)
    (h0 : s.remaining = 0) (hp : parseNext s.p.fuel s.p = (p1, .ok f))
    (hf : (∃ x, f = .settings x) ∨ (∃ x, f = .goaway x)) :
    (s.read n).2 = ([], some .unexpectedFrame) ∧ (s.read n).1.p.cc.isSome ∧
      (p1.cc = none → (s.read n).1.p.cc = some errFrameUnexpected) := by
  rcases hf with ⟨x, rfl⟩ | ⟨x, rfl⟩ <;>
  · simp only [MsgStream.read, h0, ↓reduceIte, hp, PState.closeConn]
    cases hc : p1.cc <;> simp [hc]

/-- 2. `write_read_roundtrip`.  Whatever the sizes of the `Stream.Write` calls (`ws`, the chunking on
    the writer's side) and however the resulting bytes are delivered (`cells`) and read (`ns`):
    `Read*` returns a prefix of the written bytes, ends with a clean EOF exactly when all of them
    have been returned, and gets there. -/
theorem write_read_roundtrip (mh : Nat) (ws : List (List Nat)) (hlen : ∀ w ∈ ws, w.length < 2 ^ 62)
    (cells : List (Nat × Bool)) (hcells : cells.map (·.1) = sentBytes (writeAll {} ws)) (ns : List Nat) :
    ((streamOf mh cells).readMany ns).2.1 <+: ws.flatten ∧
    (∀ e, ((streamOf mh cells).readMany ns).2.2 = some e →
        e = .eof ∧ ((streamOf mh cells).readMany ns).2.1 = ws.flatten) ∧
    ((∀ n ∈ ns, 0 < n) → (sentBytes (writeAll {} ws)).length < ns.length →
        ((streamOf mh cells).readMany ns).2.2.isSome) := by
  have hb : sentBytes (writeAll {} ws) = encFrames (ws.map dataFrameOf) := by
    have := writeAll_bytes ws hlen {} rfl rfl
    simpa [sentBytes] using this
  have hok : ∀ f ∈ ws.map dataFrameOf, f.ok := by
    intro f hf
    obtain ⟨w, hw, rfl⟩ := List.mem_map.mp hf
    exact dataFrameOf_ok w (hlen w hw)
  have hctl : ∀ f ∈ ws.map dataFrameOf, kindOf f.ty ≠ .settings ∧ kindOf f.ty ≠ .goaway := by
    intro f hf
    obtain ⟨w, _, rfl⟩ := List.mem_map.mp hf
    show kindOf 0 ≠ .settings ∧ kindOf 0 ≠ .goaway
    decide
  obtain ⟨h1, h2, h3, _, _⟩ := data_reassembly mh (ws.map dataFrameOf) hok hctl cells (by rw [hcells, hb]) ns
  rw [expect_dataFrames] at h1 h2
  refine ⟨h1, fun e he => h2 e he, ?_⟩
  intro hpos hl
  exact h3 hpos (by rw [← hb]; exact hl)

example : sentBytes (writeAll {} [[1, 2, 3], [], List.replicate 70 7]) =
    [0, 3, 1, 2, 3, 0, 0, 0, 64, 70] ++ List.replicate 70 7 := by decide

/-! ### Content-Length -/

/-- a body (declared length `cl`) over the stream `cells` -/
def bodyOf (mh : Nat) (cells : List (Nat × Bool)) (cl : Nat) : Body :=
  Body.new { m := streamOf mh cells } cl

/-- 3. FULL statement (false on the unchanged tree, see the witness below): a well-formed body whose
    DATA total differs from the declared Content-Length is reported as an error, never as a clean
    end of body. -/
def content_length_enforced : Prop :=
  ∀ (mh cl : Nat) (fs : List WFrame), (∀ f ∈ fs, f.ok) →
    (∀ f ∈ fs, kindOf f.ty ≠ .settings ∧ kindOf f.ty ≠ .goaway) → (expect mh false fs).2 = .eof →
    ∀ (cells : List (Nat × Bool)), cells.map (·.1) = encFrames fs →
    ∀ (ns : List Nat), (∀ n ∈ ns, 0 < n) → (encFrames fs).length < ns.length →
      (expect mh false fs).1.length ≠ cl →
      ∃ e, ((bodyOf mh cells cl).readMany ns).2.2 = some e ∧ e ≠ .eof

/-- 3'. what holds: never more than `cl` bytes are delivered; an OVER-length body is reported
    (`errTooMuchData`, after at most `cl` bytes); a clean EOF is only ever returned when the body is
    not longer than declared and has been delivered completely. -/
theorem content_length_enforced_partial (mh cl : Nat) (fs : List WFrame) (hok : ∀ f ∈ fs, f.ok)
    (hctl : ∀ f ∈ fs, kindOf f.ty ≠ .settings ∧ kindOf f.ty ≠ .goaway) (hclean : (expect mh false fs).2 = .eof)
    (cells : List (Nat × Bool)) (hcells : cells.map (·.1) = encFrames fs) (ns : List Nat) :
    ((bodyOf mh cells cl).readMany ns).2.1.length ≤ cl ∧
    ((bodyOf mh cells cl).readMany ns).2.1 <+: (expect mh false fs).1 ∧
    (∀ e, ((bodyOf mh cells cl).readMany ns).2.2 = some e →
        (e = .tooMuchData ∧ cl < (expect mh false fs).1.length) ∨
        (e = .eof ∧ (expect mh false fs).1.length ≤ cl ∧
          ((bodyOf mh cells cl).readMany ns).2.1 = (expect mh false fs).1)) ∧
    (cl < (expect mh false fs).1.length → (∀ n ∈ ns, 0 < n) → (encFrames fs).length < ns.length →
        ((bodyOf mh cells cl).readMany ns).2.2 = some .tooMuchData) := by
  have hb : BInv mh cl (bodyOf mh cells cl) 0 [] false fs :=
    { hasCL := by simp [bodyOf, Body.new], nv := by simp [bodyOf, Body.new],
      rem := by simp [bodyOf, Body.new], le := Nat.zero_le _,
      inv := by simpa [bodyOf, Body.new] using streamOf_inv mh fs hok hctl cells hcells }
  obtain ⟨h1, h2, h3, h4⟩ := body_readMany_spec (mh := mh) (cl := cl) ns _ 0 [] false fs hb hclean
  simp only [List.nil_append, Nat.zero_add] at h1 h2 h3 h4
  refine ⟨h1, h2, ?_, ?_⟩
  · intro e he
    rcases h3 e he with ⟨e1, e2⟩ | ⟨e1, e2, e3⟩
    · left; exact ⟨e1, e2⟩
    · right
      refine ⟨e1, e2, ?_⟩
      exact List.IsPrefix.eq_of_length h2 e3
  · intro hover hpos hl
    have hs := h4 hpos (by simpa [meas] using hl)
    obtain ⟨e, he⟩ := Option.isSome_iff_exists.mp hs
    rcases h3 e he with ⟨e1, _⟩ | ⟨_, e2, _⟩
    · rw [he, e1]
    · omega

/-- the model of the unchanged code violates the full statement: Content-Length 10, one 6-byte DATA
    frame, FIN — six bytes and a clean EOF (known finding C18/under-length-body) -/
theorem content_length_under_length_witness : ¬ content_length_enforced := by
  intro h
  have := h 1000 10 [⟨0, [65, 66, 67, 68, 69, 70], 0, 0⟩] (by decide) (by decide) (by decide)
    (markChunk (encFrames [⟨0, [65, 66, 67, 68, 69, 70], 0, 0⟩])) (by decide)
    (List.replicate 9 64) (by decide) (by decide) (by decide)
  obtain ⟨e, he, hne⟩ := this
  have hx : ((bodyOf 1000 (markChunk (encFrames [⟨0, [65, 66, 67, 68, 69, 70], 0, 0⟩])) 10).readMany
      (List.replicate 9 64)).2.2 = some .eof := by decide
  rw [hx] at he
  cases he
  exact hne rfl

/-- an over-length body: Content-Length 2, DATA "ABC" -/
example : ((bodyOf 100 (markChunk (encFrames [⟨0, [65, 66, 67], 0, 0⟩])) 2).readMany [5, 5, 5]).2 =
    ([65, 66], some .tooMuchData) := by decide

/-! ### optional settings -/

/-- 4. every method call on an optional logger / qlogger / tracer in http3/*.go is dominated by a nil
    check (facts regenerated from the source by gofacts/x_h3guards.go; an unguarded call that is
    (re)introduced makes this `decide` fail) -/
theorem no_unguarded_optional_call : ∀ s ∈ Uquic.Gen.H3Guards.sites, s.guarded = true := by decide

/-- the fact list is not vacuous: it contains the call sites the defect was at -/
example : 30 ≤ Uquic.Gen.H3Guards.sites.length ∧
    (Uquic.Gen.H3Guards.sites.any fun s => s.func == "responseWriter.flushTrailers" && s.method == "Debug") ∧
    (Uquic.Gen.H3Guards.sites.any fun s => s.func == "responseWriter.declareTrailer" && s.method == "Debug") := by
  decide

/-- consequently no optional-logger call of the response writer model panics, logger nil or not -/
theorem logger_calls_never_panic (w : RW) (fn m : String) : (w.logCall fn m).panicked = w.panicked := by
  have := guardedAt_of_all no_unguarded_optional_call fn m
  simp [RW.logCall, this]

/-! ### HEAD / 1xx / 204 / 304 -/

/-- what a handler can do with the response writer -/
inductive HOp where
  | setHeader (k : String) (vs : List String)
  | delHeader (k : String)
  | writeHeader (status : Nat)     -- a status outside 100..999 panics in the Go code: the model state is kept
  | write (p : List Nat)
  | flush

def applyOp (w : RW) : HOp → RW
  | .setHeader k vs => { w with header := w.header.put k vs }
  | .delHeader k => { w with header := w.header.del k }
  | .writeHeader st => (w.WriteHeader st).getD w
  | .write p => (w.Write p).1
  | .flush => w.Flush

/-- 5. `head_and_nobody_status_suppress_body`.  Once the response is to a HEAD request, or its final
    status does not allow a body (1xx as final status, 204, 304), NO sequence of handler operations
    followed by the server's end-of-request processing writes a single body byte (no DATA frame
    header, no payload) to the stream; only HEADERS frames can be written. -/
theorem head_and_nobody_status_suppress_body (w : RW) (h : NoBody w) (ops : List HOp) :
    rawOf ((ops.foldl applyOp w).finish).str = rawOf w.str := by
  suffices hs : ∀ (w' : RW), NoBody w' → rawOf w'.str = rawOf w.str →
      rawOf ((ops.foldl applyOp w').finish).str = rawOf w.str from hs w h rfl
  induction ops with
  | nil => intro w' h' hr; exact (finish_noBody w' h').trans hr
  | cons op ops ih =>
    intro w' h' hr
    simp only [List.foldl_cons]
    cases op with
    | setHeader k vs => exact ih _ ⟨h'.1, h'.2⟩ hr
    | delHeader k => exact ih _ ⟨h'.1, h'.2⟩ hr
    | writeHeader st =>
      by_cases hc : w'.headerComplete = true
      · simp only [applyOp, WriteHeader_complete w' st hc]; exact ih w' h' hr
      · have hh : w'.isHead = true := by
          rcases h'.2 with h1 | ⟨h2, _⟩
          · exact h1
          · exact absurd h2 hc
        have := WriteHeader_head w' st h'.1 hh
        exact ih _ ⟨this.2.1, Or.inl this.2.2⟩ (this.1.trans hr)
    | write p =>
      have := Write_noBody w' p h'
      exact ih _ this.2 (this.1.trans hr)
    | flush =>
      have := Flush_noBody w' h'
      exact ih _ this.2 (this.1.trans hr)

/-- how a writer gets there: a HEAD request from the start, or WriteHeader(204 / 304) before any Write -/
theorem noBody_established (w : RW) (hs : w.small = []) :
    (w.isHead = true → NoBody w) ∧
    (∀ st, w.headerComplete = false → (st = 204 ∨ st = 304) → NoBody ((w.WriteHeader st).getD w)) := by
  refine ⟨fun hh => ⟨hs, Or.inl hh⟩, ?_⟩
  intro st hc hst
  have hr : ¬ (st < 100 ∨ st > 999) := by omega
  have h200 : ¬ st < 200 := by omega
  have hb : bodyAllowedForStatus st = false := by rcases hst with rfl | rfl <;> decide
  simp only [RW.WriteHeader, hc, Bool.false_eq_true, ↓reduceIte, hr, h200]
  split <;> (try split) <;> (try split) <;> exact ⟨hs, Or.inr ⟨rfl, hb⟩⟩

/-- the hypotheses are satisfiable: a HEAD writer; a fresh writer after WriteHeader(204) -/
example : NoBody ({ isHead := true } : RW) ∧ NoBody ((({} : RW).WriteHeader 204).getD {}) :=
  ⟨⟨rfl, Or.inl rfl⟩, (noBody_established {} rfl).2 204 rfl (Or.inl rfl)⟩

/-! ### unidirectional streams -/
open Uquic.Spec.H3Uni in
/-- 6. `uni_stream_type_rules`.  For ANY sequence of peer-opened unidirectional stream types, as a
    server or as a client, the per-type bookkeeping of `handleUnidirectionalStream` (table regenerated
    from the source: which atomic flag each type's first-stream check uses, which code it closes
    with) produces, stream by stream, exactly what RFC 9114 §6.2 asks for: one control, one QPACK
    encoder and one QPACK decoder stream are accepted in any order, a second one of a kind closes the
    connection with H3_STREAM_CREATION_ERROR, a push stream closes it (0x103 server / 0x108 client),
    every other type only has its reading aborted with 0x103 and changes nothing. -/
theorem uni_stream_type_rules (isServer : Bool) (ts : List Nat) :
    uniOuts isServer {} ts = specOuts isServer {} ts :=
  uniOuts_refines isServer ts {} {} ⟨rfl, rfl, rfl, rfl⟩

open Uquic.Spec.H3Uni in
/-- in particular: control + QPACK encoder + QPACK decoder + an unknown type, opened in every order,
    are all accepted (the unknown one cancelled) and the connection stays open -/
theorem uni_legal_streams_every_order :
    ∀ isServer : Bool, ∀ ts ∈ perms [0, 2, 3, 33],
      (uniRun isServer ts).closed = none ∧ (uniOuts isServer {} ts).all (fun o => o = .accepted ∨ o = .cancelled 0x103) := by
  decide

end Uquic.Props.C18
