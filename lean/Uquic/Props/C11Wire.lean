/-
C11, round 5 — "the ClientHello a spec-driven client sends is what uTLS produces", for EVERY Initial packet
the client ever sends (first flight, PTO probes, loss retransmissions, the flight after a Retry, the second
ClientHello after a HelloRetryRequest), not only for the first flight.

`S` is the byte string the TLS stack handed over for the Initial CRYPTO stream (the driver `chwire` taps it
where the connection reads the TLS events, upstream of crypto stream, frame builders, retransmission queue
and packer); the wire is the list of CRYPTO frames of all Initial packets that left the client. The
predicate judged on the wire is `faithful S f` (the frame's data is `S[off, off+len)`):

1. `faithful_wire_reassembles_clienthello` — SUFFICIENT: when every frame on the wire is faithful, a peer
   that receives ANY sub-multiset of them in ANY order (duplicates included), with either overlap policy,
   never holds a byte that is not the ClientHello's byte at that offset, holds nothing beyond its end, and
   once every offset is covered its reassembly buffer IS the ClientHello.
2. `unfaithful_frame_corrupts_a_receiver` — NECESSARY: a non-empty frame that is not faithful makes the
   peer that receives it first (or last) hold a wrong byte. So "all frames faithful" is exactly the
   property, and it is what the monitor `wire_crypto_is_clienthello` evaluates (`monitor_wire_iff`,
   `monitor_cover_iff`: the executable monitors decide the two hypotheses of 1.).
3. `shifted_retransmission_witness` — the shape of a re-framed retransmission whose base offset is taken
   from the stream's write offset instead of from the frames: not faithful, and a last-copy-wins peer
   rebuilds something else.
4. `perdatagram_wire_is_clienthello` — composition with the packer model of C09 (`PerDatagram`, tied to
   uPacketPacker by the frames driver): in ANY state reachable by PackCoalescedPacket calls, loss
   declarations and later writes, the packet that PackCoalescedPacket returns parses into frames whose
   CRYPTO frames are faithful to everything written so far; hence 1. applies to the union of all packets
   of a history.
-/
import Uquic.Proofs.ChWire
import Uquic.Props.C09Glue

namespace Uquic.Props.C11Wire
open Uquic.Model.ChWire Uquic.Proofs.ChWire

/-! ## 1. faithful frames are sufficient -/

/-- ANY stream `S`, ANY set of frames `wire` that are all faithful, ANY list `received` drawn from them
    (any subset, any order, any multiplicity), either overlap policy. -/
theorem faithful_wire_reassembles_clienthello {α : Type} [DecidableEq α] (S : List α) (wire received : List (Frame α))
    (keep : Bool) (hw : ∀ f ∈ wire, faithful S f = true) (hsub : ∀ f ∈ received, f ∈ wire) :
    (∀ i b, recvAt keep received i = some b → S[i]? = some b) ∧
    (∀ i, S.length ≤ i → recvAt keep received i = none) ∧
    ((∀ i, i < S.length → ∃ f ∈ received, covers f i = true) →
      reassembled keep received S.length = S.map some) := by
  have hr : ∀ f ∈ received, faithful S f = true := fun f hf => hw f (hsub f hf)
  have sound : ∀ i b, recvAt keep received i = some b → S[i]? = some b :=
    fun i b h => recvAt_sound keep received hr h
  refine ⟨sound, ?_, ?_⟩
  · intro i hi
    cases h : recvAt keep received i with
    | none => rfl
    | some b =>
      have := sound i b h
      rw [List.getElem?_eq_none hi] at this
      cases this
  · intro hcov
    apply List.ext_getElem
    · simp [reassembled]
    · intro i h1 h2
      simp only [reassembled, List.getElem_map, List.getElem_range]
      have hi : i < S.length := by simpa [reassembled] using h1
      have hs := recvAt_isSome_of_covered keep received (hcov i hi)
      cases h : recvAt keep received i with
      | none => rw [h] at hs; cases hs
      | some b =>
        have := sound i b h
        rw [List.getElem?_eq_getElem hi] at this
        exact this.symm

/-- hypotheses satisfiable: a 6-byte stream sent as two frames, the first retransmitted in two pieces;
    the peer gets the pieces out of order and one of them twice -/
example : reassembled true [((4 : Nat), [14, 15]), (2, [12, 13]), (0, [10, 11, 12, 13]), (2, [12, 13]), (0, [10, 11])] 6
    = ([10, 11, 12, 13, 14, 15] : List Nat).map some := by decide

/-- what is not sent is not held: the receiver's buffer has holes exactly at the uncovered offsets -/
theorem uncovered_offset_is_missing {α : Type} [DecidableEq α] (received : List (Frame α)) (keep : Bool) (i : Nat)
    (h : ∀ f ∈ received, covers f i = false) : recvAt keep received i = none :=
  recvAt_none_of_uncovered keep received h

/-! ## 2. … and necessary -/

/-- a non-empty frame that is not the stream's slice at its offset makes a peer hold a wrong byte
    (a byte that differs from the ClientHello's, or a byte beyond its end) — under both policies -/
theorem unfaithful_frame_corrupts_a_receiver {α : Type} [DecidableEq α] (S : List α) (f : Frame α) (keep : Bool)
    (hne : f.2 ≠ []) (h : faithful S f = false) :
    ∃ i b, recvAt keep [f] i = some b ∧ S[i]? ≠ some b := by
  obtain ⟨i, b, hb, hs⟩ := unfaithful_has_wrong_byte hne h
  refine ⟨i, b, ?_, hs⟩
  cases keep <;> simp [recvAt, hb]

/-- the executable monitors decide the hypotheses of `faithful_wire_reassembles_clienthello` -/
theorem monitor_wire_iff {α : Type} [DecidableEq α] (S : List α) (wire : List (Frame α)) :
    firstUnfaithful S wire = none ↔ ∀ f ∈ wire, faithful S f = true :=
  firstUnfaithful_none_iff

theorem monitor_cover_iff {α : Type} [DecidableEq α] (wire : List (Frame α)) (n : Nat) :
    firstGap wire n = none ↔ ∀ i, i < n → ∃ f ∈ wire, covers f i = true :=
  firstGap_none_iff

/-! ## 3. the shifted retransmission -/

/-- A 6-byte ClientHello in two datagrams `[0,3)` and `[3,6)`; the first is retransmitted, re-framed with
    base offset `writeOffset − len = 6 − 3 = 3` instead of the frames' own offset 0. The monitor fires,
    and a peer whose later copy wins rebuilds a different stream. -/
theorem shifted_retransmission_witness :
    let S : List Nat := [10, 11, 12, 13, 14, 15]
    let wire : List (Frame Nat) := [(0, [10, 11, 12]), (3, [13, 14, 15]), (3, [10, 11, 12])]
    firstUnfaithful S wire = some (3, [10, 11, 12]) ∧
    reassembled false wire 6 ≠ S.map some ∧
    reassembled true [(3, [10, 11, 12]), (0, [10, 11, 12])] 6 ≠ S.map some := by decide

/-! ## 4. the packer model of C09 emits faithful frames in every reachable state -/

open Uquic.Spec.Framing Uquic.Model.UQuic.Frames Uquic.Model.UQuic.PerDatagram Uquic.Proofs.Frames Uquic.Proofs.Glue in
/-- ANY ClientHello, per-datagram builder inside its contract, CryptoLengths, sizes, and ANY history `ops`
    of PackCoalescedPacket calls, loss declarations (first datagram only, everything after a Retry, a
    retransmission lost again, …) and later writes (a second ClientHello): the next packet
    PackCoalescedPacket returns carries only CRYPTO frames that are faithful to everything the TLS stack
    wrote, so whatever a peer rebuilds from them (any subset, order, policy) is the ClientHello's bytes. -/
theorem perdatagram_wire_is_clienthello (fb : Builder) (cls : List Int) (maxSize hdrLen : Int)
    (CH : List UInt8) (ops : List Op) (s s' : PD) (d : Draws) (perm : List Nat) (p : List UInt8)
    (reg : List (Nat × List UInt8)) (h16 : (CH ++ writtenBy ops).length ≤ 16383)
    (hr : run (fresh fb cls maxSize hdrLen CH) ops = some s)
    (hfit : ∀ lo n, 0 < n → lo + n ≤ (CH ++ writtenBy ops).length → BuilderFits s.fb lo n)
    (hp : pack s d perm = (s', .pkt p reg)) :
    ∃ fs, readFrames p = some fs ∧ (∀ c ∈ cryptoOf fs, faithful (CH ++ writtenBy ops) c = true) ∧
      ∀ (keep : Bool) (received : List (Frame UInt8)), (∀ f ∈ received, f ∈ cryptoOf fs) →
        ∀ i b, recvAt keep received i = some b → (CH ++ writtenBy ops)[i]? = some b := by
  have hinv := run_inv ops CH _ s h16 (fresh_inv fb cls maxSize hdrLen CH) hr
  obtain ⟨_, fs, hread, hsl, _⟩ := Uquic.Props.C09Glue.perdatagram_packet_carries_registered h16 hinv hfit hp
  have hf : ∀ c ∈ cryptoOf fs, faithful (CH ++ writtenBy ops) c = true := by
    intro c hc
    obtain ⟨_, h2, h3⟩ := sliceEq_iff.mp (hsl c hc)
    exact faithful_iff.mpr ⟨by simpa using h2, by simpa using h3⟩
  refine ⟨fs, hread, hf, ?_⟩
  intro keep received hsub
  exact (faithful_wire_reassembles_clienthello _ (cryptoOf fs) received keep hf hsub).1

end Uquic.Props.C11Wire
