/-
Property C08 — wire codecs are total, length-consistent and round-trip.

Only the property theorems live here; helper lemmas are in `Uquic/Proofs/Wire*.lean`.
The models (`Uquic/Model/Wire/*`) mirror /repo/quicvarint and /repo/internal/wire; the constants
they use (`Uquic.Gen.Wire`, `Uquic.Gen.Protocol`) are regenerated from the source before every
build, so each theorem is re-proved against the current frame numbering, varint bounds,
encryption-level table and limits.
-/
import Uquic.Proofs.WireReject
import Uquic.Proofs.WireLongHeader
import Uquic.Proofs.WireTP
import Uquic.Proofs.WireSplit

namespace Uquic.Props.C08
open Uquic.Model.Wire Uquic.Model.Wire.Varint Uquic.Spec.WireMon Uquic.Proofs.Wire

/-! ## varints (quicvarint) -/

/-- every value the encoder accepts (`v < 2^62`) parses back, consuming exactly `Len(v)` bytes,
    whatever follows -/
theorem varint_parse_append (v : Nat) (h : v ≤ maxVarInt8) (rest : Bytes) :
    parse (enc v ++ rest) = .ok (v, len v) := parse_enc v h rest

/-- `Len(v)` is exactly the number of bytes `Append` writes -/
theorem varint_length_exact (v : Nat) (h : v ≤ maxVarInt8) : (enc v).length = len v := len_enc v h

/-- `Parse` consumes exactly the bytes it reports: within the input, and the result only depends on them -/
theorem varint_consumes_what_it_reports (b : Bytes) (v n : Nat) (h : parse b = .ok (v, n)) :
    n ≤ b.length ∧ parse (b.take n) = .ok (v, n) := by
  obtain ⟨h1, _, _, _, h5⟩ := parse_ok_inv b v n h
  exact ⟨h1, by simpa using h5 []⟩

/-- parsed values are in range; the encoder's length is minimal among all encodings of the value.
    (`Parse` does NOT require the minimal encoding: see `varint_nonminimal_accepted`.) -/
theorem varint_range_minimal (b : Bytes) (v n : Nat) (h : parse b = .ok (v, n)) :
    v ≤ maxVarInt8 ∧ len v ≤ n ∧ (n = 1 ∨ n = 2 ∨ n = 4 ∨ n = 8) := by
  obtain ⟨_, _, h3, h4, _⟩ := parse_ok_inv b v n h
  refine ⟨h3, h4, ?_⟩
  unfold parse at h
  split at h
  · simp at h
  · split at h
    · simp at h; omega
    · split at h <;> simp at h; omega
    · split at h <;> simp at h; omega
    · split at h <;> simp at h; omega

/-- Go's `Parse` accepts non-minimal encodings (as RFC 9000 §16 allows): 0x4001 is the value 1 -/
theorem varint_nonminimal_accepted : parse [0x40, 0x01] = .ok (1, 2) ∧ len 1 = 1 := by
  constructor
  · rfl
  · decide

/-- re-encoding a parsed varint parses to the same value -/
theorem varint_reencode_fixpoint (b : Bytes) (v n : Nat) (h : parse b = .ok (v, n)) :
    parse (enc v) = .ok (v, len v) := by
  have := (varint_range_minimal b v n h).1
  simpa using parse_enc v this []

example : ∃ v, v ≤ maxVarInt8 ∧ len v = 8 := ⟨2 ^ 62 - 1, by decide, by decide⟩

/-! ## frames -/

/-- `parse_append`: for every frame value in the encoder's domain (`roundTripDomain`, the same
    predicate the harness monitor uses), in every context that lets its type through,
    parsing `Append(v)` followed by anything gives `v` back and consumes exactly `|Append(v)|`.
    Frames that extend to the end of the packet (STREAM / DATAGRAM without length) need `rest = []`;
    ACK needs the parser's exponent to be the sender's. -/
theorem frame_parse_append (c : Ctx) (f : Frame) (rest : Bytes)
    (hdom : roundTripDomain f = true) (hacc : typeAccepted c f.typ)
    (hexp : f.isAck = true → effExp c = sendAckDelayExponent)
    (hg : f.greedy = true → rest = []) :
    decode c (f.bytes ++ rest) = .frame f f.bytes.length := decode_bytes c f rest hdom hacc hexp hg

example : roundTripDomain (.stream 4 (2 ^ 62 - 4) [1, 2, 3] true true) = true ∧
    typeAccepted witnessCtx (Frame.stream 4 (2 ^ 62 - 4) [1, 2, 3] true true).typ := by decide
example : roundTripDomain (.ack [(7, 9), (1, 3)] 8000 0 5 0) = true := by decide

/-- `length_exact`: `Length()` is the number of bytes `Append` writes, for every frame on which
    they do not panic (well-typedness = the fixed-size Go array fields) -/
theorem frame_length_exact (f : Frame) (hw : f.wellTyped = true) (h : f.panics = false) :
    f.bytes.length = f.length := length_exact f hw h

example : (Frame.ack [(7, 9), (1, 3)] 8000 0 5 0).panics = false := by decide
example : FixCond (.ack [(7, 9), (1, 3)] 8000 0 5 0) := by unfold FixCond; decide

/-- `consumes_what_it_reports`, for every frame type, encryption level and parser configuration:
    the count is within the input and the result only depends on the consumed prefix -/
theorem frame_consumes_what_it_reports (c : Ctx) (b : Bytes) (f : Frame) (n : Nat) (h : decode c b = .frame f n) :
    n ≤ b.length ∧ decode c (b.take n) = .frame f n := decode_stable c b f n h

/-- totality: at the four encryption levels the decoder returns a frame, END or an error — never
    a panic — on every byte string (for the Go code this is the correspondence claim) -/
theorem frame_decode_never_panics (c : Ctx) (hl : c.lvl = 1 ∨ c.lvl = 2 ∨ c.lvl = 3 ∨ c.lvl = 4) (b : Bytes) :
    decode c b ≠ .panic := decode_no_panic c hl b

/-- everything the decoder accepts is well typed, its (re-encoded) type is acceptable in the same
    context, and — outside the two exceptions named by `FixCond` — it lies in the encoder's domain -/
theorem frame_decoded_in_range (c : Ctx) (b : Bytes) (hb : b.length < 2 ^ 62) (f : Frame) (n : Nat)
    (h : decode c b = .frame f n) :
    f.wellTyped = true ∧ typeAccepted c f.typ ∧ (FixCond f → f.appendErr = none → roundTripDomain f = true) := by
  obtain ⟨t, l0, n', _, hacc, _, hbody, _⟩ := decode_inv c b f n h
  have hdom := body_domain c t (b.drop l0) (by simp; omega) f n' hbody
  exact ⟨hdom.wt, hdom.typ hacc, hdom.dom⟩

/-- a STREAM frame filled up to `MaxDataLen(budget)` occupies at most `budget` bytes (budgets up to
    16383: callers are bounded by the packet size; above 16385 the 1-byte correction of
    `MaxDataLen` would not cover a 4-byte length field) -/
theorem stream_max_data_len_fits (sid off : Nat) (data : Bytes) (fin dlp : Bool) (maxSize : Nat)
    (hs : sid ≤ maxVarInt8) (ho : off ≤ maxVarInt8) (hm : maxSize ≤ 16383)
    (hn : data.length ≤ streamMaxDataLen sid off dlp maxSize) (hpos : 0 < data.length) :
    (Frame.stream sid off data fin dlp).bytes.length ≤ maxSize :=
  stream_maxDataLen_fits sid off data fin dlp maxSize hs ho hm hn hpos

/-- `MaybeSplitOffFrame` (STREAM and CRYPTO): the two frames carry the original data in order, the
    second starts where the first ends, FIN stays on the second, and the first fits the budget -/
theorem split_off_frame_correct :
    (∀ (sid off : Nat) (data : Bytes) (fin dlp : Bool) (maxSize : Nat) (a b : Frame),
      sid ≤ maxVarInt8 → off ≤ maxVarInt8 → data.length ≤ maxVarInt8 → maxSize ≤ 16383 →
      streamSplit sid off data fin dlp maxSize = .split a b →
      ∃ d1 d2, a = .stream sid off d1 false dlp ∧ b = .stream sid (off + d1.length) d2 fin dlp ∧ d1 ++ d2 = data ∧
        0 < d1.length ∧ a.bytes.length ≤ maxSize) ∧
    (∀ (off : Nat) (data : Bytes) (maxSize : Nat) (a b : Frame),
      off ≤ maxVarInt8 → data.length ≤ maxVarInt8 → maxSize ≤ 16383 →
      cryptoSplit off data maxSize = .split a b →
      ∃ d1 d2, a = .crypto off d1 ∧ b = .crypto (off + d1.length) d2 ∧ d1 ++ d2 = data ∧
        0 < d1.length ∧ a.bytes.length ≤ maxSize) :=
  ⟨fun sid off data fin dlp maxSize a b hs ho hd hm h => stream_split_correct sid off data fin dlp maxSize a b hs ho hd hm h,
   fun off data maxSize a b ho hd hm h => crypto_split_correct off data maxSize a b ho hd hm h⟩

example : streamSplit 4 100 (List.replicate 100 7) true true 70 =
    .split (.stream 4 100 (List.replicate 64 7) false true) (.stream 4 164 (List.replicate 36 7) true true) := by decide +kernel

/-! ### re-encoding what parsed -/

/-- FULL statement (false on the unchanged tree, see the witnesses below): re-encoding anything that
    parsed successfully parses to the same result again -/
def reencode_fixpoint : Prop := reencode_fixpoint_full

/-- proved restriction: the fixpoint holds for every frame type, level and configuration unless
    (a) the frame is an ACK whose delay is not representable by the encoder (not a multiple of
    2^3 µs — which includes the int64 overflow of `delay·2^exp·1000` — or parsed with an exponent
    other than the sender's) or has more than `MaxNumAckRanges` ranges, or (b) it is an
    ACK_FREQUENCY whose delay overflowed. `Length()` also matches. -/
theorem reencode_fixpoint_partial (c : Ctx) (b : Bytes) (f : Frame) (n : Nat) (hb : b.length < 2 ^ 62)
    (h : decode c b = .frame f n) (hfix : FixCond f) (hexp : f.isAck = true → effExp c = sendAckDelayExponent)
    (bs : Bytes) (l : Nat) (he : encode f = .ok bs l) :
    decode c bs = .frame f bs.length ∧ l = bs.length :=
  Uquic.Proofs.Wire.reencode_fixpoint_partial c b f n hb h hfix hexp bs l he

/-- the ACK delay of a parsed frame satisfies `FixCond` whenever `delay·2^exp·1000 < 2^63` and the
    parser uses the sender's exponent: the restriction is exactly the overflow -/
theorem ack_delay_fixcond (delay : Nat) (h : delay * 2 ^ sendAckDelayExponent * 1000 < 2 ^ 63) :
    ackDelayTime delay sendAckDelayExponent % (1000 * 2 ^ sendAckDelayExponent) = 0 := by
  unfold ackDelayTime
  rw [sendExp_eq] at *
  simp only
  have h1 : delay * 2 ^ 3 % 2 ^ 64 = delay * 2 ^ 3 := Nat.mod_eq_of_lt (by omega)
  rw [h1]
  have h2 : delay * 2 ^ 3 * 1000 % 2 ^ 64 = delay * 2 ^ 3 * 1000 := Nat.mod_eq_of_lt (by omega)
  rw [h2, if_neg (by omega)]
  omega

/-- kernel-checked counterexample (known finding `ack-delay-reencode`): ACK Delay 2^62-1 with exponent 3 -/
theorem reencode_fixpoint_witness : ¬ reencode_fixpoint := Uquic.Proofs.Wire.reencode_fixpoint_witness

/-- the three known ways the full statement fails, each checked by the kernel on a concrete packet -/
theorem reencode_fixpoint_witnesses :
    fixpointFails witnessCtx witnessBytes = true ∧
    fixpointFails witnessCtx [0x40, 0xaf, 0x01, 0x01, 0xc0, 0x20, 0xc4, 0x9b, 0xa5, 0xe3, 0x53, 0xf8, 0x01] = true ∧
    fixpointFails witnessCtx ([0x02, 0x40, 0xc8, 0x00, 0x40, 0x40, 0x00] ++ List.replicate 128 0) = true :=
  ⟨fixpoint_fails_ackDelay, fixpoint_fails_ackFrequency, fixpoint_fails_ackRanges⟩

/-! ### rejections -/

/-- MAX_STREAMS / STREAMS_BLOCKED above 2^60 are rejected -/
theorem reject_stream_count {p : Bytes} {v : Nat} (h : Decodes p v) (hv : v > maxStreamCount) (typ : Nat) (r : Bytes) :
    parseMaxStreams (p ++ r) typ = .error .streamCount ∧ parseStreamsBlocked (p ++ r) typ = .error .streamCount :=
  ⟨reject_maxStreams h hv typ r, reject_streamsBlocked h hv typ r⟩

example : Decodes (enc (2 ^ 60 + 1)) (2 ^ 60 + 1) ∧ 2 ^ 60 + 1 > maxStreamCount :=
  ⟨decodes_enc _ (by decide), by decide⟩

/-- RESET_STREAM_AT: final size below reliable size is rejected -/
theorem reject_final_below_reliable {p1 p2 p3 p4 : Bytes} {sid ec fs rs : Nat} (h1 : Decodes p1 sid) (h2 : Decodes p2 ec)
    (h3 : Decodes p3 fs) (h4 : Decodes p4 rs) (hgt : rs > fs) (r : Bytes) :
    parseResetStream (p1 ++ p2 ++ p3 ++ p4 ++ r) true = .error .reliableGtFinal :=
  reject_reliable_gt_final h1 h2 h3 h4 hgt r

/-- NEW_CONNECTION_ID: connection ID length 0 or above 20, and Retire Prior To above the sequence number -/
theorem reject_connection_id {p1 p2 : Bytes} {seq rpt : Nat} (h1 : Decodes p1 seq) (h2 : Decodes p2 rpt) (r : Bytes) :
    (rpt > seq → parseNewConnectionID (p1 ++ p2 ++ r) = .error .retireGtSeq) ∧
    (rpt ≤ seq → ∀ l0 : UInt8, (l0.toNat = 0 ∨ l0.toNat > maxConnIDLen) →
      ∃ e, parseNewConnectionID (p1 ++ p2 ++ l0 :: r) = .error e) := by
  refine ⟨fun hgt => reject_ncid_retire h1 h2 hgt r, fun hle l0 hbad => ?_⟩
  rcases reject_ncid_len h1 h2 hle l0 r hbad with h | h
  · exact ⟨_, h.1⟩
  · exact ⟨_, h.1⟩

/-- frame types not allowed at an encryption level, and unknown / un-negotiated types, are rejected -/
theorem reject_frame_type (c : Ctx) (t : Nat) (r : Bytes) (ht0 : t ≠ 0) (htm : t ≤ maxVarInt8)
    (h : ¬ typeAccepted c t) (hl : c.lvl = 1 ∨ c.lvl = 2 ∨ c.lvl = 3 ∨ c.lvl = 4) :
    decode c (enc t ++ r) = .err .encLevel t ∨ decode c (enc t ++ r) = .err .unknownType t := by
  by_cases hv : (isValidRFC9000 t
      || (c.supportsDatagrams && isDatagramFrameType t)
      || (c.supportsResetStreamAt && decide (t = ftResetStreamAt))
      || (c.supportsAckFrequency && (decide (t = ftAckFrequency) || decide (t = ftImmediateAck)))) = true
  · left
    have hne := allowed_ne_none t c.lvl hl
    cases ha : isAllowedAtEncLevel t c.lvl with
    | none => exact absurd ha hne
    | some v =>
      cases v with
      | true => exact absurd ⟨hv, ha⟩ h
      | false => exact reject_enc_level c t r ht0 htm hv ha
  · right
    exact reject_unknown_type c t r ht0 htm (by simpa using hv)

/-- the regenerated allowed-at-encryption-level table, exhaustively over all 256 one-byte types:
    Initial/Handshake carry only PING, ACK, CRYPTO, CONNECTION_CLOSE(0x1c) (RFC 9000 §12.4) -/
theorem enc_level_table :
    (∀ t ∈ List.range 256, ∀ lvl ∈ [1, 2],
      isAllowedAtEncLevel t lvl = some (decide (t = 1 ∨ t = 2 ∨ t = 3 ∨ t = 6 ∨ t = 0x1c))) ∧
    (∀ t ∈ List.range 256,
      isAllowedAtEncLevel t 3 = some (decide (¬(t = 2 ∨ t = 3 ∨ t = 6 ∨ t = 7 ∨ t = 0x19 ∨ t = 0x1b ∨ t = 0x1c)))
      ∧ isAllowedAtEncLevel t 4 = some true) :=
  ⟨enc_level_table_initial_handshake, enc_level_table_app⟩

/-! ## packet headers -/

open Uquic.Model.Wire.Hdr in
/-- short header: `ParseShortHeader(AppendShortHeader(…) ‖ payload)` returns the packet number
    (truncated to its length), its length and the key phase with valid reserved bits, and consumes
    exactly `ShortHeaderLen` bytes -/
theorem short_header_roundtrip (cid : Bytes) (pn pnLen kp : Nat) (rest : Bytes)
    (hl : 1 ≤ pnLen ∧ pnLen ≤ 4) (hk : kp = keyPhaseZero ∨ kp = keyPhaseOne) :
    ∃ b, appendShortHeader cid pn pnLen kp = some b ∧ b.length = shortHeaderLen cid pnLen ∧
      parseShortHeader (b ++ rest) cid.length =
        .ok { n := shortHeaderLen cid pnLen, pn := pn % 256 ^ pnLen, pnLen := pnLen, keyPhase := kp, reservedOK := true } :=
  shortHeader_roundtrip cid pn pnLen kp rest hl hk

open Uquic.Model.Wire.Hdr in
/-- long header (Initial, 0-RTT, Handshake; QUIC v1 and v2): what `ExtendedHeader.Append` writes has
    exactly `GetLength` bytes, `parseHeader` returns every field and `ParsedLen`, and `ParseExtended`
    returns the packet number (truncated to its length) with valid reserved bits -/
theorem long_header_roundtrip (h : Header) (pn pnLen : Nat) (rest : Bytes)
    (ht : h.ptype = ptInitial ∨ h.ptype = pt0RTT ∨ h.ptype = ptHandshake)
    (hv : h.version = version1 ∨ h.version = version2)
    (hd : h.dest.length ≤ 20) (hs : h.src.length ≤ 20)
    (htok : if h.ptype = ptInitial then h.token.length ≤ maxVarInt8 else h.token = [])
    (hlen : h.length ≤ 16383) (hpn : 1 ≤ pnLen ∧ pnLen ≤ 4) :
    ∃ b first, appendLong h pn pnLen h.version = .ok b ∧ b.length = getLength h pnLen ∧
      parseHeader (b ++ rest) = ({ h with typeByte := first, parsedLen := b.length - pnLen }, none) ∧
      parseExtended (b.length - pnLen) (b ++ rest) =
        some (.ok { pn := pn % 256 ^ pnLen, pnLen := pnLen, parsedLen := b.length, reservedOK := true }) :=
  longHeader_roundtrip h pn pnLen rest ht hv hd hs htok hlen hpn

example : ∃ h : Uquic.Model.Wire.Hdr.Header, h.ptype = Uquic.Model.Wire.Hdr.ptInitial ∧ h.version = Uquic.Model.Wire.Hdr.version2
    ∧ h.token.length = 3 ∧ h.length = 1200 :=
  ⟨{ ptype := 1, version := 0x6b3343cf, token := [1, 2, 3], length := 1200 }, by decide, by decide, rfl, rfl⟩

open Uquic.Model.Wire.Hdr in
/-- Version Negotiation: parsing what `ComposeVersionNegotiation` wrote gives both connection IDs
    (up to 255 bytes, RFC 8999) and the version list back, for every random first byte -/
theorem version_negotiation_roundtrip (randFirst : Nat) (dest src : Bytes) (vs : List Nat)
    (hd : dest.length < 256) (hs : src.length < 256) (hne : vs ≠ []) (hv : ∀ v ∈ vs, v < 2 ^ 32) :
    parseVersionNegotiation (composeVersionNegotiation randFirst dest src vs) = .ok (dest, src, vs) :=
  versionNegotiation_roundtrip randFirst dest src vs hd hs hne hv

/-! ## transport parameters -/

open Uquic.Model.Wire.TP in
/-- stream counts above 2^60, ack_delay_exponent above 20, max_ack_delay ≥ 2^14,
    active_connection_id_limit below 2 and max_udp_payload_size below 1200 are rejected -/
theorem tp_reject_out_of_range (p : Params) {pre : Bytes} {v : Nat} (hd : Decodes pre v) (r : Bytes) :
    (v > 2 ^ 60 → readNumeric p (pre ++ r) idStreamsBidi pre.length = .error .streamsTooLarge
                 ∧ readNumeric p (pre ++ r) idStreamsUni pre.length = .error .streamsTooLarge) ∧
    (v > 20 → readNumeric p (pre ++ r) idAckDelayExponent pre.length = .error .ackDelayExponent) ∧
    (v ≥ 2 ^ 14 → readNumeric p (pre ++ r) idMaxAckDelay pre.length = .error .maxAckDelay) ∧
    (v < 2 → readNumeric p (pre ++ r) idActiveConnectionIDLimit pre.length = .error .activeCIDLimit) ∧
    (v < 1200 → readNumeric p (pre ++ r) idMaxUDPPayloadSize pre.length = .error .udpPayload) :=
  tp_reject_numeric p hd r

open Uquic.Model.Wire.TP in
/-- parameters a client must not send (original_destination_connection_id, stateless_reset_token,
    preferred_address, retry_source_connection_id) are rejected as soon as the loop meets them -/
theorem tp_reject_perspective_forbidden {pid plen : Bytes} {id len : Nat} (hid : Decodes pid id) (hlen : Decodes plen len)
    (hforb : id = idODCID ∨ id = idSRT ∨ id = idPreferredAddress ∨ id = idRSCID) (val r : Bytes) (hv : val.length = len)
    (fuel : Nat) (st : LoopSt) :
    unmarshalLoop perspectiveClient (fuel + 1) (pid ++ plen ++ val ++ r) st = .error .clientSent :=
  tp_reject_client_sent hid hlen hforb val r hv fuel st

open Uquic.Model.Wire.TP in
/-- accepted transport parameters contain no duplicate and the mandatory connection IDs -/
theorem tp_accepted_no_duplicates (b : Bytes) (sentBy : Nat) (p : Params) (h : unmarshal b sentBy false = .ok p) :
    ∃ st : LoopSt, hasDup st.ids = false ∧ st.readISCID = true ∧ (sentBy = perspectiveServer → st.readODCID = true) :=
  tp_unmarshal_ok b sentBy p h

open Uquic.Model.Wire.TP in
/-- totality of transport parameter parsing: the length guard of `readPreferredAddress` (its bound is
    regenerated from the source) covers every fixed-offset read, so on EVERY byte string, from either
    perspective and for session tickets, the parser returns parameters or an error and never indexes
    beyond the declared length (the model's `panic` outcome is unreachable) -/
theorem tp_parse_never_panics (b : Bytes) (sentBy : Nat) (fromTicket : Bool) :
    preferredAddressFixedReads ≤ preferredAddressMinLen ∧
    unmarshal b sentBy fromTicket ≠ .error .panic ∧ unmarshalFromSessionTicket b ≠ .error .panic :=
  ⟨pa_guard_covers_reads, (tp_unmarshal_no_panic b sentBy fromTicket).1, (tp_unmarshal_no_panic b sentBy fromTicket).2⟩

/-- the regenerated allowed-at-encryption-level table IS RFC 9000 §12.4 Table 3 (an independent,
    hand-written reference in `Uquic.Spec.WireMon.rfcTable3`, the same one the `enc_level_rfc` monitor
    uses) for every frame type 0x01 … 0x1e at every level — except at the three documented 0-RTT
    entries `encLevelDeviations` (RETIRE_CONNECTION_ID and CONNECTION_CLOSE 0x1c rejected,
    HANDSHAKE_DONE let through to the connection, which rejects it), where it has exactly the
    documented value. The full equality is stated (`enc_level_table_is_rfc_full`) and refuted at exactly
    those entries. -/
theorem enc_level_table_is_rfc :
    (∀ t ∈ List.range 0x1f, ∀ lvl ∈ [1, 2, 3, 4], t ≠ 0 → isAllowedAtEncLevel t lvl = some (encLevelExpected t lvl)) ∧
    (∀ t ∈ List.range 0x1f, ∀ lvl ∈ [1, 2, 3, 4], t ≠ 0 →
      (isAllowedAtEncLevel t lvl ≠ some (rfcTable3 t lvl) ↔ (t, lvl) ∈ encLevelDeviations)) :=
  ⟨encLevelTable_is_rfc, encLevelTable_is_rfc_witness.2⟩

def enc_level_table_is_rfc_full : Prop := encLevelTable_is_rfc_full

theorem enc_level_table_is_rfc_witness : ¬ enc_level_table_is_rfc_full := encLevelTable_is_rfc_witness.1

end Uquic.Props.C08
