import Uquic.Proofs.WireVarint
namespace Uquic.Props.C08
open Uquic.Model.Wire Uquic.Model.Wire.Varint

/-- varint: every encodable value parses back, consuming exactly `len v` bytes -/
theorem varint_parse_append (v : Nat) (h : v ≤ maxVarInt8) (rest : Bytes) :
    parse (enc v ++ rest) = .ok (v, len v) := Uquic.Proofs.Wire.parse_enc v h rest

end Uquic.Props.C08
