/-
Property C16, continued — the stateless reset tokens registered INSIDE the packet handler map.

`Uquic.Props.C16.tokens_exact` is about the add/remove CALLBACKS of the connection ID manager (a multiset). The
transport keeps the tokens in a Go map (`packetHandlerMap.resetTokens`, transport.go): `AddResetToken` of a token that
is already there leaves one entry, `RemoveResetToken` deletes the entry however often the token was added. `Routing.tokens`
with `addToken` / `removeToken` is the model of that map.

  * `tokens_registered_subset`    (all histories)  the map never holds a token that no connection ID in use carries;
                                                   after `Close` it holds none.
  * `tokens_registered_exact_of_rmSafe` (all histories in which no token is removed while it is registered twice)
                                                   the map holds exactly the tokens of the active and probing IDs.
  * `tokens_registered_exact_partial`  the same under "after every prefix of the history the tokens of the IDs in use
                                                   are pairwise distinct" (RFC 9000 §10.3.2 obliges the peer to that).
  * `tokens_registered_exact_full` / `tokens_registered_exact_witness`: the statement without the hypothesis is FALSE
    for the code as it is: two IDs in use (active + probed path) with one token, the probed path's ID is retired,
    the token of the ACTIVE connection ID is gone from the map (finding C16-shared-reset-token).
-/
import Uquic.Proofs.ConnIDTokSet

namespace Uquic.Props.C16More
open Uquic.Model.ConnID Uquic.Proofs.ConnID

/-- the token registry of the handler map after the manager's callbacks of a history, starting from an empty map -/
def registered (dest : Bytes) (ops : List Op) : List Bytes :=
  (((Manager.new dest).run ops).2.foldl Routing.applyM ({} : Routing)).tokens

/-- the manager's state after a history -/
def after (dest : Bytes) (ops : List Op) : Manager := ((Manager.new dest).run ops).1

/-- The map is a set: no token is held twice. -/
theorem tokens_registered_nodup (dest : Bytes) (ops : List Op) : (registered dest ops).Nodup :=
  foldl_applyM_nodup _ _ (by simp)

/-- After every history the handler map holds no token other than those of the peer connection IDs in use (the active
    one and those assigned to probed paths) — shared tokens or not. -/
theorem tokens_registered_subset (dest : Bytes) (ops : List Op) (hv : ValidRun (Manager.new dest) ops) :
    ∀ t ∈ registered dest ops, t ∈ expectedToks (after dest ops) := by
  intro t ht
  have hs := tokset_subset ((Manager.new dest).run ops).2 [] ({} : Routing) (by simp) t ht
  exact (run_tok (inv_new dest) hv [] (by simp [expectedToks, Manager.new, optToks])).mem_iff.mp hs

/-- After `Close` the handler map holds no stateless reset token of the connection (whatever the peer did). -/
theorem tokens_registered_clean_after_close (dest : Bytes) (ops : List Op) (hv : ValidRun (Manager.new dest) ops)
    (hc : (after dest ops).closed = true) : registered dest ops = [] := by
  apply List.eq_nil_iff_forall_not_mem.mpr
  intro t ht
  have := tokens_registered_subset dest ops hv t ht
  simp [expectedToks, hc] at this

/-- Exactness, tight form: for every history in which no token is removed while it is registered twice, the set of
    tokens in the handler map equals the set of tokens of the peer connection IDs in use. -/
theorem tokens_registered_exact_of_rmSafe (dest : Bytes) (ops : List Op) (hv : ValidRun (Manager.new dest) ops)
    (hs : RmSafe [] ((Manager.new dest).run ops).2) :
    ∀ t, t ∈ registered dest ops ↔ t ∈ expectedToks (after dest ops) := by
  intro t
  have he := tokset_exact ((Manager.new dest).run ops).2 [] ({} : Routing) (by simp) hs t
  exact he.trans (run_tok (inv_new dest) hv [] (by simp [expectedToks, Manager.new, optToks])).mem_iff

/-- the full statement: whatever the peer sends -/
def tokens_registered_exact_full : Prop :=
  ∀ (dest : Bytes) (ops : List Op), ValidRun (Manager.new dest) ops →
    ∀ t, t ∈ registered dest ops ↔ t ∈ expectedToks (after dest ops)

/-- What holds for the code as it is: if after every prefix of the history the stateless reset tokens of the connection
    IDs in use are pairwise distinct, the handler map holds exactly the tokens of the active and the probing IDs. -/
theorem tokens_registered_exact_partial (dest : Bytes) (ops : List Op) (hv : ValidRun (Manager.new dest) ops)
    (hd : ∀ k, (expectedToks (after dest (ops.take k))).Nodup) :
    ∀ t, t ∈ registered dest ops ↔ t ∈ expectedToks (after dest ops) :=
  tokens_registered_exact_of_rmSafe dest ops hv
    (run_rmSafe (inv_new dest) hv hd [] (by simp [expectedToks, Manager.new, optToks]))

/-- the shared-token history: sequence numbers 1 and 2 arrive with the same token `[7]`; 1 is used to probe path 3, the
    handshake completes and `Get` rotates the active ID to 2; then path 3 is given up. -/
def sharedTokenOps : List Op :=
  [.new 1 0 [1] [7] 0, .new 2 0 [2] [7] 0, .hsDone, .path 3, .get 0, .retirePath 3]

theorem sharedTokenOps_valid : ValidRun (Manager.new [9]) sharedTokenOps := by
  simp [sharedTokenOps, ValidRun, OpValid]

/-- what happens: the callbacks are right (`+[7]`, `+[7]`, `-[7]`: one registration is outstanding, for the active ID),
    the map has lost the token -/
theorem sharedTokenOps_effect :
    ((Manager.new [9]).run sharedTokenOps).2 = [.addTok [7], .retire 0, .addTok [7], .retire 1, .rmTok [7]] ∧
    (after [9] sharedTokenOps).activeSeq = 2 ∧ (after [9] sharedTokenOps).activeTok = some [7] ∧
    regAfter [] ((Manager.new [9]).run sharedTokenOps).2 = [[7]] ∧
    registered [9] sharedTokenOps = [] := by decide

/-- The full statement is false: the token of the active connection ID is removed from the handler map when another
    connection ID that carried the same token is retired. -/
theorem tokens_registered_exact_witness : ¬ tokens_registered_exact_full := by
  intro h
  have := (h [9] sharedTokenOps sharedTokenOps_valid [7]).mpr (by decide)
  revert this
  decide

/-- … and the hypothesis of the tight form is exactly what fails there -/
example : ¬ RmSafe [] ((Manager.new [9]).run sharedTokenOps).2 := by decide

/-! ## the hypotheses are satisfiable by non-trivial histories -/

/-- reordering, a duplicate, a Retire Prior To jump, rotation, path probing and retirement, distinct tokens throughout -/
def sampleOps : List Op :=
  [.new 2 0 [2] [2] 0, .new 1 0 [1] [1] 0, .hsDone, .get 7, .path 3, .new 1 0 [1] [1] 0, .new 4 3 [4] [4] 9,
   .new 2 0 [2] [2] 0, .retirePath 3, .new 5 4 [5] [5] 1]

example : ValidRun (Manager.new [9]) sampleOps := by simp [sampleOps, ValidRun, OpValid]

example : ∀ k, (expectedToks (after [9] (sampleOps.take k))).Nodup := by
  intro k
  have : ∀ k, k ≤ sampleOps.length → (expectedToks (after [9] (sampleOps.take k))).Nodup := by decide
  by_cases hk : k ≤ sampleOps.length
  · exact this k hk
  · have hk' : sampleOps.length ≤ k := by omega
    rw [List.take_of_length_le hk']
    exact this sampleOps.length (Nat.le_refl _)

/-- two tokens are in the map in the middle of that history, one at its end -/
example : registered [9] (sampleOps.take 5) = [[1], [2]] ∧ registered [9] sampleOps = [[4]] := by decide

example : RmSafe [] ((Manager.new [9]).run sampleOps).2 := by decide

/-- a shared token is harmless while nothing is removed: the subset statement is not vacuous there -/
example : registered [9] (sharedTokenOps.take 5) = [[7]] ∧
    expectedToks (after [9] (sharedTokenOps.take 5)) = [[7], [7]] := by decide

end Uquic.Props.C16More
