/-
C18, round 4 — the GLUE around the message body: theorems about the models of
`RequestStream.ReadResponse`'s tail, `handleRequestStream`'s body / trailer wiring
(Uquic/Model/H3/RespGlue.lean, run by the end-to-end oracle on every exchange of the h3e driver) and of the
request writer a client connection shares between its streams (Uquic/Model/H3/ReqWriter.lean, tied to
the real requestWriter by the h3w driver).
-/
import Uquic.Props.C18
import Uquic.Model.H3.RespGlue
import Uquic.Proofs.H3ReqWriter

namespace Uquic.Props.C18Glue
open Uquic.Model.H3 Uquic.Model.H3.RespGlue Uquic.Spec.H3Wire Uquic.Proofs.H3 Uquic.Props.C18

/-! ### the client: ReadResponse -/

/-- 1. The limit the response body is created with is the DECLARED Content-Length — whatever the
    status, whether or not the transport asked for gzip and whether or not the response is compressed.
    (`res.ContentLength` is rewritten to -1 for a transparently decompressed response; the limit is not.) -/
theorem response_body_limit_is_declared (i : RespIn) :
    (readResponseTail i).bodyLimit = declInt i.declared := by
  unfold readResponseTail; split <;> rfl

/-- 2. `declared_length_enforced_under_gzip`.  For EVERY response head (any status, gzip asked for or
    not, compressed or not) that declares a Content-Length `cl`, every frame sequence, chunking and
    read-size sequence: the bytes that leave the response body — for a transparently decompressed
    response these are the bytes the decompressor is fed — are a prefix of the DATA payload of length
    at most `cl`; a payload longer than `cl` is reported (`errTooMuchData`), and reads of positive size
    get there.  A further gzip member or any other DATA beyond the declared length can therefore never
    be decompressed into the body. -/
theorem declared_length_enforced_under_gzip (i : RespIn) (cl : Nat) (hd : i.declared = some cl)
    (mh : Nat) (fs : List WFrame) (hok : ∀ f ∈ fs, f.ok)
    (hctl : ∀ f ∈ fs, kindOf f.ty ≠ .settings ∧ kindOf f.ty ≠ .goaway) (hclean : (expect mh false fs).2 = .eof)
    (cells : List (Nat × Bool)) (hcells : cells.map (·.1) = encFrames fs) (ns : List Nat) :
    let body := responseBody i { m := streamOf mh cells }
    (body.readMany ns).2.1.length ≤ cl ∧
    (body.readMany ns).2.1 <+: (expect mh false fs).1 ∧
    (∀ e, (body.readMany ns).2.2 = some e →
        (e = .tooMuchData ∧ cl < (expect mh false fs).1.length) ∨
        (e = .eof ∧ (expect mh false fs).1.length ≤ cl ∧ (body.readMany ns).2.1 = (expect mh false fs).1)) ∧
    (cl < (expect mh false fs).1.length → (∀ n ∈ ns, 0 < n) → (encFrames fs).length < ns.length →
        (body.readMany ns).2.2 = some .tooMuchData) := by
  have hb : responseBody i { m := streamOf mh cells } = bodyOf mh cells cl := by
    simp [responseBody, response_body_limit_is_declared, hd, declInt, bodyOf]
  simp only [hb]
  exact content_length_enforced_partial mh cl fs hok hctl hclean cells hcells ns

/-- the hypotheses are satisfiable, with gzip: Content-Length 2 declared, transparently decompressed,
    three DATA bytes on the stream — two are handed on, then `errTooMuchData` -/
example : ((responseBody { declared := some 2, ceGzip := true, requestedGzip := true }
      { m := streamOf 100 (markChunk (encFrames [⟨0, [65, 66, 67], 0, 0⟩])) }).readMany [5, 5, 5]).2 =
    ([65, 66], some .tooMuchData) := by decide

/-- 3. what the caller of `ReadResponse` sees: the response is decompressed transparently exactly when
    the transport asked for gzip itself and the response says `Content-Encoding: gzip`; then (and only
    then) Content-Encoding and Content-Length are removed, `ContentLength` is -1 and `Uncompressed` is
    set; otherwise both fields stay and `ContentLength` is the declared value (0 for an interim, 204 or
    successful CONNECT response that declares nothing). -/
theorem transparent_gzip_view (i : RespIn) :
    let o := readResponseTail i
    (o.gunzip = (i.requestedGzip && i.ceGzip)) ∧ (o.uncompressed = o.gunzip) ∧
    (o.gunzip = true → o.contentLength = -1 ∧ o.keepContentEncoding = false ∧ o.keepContentLength = false) ∧
    (o.gunzip = false → o.keepContentEncoding = true ∧ o.keepContentLength = true ∧
      (∀ cl, i.declared = some cl → o.contentLength = cl) ∧
      (i.declared = none → o.contentLength = 0 ∨ o.contentLength = -1)) := by
  unfold readResponseTail
  cases hg : (i.requestedGzip && i.ceGzip)
  · refine ⟨by simp, by simp, by simp, fun _ => ⟨by simp, by simp, ?_, ?_⟩⟩
    · intro cl hcl; simp [hcl, declInt]
    · intro hn; simp only [Bool.false_eq_true, ↓reduceIte, hn, Option.isNone_none, Bool.and_true, declInt]
      split <;> simp
  · simp

/-- the transport asks for gzip itself only if compression is not disabled, the request is not a HEAD
    and the caller set neither Accept-Encoding nor Range -/
theorem requested_gzip_iff (dc : Bool) (m : String) (ae rg : Bool) :
    requestedGzip dc m ae rg = true ↔ dc = false ∧ m ≠ "HEAD" ∧ ae = false ∧ rg = false := by
  simp [requestedGzip, and_assoc]

/-! ### the server: handleRequestStream -/

/-- 4. the request body is limited by the declared Content-Length whenever the request carries one -/
theorem request_body_limit (hasCL : Bool) (cl : Int) :
    (hasCL = true → 0 ≤ cl → requestBodyLimit hasCL cl = cl) ∧
    (hasCL = false ∨ cl < 0 → requestBodyLimit hasCL cl = -1) := by
  unfold requestBodyLimit
  constructor
  · intro h1 h2; simp [h1, h2]
  · rintro (h | h)
    · simp [h]
    · have : ¬ cl ≥ 0 := by omega
      simp [this]

/-- 5. `handler_sees_received_trailers`: once the trailer section was read, the handler's `req.Trailer`
    is exactly the decoded section — whatever the Trailer field announced (nothing, some, all, other
    names); before that it is the announcement. -/
theorem handler_sees_received_trailers (announced received : List (String × List String)) :
    handlerTrailer announced (some received) = received ∧ handlerTrailer announced none = announced :=
  ⟨rfl, rfl⟩

/-! ### the shared request writer -/
open Uquic.Model.H3.ReqWriter Uquic.Proofs.H3ReqWriter

/-- 6. `concurrent_header_writes_intact`.  ONE request writer, any number of requests, ANY interleaving
    of "request i is encoded and enters its stream's Write" with "stream j consumes k more bytes of
    the slice it holds" (streams blocked on flow control at arbitrary points, encodings of other
    requests in between): every stream consumes a prefix of the serialisation of ITS OWN request,
    each piece it takes is the matching slice of that serialisation, and when the Write call has
    returned it has consumed exactly that serialisation. -/
theorem concurrent_header_writes_intact (frame : Nat → List Nat) (steps : List Step) (i : Nat) :
    let w := SW.run false frame {} steps
    (w.slot i).got <+: frame i ∧
    (∀ k, (w.slot i).buf.isSome → w.piece false i k = ((frame i).drop (w.slot i).off).take k) ∧
    (w.complete i = true → (w.slot i).got = frame i) := by
  have h := run_inv frame steps {} (inv_init frame) i
  rcases h with ⟨h1, h2, h3⟩ | ⟨h1, h2, h3⟩
  · simp only [SW.piece, SW.complete, h1, h3]
    exact ⟨List.nil_prefix, by simp, by simp⟩
  · simp only [SW.piece, SW.complete, h1, h2]
    refine ⟨List.take_prefix _ _, by simp, ?_⟩
    intro hc
    have : (frame i).length ≤ ((SW.run false frame {} steps).slot i).off := by simpa using hc
    exact List.take_of_length_le this

/-- the hypotheses are satisfiable and the statement has content: two requests, the first stream blocked
    after one byte while the second request is encoded and sent, then the first one drains -/
example : let frame : Nat → List Nat := fun i => if i = 0 then [1, 2, 3, 4] else [9, 8, 7]
    let w := SW.run false frame {} [.enc 0, .take 0 1, .enc 1, .take 1 10, .take 0 10]
    (w.slot 0).got = [1, 2, 3, 4] ∧ (w.slot 1).got = [9, 8, 7] ∧ w.complete 0 = true := by decide

/-- 7. the statement is about the private copy: the same schedule over a writer that hands its scratch
    memory to `Write` (`alias = true`, what reusing one frame buffer across requests amounts to)
    delivers bytes of the second request on the first stream -/
theorem shared_scratch_buffer_witness :
    ∃ (frame : Nat → List Nat) (steps : List Step) (i : Nat),
      (SW.run true frame {} steps).complete i = true ∧ ((SW.run true frame {} steps).slot i).got ≠ frame i :=
  ⟨fun i => if i = 0 then [1, 2, 3, 4] else [9, 8, 7, 6],
   [.enc 0, .take 0 1, .enc 1, .take 1 10, .take 0 10], 0, by decide⟩

end Uquic.Props.C18Glue
