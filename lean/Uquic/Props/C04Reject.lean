/-
Property C04 — nothing of a discarded stream after a 0-RTT rejection.

A resuming client may have queued, during the 0-RTT phase, a RESET_STREAM (CancelWrite), STOP_SENDING (CancelRead) or
MAX_STREAM_DATA on one of its streams.  When the server rejects 0-RTT every stream is discarded and the flow
controllers forget what was sent (`connFlowController.Reset`).  A RESET_STREAM of such a stream that still went out
would carry a final size the server charges against its NEW stream and connection limits while this endpoint no longer
counts those bytes (finding `C04-stale-reset-after-0rtt-rejection`).

The framer model is C13's (`Model.Handshake.FramerReset`, tied to framer.go by driver `rst`); what
`Handle0RTTRejection` does with `streamsWithControlFrames` is read from the source on every run
(`Gen.FramerReject.handle0RTTRejectionClearsStreamControl`).

* `no_control_frame_of_discarded_stream`   UNDER the fact (the repaired handler), over ALL histories of registrations,
                                           control-frame announcements, queued frames, rejections and `Append` calls
                                           before AND after a rejection: a stream-related control frame taken by an
                                           `Append` after the rejection belongs to a stream that announced it after
                                           the rejection.  Full strength: no bound on histories, ids, amounts.
* `nothing_stream_related_right_after_rejection`  UNDER the fact: the first `Append` after the rejection (nothing
                                           announced in between) carries no stream-related control frame at all.
* `discarded_stream_charges_nothing`       UNDER the fact: the final sizes carried by RESET_STREAM frames of discarded
                                           streams after the rejection sum to 0 whatever the streams had sent - the
                                           server's new limits are charged only by streams it sees.
* `unrepaired_handler_sends_stale_reset`   witness (kernel `decide`) for the handler without the clearing: the frame
                                           goes out, and the bytes charged are the discarded stream's.

Tie to the code: monitor `discarded_stream_silent` of the `flowcall` driver (real SendStream / ReceiveStream / framer
of a real resuming client connection: any RESET_STREAM / STOP_SENDING / MAX_STREAM_DATA on the wire for a stream the
rejection discarded) and monitor `control_frame_of_discarded_stream_sent` of C13's `rst` driver.
-/
import Uquic.Props.C13Reset

namespace Uquic.Props.C04Reject

open Uquic.Model.Handshake.FramerReset Uquic.Props.C13Reset

theorem no_control_frame_of_discarded_stream
    (h : Uquic.Gen.FramerReject.handle0RTTRejectionClearsStreamControl = true)
    (before after : List Op) (cp : Nat → Nat) (id : Nat)
    (hs : id ∈ (appendControl (run (before ++ [.reject] ++ after)) cp).2.1) :
    id ∈ ctrlSinceReject (after.reverse ++ [.reject]) :=
  no_control_frame_of_discarded_stream_sent h before after cp id hs

/-- nothing was announced since the rejection: nothing stream-related is sent, whatever the discarded streams had -/
theorem nothing_stream_related_right_after_rejection
    (h : Uquic.Gen.FramerReject.handle0RTTRejectionClearsStreamControl = true)
    (before : List Op) (cp : Nat → Nat) :
    (appendControl (run (before ++ [.reject])) cp).2.1 = [] := by
  have e : run (before ++ [.reject]) = handle0RTTRejection (run before) := by simp [run, applyOp]
  rw [e]
  exact nothing_of_discarded_stream_right_after_rejection h _ cp

/-- flow-control credit charged at the server by the RESET_STREAM frames in `ids` (one per entry), `sent id` being the
final size of stream `id` -/
def charged (sent : Nat → Nat) (ids : List Nat) : Nat := (ids.map sent).foldl (· + ·) 0

/-- UNDER the fact: whatever the discarded streams had sent in 0-RTT, the RESET_STREAM frames in the first `Append`
after the rejection charge nothing against the server's new limits -/
theorem discarded_stream_charges_nothing
    (h : Uquic.Gen.FramerReject.handle0RTTRejectionClearsStreamControl = true)
    (before : List Op) (cp sent : Nat → Nat) :
    charged sent (appendControl (run (before ++ [.reject])) cp).2.1 = 0 := by
  rw [nothing_stream_related_right_after_rejection h before cp]; rfl

/-- the handler without the clearing (the source before the repair): stream 2 sent 57 bytes in 0-RTT and queued its
RESET_STREAM; after the rejection the frame goes out and 57 bytes are charged that this endpoint has forgotten.  With
the clearing: nothing. -/
theorem unrepaired_handler_sends_stale_reset :
    (appendControl (handle0RTTRejectionWith false (addCtrl {} 2)) (fun _ => 1)).2.1 = [2] ∧
    charged (fun _ => 57) (appendControl (handle0RTTRejectionWith false (addCtrl {} 2)) (fun _ => 1)).2.1 = 57 ∧
    charged (fun _ => 57) (appendControl (handle0RTTRejectionWith true (addCtrl {} 2)) (fun _ => 1)).2.1 = 0 := by decide

end Uquic.Props.C04Reject
