/-
Tie theorems, varint length (property C08; also the copies used by the C01 stream-send and C09 uQUIC frame
models): every hand-written `quicvarint.Len` model EQUALS the definition regenerated from quicvarint/varint.go by
the source-to-Lean translator (gofacts/trans.go → Uquic.Generated.TransVarint) on every run.

Range hypotheses (Go: `i uint64`): `0 ≤ i`; for the models that leave out the panic, `i ≤ maxVarInt8 = 2^62-1`
(`varintLen_panics` characterises exactly the inputs on which Go panics).
-/
import Uquic.Generated.TransVarint
import Uquic.Model.Wire.Varint
import Uquic.Model.Stream.Send
import Uquic.Model.UQuic.Frames
import Uquic.Proofs.TransLemmas

namespace Uquic.Props.TransVarint
open Uquic.Proofs.Trans
open Uquic.Gen.TransVarint

/-- C08 wire model (`0` where Go panics, like the translated value def) -/
theorem varintLen_model_is_source (i : Nat) :
    ((Uquic.Model.Wire.Varint.len i : Nat) : Int) = varintLen (i : Int) := by
  have c1 : Uquic.Model.Wire.maxVarInt1 = 63 := by decide
  have c2 : Uquic.Model.Wire.maxVarInt2 = 16383 := by decide
  have c4 : Uquic.Model.Wire.maxVarInt4 = 1073741823 := by decide
  have c8 : Uquic.Model.Wire.maxVarInt8 = 4611686018427387903 := by decide
  unfold Uquic.Model.Wire.Varint.len varintLen
  tie_arith

/-- Go panics exactly above `maxVarInt8`, which is where the C08 model's `fits` fails -/
theorem varintLen_panics_iff (i : Nat) :
    varintLen_panics (i : Int) = true ↔ i > Uquic.Model.Wire.maxVarInt8 := by
  have c8 : Uquic.Model.Wire.maxVarInt8 = 4611686018427387903 := by decide
  unfold varintLen_panics
  tie_arith

/-- the stream-send model's copy (C01), on the range its callers keep -/
theorem varintLen_send_model_is_source (i : Nat) (h : (i : Int) ≤ 4611686018427387903) :
    ((Uquic.Model.Stream.Send.varintLen i : Nat) : Int) = varintLen (i : Int) := by
  have c1 : Uquic.Model.Stream.Send.maxVarInt1 = 63 := by decide
  have c2 : Uquic.Model.Stream.Send.maxVarInt2 = 16383 := by decide
  have c4 : Uquic.Model.Stream.Send.maxVarInt4 = 1073741823 := by decide
  unfold Uquic.Model.Stream.Send.varintLen varintLen
  tie_arith

/-- the uQUIC frame-builder model's copy (C09/C10), on the range its callers keep -/
theorem varintLen_uquic_model_is_source (v : Int) (h : v ≤ 4611686018427387903) :
    Uquic.Model.UQuic.Frames.varintLen v = varintLen v := by
  have c1 : Uquic.Model.UQuic.Frames.maxVarInt1 = 63 := by decide
  have c2 : Uquic.Model.UQuic.Frames.maxVarInt2 = 16383 := by decide
  have c4 : Uquic.Model.UQuic.Frames.maxVarInt4 = 1073741823 := by decide
  unfold Uquic.Model.UQuic.Frames.varintLen varintLen
  tie_arith

/-- for ANY integer: the translated `Len` returns 1 exactly up to 63 … -/
theorem varintLen_eq_one_iff (x : Int) : varintLen x = 1 ↔ x ≤ 63 := by
  unfold varintLen; tie_arith

/-- … and panics exactly above 2^62-1 -/
theorem varintLen_panics_iff_int (x : Int) : varintLen_panics x = true ↔ x > 4611686018427387903 := by
  unfold varintLen_panics; tie_arith

theorem varintLen_panics_false_iff (x : Int) : varintLen_panics x = false ↔ x ≤ 4611686018427387903 := by
  unfold varintLen_panics; tie_arith

theorem varintLen_send_eq_one_iff (n : Nat) : Uquic.Model.Stream.Send.varintLen n = 1 ↔ n ≤ 63 := by
  have c1 : Uquic.Model.Stream.Send.maxVarInt1 = 63 := by decide
  unfold Uquic.Model.Stream.Send.varintLen; tie_arith

example : varintLen 16384 = 4 := by decide

end Uquic.Props.TransVarint
