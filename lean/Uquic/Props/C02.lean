import Uquic.Model.UQuic.Dial
namespace Uquic.Props.C02
theorem placeholder : True := trivial
end Uquic.Props.C02
