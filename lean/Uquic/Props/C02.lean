/-
C02 — every parrot or derived spec yields a working connection, dial after dial; a UTransport without a spec is a
plain Transport.

Property theorems only (helpers in Uquic/Proofs/Dial.lean). The model (Uquic/Model/UQuic/Dial.lean) covers the LOGIC:
per-attempt draws, the `initial_source_connection_id` pipeline including what connection setup writes into the
caller's spec value, the key-share pinning by uTLS, and the server checks that depend on these fields. It follows the
source tree through the regenerated shape facts `Uquic.Gen.Dial.*`; the TLS handshake, loss recovery and the data
transfer are exercised end to end by the `dial` driver, not proved.
-/
import Uquic.Proofs.Dial

namespace Uquic.Props.C02
open Uquic.Model.UQuic.Dial Uquic.Proofs.Dial

/-! ### the tie to the current tree -/

/-- `PopulateFromUQUIC` fills an empty InitialSourceConnectionID entry with the connection's source connection ID -/
theorem tree_populate_writes_back : Uquic.Gen.Dial.populateWritesBack = true := by decide

/-- `newUClientConnection` does not work on the extension objects of the caller's spec value (fix 4b5b79e) -/
theorem tree_spec_not_shared : Uquic.Gen.Dial.specExtsShared = false := by decide

/-- every built-in parrot (the regenerated `QUICID2Spec` table) is a well-formed spec value, and there are some -/
theorem builtins_well_formed : builtins ≠ [] ∧ ∀ s ∈ builtins, wellFormed s = true := by decide

/-! ### 1. the first dial -/

/-- `ServerAccepts` spelled out: the three checks a conformant server applies to the modelled fields -/
theorem server_accepts_iff (f : Flight) :
    ServerAccepts f = true ↔
      (∀ n ∈ f.sizes, minInitialSize ≤ n) ∧ (0 < f.tokLen ∨ minDCIDLen ≤ f.dcidLen) ∧ f.advIscid = some f.hdrScid :=
  serverAccepts_iff f

/-- `first_dial_accepted`: for EVERY well-formed spec value and EVERY draw (source / destination connection ID of the
    prescribed lengths, first-flight datagrams of legal size) the server accepts the flight of the current tree's
    `dial`, and the client holds the private keys of its key shares. -/
theorem first_dial_accepted (s : Spec) (e : DialEnv) (hs : wellFormed s = true) (he : wellFormedEnv s e = true) :
    DialOK (dial s e) = true :=
  connect_ok _ _ s e hs he (Or.inl tree_populate_writes_back)

/-- the same for any of the two shape parameters, as long as the empty entry is filled in (or the SCID is empty) -/
theorem first_dial_accepted_any (sh wb : Bool) (s : Spec) (e : DialEnv) (hs : wellFormed s = true)
    (he : wellFormedEnv s e = true) (hwb : wb = true ∨ s.scidLen = 0) : DialOK (connectWith sh wb s e) = true :=
  connect_ok sh wb s e hs he hwb

/-- what the client believes it advertised is what is on the wire, and it is the long header's SCID -/
theorem own_matches_wire (s : Spec) (e : DialEnv) (hs : wellFormed s = true) :
    (dial s e).2.2.iscid = e.scid ∧ (dial s e).2.1.advIscid = some e.scid ∧ (dial s e).2.1.hdrScid = e.scid := by
  have heff := effIscid_of_wf hs
  simp [dial, connectWith, ownIscid, listedAfter, heff, tree_populate_writes_back]

/-- a Firefox-like spec value (SCID length 3, empty entry listed) and two draws -/
def firefoxLike : Spec :=
  { scidLen := 3, dcidLen := 8, hasQTP := true, iscid := some [], suppIscid := false, ksPinned := false, tokLen := 0 }
def chromeLike : Spec := { firefoxLike with scidLen := 0 }
def draw1 : DialEnv := { scid := [0xba, 0xf5, 0xd0], dcid := [1, 2, 3, 4, 5, 6, 7, 8], sizes := [1357] }
def draw2 : DialEnv := { scid := [0x0a, 0x8f, 0x52], dcid := [8, 7, 6, 5, 4, 3, 2, 1], sizes := [1357, 1357] }
def draw0 (k : Nat) : DialEnv := { scid := [], dcid := [k, 2, 3, 4, 5, 6, 7, 8], sizes := [1250] }

/-- the hypotheses of `first_dial_accepted` are satisfiable by a non-trivial state -/
example : wellFormed firefoxLike = true ∧ wellFormedEnv firefoxLike draw1 = true ∧
    (dial firefoxLike draw1).2.1.advIscid = some [0xba, 0xf5, 0xd0] := by decide

/-- the reject direction is not vacuous: a suppressed or falsified entry, a short DCID, a small datagram are refused -/
example : DialOK (dial { firefoxLike with suppIscid := true } draw1) = false ∧
    DialOK (dial { firefoxLike with iscid := some [0xaa] } draw1) = false ∧
    DialOK (dial firefoxLike { draw1 with dcid := [1, 2, 3] }) = false ∧
    DialOK (dial firefoxLike { draw1 with sizes := [1357, 1100] }) = false := by decide

/-! ### 2. successive dials (and connection attempts) on one spec value -/

/-- Full statement: for every `n`, the `n`-th connection attempt on the spec value the previous attempts left behind
    completes. (Attempts: successive dials, and the attempts of ONE dial that follows a Version Negotiation.) -/
def RedialAcceptedWith (sh wb : Bool) : Prop :=
  ∀ (s : Spec) (es : List DialEnv), wellFormed s = true → (∀ e ∈ es, wellFormedEnv s e = true) →
    ∀ r ∈ runWith sh wb s es, DialOK r = true

/-- … for the current tree -/
def redial_accepted_full : Prop :=
  RedialAcceptedWith Uquic.Gen.Dial.specExtsShared Uquic.Gen.Dial.populateWritesBack

/-- code that sets connections up on a per-connection copy of the extensions satisfies the full statement -/
theorem redial_accepted_of_unshared : RedialAcceptedWith false true := by
  intro s es hs hes r hr
  obtain ⟨e, he, rfl⟩ := run_unshared true s es r hr
  exact connect_ok false true s e hs (hes e he) (Or.inl rfl)

/-- `redial_accepted`: the full statement holds of the current tree (it did not before 4b5b79e, see the witnesses) -/
theorem redial_accepted : redial_accepted_full := by
  unfold redial_accepted_full
  rw [tree_spec_not_shared, tree_populate_writes_back]
  exact redial_accepted_of_unshared

/-- the spec value after any number of attempts is the one the caller built -/
theorem spec_value_unchanged (s : Spec) (es : List DialEnv) :
    specAfter Uquic.Gen.Dial.specExtsShared Uquic.Gen.Dial.populateWritesBack s es = s := by
  rw [tree_spec_not_shared]
  induction es with
  | nil => rfl
  | cons e es ih => simpa [specAfter, connect_unshared_spec] using ih

/-- `redial_witness` (kernel-checked negation for code that works on the spec's own extension objects, i.e. the tree
    before 4b5b79e): the second dial of a Firefox-like spec value advertises the first dial's source connection ID. -/
theorem redial_witness : ¬ RedialAcceptedWith true true := by
  intro h
  have h2 := h firefoxLike [draw1, draw2] (by decide) (by decide)
  revert h2
  decide

/-- the stale value on the wire, concretely: dial 2 carries SCID 0a8f52 in the header and baf5d0 in the ClientHello -/
theorem redial_witness_flight :
    ((runWith true true firefoxLike [draw1, draw2]).map fun r => (r.2.1.hdrScid, r.2.1.advIscid, ServerAccepts r.2.1)) =
      [([0xba, 0xf5, 0xd0], some [0xba, 0xf5, 0xd0], true), ([0x0a, 0x8f, 0x52], some [0xba, 0xf5, 0xd0], false)] := by
  decide

/-- second witness: with an empty SCID (Chrome-like) the server accepts, but the client has pinned key shares without
    private keys — every second attempt fails locally -/
theorem redial_witness_keyshare :
    ((runWith true true chromeLike [draw0 1, draw0 2]).map fun r => (ServerAccepts r.2.1, r.2.2.hasPrivKey)) =
      [(true, true), (true, false)] := by
  decide

/-- `redial_verdict`: with the empty entry filled in, the full statement holds EXACTLY for code that does not work on
    the caller's spec value -/
theorem redial_verdict (sh : Bool) : RedialAcceptedWith sh true ↔ sh = false := by
  cases sh with
  | false => exact ⟨fun _ => rfl, fun _ => redial_accepted_of_unshared⟩
  | true => exact ⟨fun h => absurd h redial_witness, fun h => by cases h⟩

/-- `redial_accepted_partial`: what holds regardless of where setup writes — a fresh spec value per dial always
    completes; and on a reused value with an EMPTY source connection ID (the Chrome parrots) the server side keeps
    accepting every attempt. -/
theorem redial_accepted_partial (sh wb : Bool) (s : Spec) (es : List DialEnv) (hs : wellFormed s = true)
    (hes : ∀ e ∈ es, wellFormedEnv s e = true) (hwb : wb = true ∨ s.scidLen = 0) :
    (∀ e ∈ es, DialOK (connectWith sh wb s e) = true) ∧
    (s.scidLen = 0 → ∀ r ∈ runWith sh wb s es, ServerAccepts r.2.1 = true) := by
  refine ⟨fun e he => connect_ok sh wb s e hs (hes e he) hwb, fun h0 => ?_⟩
  obtain ⟨_, hsup, hisc, _, hd, _, _⟩ := (wellFormed_iff s).1 hs
  exact run_server_accepts_empty_scid sh wb es s h0 hsup hisc hd hes

/-- `writeback_characterisation`: exactly when one attempt changes the caller's spec value — setup works on the
    spec's own extension objects, AND (the key shares were not pinned yet, OR the listed initial_source_connection_id
    entry changes: an empty entry is filled with a non-empty SCID, or a listed entry is suppressed away). -/
theorem writeback_characterisation (sh wb : Bool) (s : Spec) (e : DialEnv) :
    (connectWith sh wb s e).1 ≠ s ↔
      sh = true ∧ (s.ksPinned = false ∨ listedAfter wb s e.scid ≠ s.iscid) :=
  connect_spec_ne_iff sh wb s e

/-- in particular the current tree's dial never changes it, while shared setup changes every fresh value -/
theorem writeback_on_tree (s : Spec) (e : DialEnv) :
    (dial s e).1 = s ∧ (wellFormed s = true → (connectWith true true s e).1 ≠ s) := by
  refine ⟨by simp [dial, tree_spec_not_shared, connectWith], fun hs => ?_⟩
  obtain ⟨_, _, _, hk, _⟩ := (wellFormed_iff s).1 hs
  exact (connect_spec_ne_iff true true s e).2 ⟨rfl, Or.inl hk⟩

/-! ### 3. a UTransport without a spec is a plain Transport -/

/-- `nil_spec_is_plain`: the regenerated shape facts hold (UTransport.doDial's `t.QUICSpec == nil` branch calls
    `newClientConnection` with Transport.doDial's argument list, every other statement of dial/doDial coincides or is
    guarded by `t.QUICSpec != nil`), and under them the model of `UTransport.dial` without a spec makes exactly the
    constructor call `Transport.dial` makes — for every config, `populateConfig`, and every draw. -/
theorem nil_spec_is_plain :
    nilSpecShapeFacts = true ∧
    ∀ (Cfg : Type) (populate : Cfg → Cfg) (i : DialIn Cfg), uDial populate none i = plainDial populate i := by
  refine ⟨by decide, fun _ _ _ => rfl⟩

/-- … and WITH a spec the other constructor is called, with the spec, after the spec's config and packet-number
    overrides (so the statement above is not vacuous) -/
theorem spec_dial_is_uquic (Cfg : Type) (populate : Cfg → Cfg) (s : USpec Cfg) (i : DialIn Cfg) :
    (uDial populate (some s) i).ctor = .uquic ∧ (uDial populate (some s) i).withSpec = true ∧
    (uDial populate (some s) i).conf = s.updateConfig (populate i.conf) ∧
    (uDial populate (some s) i).initialPN = s.initialPN := by
  simp [uDial]

end Uquic.Props.C02
