/-
C10 ∘ C09 — the first Initial flight carries the ClientHello.

C10 (Uquic/Props/C10.lean) proves sizes and offsets of the datagrams of the first flight and leaves
"which ClientHello bytes the CRYPTO frames carry" to C09; C09 (Uquic/Props/C09.lean, C09More.lean)
proves, per datagram, that a builder handed a share of the CRYPTO stream and its base offset returns a
payload that carries the share at that offset. This module composes the two:

* the shares `(base offset, share length)` of the flight are computed with C10's `popLen` — the budget
  of `cryptoBudget` through `PopCryptoFrame` / `MaxDataLen` — datagram after datagram
  (`firstFlightShares`; `shares_tile`: base offset of datagram `i+1` = base offset + share length of
  datagram `i`; `share_is_cryptoLength`: with `CryptoLength` the share is the one of
  `C10.crypto_split_offsets`);
* the payload of each datagram is what C09's model of `MarshalInitialPacketPayload` returns for the
  one CRYPTO frame popped for the share (`flightPayloads`);
* `initial_flight_carries_clienthello`: read by C09's reference reader, the payloads of the flight
  carry exactly the ClientHello's bytes at their absolute offsets, covering `[0, sent)`, where `sent`
  is the end of the last share — all of `[0, |ClientHello|)` when the flight drains the stream.

Helper lemmas: Uquic/Proofs/InitialCompose*.lean.
-/
import Uquic.Props.C10
import Uquic.Props.C09More
import Uquic.Proofs.InitialComposeMarshal
import Uquic.Proofs.InitialComposePop

namespace Uquic.Props.C10Compose
open Uquic.Spec.Framing Uquic.Spec.FramingMon Uquic.Model.UQuic.Frames
open Uquic.Proofs.Frames Uquic.Proofs.FramesMore Uquic.Proofs.Compose
open Uquic.Model

/-- the shares of the first flight of a dial with random stream `s`: header lengths from C10's `hdrOf`
    (connection IDs, token and per-packet packet-number length of datagram `i`), plan `planOf spec i`,
    `L` bytes of ClientHello, the connection's maximum packet size `maxSize` -/
def firstFlightShares (spec : Initial.Spec) (s : Nat → Nat) (tokOff maxSize L : Nat) : List (Nat × Nat) :=
  flightShares spec (fun i => (Initial.hdrOf spec s tokOff i).len) maxSize L 0 0 L

/-- number of ClientHello bytes the flight sends -/
def sent (spec : Initial.Spec) (s : Nat → Nat) (tokOff maxSize L : Nat) : Nat :=
  sharesEnd 0 (firstFlightShares spec s tokOff maxSize L)

/-- C10 side: the shares are consecutive and non-empty from offset 0 (base offset of datagram `i+1` =
    base offset of datagram `i` + share length of datagram `i`) and stay inside the ClientHello -/
theorem shares_tile (spec : Initial.Spec) (s : Nat → Nat) (tokOff maxSize L : Nat) :
    SharesFrom 0 (firstFlightShares spec s tokOff maxSize L) (sent spec s tokOff maxSize L) ∧
      sent spec s tokOff maxSize L ≤ L := by
  have := flightShares_chain spec (fun i => (Initial.hdrOf spec s tokOff i).len) maxSize L 0 0 L
  simpa [firstFlightShares, sent] using this

/-- C10 side: the flight drains the ClientHello when no datagram is stuck (every `popLen` on a
    non-empty remainder is positive — the oracle's `pop:stuck` tag never fires) -/
theorem shares_drain (spec : Initial.Spec) (s : Nat → Nat) (tokOff maxSize L : Nat)
    (hprog : ∀ i off remaining, 0 < remaining →
      0 < Initial.popLen spec (Initial.planOf spec i) (Initial.hdrOf spec s tokOff i).len off remaining maxSize) :
    sent spec s tokOff maxSize L = L := by
  have := flightShares_drains spec (fun i => (Initial.hdrOf spec s tokOff i).len) maxSize hprog L 0 0 L (Nat.le_refl _)
  simpa [firstFlightShares, sent] using this

/-- C10 side: with `CryptoLength = c` for datagram `i` (hypotheses of `C10.crypto_split_offsets`) its
    share is exactly `(off, c)` and the next datagram starts at `off + c` -/
theorem share_is_cryptoLength (spec : Initial.Spec) (hdrLenOf : Nat → Nat) (maxSize fuel i off remaining : Nat)
    (hc : 0 < (Initial.planOf spec i).cryptoLength) (hc2 : (Initial.planOf spec i).cryptoLength < 16384)
    (hfit : hdrLenOf i + Initial.cryptoFrameLen off (Initial.planOf spec i).cryptoLength < maxSize - Initial.tagLen)
    (hrem : (Initial.planOf spec i).cryptoLength ≤ remaining) :
    flightShares spec hdrLenOf maxSize (fuel + 1) i off remaining =
      (off, (Initial.planOf spec i).cryptoLength) ::
        flightShares spec hdrLenOf maxSize fuel (i + 1) (off + (Initial.planOf spec i).cryptoLength)
          (remaining - (Initial.planOf spec i).cryptoLength) := by
  have h := Uquic.Props.C10.crypto_split_offsets spec (Initial.planOf spec i) (hdrLenOf i) off remaining maxSize hc hc2 hfit hrem
  have h' : Initial.popLen spec (Initial.planOf spec i) (hdrLenOf i) off remaining maxSize =
      (Initial.planOf spec i).cryptoLength := by omega
  simp only [flightShares, h']
  rw [if_neg (by omega)]

/-- C09 side of the shares: on C09's model of the CRYPTO stream (plain: uQUIC disables ClientHello
    scrambling when a spec dictates the framing) holding the ClientHello, the packer's loop — datagram `i`
    calls `PopCryptoFrame` with the budget `cryptoBudget − header` C10 computes at the current offset —
    releases exactly one CRYPTO frame `(base offset, CH[base, base+share))` per share of
    `firstFlightShares`, in order. These are the frames `flightPayloads` hands to the builder. -/
theorem popped_frames_are_shares (spec : Initial.Spec) (s : Nat → Nat) (tokOff maxSize : Nat) (CH : List UInt8) :
    flightPops spec (fun i => (Initial.hdrOf spec s tokOff i).len) maxSize CH.length 0 0
        ((Uquic.Model.UQuic.Scrambler.write Uquic.Model.UQuic.Scrambler.newBase CH ⟨0, 0, 0, 0⟩).1) =
      (firstFlightShares spec s tokOff maxSize CH.length).map (frameOfShare CH) := by
  have := flightPops_eq_shares spec (fun i => (Initial.hdrOf spec s tokOff i).len) maxSize CH CH.length 0 0
    ((Uquic.Model.UQuic.Scrambler.write Uquic.Model.UQuic.Scrambler.newBase CH ⟨0, 0, 0, 0⟩).1) (Nat.zero_le _)
    (by simp [Uquic.Model.UQuic.Scrambler.write, Uquic.Model.UQuic.Scrambler.newBase])
    (by simp [Uquic.Model.UQuic.Scrambler.write, Uquic.Model.UQuic.Scrambler.newBase])
    (by simp [Uquic.Model.UQuic.Scrambler.write, Uquic.Model.UQuic.Scrambler.newBase])
  simpa [firstFlightShares] using this

/-- **The first Initial flight carries the ClientHello.** For every spec whose frame builder is one of
    the per-datagram builders proved in C09 (nil / empty QUICFrames pass-through, a QUICFrames layout,
    QUICRandomFrames, QUICMultiDatagramFrames), every ClientHello `CH`, every random stream of the dial,
    every maximum packet size, and per datagram every crypto/rand draw and every shuffle witness:
    if the datagrams' payloads `ps` are built (C09's `marshalInitial` on the CRYPTO frame popped with
    C10's `popLen` budget for each datagram), then there is one payload per share, datagram `k` carries
    share `k` at its base offset, and — read by the reference reader `Spec.Framing.carries` — the
    payloads of the flight carry exactly the bytes of `CH` at their absolute offsets, covering
    `[0, sent)`; the complete ClientHello `[0, |CH|)` when the flight drains it. -/
theorem initial_flight_carries_clienthello (spec : Initial.Spec) (fb : Builder)
    (_hfb : toBuilder spec.builder = some fb) (CH : List UInt8) (s : Nat → Nat) (tokOff maxSize : Nat)
    (rand : Nat → Draws × List Nat) (ps : List (List UInt8))
    (hrep : CH.length ≤ maxVarInt8)
    (hfit : ∀ sh ∈ firstFlightShares spec s tokOff maxSize CH.length, ShareFits fb sh)
    (hbuild : flightPayloads fb CH rand 0 0 (firstFlightShares spec s tokOff maxSize CH.length) = .ok ps) :
    ps.length = (firstFlightShares spec s tokOff maxSize CH.length).length ∧
    EachCarries CH (firstFlightShares spec s tokOff maxSize CH.length) ps ∧
    carries (CH.take (sent spec s tokOff maxSize CH.length)) 0 ps = true ∧
    (sent spec s tokOff maxSize CH.length = CH.length → carries CH 0 ps = true) := by
  obtain ⟨hch, hle⟩ := shares_tile spec s tokOff maxSize CH.length
  obtain ⟨heach, hlen⟩ := flightPayloads_each fb CH rand hrep _ 0 0 0 _ ps hch hle hfit hbuild
  have hc := carries_flight CH _ ps 0 _ hch hle heach
  simp only [List.drop_zero, Nat.sub_zero] at hc
  refine ⟨hlen, heach, hc, ?_⟩
  intro hd
  rw [hd, List.take_length] at hc
  exact hc

/-- the side condition `ShareFits` is void for the randomised builders -/
theorem shareFits_random (c : RFCfg) (sh : Nat × Nat) : ShareFits (.random c) sh := trivial

theorem shareFits_multi (per : List RFCfg) (sh : Nat × Nat) : ShareFits (.multi per) sh := trivial

/-- … and for the pass-through path it holds of every share of a ClientHello of at most 65536 bytes
    (`QUICFrames.build` rebases on `min(MaxUint16, offset)`: see `passThrough_beyond_64k`) -/
theorem shareFits_passThrough (spec : Initial.Spec) (s : Nat → Nat) (tokOff maxSize L : Nat) (hL : L ≤ 65536) :
    ∀ sh ∈ firstFlightShares spec s tokOff maxSize L, ShareFits .none sh ∧ ShareFits (.frames []) sh := by
  intro sh hsh
  obtain ⟨hch, hle⟩ := shares_tile spec s tokOff maxSize L
  have := hch.mem sh hsh
  have h1 : sh.1 ≤ 65535 := by omega
  exact ⟨h1, by simp [ShareFits, h1]⟩

/-- Complete form for the randomised builders (the built-in Chrome parrots): no side condition but
    progress of the packer. -/
theorem initial_flight_carries_clienthello_random (spec : Initial.Spec) (rf : Initial.RF)
    (hb : spec.builder = .random rf) (CH : List UInt8) (s : Nat → Nat) (tokOff maxSize : Nat)
    (rand : Nat → Draws × List Nat) (ps : List (List UInt8)) (hrep : CH.length ≤ maxVarInt8)
    (hprog : ∀ i off remaining, 0 < remaining →
      0 < Initial.popLen spec (Initial.planOf spec i) (Initial.hdrOf spec s tokOff i).len off remaining maxSize)
    (hbuild : flightPayloads (.random (toRFCfg rf)) CH rand 0 0
      (firstFlightShares spec s tokOff maxSize CH.length) = .ok ps) :
    carries CH 0 ps = true :=
  (initial_flight_carries_clienthello spec (.random (toRFCfg rf)) (by rw [hb]; rfl) CH s tokOff maxSize rand ps hrep
    (fun sh _ => shareFits_random _ sh) hbuild).2.2.2 (shares_drain spec s tokOff maxSize CH.length hprog)

/-- The flight on the wire: `appendInitialPacketPayload` appends PADDING inside the AEAD (exact-size
    fill, sample minimum); whatever the amounts `ks`, the padded payloads carry the same. -/
theorem initial_flight_padded_carries {CH : List UInt8} {ps : List (List UInt8)} (ks : List Nat)
    (h : carries CH 0 ps = true) : carries CH 0 (padded ps ks) = true := carries_padded ks h

/-- … and the plaintext C10's `assemble` lays out for a datagram is its header followed by exactly such
    a padded payload (bytes as numbers, as C10's observer reads them) -/
theorem assembled_payload_is_padded (h : Initial.Hdr) (p : List UInt8) (plan : Initial.Plan) (udpMin cap : Nat)
    (out : Initial.Out) (hok : Initial.assemble h (p.map UInt8.toNat) plan udpMin cap = .ok out) :
    out.plain = h.bytes out.lengthField ++
      (p ++ List.replicate (Initial.innerPad plan h.len h.pnLen p.length) 0).map UInt8.toNat := by
  have := (Uquic.Proofs.Initial.assemble_ok _ _ _ _ _ _ hok).2.2.2.2.2.2
  rw [this]
  simp

/-- Outside the property, observed while composing: on the pass-through path (nil FrameBuilder / empty
    QUICFrames) a CRYPTO frame popped at a stream offset above MaxUint16 loses its data —
    `QUICFrames.build` starts its minimum search at `math.MaxUint16`, so the frame `{70000, 3}` is
    rebased on 65535 instead of 70000 and announces an empty range. Unreachable for a ClientHello
    (< 64 KiB); it is why `ShareFits` bounds the base offset on that path. -/
theorem passThrough_beyond_64k :
    marshalInitial .none 0 false [(70000, [1, 2, 3])] ⟨[], true⟩ [] = .ok ([6, 128, 1, 17, 112, 0], 1) := by
  decide

/-! ### non-vacuity -/

/-- a spec with QUICRandomFrames{CRYPTO 1..3, PING 0..2, no Length} and `CryptoLength` 3 per datagram,
    8-byte DCID; an 8-byte "ClientHello" goes out in three datagrams with shares (0,3), (3,3), (6,2) -/
def demoSpec : Initial.Spec :=
  { dcidLen := 8, pnLen1 := 1, builder := .random { minPing := 0, maxPing := 2, minCrypto := 1, maxCrypto := 3 },
    plans := [{ cryptoLength := 3 }] }

def demoCH : List UInt8 := [1, 0, 0, 4, 10, 11, 12, 13]

example : firstFlightShares demoSpec (fun _ => 0) 0 1280 8 = [(0, 3), (3, 3), (6, 2)] := by decide

example : sent demoSpec (fun _ => 0) 0 1280 8 = 8 := by decide

/-- the payloads for an all-zero reader and the identity / a swapping shuffle -/
example : flightPayloads (.random (toRFCfg { minPing := 0, maxPing := 2, minCrypto := 1, maxCrypto := 3 })) demoCH
    (fun i => (⟨[], true⟩, if i = 1 then [0] else [0])) 0 0 [(0, 3), (3, 3), (6, 2)] =
    .ok [[6, 0, 3, 1, 0, 0], [6, 3, 3, 4, 10, 11], [6, 6, 2, 12, 13]] := by decide

/-- … so, by the theorem (all hypotheses discharged by evaluation), they carry the ClientHello -/
example : carries demoCH 0 [[6, 0, 3, 1, 0, 0], [6, 3, 3, 4, 10, 11], [6, 6, 2, 12, 13]] = true :=
  (initial_flight_carries_clienthello demoSpec _ rfl demoCH (fun _ => 0) 0 1280
    (fun i => (⟨[], true⟩, if i = 1 then [0] else [0])) _ (by decide) (fun sh _ => shareFits_random _ sh)
    (by decide)).2.2.2 (by decide)

/-- the frames popped from C09's stream model with C10's budgets -/
example : flightPops demoSpec (fun i => (Initial.hdrOf demoSpec (fun _ => 0) 0 i).len) 1280 8 0 0
    ((Uquic.Model.UQuic.Scrambler.write Uquic.Model.UQuic.Scrambler.newBase demoCH ⟨0, 0, 0, 0⟩).1) =
    [(0, [1, 0, 0]), (3, [4, 10, 11]), (6, [12, 13])] := by decide

/-- the share of datagram 0 is the `CryptoLength` of `crypto_split_offsets` -/
example : flightShares demoSpec (fun i => (Initial.hdrOf demoSpec (fun _ => 0) 0 i).len) 1280 8 0 0 8 =
    (0, 3) :: flightShares demoSpec (fun i => (Initial.hdrOf demoSpec (fun _ => 0) 0 i).len) 1280 7 1 3 5 :=
  share_is_cryptoLength demoSpec _ 1280 7 0 0 8 (by decide) (by decide) (by decide) (by decide)

/-- a QUICFrames layout {PING, CRYPTO{0,0}} fits every share: it tiles any length from offset 0 -/
example : ShareFits (.frames [.ping, .crypto 0 0]) (3, 5) := by
  refine ⟨by decide, by decide, ?_⟩
  intro off len hm
  have : off = 0 := by simp at hm; exact hm.1
  rw [this, maxVarInt8_eq]; omega

end Uquic.Props.C10Compose
