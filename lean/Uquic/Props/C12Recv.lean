/-
Property C12, continued — "silence just below the advertised idle timeout" on the WIRE.

`Uquic.Props.C12Glue.no_idle_close_before_promised` counts from the receive time the connection was handed. This
module adds the step in front of it: the receive time is a stamp taken where the datagram is read off the socket
(`Uquic.Model.UQuic.RecvTime`: sys_conn.go / sys_conn_oob.go `ReadPacket`). Because the clock is read after the
blocking read returned, the stamp is never before the arrival of the datagram — so the client does not close before
(ARRIVAL of the last packet + the timeout the peer may count on), for every history, every peer value, every PTO.
Reading the clock before the blocking read ("one clock reading per batch") breaks exactly this: a witness history
where the peer speaks 2 s into a 3 s timeout and is timed out 1 s later.

The tie to the Go code is the `rcvtime` driver (real loopback sockets): the stamp of every packet, at the socket
wrapper and at `Conn.lastPacketReceivedTime`, is compared with the instant before the datagram was written.
-/
import Uquic.Props.C12Glue
import Uquic.Model.UQuic.RecvTime

namespace Uquic.Props.C12Recv
open Uquic.Model.UQuic.Limits Uquic.Model.UQuic.LimitsGlue Uquic.Model.UQuic.RecvTime

/-- **stamp_not_before_arrival.** -/
theorem stamp_not_before_arrival (r : ReadCall) (h : r.wf) : r.arrival ≤ stamp r := h.2

/-- … and not in the future of the instant the packet is handed on -/
theorem stamp_not_after_return (r : ReadCall) : stamp r ≤ r.returned := Int.le_refl _

/-- **no_idle_close_before_promised_on_the_wire.** The client advertised an idle timeout its Config covers; the last
    datagram of the peer ARRIVED at `r.arrival`; whatever happened before and whatever the client sent afterwards:
    the idle deadline is not before arrival + the timeout the peer may count on. -/
theorem no_idle_close_before_promised_on_the_wire (advIdle cfgIdle peerIdle pto3 : Int) (r : ReadCall) (hr : r.wf)
    (before sents : List WireEv) (hs : ∀ e ∈ sents, ∃ t' ae, e = .sent t' ae) (ha : 0 < advIdle) (hc : advIdle ≤ cfgIdle) :
    match promisedIdle advIdle peerIdle with
    | some p => r.arrival + p ≤
        (Idle.run {} ((before ++ [WireEv.rcvd r] ++ sents).map (toIdle stamp))).deadline
          (if peerIdle > 0 then min cfgIdle peerIdle else cfgIdle) pto3
    | none => False := by
  have hs' : ∀ e ∈ sents.map (toIdle stamp), ∃ t' ae, e = IdleEv.sent t' ae := by
    intro e he
    obtain ⟨w, hw, rfl⟩ := List.mem_map.mp he
    obtain ⟨t', ae, rfl⟩ := hs w hw
    exact ⟨t', ae, rfl⟩
  have h := Uquic.Props.C12Glue.no_idle_close_before_promised advIdle cfgIdle peerIdle pto3 (stamp r)
    (before.map (toIdle stamp)) (sents.map (toIdle stamp)) hs' ha hc
  have harr := stamp_not_before_arrival r hr
  simp only [List.map_append, List.map_cons, List.map_nil, toIdle]
  revert h
  cases promisedIdle advIdle peerIdle with
  | none => exact id
  | some p => intro h; simp only [] at h ⊢; omega

example : ({ issued := 0, arrival := 2000, returned := 2001 } : ReadCall).wf := by decide

/-- **stamp_at_issue_times_out_a_live_peer.** Had the clock been read when the blocking read was issued: the peer
    speaks 2000 ms into an advertised 3000 ms, the read had been waiting since 0 — the deadline is 3000, one second
    after the peer spoke, although it may count on 5000. -/
theorem stamp_at_issue_times_out_a_live_peer :
    ∃ (r : ReadCall), r.wf ∧ promisedIdle 3000 0 = some 3000 ∧
      ¬ (r.arrival + 3000 ≤ (Idle.run {} ([WireEv.rcvd r].map (toIdle stampAtIssue))).deadline 3000 0) ∧
      r.arrival + 3000 ≤ (Idle.run {} ([WireEv.rcvd r].map (toIdle stamp))).deadline 3000 0 :=
  ⟨{ issued := 0, arrival := 2000, returned := 2000 }, by decide, by decide, by decide, by decide⟩

end Uquic.Props.C12Recv
