/-
Property C08 — wire codecs: the `FrameParser` OBJECT (round 4).

The first rounds proved what ONE parse returns under a given context (`Uquic.Props.C08`).  A connection
owns one `wire.FrameParser` for its whole life and for all packet number spaces; the context of a parse
is the parser's configuration at that moment.  These theorems are about the object
(`Uquic/Model/Wire/Parser.lean`, driven on the real `FrameParser` by the `wire` correspondence driver
with `setexp` ops and `dec … = …` ops that do not touch the exponent before parsing):

* no parse writes the configuration (`parse_keeps_configuration`, `run_configuration`);
* the result of a parse depends on the history of calls only through the LAST `SetAckDelayExponent`
  (`parse_after_history`), in particular not on the frames parsed before, at whatever encryption level
  (`parse_history_independent`);
* Initial / Handshake / 0-RTT parses do not read the negotiated exponent at all
  (`non_1rtt_ignores_exponent`) — and 1-RTT parses do (`one_rtt_reads_exponent`, witness).
-/
import Uquic.Model.Wire.Parser

namespace Uquic.Props.C08Parser
open Uquic.Model.Wire Uquic.Model.Wire.Parser

/-- `ParseType` / `Parse…Frame` leave the parser's configuration (flags and ACK delay exponent) as it was. -/
theorem parse_keeps_configuration (p : Parser) (lvl : Nat) (b : Bytes) : (p.parse lvl b).1 = p := rfl

/-- … and return what `decode` returns under that configuration. -/
theorem parse_eq_decode (p : Parser) (lvl : Nat) (b : Bytes) : (p.parse lvl b).2 = decode (p.ctx lvl) b := rfl

/-- After ANY sequence of calls the flags are the ones given to `NewFrameParser` and the exponent is the
    argument of the last `SetAckDelayExponent` (or the initial one). -/
theorem run_configuration (p : Parser) (cs : List Call) :
    (run p cs).1 = { p with ackDelayExponent := lastExp p.ackDelayExponent cs } := by
  induction cs generalizing p with
  | nil => rfl
  | cons c cs ih =>
    cases c with
    | setExp e => simp only [run, lastExp]; rw [ih]; rfl
    | parse lvl b => simp only [run, lastExp, Parser.parse]; rw [ih]

/-- `parse_after_history`: the result of a parse that follows an arbitrary history `cs` of
    `SetAckDelayExponent` and parse calls (any bytes, any encryption levels, accepted or rejected) is
    `decode` under the original flags and the exponent of the LAST `SetAckDelayExponent`; the earlier
    results are not disturbed. -/
theorem parse_after_history (p : Parser) (cs : List Call) (lvl : Nat) (b : Bytes) :
    (run p (cs ++ [.parse lvl b])).2
      = (run p cs).2 ++ [decode (({ p with ackDelayExponent := lastExp p.ackDelayExponent cs } : Parser).ctx lvl) b] := by
  induction cs generalizing p with
  | nil => rfl
  | cons c cs ih =>
    cases c with
    | setExp e => simp only [List.cons_append, run, lastExp]; rw [ih]; rfl
    | parse l0 b0 => simp only [List.cons_append, run, lastExp, Parser.parse]; rw [ih]

/-- a history without `SetAckDelayExponent` -/
def parsesOnly : List Call → Bool
  | [] => true
  | .setExp _ :: _ => false
  | .parse _ _ :: cs => parsesOnly cs

theorem lastExp_parsesOnly (e : Nat) (cs : List Call) (h : parsesOnly cs = true) : lastExp e cs = e := by
  induction cs with
  | nil => rfl
  | cons c cs ih =>
    cases c with
    | setExp _ => simp [parsesOnly] at h
    | parse _ _ => simpa [lastExp] using ih (by simpa [parsesOnly] using h)

/-- `parse_history_independent`: identical bytes at the same level parse to the same result whatever
    frames the parser has parsed in between (this is what breaks when a parse at one encryption level
    writes a field a later parse at another level reads). -/
theorem parse_history_independent (p : Parser) (cs : List Call) (h : parsesOnly cs = true) (lvl : Nat) (b : Bytes) :
    (run p (cs ++ [.parse lvl b])).2.getLast? = some (p.parse lvl b).2 := by
  rw [parse_after_history, lastExp_parsesOnly _ _ h]
  simp [Parser.parse]

/-- `ParseType` does not read the exponent -/
theorem parseTypeAux_exp (c : Ctx) (e : Nat) : ∀ (fuel : Nat) (b : Bytes) (parsed : Nat),
    parseTypeAux { c with ackDelayExponent := e } fuel b parsed = parseTypeAux c fuel b parsed := by
  intro fuel
  induction fuel with
  | zero => intro b parsed; rfl
  | succ n ih =>
    intro b parsed
    simp only [parseTypeAux, ih]

/-- `non_1rtt_ignores_exponent`: in Initial, Handshake and 0-RTT packets the ACK Delay field is scaled
    with the default exponent (RFC 9000 §18.2: the negotiated one applies to 1-RTT only), so the whole
    result of a parse below 1-RTT is independent of what `SetAckDelayExponent` stored. -/
theorem non_1rtt_ignores_exponent (p : Parser) (e lvl : Nat) (b : Bytes) (h : lvl ≠ encryption1RTT) :
    ((p.setAckDelayExponent e).parse lvl b).2 = (p.parse lvl b).2 := by
  simp only [Parser.parse, Parser.setAckDelayExponent, Parser.ctx, decode, parseType]
  have ht := parseTypeAux_exp (p.ctx lvl) (e % 256) (b.length + 1) b 0
  simp only [Parser.ctx] at ht
  rw [ht]
  simp only [parseBody, h, ne_eq, not_false_eq_true, if_true]

/-- the three levels below 1-RTT are covered by the hypothesis -/
example : (1 : Nat) ≠ encryption1RTT ∧ (2 : Nat) ≠ encryption1RTT ∧ (3 : Nat) ≠ encryption1RTT := by decide

/-- `one_rtt_reads_exponent` (witness that the statement above is sharp and the object's state matters):
    the ACK frame `02 0a 08 00 00` (largest 10, delay 8) at 1-RTT is 64 µs under exponent 3 and 256 µs under
    exponent 5, also after a Handshake ACK has been parsed in between. -/
theorem one_rtt_reads_exponent :
    let ack : Bytes := [0x02, 0x0a, 0x08, 0x00, 0x00]
    let p := (Parser.new true true true).setAckDelayExponent 5
    (run p [.parse 4 ack, .parse 2 ack, .parse 4 ack]).2
      = [.frame (.ack [(10, 10)] 256000 0 0 0) 5, .frame (.ack [(10, 10)] 64000 0 0 0) 5, .frame (.ack [(10, 10)] 256000 0 0 0) 5] := by
  decide +kernel

end Uquic.Props.C08Parser
