/-
C09 — Initial CRYPTO framing always carries the complete ClientHello at true offsets.
(theorems are added below; see Uquic/Proofs/Frames*.lean for the helper lemmas)
-/
import Uquic.Spec.Framing
import Uquic.Model.UQuic.Frames
import Uquic.Model.UQuic.Scrambler

namespace Uquic.Props.C09

end Uquic.Props.C09
