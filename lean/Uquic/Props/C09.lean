/-
C09 — Initial CRYPTO framing always carries the complete ClientHello at true offsets.

Property theorems only (helper lemmas: Uquic/Proofs/Frames*.lean). The reference predicate
`carries` / `carriesAt` and the strict frame reader live in Uquic/Spec/Framing.lean; the models of
the Go builders in Uquic/Model/UQuic/Frames.lean and Scrambler.lean. All statements quantify over
ALL ClientHello contents, configurations, base offsets, scripted crypto/rand draws and shuffle
witnesses. The varint bounds come from the regenerated `Uquic.Gen.Frames` constants.
-/
import Uquic.Proofs.FramesFlightTotal
import Uquic.Proofs.FramesStream
import Uquic.Proofs.FramesAppend
import Uquic.Proofs.FramesPlanned

namespace Uquic.Props.C09
open Uquic.Spec.Framing Uquic.Model.UQuic.Frames Uquic.Model.UQuic.Scrambler
open Uquic.Proofs.Frames Uquic.Proofs.Stream

/-! ## the reference reader inverts the serialisers (`readFrames_append`-style lemmas) -/

theorem reader_inverts_varint {v : Nat} {enc : List UInt8} (h : appendVarint v = some enc) (rest : List UInt8) :
    readVarint (enc ++ rest) = some (v, rest) := readVarint_appendVarint h rest

theorem reader_reads_crypto {off : Nat} {a b : List UInt8} (data rest : List UInt8)
    (ha : appendVarint off = some a) (hb : appendVarint data.length = some b) :
    readFrames ([6] ++ a ++ b ++ data ++ rest) = (readFrames rest).map (Frame.crypto off data :: ·) :=
  readFrames_crypto data rest ha hb

theorem reader_reads_padding (k : Nat) (rest : List UInt8) :
    readFrames (List.replicate k 0 ++ rest) = (readFrames rest).map (List.replicate k Frame.padding ++ ·) :=
  readFrames_paddings k rest

/-- `readFrames_append`: the reference reader is compositional -/
theorem reader_append {a : List UInt8} {fa : List Frame} (h : readFrames a = some fa) (b : List UInt8) :
    readFrames (a ++ b) = (readFrames b).map (fa ++ ·) := readFrames_append h b

/-- the frame type bytes the builders hard-code are the wire package's CRYPTO and PING types -/
theorem builder_frame_types : Uquic.Gen.Frames.FrameTypeCrypto = 6 ∧ Uquic.Gen.Frames.FrameTypePing = 1 := by
  decide

/-! ## validateInitialFlight -/

/-- what validateInitialFlight establishes for ARBITRARY payloads (user-supplied flight builders
    included): the CRYPTO ranges its frame reader reported lie in the stream and cover all of it -/
theorem validate_ok_covers {ps : List (List UInt8)} {budgets : List Int} {n : Int} {rs : List (Nat × Nat)}
    (h : validate ps budgets n = .ok rs) :
    0 ≤ n ∧ ps ≠ [] ∧ lenientRanges ps = some rs ∧ (∀ r ∈ rs, r.1 + r.2 ≤ n.toNat) ∧
      ∀ i, i < n.toNat → ∃ r ∈ rs, r.1 ≤ i ∧ i < r.1 + r.2 := validate_ok h

/-- the full statement one would like: acceptance implies `carries` for arbitrary payloads -/
def validate_sound_full : Prop :=
  ∀ (src : List UInt8) (ps : List (List UInt8)) (budgets : List Int) (rs : List (Nat × Nat)),
    validate ps budgets src.length = .ok rs → carries src 0 ps = true

/-- It is false of the unchanged code for user-supplied builders: validateInitialFlight is not given
    the ClientHello bytes, so a CRYPTO frame with wrong data passes. (Built-in builders never emit
    one: `flight_carries` below.) -/
theorem validate_sound_witness : ¬ validate_sound_full := by
  intro h
  have hv : validate [[6, 0, 1, 255]] [20000] ([0] : List UInt8).length = .ok [(0, 1)] := by decide
  have hc := h [0] [[6, 0, 1, 255]] [20000] [(0, 1)] hv
  have hr : readFrames [6, 0, 1, 255] = some [Frame.crypto 0 [255]] := by
    have := readFrames_crypto (off := 0) (a := [0]) (b := [1]) [255] [] (by decide) (by decide)
    simpa [readFrames_nil] using this
  simp [carries, carriesAt, readAll, hr, cryptoOf, sliceEq] at hc

/-- `validate_sound`, provable part 1: for payloads that are sequences of Initial-legal frames,
    acceptance implies that their CRYPTO ranges lie inside `[0,n)` and cover it completely -/
theorem validate_sound_partial {ps : List (List UInt8)} {budgets : List Int} {n : Nat}
    {rs : List (Nat × Nat)} {fs : List Frame} (hv : validate ps budgets n = .ok rs)
    (hs : readAll ps = some fs) : coversShape 0 n ps = true := validate_covers hv hs

/-- `validate_sound`, provable part 2: payloads whose CRYPTO frames carry true stream bytes and that
    validateInitialFlight accepts carry the complete ClientHello -/
theorem validate_sound_truthful {full : List UInt8} {ps : List (List UInt8)} {budgets : List Int}
    {rs : List (Nat × Nat)} (ht : ∀ p ∈ ps, Truthy full p)
    (hv : validate ps budgets full.length = .ok rs) : carries full 0 ps = true :=
  truthy_validate_carries ht hv

example : validate [[6, 0, 1, 255], [0, 1]] [20000] 1 = .ok [(0, 1)] := by decide

/-! ## QUICFrames.build -/

/-- a layout whose frames are in bounds of the slice and cover it (`TilesAt`, offsets rebased on the
    layout's lowest offset `low`) builds a payload that carries the slice at `base + low` -/
theorem quicFrames_carries {qfs : List QFrame} {data : List UInt8} {base : Nat} (hne : qfs ≠ [])
    (h : TilesAt (lowestOffset qfs) qfs data.length base) :
    ∃ p, qfBuild qfs data base = .ok p ∧
      carries data (base + (lowestOffset qfs).toNat) [p] = true := by
  obtain ⟨p, hp, hc⟩ := buildAll_carries h
  have : qfs.isEmpty = false := by cases qfs <;> simp_all
  exact ⟨p, by simp [qfBuild, this, hp], by simpa [carries] using hc⟩

/-- the empty layout is the single CRYPTO frame `{0,0}` -/
theorem quicFrames_empty_carries (data : List UInt8) (base : Nat) (hrep : base + data.length ≤ maxVarInt8) :
    ∃ p, qfBuild [] data base = .ok p ∧ carries data base [p] = true := by
  have plan : PlanOk [QFrame.crypto 0 0] data.length := by
    refine ⟨?_, ⟨_, List.mem_singleton.mpr rfl, rfl⟩, ?_⟩
    · intro f hf; simp only [List.mem_singleton] at hf; subst hf; simp
    · intro i hi; exact ⟨0, 0, by simp, by omega, by simp [rlen, rstart]; omega⟩
  obtain ⟨p, hp, hc⟩ := qfBuild_of_plan (base := base) plan hrep
  exact ⟨p, by simpa [qfBuild] using hp, hc⟩

/-- the layout `build` works on: no frames means the single CRYPTO frame `{0,0}` -/
def layoutOf (qfs : List QFrame) : List QFrame := if qfs.isEmpty then [QFrame.crypto 0 0] else qfs

/-- the documented parameter range of a layout entry: non-negative fields; the wire offset and the
    share length are representable as varints (true of every QUIC crypto offset) -/
def EntryInRange (n base : Nat) : QFrame → Prop
  | .crypto off len => 0 ≤ off ∧ 0 ≤ len ∧ off + (base : Int) ≤ maxVarInt8 ∧ (n : Int) ≤ maxVarInt8
  | .padding l => 0 ≤ l
  | .ping => True

/-- QUICFrames.build NEVER PANICS, for ANY layout (tiling or not) applied to ANY share of the CRYPTO
    stream (shorter than the layout, or empty: PTO probe, retransmission, tail of a multi-datagram
    ClientHello): it returns a payload that is a sequence of Initial-legal frames, and what it emits
    is characterised exactly — the entry `{off,len}` becomes one CRYPTO frame at wire offset
    `off + base` carrying the share bytes `[s, s+ℓ)` with `s = min(off-lowest, n)` and
    `ℓ = len` if `0 < len ≤ n-s`, else `n-s` (`cryptoSpec`). -/
theorem quicFrames_never_panics (qfs : List QFrame) (data : List UInt8) (base : Nat)
    (h : ∀ f ∈ layoutOf qfs, EntryInRange data.length base f) :
    ∃ p frames, qfBuild qfs data base = .ok p ∧ readFrames p = some frames ∧
      cryptoOf frames = (layoutOf qfs).flatMap (cryptoSpec (lowestOffset (layoutOf qfs)) data base) := by
  have hok : ∀ f ∈ layoutOf qfs, FrameOk (lowestOffset (layoutOf qfs)) data.length base f := by
    intro f hf
    have := h f hf
    cases f with
    | crypto off len =>
      simp only [EntryInRange] at this
      simp only [FrameOk]
      have hlow := (foldl_low_le (layoutOf qfs) 65535).2.1 _ hf
      exact ⟨hlow, this.2.1, by omega, this.2.2.1, this.2.2.2⟩
    | padding l => exact this
    | ping => trivial
  obtain ⟨p, frames, hp, hr, hc⟩ := buildAll_ok (layoutOf qfs) hok
  refine ⟨p, frames, ?_, hr, hc⟩
  simp only [qfBuild]
  have : (if qfs.isEmpty = true then [QFrame.crypto 0 0] else qfs) = layoutOf qfs := rfl
  rw [this, hp]

/-- … and NEVER ZERO-EXTENDS: every CRYPTO frame it emits carries a sub-slice of the share, exactly as
    many bytes as it announces, never reaching beyond the share -/
theorem quicFrames_no_zero_extension (qfs : List QFrame) (data : List UInt8) (base : Nat)
    (h : ∀ f ∈ layoutOf qfs, EntryInRange data.length base f) :
    ∃ p frames, qfBuild qfs data base = .ok p ∧ readFrames p = some frames ∧
      ∀ c ∈ cryptoOf frames, ∃ s l : Nat, s + l ≤ data.length ∧ c.2 = (data.drop s).take l ∧ c.2.length = l := by
  obtain ⟨p, frames, hp, hr, hc⟩ := quicFrames_never_panics qfs data base h
  refine ⟨p, frames, hp, hr, ?_⟩
  intro c hcm
  rw [hc] at hcm
  obtain ⟨f, hf, hcf⟩ := List.mem_flatMap.mp hcm
  have hin := h f hf
  have hlow := (foldl_low_le (layoutOf qfs) 65535).2.1 _ hf
  apply cryptoSpec_subslice (low := lowestOffset (layoutOf qfs)) (base := base) (f := f) _ c hcf
  cases f with
  | crypto off len =>
    simp only [EntryInRange] at hin
    exact ⟨hlow, hin.2.1, by omega, hin.2.2.1, hin.2.2.2⟩
  | padding l => exact hin
  | ping => trivial

/-- exact panic condition of one CRYPTO entry: only an unrepresentable wire offset or a negative
    Length (both outside the parameter range) — never the contents or the length of the share -/
theorem quicFrames_panics_iff (low : Int) (data : List UInt8) (base : Nat) (off len : Int)
    (hlow : low ≤ off) (hn : (data.length : Int) ≤ maxVarInt8) :
    buildOne low data base (.crypto off len) = none ↔
      (maxVarInt8 : Int) < (off + (base : Int)) % u64 ∨ len < 0 :=
  buildOne_crypto_none_iff low data base off len hlow hn

example : qfBuild [.crypto 2 0, .ping, .crypto 0 2] [10, 11, 12] 5 = .ok [6, 7, 1, 12, 1, 6, 5, 2, 10, 11] := by decide
example : qfBuild [.crypto 0 5] [10, 11, 12] 0 = .ok [6, 0, 3, 10, 11, 12] := by decide     -- clamped, not zero-extended
example : qfBuild [.ping, .crypto 4 1] [10, 11, 12] 0 = .ok [1, 6, 4, 0] := by decide          -- beyond the share: empty frame
example : qfBuild [.crypto 0 4, .crypto 4 0] [] 7 = .ok [6, 7, 0, 6, 11, 0] := by decide        -- empty share (PTO probe)

/-! ## QUICRandomFrames / QUICMultiDatagramFrames -/

/-- the loops' arithmetic never underflows: with `k` cuts to go and at least `k+1` bytes left they
    fail only on a reader error, and produce `k` consecutive frames of at least one byte -/
theorem cut_loop_never_underflows (mk : Nat → Nat → QFrame) (k remaining off : Nat) (d : Draws)
    (acc : List QFrame) (h : k = 0 ∨ k + 1 ≤ remaining) :
    cutLoop mk k remaining off d acc = .err "rand" ∨
    ∃ new off' rem' d', cutLoop mk k remaining off d acc = .ok (acc ++ new, off', rem', d') ∧
      Chain mk off new off' ∧ off' + rem' = off + remaining ∧ (k + 1 ≤ remaining → 1 ≤ rem') ∧
      new.length = k := cutLoop_spec mk k remaining off d acc h

/-- For every parameterisation, every ClientHello slice, every base offset (representable as a
    varint), every scripted draw and every shuffle: `buildInternal` returns a payload that carries
    the slice at `base`, or an error that is a documented bound violation / a reader error / an
    invalid witness. It never panics and its `uint64` arithmetic never wraps. -/
theorem randomFrames_carries (c : RFCfg) (data : List UInt8) (base : Nat) (d : Draws) (perm : List Nat)
    (hrep : base + data.length ≤ maxVarInt8) :
    Good (fun p => carries data base [p] = true)
      (fun e => e = "rand" ∨ e = "perm" ∨ checkBounds c = some e) (rfBuild c data base d perm) :=
  rfBuild_spec c data base d perm hrep

/-- the documented bound violations are rejected, whatever the data and the draws -/
theorem randomFrames_rejects_bound_violation (c : RFCfg) (data : List UInt8) (base : Nat) (d : Draws)
    (perm : List Nat) (e : String) (h : checkBounds c = some e) : rfBuild c data base d perm = .err e := by
  simp [rfBuild, rfPlan, h]

/-- `checkBounds` is exactly the documented list -/
theorem checkBounds_none_iff (c : RFCfg) :
    checkBounds c = none ↔
      c.minPing ≤ c.maxPing ∧ 1 ≤ c.minCrypto ∧ c.minCrypto ≤ c.maxCrypto ∧
        (c.length = 0 ∨ (1 ≤ c.minPad ∧ c.minPad ≤ c.maxPad)) := by
  unfold checkBounds
  constructor
  · intro h
    split at h; · simp at h
    split at h; · simp at h
    split at h; · simp at h
    split at h; · simp at h
    split at h; · simp at h
    omega
  · intro h
    rw [if_neg (by omega), if_neg (by omega), if_neg (by omega), if_neg (by omega), if_neg (by omega)]

/-- lifted to QUICMultiDatagramFrames for every datagram index -/
theorem multiDatagram_carries (per : List RFCfg) (idx : Int) (data : List UInt8) (base : Nat) (d : Draws)
    (perm : List Nat) (hrep : base + data.length ≤ maxVarInt8) (hidx : 0 ≤ idx) :
    Good (fun c => Good (fun p => carries data base [p] = true)
        (fun e => e = "rand" ∨ e = "perm" ∨ checkBounds c = some e) (rfBuild c data base d perm))
      (fun e => e = "empty" ∧ per = []) (mfSelect per idx) := by
  unfold mfSelect
  by_cases he : per.isEmpty = true
  · rw [if_pos he]; simp only [good_err]; exact ⟨trivial, List.isEmpty_iff.mp he⟩
  · rw [if_neg he]
    simp only []
    have hlen : 0 < per.length := by cases per <;> simp_all
    generalize hi : (if idx ≥ per.length then (per.length : Int) - 1 else idx) = i
    have hi0 : 0 ≤ i ∧ i < per.length := by subst hi; split <;> omega
    rw [if_neg (by omega)]
    have : per[i.toNat]? = some per[i.toNat] := List.getElem?_eq_getElem (by omega)
    rw [this]
    simp only [good_ok]
    exact rfBuild_spec _ data base d perm hrep

example : (match rfBuild ⟨0, 0, 2, 2, 1, 1, 12⟩ [10, 11, 12] 7 ⟨[], true⟩ [2, 0, 1] with | .ok _ => true | _ => false) = true := by
  decide

/-! ## flight builders -/

theorem resolve_in_bounds (off len : Int) (n : Nat) :
    Good (fun r => r.1 ≤ r.2 ∧ r.2 ≤ n) (fun e => e = "offset" ∨ e = "range") (resolve off len n) := by
  have := resolve_spec off len n
  revert this
  cases resolve off len n with
  | ok r => intro h; simp only [good_ok] at h ⊢; exact ⟨h.1, h.2.1⟩
  | err e => intro h; exact h
  | panic => intro h; exact h
  | wrap => intro h; exact h

/-- `splitRange` pieces tile their range: consecutive, at least one byte each, from `start` to `end`,
    at most one piece per byte; the loop never underflows -/
theorem splitRange_tiles (s e minN maxN : Nat) (d : Draws) (hse : s < e) :
    Good (fun r => Chain (fun o l => QFrame.crypto o l) s r.1 e ∧ 1 ≤ r.1.length ∧ r.1.length ≤ e - s)
      (fun err => err = "rand") (splitRange s e minN maxN d) := splitRange_spec s e minN maxN d hse

/-- QUICFlightFrames: a flight that BuildFlight returns and validateInitialFlight accepts — i.e. every
    flight that is released to the packer — carries the complete ClientHello; for all ranges,
    negative offsets and lengths included -/
theorem flight_carries {dgs : List (List QFrame)} {full : List UInt8} {ps : List (List UInt8)}
    {budgets : List Int} {rs : List (Nat × Nat)} (hb : ffBuild dgs full = .ok ps)
    (hv : validate ps budgets full.length = .ok rs) : carries full 0 ps = true :=
  truthy_validate_carries (ffBuild_truthy hb) hv

/-- QUICRandomFlightFrames: the same for every parameterisation, every draw and every shuffle -/
theorem randomFlight_carries {dgs : List RFDatagram} {full : List UInt8} {d : Draws} {perms : List (List Nat)}
    {ps : List (List UInt8)} {budgets : List Int} {rs : List (Nat × Nat)}
    (hb : rffBuild dgs full d perms = .ok ps) (hv : validate ps budgets full.length = .ok rs) :
    carries full 0 ps = true :=
  truthy_validate_carries (rffBuild_truthy hb) hv

/-- QUICFlightFrames.BuildFlight has no panic path unless a PADDING length is negative: payloads or an
    error, for all ranges (negative offsets and lengths included) -/
theorem flight_never_panics (dgs : List (List QFrame)) (full : List UInt8) (hrep : full.length ≤ maxVarInt8)
    (h : ∀ dg ∈ dgs, ∀ f ∈ dg, PadOk f) : Good (fun _ => True) (fun _ => True) (ffBuild dgs full) :=
  ffBuild_good dgs full hrep h

/-- QUICRandomFlightDatagram.build, for every parameterisation, range list, draw and shuffle: a payload
    whose CRYPTO frames carry true stream bytes, or one of the documented errors; never a panic, the
    `uint64` arithmetic of splitRange and of the PADDING loop never wraps -/
theorem randomFlightDatagram_total (dg : RFDatagram) (full : List UInt8) (d : Draws) (perm : List Nat)
    (hrep : full.length ≤ maxVarInt8) : Good (fun r => Truthy full r.1) rfdErr (rfdBuild dg full d perm) :=
  rfdBuild_good dg full d perm hrep

/-- … and QUICRandomFlightFrames.BuildFlight as a whole -/
theorem randomFlight_never_panics (dgs : List RFDatagram) (full : List UInt8) (d : Draws) (perms : List (List Nat))
    (hrep : full.length ≤ maxVarInt8) :
    Good (fun ps => ∀ p ∈ ps, Truthy full p) (fun _ => True) (rffBuild dgs full d perms) :=
  rffBuild_good dgs full d perms hrep

example : ffBuild [[.crypto (-1) 0, .crypto 0 1], [.crypto 1 (-1)]] [10, 11, 12]
    = .ok [[6, 2, 1, 12, 6, 0, 1, 10], [6, 1, 1, 11]] := by decide

/-! ## crypto streams: the default splitter and the ClientHello scrambler -/

/-- Default splitter (`baseCryptoStream.Write/PopCryptoFrame`): for every history of writes and pops
    (every sequence of budgets) no panic occurs, every frame carries the written bytes of its
    offset, the frames cover everything up to the write offset, and all of the stream once the
    buffer is drained. -/
theorem default_splitter_carries (ops : List SOp) :
    ∃ s frames, runOps newBase ops [] = some (s, frames) ∧
      (∀ f ∈ frames, Truthful (written ops) f) ∧
      (∀ i, 0 ≤ i → i < s.writeOffset → Covered frames i) ∧
      (s.buf = [] → ∀ i : Int, 0 ≤ i → i < (written ops).length → Covered frames i) := by
  have h0 : BaseRun 0 newBase [] [] :=
    ⟨⟨by simp [newBase], by simp [newBase], by simp [newBase], by simp [newBase]⟩, by simp, by
      intro i h1 h2; simp [newBase] at h2; omega⟩
  obtain ⟨s, frames, h1, h2⟩ := baseRun_ops ops 0 newBase [] [] h0
  rw [List.nil_append] at h2
  refine ⟨s, frames, h1, h2.truthful, h2.cover, ?_⟩
  intro he i hi0 hi
  have := h2.inv.drained he
  exact h2.cover i hi0 (by omega)

/-- findSNIAndECH's answer lies inside the buffer -/
def EnvSane (W : List UInt8) (env : Sni) : Prop :=
  env.err = 0 ∧
  (env.sniPos = -1 ∨ (0 ≤ env.sniPos ∧ 0 ≤ env.sniLen ∧ env.sniPos + env.sniLen ≤ W.length)) ∧
  (env.echPos ≤ 0 ∨ env.echPos + 4 ≤ W.length)

/-- `initialCryptoStream.Write` of a complete ClientHello, for EVERY answer of findSNIAndECH inside the
    buffer — SNI host name present, absent or empty, ECH present or absent, in any order: it leaves
    either the scrambler invariant (with every chosen cut NON-EMPTY) or a plain stream; and HasData
    is true, so the ClientHello will be sent. -/
theorem write_establishes_invariant (W : List UInt8) (env : Sni) (h : EnvSane W env) :
    let s := (write (newInitial true) W env).1
    ((ScrInv s W W.length [] ∧ (s.c0s = -1 ∨ s.c0s < s.c0e) ∧ (s.c1s = -1 ∨ s.c1s < s.c1e) ∧ s.c0s ≠ -1)
      ∨ BaseRun 0 s W []) ∧ (W ≠ [] → hasData s = true) := by
  obtain ⟨herr, hsni, hech⟩ := h
  have hdiv : env.sniLen > 0 → 0 ≤ env.sniLen / 2 ∧ env.sniLen / 2 < env.sniLen := by omega
  have hne : W ≠ [] → W.isEmpty = false := by intro h; cases W <;> simp_all
  have base : ∀ (e c0s c0e c1s c1e : Int),
      BaseRun 0 (CS.mk true W 0 false e c0s c0e c1s c1e) W [] := by
    intro e c0s c0e c1s c1e
    exact ⟨⟨by simp, by simp, by simp, by simp⟩, by simp, by intro i h1 h2; simp at h2; omega⟩
  have scr : ∀ (c0s c0e c1s c1e : Int), (0 ≤ c0s ∧ c0s < c0e ∧ c0e ≤ W.length) →
      (c1s = -1 ∨ (0 ≤ c1s ∧ c1s < c1e ∧ c1e ≤ W.length)) →
      let s : CS := CS.mk true W 0 true W.length c0s c0e c1s c1e
      ((ScrInv s W W.length [] ∧ (s.c0s = -1 ∨ s.c0s < s.c0e) ∧ (s.c1s = -1 ∨ s.c1s < s.c1e) ∧ s.c0s ≠ -1)
        ∨ BaseRun 0 s W []) ∧ (W ≠ [] → hasData s = true) := by
    intro c0s c0e c1s c1e h0 h1
    refine ⟨Or.inl ⟨⟨rfl, rfl, rfl, rfl, Nat.le_refl _, Int.le_refl _, by simp only []; omega, ?_, ?_, by simp, ?_⟩,
      Or.inr h0.2.1, ?_, by simp only []; omega⟩, ?_⟩
    · right; simp only []; omega
    · rcases h1 with h1 | h1
      · left; exact h1
      · right; simp only []; omega
    · intro i hi1 hi2; right; left; exact hi1
    · rcases h1 with h1 | h1
      · left; exact h1
      · right; simp only []; omega
    · intro hW
      simp only [hasData, Bool.and_self, Bool.true_and]
      rw [if_neg (by simp [invalid_eq]; omega)]
      simp [hne hW]
  unfold write newInitial
  simp only [List.nil_append, Bool.not_true, Bool.or_false, Bool.false_eq_true, if_false, herr,
    show ¬ ((0 : Nat) = 1) by decide, show ¬ ((0 : Nat) ≠ 0) by decide, if_true, invalid_eq]
  by_cases hnone : env.sniPos = -1 ∧ env.echPos = -1
  · rw [if_pos hnone]
    exact ⟨Or.inr (base _ _ _ _ _), fun hW => by simp [hasData, hne hW]⟩
  · rw [if_neg hnone]
    by_cases hA : env.sniPos ≠ -1 ∧ env.sniLen > 0
    · have hs : 0 ≤ env.sniPos ∧ 0 ≤ env.sniLen ∧ env.sniPos + env.sniLen ≤ W.length := by
        rcases hsni with h | h
        · exact absurd h hA.1
        · exact h
      have hd := hdiv hA.2
      by_cases hB : env.echPos > 0
      · simp only [if_pos hA, if_pos hB]
        have hx : ¬ (env.sniPos + env.sniLen / 2 = -1) := by omega
        simp only [if_neg hx, if_neg (show ¬ (env.sniPos + env.sniLen / 2 = -1 ∧ env.echPos + 1 = -1) by omega)]
        split
        · exact scr _ _ _ _ (by omega) (Or.inr (by omega))
        · exact scr _ _ _ _ (by omega) (Or.inr (by omega))
      · simp only [if_pos hA, if_neg hB]
        have hx : ¬ (env.sniPos + env.sniLen / 2 = -1) := by omega
        simp only [if_neg hx]
        split
        · rename_i h; exact absurd h.1 hx
        · split
          · rename_i h; exact absurd rfl h.1
          · exact scr _ _ _ _ (by omega) (Or.inl rfl)
    · by_cases hB : env.echPos > 0
      · simp only [if_neg hA, if_pos hB]
        simp only [if_true]
        split
        · rename_i h; have := h.2; omega
        · split
          · rename_i h; exact absurd rfl h.1
          · exact scr (env.echPos + 1) (min (env.echPos + 1 + 16) W.length) (-1) (-1) (by omega) (Or.inl rfl)
      · simp only [if_neg hA, if_neg hB]
        rw [if_pos (by trivial)]
        exact ⟨Or.inr (base _ _ _ _ _), fun hW => by simp [hasData, hne hW]⟩

/-- Scrambler (`initialCryptoStream.PopCryptoFrame`): from any state in which the whole stream `W` is
    buffered, `[0,E)` is the ClientHello and the (up to two) cuts lie inside `[0,E]` — overlapping,
    nested, empty or touching cuts included —, for every sequence of budgets: no pop panics, every
    frame carries the stream bytes of its offset, and as soon as scrambling has ended all of `[0,E)`
    (indeed all of `[0, writeOffset)`) has been released, followed by the unscrambled tail; all of
    the stream once the buffer is drained. -/
theorem scrambler_carries (W : List UInt8) (E : Nat) (s : CS) (budgets : List Int)
    (h : ScrInv s W E []) :
    ∃ s' frames, runOps s (budgets.map SOp.pop) [] = some (s', frames) ∧
      (∀ f ∈ frames, Truthful W f) ∧
      (s'.scramble = false →
        (E : Int) ≤ s'.writeOffset ∧ (∀ i, 0 ≤ i → i < s'.writeOffset → Covered frames i) ∧
        (s'.buf = [] → ∀ i : Int, 0 ≤ i → i < W.length → Covered frames i)) := by
  obtain ⟨s', frames, h1, h2⟩ := scr_run budgets s [] h
  refine ⟨s', frames, h1, ?_, ?_⟩
  · rcases h2 with h2 | h2
    · exact h2.truthful
    · exact h2.1.truthful
  · intro hs
    rcases h2 with h2 | h2
    · have := h2.scramble; rw [hs] at this; simp at this
    · refine ⟨h2.2, h2.1.cover, ?_⟩
      intro he i hi0 hi
      have := h2.1.inv.drained he
      exact h2.1.cover i hi0 (by omega)

/-- End to end, for EVERY complete ClientHello — with or without a usable SNI cut (no SNI extension, no
    host_name entry, an empty host name), with or without ECH — and every sequence of budgets: after
    `Write`, HasData is true (for a non-empty ClientHello), no pop panics, every frame carries the
    stream bytes of its offset, and once scrambling is over (immediately, if there was nothing to cut)
    everything up to the write offset has been released — the whole ClientHello once the buffer is
    drained. -/
theorem scrambler_carries_from_write (W : List UInt8) (env : Sni) (h : EnvSane W env) (budgets : List Int) :
    (W ≠ [] → hasData (write (newInitial true) W env).1 = true) ∧
    ∃ s' frames, runOps (newInitial true) (SOp.write W env :: budgets.map SOp.pop) [] = some (s', frames) ∧
      (∀ f ∈ frames, Truthful W f) ∧
      (s'.scramble = false →
        (∀ i, 0 ≤ i → i < s'.writeOffset → Covered frames i) ∧
        (s'.buf = [] → ∀ i : Int, 0 ≤ i → i < W.length → Covered frames i)) := by
  obtain ⟨hinv, hhas⟩ := write_establishes_invariant W env h
  refine ⟨hhas, ?_⟩
  simp only [runOps]
  rcases hinv with ⟨hscr, _⟩ | hbase
  · obtain ⟨s', frames, h1, h2, h3⟩ := scrambler_carries W W.length _ budgets hscr
    exact ⟨s', frames, h1, h2, fun hs => ⟨(h3 hs).2.1, (h3 hs).2.2⟩⟩
  · obtain ⟨s', frames, h1, h2⟩ := baseRun_ops (budgets.map SOp.pop) 0 _ W [] hbase
    rw [written_pops, List.append_nil] at h2
    refine ⟨s', frames, h1, h2.truthful, fun _ => ⟨h2.cover, ?_⟩⟩
    intro he i hi0 hi
    have := h2.inv.drained he
    exact h2.cover i hi0 (by omega)

/-- a ClientHello with an ECH extension at 47 and no SNI (the former finding): sane, so covered -/
example : EnvSane (List.replicate 365 1) ⟨-1, 0, 47, 0⟩ :=
  ⟨rfl, Or.inl rfl, Or.inr (by rw [List.length_replicate]; decide)⟩

/-- hypotheses of `scrambler_carries` are satisfiable: a 40 byte ClientHello, SNI cut [10,20), ECH cut [15,31) -/
def exampleState : CS :=
  { initial := true, scramble := true, buf := List.replicate 40 7, writeOffset := 0, «end» := 40,
    c0s := 10, c0e := 20, c1s := 15, c1e := 31 }

example : ScrInv exampleState (List.replicate 40 7) 40 [] :=
  ⟨rfl, rfl, rfl, rfl, by simp, by decide, by decide, Or.inr (by decide), Or.inr (by decide), by simp,
   fun i h1 _ => Or.inr (Or.inl h1)⟩

/-! ## a pre-planned flight under loss: what is registered for retransmission -/

open Uquic.Model.UQuic.Planned Uquic.Proofs.Planned in
/-- plannedInitialPayload registers, for a planned datagram that is a frame sequence, exactly the
    CRYPTO frames the datagram carries — one ackhandler frame per range, each with its own offset and
    bytes (not N references to one frame) -/
theorem planned_registers_what_it_carries {u : List UInt8} {fs : List Frame} {cs : List (Nat × Nat × List UInt8)}
    (hs : readFrames u = some fs) (hc : chReadAll u = .ok cs) : registeredOf u = cryptoOf fs :=
  registered_is_carried hs hc

open Uquic.Model.UQuic.Planned Uquic.Proofs.Planned in
/-- `planned_retransmission_covers`: take ANY flight that validateInitialFlight released, and ANY
    history of PackCoalescedPacket calls and loss declarations (any subset of the datagrams and of the
    retransmissions, in any order, a Retry re-queueing everything included). Every byte of the
    ClientHello stays accounted for; so once nothing is left to send — no planned datagram, empty
    retransmission queue — the packets that were NOT lost together cover the complete ClientHello. -/
theorem planned_retransmission_covers (ps : List (List UInt8)) (budgets : List Int) (n : Int)
    (rs : List (Nat × Nat)) (rb : Int) (hv : validate ps budgets n = .ok rs) (ops : List Uquic.Proofs.Planned.Op) :
    let s := Uquic.Proofs.Planned.run { payloads := ps, rb := rb } ops
    s.payloads = [] → s.queue = [] → ∀ i, i < n.toNat → ∃ fs, some fs ∈ s.sent ∧ CovF fs i := by
  intro s hp hq i hi
  obtain ⟨_, _, hl, _, hc⟩ := validate_ok hv
  obtain ⟨r, hr, h1, h2⟩ := hc i hi
  obtain ⟨u, hu, f, hf, e1, e2⟩ := lenient_registered ps rs hl r hr
  have h0 : Accounted ({ payloads := ps, rb := rb } : PF) i :=
    Or.inl ⟨u, hu, f, hf, by omega, by omega⟩
  have := accounted_run ops _ i h0
  rcases this with ⟨v, hv', _⟩ | ⟨g, hg, _⟩ | h
  · rw [hp] at hv'; simp at hv'
  · rw [hq] at hg; simp at hg
  · exact h

end Uquic.Props.C09
