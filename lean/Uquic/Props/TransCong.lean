/-
Tie theorems, congestion controller and pacer arithmetic (property C20): the model functions of
Uquic/Model/Cong/Sender.lean EQUAL the definitions regenerated from internal/congestion/{pacer,cubic_sender,
bandwidth}.go by the source-to-Lean translator (gofacts/trans.go → Uquic.Generated.TransCong) on every run.

The model works on `Nat` with explicit 64-bit wrap-around (`wrapU64`, `wrapI64`); the translation is over unbounded
`Int`.  Each theorem therefore states the range in which the Go arithmetic does not wrap; inside it the model's
wraps are identities and model = source.  Hypotheses used (Go: ByteCount int64, bandwidth/ns uint64, Time int64):
* `timeScaledBandwidth`, `maxBurstSize`, `minCongestionWindow`, `maxCongestionWindow`, `isCwndLimited`,
  `InSlowStart`, `InRecovery`, `CanSend`: none (byte counts are `Nat` in the model, ≥ 0 by type).
* `Budget`: `now - lastSentTime` inside int64 and `budgetAtLastSent + added < 2^63` (otherwise Go's own overflow
  guard fires; the model keeps that guard, the unbounded translation cannot see it).
* `TimeUntilSend`: `1e9·(mds - budget) < 2^64`, quotient+1 `< 2^63`, `lastSent + delay` inside int64.
* `BandwidthEstimate`: `srtt ≥ 0`, `cwnd·1e9 < 2^64`, result `< 2^64`.
* `HybridSlowStart.OnPacketAcked`/`IsEndOfRound`: none.  (`ShouldExitSlowStart` translates as well, but its tie is
  not proved: the model threads six record updates through nested `let`s; it stays tied by the cong driver only.)
* `maybeIncreaseCwnd` (Reno: field `reno` assumed true — generated fact `renoEverywhere`): `numAcked + 1 < 2^64`.
  qlog / cubic.OnApplicationLimited calls are skipped by the translator (they write none of the translated fields).
-/
import Uquic.Generated.TransCong
import Uquic.Model.Cong.Sender
import Uquic.Proofs.TransLemmas

namespace Uquic.Props.TransCong
open Uquic.Proofs.Trans Uquic.Model.Cong
open Uquic.Gen.TransCong

theorem c_maxBurstSizePackets : maxBurstSizePackets = 10 := by decide
theorem c_maxBurstPackets : maxBurstPackets = 3 := by decide
theorem c_minCwndPackets : minCwndPackets = 2 := by decide
theorem c_maxCwndPackets : maxCwndPackets = 10000 := by decide
theorem c_nsPerSecond : nsPerSecond = 1000000000 := by decide
theorem c_bytesPerSecond : bytesPerSecond = 8 := by decide
theorem c_burstNs : (minPacingDelay + timerGranularity).toNat = 2000000 := by decide
theorem c_minPacingDelay : minPacingDelay = 1000000 := by decide
theorem c_timerGranularity : timerGranularity = 1000000 := by decide
theorem c_maxByteCount : maxByteCount = 4611686018427387903 := by decide
theorem c_invalidPN : invalidPN = -1 := by decide

theorem wrapU64_id (n : Nat) (h : n < 2 ^ 64) : wrapU64 n = n := by unfold wrapU64; omega
theorem i64OfU64_id (n : Nat) (h : n < 2 ^ 63) : i64OfU64 n = (n : Int) := by unfold i64OfU64; split <;> omega
theorem u64OfI64_id (x : Int) (h0 : 0 ≤ x) (h : x < 2 ^ 64) : u64OfI64 x = x.toNat := by unfold u64OfI64; omega
theorem wrapI64_id (x : Int) (h1 : -2 ^ 63 ≤ x) (h2 : x < 2 ^ 63) : wrapI64 x = x := by
  unfold wrapI64 i64OfU64 u64OfI64; split <;> omega

theorem tdiv_nat (a b : Nat) : Int.tdiv (a : Int) (b : Int) = ((a / b : Nat) : Int) := by simp

theorem pacer_timeScaledBandwidth_model_is_source (bw mds ns : Nat) :
    ((timeScaledBandwidth bw mds ns : Nat) : Int) = pacer_timeScaledBandwidth ns bw mds := by
  unfold timeScaledBandwidth pacer_timeScaledBandwidth
  rw [c_maxBurstSizePackets, c_nsPerSecond]
  have h1 : ((18446744073709551615 / bw : Nat) : Int) = 18446744073709551615 / (bw : Int) := Int.natCast_ediv _ _
  have h2 : ((bw * ns : Nat) : Int) = (bw : Int) * (ns : Int) := Int.natCast_mul _ _
  tdiv_norm
  tie_arith

theorem pacer_maxBurstSize_model_is_source (bw mds : Nat) :
    ((maxBurstSize bw mds : Nat) : Int) = pacer_maxBurstSize bw mds := by
  unfold maxBurstSize pacer_maxBurstSize
  have h := pacer_timeScaledBandwidth_model_is_source bw mds 2000000
  rw [c_maxBurstSizePackets, c_burstNs]
  simp only [Int.cast_ofNat_Int] at h
  omega

theorem cubicSender_minCongestionWindow_model_is_source (s : Sender) :
    ((s.minCwnd : Nat) : Int) = cubicSender_minCongestionWindow s.mds := by
  unfold Sender.minCwnd cubicSender_minCongestionWindow; rw [c_minCwndPackets]; omega

theorem cubicSender_maxCongestionWindow_model_is_source (s : Sender) :
    ((s.maxCwnd : Nat) : Int) = cubicSender_maxCongestionWindow s.mds := by
  unfold Sender.maxCwnd cubicSender_maxCongestionWindow; rw [c_maxCwndPackets]; omega

theorem cubicSender_InSlowStart_model_is_source (s : Sender) :
    s.inSlowStart = cubicSender_InSlowStart s.cwnd s.ssthresh := by
  unfold Sender.inSlowStart cubicSender_InSlowStart
  bool_tie

theorem cubicSender_InRecovery_model_is_source (s : Sender) :
    s.inRecovery = cubicSender_InRecovery s.largestAcked s.lastCutback := by
  unfold Sender.inRecovery cubicSender_InRecovery
  rw [c_invalidPN]
  bool_tie

theorem cubicSender_CanSend_model_is_source (s : Sender) (inFlight : Nat) :
    s.canSend inFlight = cubicSender_CanSend inFlight s.cwnd := by
  unfold Sender.canSend cubicSender_CanSend
  bool_tie

theorem cubicSender_isCwndLimited_model_is_source (s : Sender) (inFlight : Nat) :
    s.isCwndLimited inFlight = cubicSender_isCwndLimited inFlight s.cwnd s.mds s.ssthresh := by
  unfold Sender.isCwndLimited cubicSender_isCwndLimited
  rw [c_maxBurstPackets, ← cubicSender_InSlowStart_model_is_source]
  tdiv_norm
  cases s.inSlowStart <;> bool_tie

/-- `Budget(now)` inside the no-wrap range: `now - lastSentTime` is an int64 and the new budget stays below 2^63
    (beyond it Go's overflow guard substitutes MaxByteCount; the model keeps the guard, see its doc) -/
theorem pacer_Budget_model_is_source (p : Pacer) (bw : Nat) (now : Int)
    (hd : -2 ^ 63 ≤ now - p.lastSent ∧ now - p.lastSent < 2 ^ 63)
    (hs : p.budgetAtLastSent + timeScaledBandwidth bw p.mds (now - p.lastSent).toNat < 2 ^ 63) :
    ((p.budget bw now : Nat) : Int) = pacer_Budget now bw p.budgetAtLastSent p.lastSent p.mds := by
  have hw : wrapI64 (now - p.lastSent) = now - p.lastSent := by
    unfold wrapI64 i64OfU64 u64OfI64; split <;> omega
  unfold Pacer.budget pacer_Budget
  rw [hw, c_maxByteCount, ← pacer_maxBurstSize_model_is_source]
  by_cases h0 : p.lastSent = 0
  · simp only [h0, if_true]
  · simp only [h0, if_false]
    by_cases hpos : now - p.lastSent > 0
    · have e : (now - p.lastSent) = (((now - p.lastSent).toNat : Nat) : Int) := by omega
      have t := pacer_timeScaledBandwidth_model_is_source bw p.mds (now - p.lastSent).toNat
      rw [← e] at t
      simp only [hpos, if_true, ← t]
      tie_arith
    · simp only [hpos, if_false]
      tie_arith

/-- the unsigned conversion `uint64(delta.Nanoseconds())` in `Budget` is applied to a positive delta only -/
theorem pacer_Budget_no_wrap (now bw budget last mds : Int) : pacer_Budget_safe now bw budget last mds := by
  unfold pacer_Budget_safe; omega

/-- `TimeUntilSend()`: `none` of the model is the Go panic (bandwidth 0); otherwise equal inside the no-wrap range -/
theorem pacer_TimeUntilSend_model_is_source (p : Pacer) (bw : Nat)
    (h1 : nsPerSecond * (p.mds - p.budgetAtLastSent) < 2 ^ 64)
    (h2 : nsPerSecond * (p.mds - p.budgetAtLastSent) / bw + 1 < 2 ^ 63)
    (h3 : -2 ^ 63 ≤ p.lastSent ∧ p.lastSent + Max.max minPacingDelay ((nsPerSecond * (p.mds - p.budgetAtLastSent) / bw + 1 : Nat) : Int) < 2 ^ 63) :
    p.timeUntilSend bw =
      if pacer_TimeUntilSend_panics bw p.budgetAtLastSent p.lastSent p.mds then none
      else some (pacer_TimeUntilSend bw p.budgetAtLastSent p.lastSent p.mds) := by
  unfold Pacer.timeUntilSend pacer_TimeUntilSend pacer_TimeUntilSend_panics
  rw [c_nsPerSecond, c_minPacingDelay] at *
  by_cases hb : p.budgetAtLastSent ≥ p.mds
  · simp only [hb, if_true]
    (repeat' split) <;> first | omega | (simp_all <;> omega) | simp_all
  · simp only [hb, if_false]
    by_cases hz : bw = 0
    · simp only [hz, if_true]
      (repeat' split) <;> first | omega | (simp_all <;> omega) | simp_all
    · simp only [hz, if_false]
      -- the one non-linear quantity: D = 1e9·(mds - budget), its quotient and remainder by the bandwidth
      generalize hD : 1000000000 * (p.mds - p.budgetAtLastSent) = D at *
      have hw : wrapU64 D = D := by unfold wrapU64; omega
      simp only [hw]
      clear hw
      rw [tdiv_cast _ D bw ?_, tmod_cast _ D bw ?_]
      rotate_left
      · omega
      · omega
      generalize D / bw = Q at *
      generalize D % bw = R at *
      (repeat' split) <;> (try simp (disch := omega) only [wrapU64_id, i64OfU64_id, wrapI64_id]) <;>
        first | omega | (simp_all <;> omega) | simp_all

/-- `SentPacket(sendTime, size)`: both written fields -/
theorem pacer_SentPacket_model_is_source (p : Pacer) (bw : Nat) (t : Int) (size : Nat)
    (hd : -2 ^ 63 ≤ t - p.lastSent ∧ t - p.lastSent < 2 ^ 63)
    (hs : p.budgetAtLastSent + timeScaledBandwidth bw p.mds (t - p.lastSent).toNat < 2 ^ 63) :
    (((p.sentPacket bw t size).budgetAtLastSent : Nat) : Int) =
        pacer_SentPacket_set_budgetAtLastSent t size bw p.budgetAtLastSent p.lastSent p.mds ∧
    (p.sentPacket bw t size).lastSent = pacer_SentPacket_set_lastSentTime t size bw p.budgetAtLastSent p.lastSent p.mds := by
  have hb := pacer_Budget_model_is_source p bw t hd hs
  unfold Pacer.sentPacket pacer_SentPacket_set_budgetAtLastSent pacer_SentPacket_set_lastSentTime
  simp only [← hb]
  constructor
  · tie_arith
  · trivial

/-- `BandwidthEstimate()` for a non-negative smoothed RTT, inside the uint64 range -/
theorem cubicSender_BandwidthEstimate_model_is_source (cwnd : Nat) (srtt : Int) (h0 : 0 ≤ srtt) (h63 : srtt < 2 ^ 63)
    (h1 : cwnd * nsPerSecond < 2 ^ 64)
    (h2 : cwnd * nsPerSecond / (if srtt = 0 then timerGranularity else srtt).toNat * bytesPerSecond < 2 ^ 64) :
    ((bandwidthEstimate cwnd srtt : Nat) : Int) = cubicSender_BandwidthEstimate cwnd srtt ∧
    cubicSender_BandwidthEstimate_panics cwnd srtt = false := by
  unfold bandwidthEstimate cubicSender_BandwidthEstimate cubicSender_BandwidthEstimate_panics BandwidthFromDelta
    BandwidthFromDelta_panics
  rw [c_nsPerSecond, c_bytesPerSecond, c_timerGranularity] at *
  have hc : wrapU64 cwnd = cwnd := by unfold wrapU64; omega
  have hc2 : wrapU64 (cwnd * 1000000000) = cwnd * 1000000000 := by unfold wrapU64; omega
  simp only [hc, hc2]
  generalize hS : (if srtt = 0 then (1000000 : Int) else srtt) = S at *
  have hSpos : 0 < S := by subst hS; split <;> omega
  have hu : u64OfI64 S = S.toNat := by unfold u64OfI64; omega
  have hSn : S = ((S.toNat : Nat) : Int) := by omega
  rw [hu]
  generalize S.toNat = n at *
  subst hSn
  rw [tdiv_cast _ (cwnd * 1000000000) n ?_]
  rotate_left
  · omega
  generalize cwnd * 1000000000 / n = Q at *
  have hq : wrapU64 (Q * 8) = Q * 8 := by unfold wrapU64; omega
  rw [hq]
  have hn : ¬ (n : Int) = 0 := by omega
  have hn' : ¬ n = 0 := by omega
  simp [hn, hn'] <;> omega

/-- the Reno branch of `maybeIncreaseCwnd`: both written fields and the panic (division by a zero datagram size) -/
theorem cubicSender_maybeIncreaseCwnd_model_is_source (s : Sender) (prior : Nat) (hn : s.numAcked + 1 < 2 ^ 64) :
    (((s.maybeIncreaseCwnd prior).1.cwnd : Nat) : Int) =
        cubicSender_maybeIncreaseCwnd_set_congestionWindow prior s.cwnd s.mds s.numAcked s.ssthresh ∧
    (((s.maybeIncreaseCwnd prior).1.numAcked : Nat) : Int) =
        cubicSender_maybeIncreaseCwnd_set_numAckedPackets prior s.cwnd s.mds s.numAcked s.ssthresh ∧
    ((s.maybeIncreaseCwnd prior).2 = Grow.panic ↔
        cubicSender_maybeIncreaseCwnd_panics prior s.cwnd s.mds s.numAcked s.ssthresh = true) := by
  have hw : wrapU64 (s.numAcked + 1) = s.numAcked + 1 := by unfold wrapU64; omega
  have q : Int.tdiv (s.cwnd : Int) (s.mds : Int) = ((s.cwnd / s.mds : Nat) : Int) := by
    rw [Int.tdiv_eq_ediv_of_nonneg (Int.natCast_nonneg _)]; exact (Int.natCast_ediv _ _).symm
  unfold Sender.maybeIncreaseCwnd cubicSender_maybeIncreaseCwnd_set_congestionWindow
    cubicSender_maybeIncreaseCwnd_set_numAckedPackets cubicSender_maybeIncreaseCwnd_panics
    cubicSender_maxCongestionWindow Sender.maxCwnd
  rw [← cubicSender_isCwndLimited_model_is_source, ← cubicSender_InSlowStart_model_is_source, c_maxCwndPackets, q]
  simp only [hw]
  generalize s.cwnd / s.mds = Q
  cases s.isCwndLimited prior <;> cases s.inSlowStart <;>
    simp only [Bool.not_true, Bool.not_false, Bool.false_eq_true, if_true, if_false, not_true_eq_false, not_false_eq_true,
      true_and, and_true, reduceCtorEq, false_iff, ne_eq] <;>
    (try trivial) <;>
    (refine ⟨?_, ?_, ?_⟩ <;> tie_arith)

/-- `HybridSlowStart.OnPacketAcked` with `IsEndOfRound` (the written field `started`) -/
theorem HybridSlowStart_OnPacketAcked_model_is_source (h : HyStart) (pn : Int) :
    (h.onPacketAcked pn).started = HybridSlowStart_OnPacketAcked_set_started pn h.endPN h.started := by
  unfold HyStart.onPacketAcked HybridSlowStart_OnPacketAcked_set_started HybridSlowStart_IsEndOfRound
  (repeat' split) <;> first | rfl | omega | (simp_all; done) | (simp_all <;> omega)

end Uquic.Props.TransCong
