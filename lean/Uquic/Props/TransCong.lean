/-
Tie theorems, congestion controller and pacer arithmetic (property C20): the model functions of
Uquic/Model/Cong/Sender.lean EQUAL the definitions regenerated from internal/congestion/{pacer,cubic_sender,
bandwidth}.go by the source-to-Lean translator (gofacts/trans.go → Uquic.Generated.TransCong) on every run.

The model works on `Nat` with explicit 64-bit wrap-around (`wrapU64`, `wrapI64`); the translation is over unbounded
`Int`.  Each theorem therefore states the range in which the Go arithmetic does not wrap; inside it the model's
wraps are identities and model = source.  Hypotheses used (Go: ByteCount int64, bandwidth/ns uint64, Time int64):
* `timeScaledBandwidth`, `maxBurstSize`, `minCongestionWindow`, `maxCongestionWindow`, `isCwndLimited`,
  `InSlowStart`, `InRecovery`, `CanSend`: none (byte counts are `Nat` in the model, ≥ 0 by type).
* `Budget`: `now - lastSentTime` inside int64 and `budgetAtLastSent + added < 2^63` (otherwise Go's own overflow
  guard fires; the model keeps that guard, the unbounded translation cannot see it).
* `TimeUntilSend`: `1e9·(mds - budget) < 2^64`, quotient+1 `< 2^63`, `lastSent + delay` inside int64.
* `BandwidthEstimate`: `srtt ≥ 0`, `cwnd·1e9 < 2^64`, result `< 2^64`.
* `maybeIncreaseCwnd` (Reno: field `reno` assumed true — generated fact `renoEverywhere`): `numAcked + 1 < 2^64`.
  qlog / cubic.OnApplicationLimited calls are skipped by the translator (they write none of the translated fields).
-/
import Uquic.Generated.TransCong
import Uquic.Model.Cong.Sender
import Uquic.Proofs.TransLemmas

namespace Uquic.Props.TransCong
open Uquic.Proofs.Trans Uquic.Model.Cong
open Uquic.Gen.TransCong

theorem c_maxBurstSizePackets : maxBurstSizePackets = 10 := by decide
theorem c_maxBurstPackets : maxBurstPackets = 3 := by decide
theorem c_minCwndPackets : minCwndPackets = 2 := by decide
theorem c_maxCwndPackets : maxCwndPackets = 10000 := by decide
theorem c_nsPerSecond : nsPerSecond = 1000000000 := by decide
theorem c_bytesPerSecond : bytesPerSecond = 8 := by decide
theorem c_burstNs : (minPacingDelay + timerGranularity).toNat = 2000000 := by decide
theorem c_minPacingDelay : minPacingDelay = 1000000 := by decide
theorem c_timerGranularity : timerGranularity = 1000000 := by decide
theorem c_maxByteCount : maxByteCount = 4611686018427387903 := by decide
theorem c_invalidPN : invalidPN = -1 := by decide

theorem tdiv_nat (a b : Nat) : Int.tdiv (a : Int) (b : Int) = ((a / b : Nat) : Int) := by simp

theorem pacer_timeScaledBandwidth_model_is_source (bw mds ns : Nat) :
    ((timeScaledBandwidth bw mds ns : Nat) : Int) = pacer_timeScaledBandwidth ns bw mds := by
  unfold timeScaledBandwidth pacer_timeScaledBandwidth
  rw [c_maxBurstSizePackets, c_nsPerSecond]
  have h1 : ((18446744073709551615 / bw : Nat) : Int) = 18446744073709551615 / (bw : Int) := Int.natCast_ediv _ _
  have h2 : ((bw * ns : Nat) : Int) = (bw : Int) * (ns : Int) := Int.natCast_mul _ _
  tdiv_norm
  tie_arith

theorem pacer_maxBurstSize_model_is_source (bw mds : Nat) :
    ((maxBurstSize bw mds : Nat) : Int) = pacer_maxBurstSize bw mds := by
  unfold maxBurstSize pacer_maxBurstSize
  have h := pacer_timeScaledBandwidth_model_is_source bw mds 2000000
  rw [c_maxBurstSizePackets, c_burstNs]
  simp only [Int.cast_ofNat_Int] at h
  omega

theorem cubicSender_minCongestionWindow_model_is_source (s : Sender) :
    ((s.minCwnd : Nat) : Int) = cubicSender_minCongestionWindow s.mds := by
  unfold Sender.minCwnd cubicSender_minCongestionWindow; rw [c_minCwndPackets]; omega

theorem cubicSender_maxCongestionWindow_model_is_source (s : Sender) :
    ((s.maxCwnd : Nat) : Int) = cubicSender_maxCongestionWindow s.mds := by
  unfold Sender.maxCwnd cubicSender_maxCongestionWindow; rw [c_maxCwndPackets]; omega

theorem cubicSender_InSlowStart_model_is_source (s : Sender) :
    s.inSlowStart = cubicSender_InSlowStart s.cwnd s.ssthresh := by
  unfold Sender.inSlowStart cubicSender_InSlowStart
  bool_tie

theorem cubicSender_InRecovery_model_is_source (s : Sender) :
    s.inRecovery = cubicSender_InRecovery s.largestAcked s.lastCutback := by
  unfold Sender.inRecovery cubicSender_InRecovery
  rw [c_invalidPN]
  bool_tie

theorem cubicSender_CanSend_model_is_source (s : Sender) (inFlight : Nat) :
    s.canSend inFlight = cubicSender_CanSend inFlight s.cwnd := by
  unfold Sender.canSend cubicSender_CanSend
  bool_tie

theorem cubicSender_isCwndLimited_model_is_source (s : Sender) (inFlight : Nat) :
    s.isCwndLimited inFlight = cubicSender_isCwndLimited inFlight s.cwnd s.mds s.ssthresh := by
  unfold Sender.isCwndLimited cubicSender_isCwndLimited
  rw [c_maxBurstPackets, ← cubicSender_InSlowStart_model_is_source]
  tdiv_norm
  cases s.inSlowStart <;> bool_tie

end Uquic.Props.TransCong
