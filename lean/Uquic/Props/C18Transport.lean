/-
Property C18, round 5: a REUSED http3.Transport — failed, hanging and abandoned dials, lost
connections, CloseIdleConnections, Close.  "No … connection loss at any point of an exchange makes
the … client panic": in the model of the connection cache (Uquic.Model.H3.Transport) the only way to
a nil dereference is to use a cache entry whose dial failed; the two `dialErr` checks that prevent
it are regenerated from the source (Uquic.Gen.H3Transport, a dominance rule over every dereference
of an entry's connection fields), and with them NO history — any dial plans, any interleaving of
requests, cancellations, releases, connection losses, CloseIdleConnections and Close — ends a request
in a panic.  The model is tied to the real Transport by the h3t driver (real Server and Transport
over simnet, scripted Dial).

Helper lemmas: Uquic/Proofs/H3Transport.lean.
-/
import Uquic.Model.H3.Transport
import Uquic.Generated.H3Transport
import Uquic.Proofs.H3Transport

namespace Uquic.Props.C18Transport
open Uquic.Model.H3.Transport

set_option maxRecDepth 100000

/-- the source performs both checks (regenerated on every run) and guards every other dereference -/
theorem source_checks_dial_errors :
    Uquic.Gen.H3Transport.getClientChecksDialErr = true ∧ Uquic.Gen.H3Transport.roundTripChecksDialErr = true ∧
    Uquic.Gen.H3Transport.otherDerefsGuarded = true := by decide

/-- MAIN: with the two checks, no request of any history panics -/
theorem no_request_panics (plans : List Plan) (steps : List T.Step) :
    ∀ o ∈ (T.run { chk := true, rtChk := true, plans := plans } steps).outcomes, o ≠ some .panic :=
  ((T.good_init plans).run steps).outcomes

/-- the same for the Transport as it is in the source -/
theorem no_request_panics_source (plans : List Plan) (steps : List T.Step) :
    ∀ o ∈ (T.run { chk := Uquic.Gen.H3Transport.getClientChecksDialErr, rtChk := Uquic.Gen.H3Transport.roundTripChecksDialErr, plans := plans } steps).outcomes,
      o ≠ some .panic := by
  have h1 : Uquic.Gen.H3Transport.getClientChecksDialErr = true := rfl
  have h2 : Uquic.Gen.H3Transport.roundTripChecksDialErr = true := rfl
  rw [h1, h2]
  exact no_request_panics plans steps

/-- getClient: a request that finds an entry whose dial failed takes that error and REMOVES the entry -/
theorem stale_failed_entry_is_dropped (t : T) (i k : Nat) (e : Err) (hi : i < t.reqs.length)
    (hc : t.chk = true) (hcl : t.closed = false)
    (hl : t.lookup (t.getR i).host = some k) (hs : (t.getE k).st = .failed e) :
    (t.getClient i).lookup (t.getR i).host = none ∧
    ((t.getClient i).getR i).phase = .done (.err e) t.stepNo := by
  rw [T.getClient_stale t i k e hc hcl hl hs]
  constructor
  · rw [T.finish_lookup]; exact T.lookup_dropClient t _
  · exact T.getR_finish_self_phase _ _ (by simpa using hi)

/-- getClient: without a cached entry a request starts exactly one dial and caches it -/
theorem uncached_request_dials (t : T) (i : Nat)
    (hcl : t.closed = false) (hl : t.lookup (t.getR i).host = none) (hoc : (t.getR i).oc = false) :
    (t.getClient i).entries.length = t.entries.length + 1 ∧
    (t.getClient i).lookup (t.getR i).host = some t.entries.length := by
  obtain ⟨t1, r, h1, h2⟩ := T.getClient_uncached t i hcl hl hoc
  rw [h2]
  constructor
  · simp [h1]
  · simp [T.lookup_putClient]

/-- a closed Transport refuses: the request issued by a `req` step on a closed Transport ends with
ErrTransportClosed, whatever else is going on -/
theorem closed_transport_refuses (t : T) (h : Nat) (g : Option Nat) (c oc : Bool) (hcl : t.closed = true) :
    ((t.act (.req h g c oc)).getR t.reqs.length).phase = .done (.err .closed) t.stepNo :=
  (T.actReq_refused t h g c oc hcl).2.2.2

/-- the abandoned dial (the handshake hangs, the only request waiting for it gives up): the failed
entry stays cached, costs the next request that dial's error — and nothing else: no panic, the
request after it dials anew and is answered -/
theorem abandoned_dial_costs_one_request :
    (T.run { plans := [.hang] } [.req 0 none true false, .req 0 none false false, .req 0 none false false]).outcomes =
      [some (.err .deadline), some (.err .deadline), some (.ok false)] := by decide

/-- the statement is sensitive to the check: without it the same history panics -/
theorem stale_entry_panics_without_check :
    (T.run { chk := false, plans := [.hang] } [.req 0 none true false, .req 0 none false false]).outcomes =
      [some (.err .deadline), some .panic] := by decide

/-- a lost connection is replaced: the request that finds it dead is retried on a new connection -/
example : (T.run {} [.req 0 none false false, .kill 0, .req 0 none false false]).outcomes =
    [some (.ok false), some (.ok false)] ∧
    (T.run {} [.req 0 none false false, .kill 0, .req 0 none false false]).entries.length = 2 := by decide

end Uquic.Props.C18Transport
