/-
Property C10, "token … synthesised with the given prefix and length and FRESH PER DIAL" — the aliasing half.

`Props.C10.token_rules` / `token_fresh_per_dial` say which bytes a synthesised token has at the moment
`dummyTokenStore.Pop` makes it.  The token then lives in its connection's packer for every later Initial
packet (second flight datagram, PTO retransmission), while one `QUICSpec` value — and with it the CALLER's
`ClientTokenPrefix` slice — serves any number of dials.  The theorems here are about the memory model
`Model.TokenHeap` (slices as windows on backing arrays; Go's `make`, `copy`, `append`), over ALL heaps, ALL
prefix slices (any offset, length and SPARE CAPACITY), ALL `ClientTokenLength`s and ALL sequences of dials
with arbitrary random streams:

* `spec_buffers_untouched`        no array that existed before the first dial is written by any dial: the
                                  prefix reads the same and so do the bytes behind it up to its capacity;
* `tokens_stable_across_dials`    after any number of later dials every token still reads what it read
                                  when it was made (so every Initial packet of a connection carries that
                                  connection's token);
* `tokens_are_as_specified`       … and that value is `tokenFor` of the spec with the ORIGINAL prefix bytes;
* `tokens_do_not_share_arrays`    the tokens occupy pairwise different arrays, none of them the caller's;
* `fresh_across_dials`            two dials whose random streams differ somewhere in the tail have different
                                  tokens — both read at the END of the sequence (composition with
                                  `C10.token_fresh_per_dial`).

Negative witnesses (kernel `decide`): the same statements are FALSE for the tempting rewrite of `Pop` with
`append(prefix, make(…)...)` as soon as the prefix has spare capacity (`append_rewrite_changes_earlier_token`,
`append_rewrite_dirties_caller_buffer`), so the model does tell the two apart.

Tie to the code: driver `tokalias` (real `InitialPacketSpec.UpdateConfig` + `TokenStore.Pop` sequences on
prefix slices with spare capacity; the oracle runs this model) and, on the wire, the `initial` driver's
overlapping dials and spare-capacity canaries.  Helper lemmas: Uquic/Proofs/TokenHeap.lean.
-/
import Uquic.Props.C10
import Uquic.Proofs.TokenHeap

namespace Uquic.Props.C10Alias

open Uquic.Model.Initial Uquic.Model.TokenHeap Uquic.Proofs.TokenHeap

/-- the state before the first dial: the caller's heap, no token handed out -/
def start (h0 : List (List Nat)) : St := { heap := h0 }

/-- the prefix slice lies inside an array of the caller's heap -/
def PrefixInHeap (h0 : List (List Nat)) (pre : Slice) : Prop :=
  pre.arr < h0.length ∧ (bytesOf h0 pre).length = pre.len

theorem dials_inv (h0 : List (List Nat)) (pre : Slice) (len : Nat) (ds : List Draw) (hp : PrefixInHeap h0 pre) :
    Inv h0 pre len (dials pre len (start h0) ds) ds := by
  simpa using inv_dials h0 pre len ds hp.1 hp.2 (start h0) [] (inv_init h0 pre len)

/-- no dial writes to anything the caller owns: every array of the caller's heap — the prefix's backing array
    with its spare capacity, any other buffer it was sliced from — is byte for byte what it was -/
theorem spec_buffers_untouched (h0 : List (List Nat)) (pre : Slice) (len : Nat) (ds : List Draw)
    (hp : PrefixInHeap h0 pre) :
    (∀ a, a < h0.length → readArr (dials pre len (start h0) ds).heap a = readArr h0 a) ∧
    bytesOf (dials pre len (start h0) ds).heap pre = bytesOf h0 pre ∧
    slack (dials pre len (start h0) ds).heap pre = slack h0 pre := by
  have inv := dials_inv h0 pre len ds hp
  exact ⟨inv.old, read_congr _ _ _ (inv.old _ hp.1), slack_congr _ _ _ (inv.old _ hp.1)⟩

/-- a token never changes after it was made, however many dials with the same spec value follow -/
theorem tokens_stable_across_dials (h0 : List (List Nat)) (pre : Slice) (len : Nat) (ds : List Draw)
    (hp : PrefixInHeap h0 pre) :
    ∀ t, t ∈ (dials pre len (start h0) ds).toks → bytesOf (dials pre len (start h0) ds).heap t.1 = t.2 :=
  (dials_inv h0 pre len ds hp).stable

/-- dial `i`'s token is the value model's: original prefix bytes, then the tail its own random stream supplied -/
theorem tokens_are_as_specified (h0 : List (List Nat)) (pre : Slice) (len : Nat) (ds : List Draw)
    (hp : PrefixInHeap h0 pre) :
    (dials pre len (start h0) ds).toks.map (fun t => bytesOf (dials pre len (start h0) ds).heap t.1) =
      ds.map (fun d => tokenFor (specOf h0 pre len) d.s d.off) := by
  have inv := dials_inv h0 pre len ds hp
  rw [← inv.vals]
  apply List.map_congr_left
  intro t ht
  exact inv.stable t ht

/-- one array per token, all different, all allocated behind the caller's arrays -/
theorem tokens_do_not_share_arrays (h0 : List (List Nat)) (pre : Slice) (len : Nat) (ds : List Draw)
    (hp : PrefixInHeap h0 pre) :
    (dials pre len (start h0) ds).toks.map (·.1.arr) = List.range' h0.length ds.length ∧
    ((dials pre len (start h0) ds).toks.map (·.1.arr)).Nodup ∧
    ∀ t, t ∈ (dials pre len (start h0) ds).toks → h0.length ≤ t.1.arr := by
  have inv := dials_inv h0 pre len ds hp
  refine ⟨inv.arrs, ?_, ?_⟩
  · rw [inv.arrs]; exact List.nodup_range'
  · intro t ht
    have : t.1.arr ∈ List.range' h0.length ds.length := by rw [← inv.arrs]; exact List.mem_map_of_mem ht
    exact (List.mem_range'_1.mp this).1

/-- fresh per dial, judged when all dials are over: dials `i` and `j` whose random sources differ at some
    position of the tail hold different tokens in the final heap -/
theorem fresh_across_dials (h0 : List (List Nat)) (pre : Slice) (len : Nat) (ds : List Draw)
    (hp : PrefixInHeap h0 pre) (i j k : Nat) (hi : i < ds.length) (hj : j < ds.length)
    (hk : k < max len pre.len - pre.len)
    (hdiff : (ds[i]).s ((ds[i]).off + k) ≠ (ds[j]).s ((ds[j]).off + k)) :
    ((dials pre len (start h0) ds).toks.map (fun t => bytesOf (dials pre len (start h0) ds).heap t.1))[i]? ≠
    ((dials pre len (start h0) ds).toks.map (fun t => bytesOf (dials pre len (start h0) ds).heap t.1))[j]? := by
  rw [tokens_are_as_specified h0 pre len ds hp]
  simp only [List.getElem?_map, List.getElem?_eq_getElem hi, List.getElem?_eq_getElem hj, Option.map_some]
  intro heq
  have hk' : k < max len (bytesOf h0 pre).length - (bytesOf h0 pre).length := by rw [hp.2]; exact hk
  exact Uquic.Props.C10.token_fresh_per_dial (specOf h0 pre len) (bytesOf h0 pre) len _ _ _ _ k rfl hk' hdiff
    (Option.some.inj heq)

/-! ### the hypotheses are satisfiable, the statements are not vacuous -/

/-- a 70-byte captured token, its first byte pinned as the prefix (`captured[:1]`, capacity 70) -/
def capturedHeap : List (List Nat) := [0 :: List.replicate 69 0xa5]
def capturedPrefix : Slice := { arr := 0, off := 0, len := 1, cap := 70 }

example : PrefixInHeap capturedHeap capturedPrefix := ⟨by decide, by decide⟩

def drawA : Draw := { s := fun k => (3 * k + 1) % 256, off := 0 }
def drawB : Draw := { s := fun k => (5 * k + 2) % 256, off := 7 }

example : ((dials capturedPrefix 4 (start capturedHeap) [drawA, drawB]).toks.map
    (fun t => bytesOf (dials capturedPrefix 4 (start capturedHeap) [drawA, drawB]).heap t.1)) =
    [[0, 1, 4, 7], [0, 37, 42, 47]] := by decide

/-! ### negative witnesses: the `append` rewrite of `Pop` -/

def dialsAppend (pre : Slice) (len : Nat) (st : St) (ds : List Draw) : St := ds.foldl (dialAppend pre len) st

/-- with spare capacity behind the prefix the second dial rewrites the first connection's token … -/
theorem append_rewrite_changes_earlier_token :
    ∃ t, t ∈ (dialsAppend capturedPrefix 4 (start capturedHeap) [drawA, drawB]).toks ∧
      bytesOf (dialsAppend capturedPrefix 4 (start capturedHeap) [drawA, drawB]).heap t.1 ≠ t.2 :=
  ⟨(⟨0, 0, 4, 70⟩, [0, 1, 4, 7]), by decide, by decide⟩

/-- … and already the first dial writes into the caller's buffer behind the prefix -/
theorem append_rewrite_dirties_caller_buffer :
    slack (dialsAppend capturedPrefix 4 (start capturedHeap) [drawA]).heap capturedPrefix ≠
      slack capturedHeap capturedPrefix := by decide

/-- without spare capacity (`[]byte{0x00}` literal) the rewrite is indistinguishable — which is why the defect
    class needs prefix slices WITH spare capacity to be seen at all -/
example : (dialsAppend { arr := 0, off := 0, len := 1, cap := 1 } 4 (start [[0]]) [drawA, drawB]).toks.map
    (fun t => bytesOf (dialsAppend { arr := 0, off := 0, len := 1, cap := 1 } 4 (start [[0]]) [drawA, drawB]).heap t.1) =
    [[0, 1, 4, 7], [0, 37, 42, 47]] := by decide

end Uquic.Props.C10Alias
