/-
C18 ∘ C19 — "HTTP/3 carries requests and responses end to end without loss or alteration", at the level
of whole messages (DESIGN §7 C18 theorem 5 `message_fields_preserved`, extended to bodies and trailers).

Property theorems only; helpers are in Uquic/Proofs/H3Message*.lean. The two builders' models are used
unchanged:
  C18  frames / `Stream.Read` / `body.Read` / `Stream.Write` / `responseWriter` (Model/H3/{Frames,MsgStream,
       Body,RespWriter}.lean) — framing, chunkings, body accounting;
  C19  `encodeHeaders`, `responseWriter.writeHeader` (`responseFields`), `writeTrailers`, `parseHeaders`,
       `requestFromHeaders`, `updateResponseFromHeaders`, `parseTrailers` (Model/H3/{Fields,Writer}.lean).
The glue (adapter definitions, all in Proofs/H3Message*.lean, each a composition of operations the two
drivers tie one by one): `hdrFrameOf` (a HEADERS frame around an uninterpreted field section, as C18's
`WFrame`), `readHead` (ParseNext + "must be HEADERS" + size check + io.ReadFull = the head of
handleRequestStream and of ReadResponse), `serverHead` / `clientHead` / `recvTrailers` (decode + C19's
parser), `recvBody` (C18's `Body` over the rest of the stream), `layoutRecs` (C18's write records → bytes).

WHAT STAYS A PARAMETER / ABSTRACT
  * QPACK: `q : Qpack` (any encoder/decoder pair) with the round-trip contract `q.RoundTrip` only; the
    encoded sections enter C18's frames as opaque payloads;
  * `urlOK` = url.ParseRequestURI's verdict on the emitted :path (hypothesis: it accepts it); `ext` =
    strings.ToLower on non-ASCII names (every answer); PunycodeHostPort, URL.RequestURI(), URL.Scheme and the
    iteration order of Go maps are inputs (`WReq.puny/reqURI/scheme`, the order of the lists) as in C19;
  * net/http canonicalisation: `ValidRequest` / `ValidResponse` / `ValidTrailers` (C19) say what a valid
    net/http message is; header keys reach the handler under textproto canonical form (`canonKey`);
  * the receiver's limit `mh` (MaxHeaderBytes < 2^62): hypotheses `Fits` say the sections are within it;
  * C18's response writer model keeps its own (string) view of the header map; the field-section CONTENT is
    taken from C19's `responseFields` / `writeTrailers`, the POSITIONS of the HEADERS frames and every body
    byte from C18's record list. The one assumption that links the two models is `hcount`: the response
    writer wrote exactly one header section (no interim 1xx response) and one trailer section exactly
    when C19's `writeTrailers` writes one;
  * CONNECT / extended CONNECT requests (no message body semantics) are covered for fields by
    C19 `writer_parser_agree` only; gzip response decoding, interim 1xx responses on the client and
    trailer-parse failures surfacing as read errors are outside these statements.
-/
import Uquic.Proofs.H3MessageResp
import Uquic.Proofs.H3MessageFields
import Uquic.Proofs.H3MessageBody
import Uquic.Proofs.H3MessageToy

namespace Uquic.Props.C18Compose
open Uquic.Model.H3 Uquic.Spec.H3Wire Uquic.Proofs.H3 Uquic.Proofs.H3Msg Uquic.Props.C18
open Uquic.Model.H3.Writer (WReq encodeHeaders writeTrailers responseFields shouldSendCL)
open Uquic.Model.H3.Fields (mConnect)
open Uquic.Proofs.Fields (ValidRequest ValidTrailers ValidResponse emittedPath)
open Uquic.Spec.H3Fields (sectionSize)

/-- a request as the client's `doRequest` sends it -/
structure ReqMsg where
  /-- method, punycoded host, RequestURI, scheme, header map (repeated values, cookies), announced trailer
      keys, declared length, gzip flag — C19's `WReq` -/
  w : WReq
  /-- the `Stream.Write` calls of `sendRequestBody` (the chunks io.Copy hands over), in order -/
  chunks : List (List Nat)
  /-- `req.Trailer` when `sendRequestTrailer` runs -/
  trailers : List (List Nat × List (List Nat))

/-- the QPACK-encoded trailer section, if `writeTrailers` writes one -/
def trailerSec (q : Qpack) (t : List (List Nat × List (List Nat))) : Option (List Nat) := (writeTrailers t).map q.enc

/-- the bytes of the request stream: HEADERS(encodeHeaders) ‖ what `Stream.Write` puts on the wire for each
    chunk (C18's `writeAll`) ‖ HEADERS(writeTrailers)?, then FIN -/
def requestWire (q : Qpack) (fs : List (List Nat × List Nat)) (m : ReqMsg) : List Nat :=
  (hdrFrameOf (q.enc fs)).enc ++ sentBytes (writeAll {} m.chunks) ++
    encFrames ((trailerSec q m.trailers).map hdrFrameOf).toList

/-- the receiver's MaxHeaderBytes admits the section: field-section size (name + value + 32 per field) and
    encoded length -/
structure Fits (q : Qpack) (mh : Nat) (fs : List (List Nat × List Nat)) : Prop where
  size : sectionSize fs ≤ mh
  frame : (q.enc fs).length ≤ mh

/-- What the application on the receiving side observes through the body reader `b`, for the read sizes
    `ns`, when `body` was written and `t` is the writer's trailer map (`rest` = bytes left on the stream):
    (a) the bytes returned are a prefix of `body`;
    (b) the only error is a clean EOF; at that point ALL of `body` and nothing else has been returned and the
        trailers the callback produced are exactly the emitted ones under canonical keys (none if none);
    (c) reads of positive size do get there. -/
def BodyPreserved (q : Qpack) (ext : List Nat → Bool) (mh : Nat) (b : Body) (rest : Nat) (body : List Nat)
    (t : List (List Nat × List (List Nat))) (ns : List Nat) : Prop :=
  (b.readMany ns).2.1 <+: body ∧
  (∀ e, (b.readMany ns).2.2 = some e →
    e = .eof ∧ (b.readMany ns).2.1 = body ∧ recvTrailers q ext mh (b.readMany ns).1.str.m = expectedTrailers t) ∧
  ((∀ n ∈ ns, 0 < n) → rest < ns.length → (b.readMany ns).2.2.isSome)

/-! ### glue -/

theorem toList_map_hdr (tsec : Option (List Nat)) : tsec.toList.map hdrFrameOf = (tsec.map hdrFrameOf).toList := by
  cases tsec <;> rfl

/-- a stream laid out as HEADERS ‖ DATA* ‖ HEADERS?: the head is read, the body part is left -/
theorem head_then_body (mh : Nat) (hmh : mh < 2 ^ 62) (hsec : List Nat) (hh : hsec.length ≤ mh) (ws : List (List Nat))
    (hlen : ∀ w ∈ ws, w.length < 2 ^ 62) (tsec : Option (List Nat)) (ht : ∀ t, tsec = some t → t.length ≤ mh)
    (cells : List (Nat × Bool))
    (hcells : cells.map (·.1) =
      (hdrFrameOf hsec).enc ++ encFrames (ws.map dataFrameOf) ++ encFrames (tsec.map hdrFrameOf).toList) :
    ∃ cells', readHead (pstateOf cells) mh = (pstateOf cells', .ok hsec) ∧
      cells'.map (·.1) = encFrames (bodyFrames ws tsec) := by
  refine readHead_ok mh hsec (bodyFrames ws tsec) (by omega) hh
    (bodyFrames_ok ws tsec hlen (fun t h => by have := ht t h; omega)) cells ?_
  rw [hcells]
  simp [encFrames, bodyFrames, encFrames_append, List.append_assoc]

theorem bodyPreserved_of_layout (q : Qpack) (hq : q.RoundTrip) (ext : List Nat → Bool) (mh : Nat) (hmh : mh < 2 ^ 62)
    (ws : List (List Nat)) (hlen : ∀ w ∈ ws, w.length < 2 ^ 62)
    (t : List (List Nat × List (List Nat))) (hvt : ValidTrailers t)
    (hfitT : ∀ tf, writeTrailers t = some tf → Fits q mh tf)
    (cells' : List (Nat × Bool)) (hc : cells'.map (·.1) = encFrames (bodyFrames ws (trailerSec q t)))
    (cl : Int) (hcl : cl < 0 ∨ (ws.flatten.length : Int) ≤ cl) (ns : List Nat) :
    BodyPreserved q ext mh (recvBody mh cells' cl) cells'.length ws.flatten t ns := by
  have htm : ∀ s, trailerSec q t = some s → s.length ≤ mh := by
    intro s hs
    simp only [trailerSec, Option.map_eq_some_iff] at hs
    obtain ⟨tf, h1, rfl⟩ := hs
    exact (hfitT tf h1).frame
  obtain ⟨b1, b2, b3⟩ := body_exact mh ws (trailerSec q t) hlen (fun s hs => by have := htm s hs; omega) htm
    cells' hc cl hcl ns
  refine ⟨b1, ?_, b3⟩
  intro e he
  obtain ⟨e1, e2, e3⟩ := b2 e he
  exact ⟨e1, e2, recvTrailers_agree q hq ext mh t hvt (fun tf h => (hfitT tf h).size) _ e3⟩

/-! ### requests -/

/-- `request_message_preserved`.  For every ordinary (non-CONNECT) request the request writer's own
    validation accepts (`encodeHeaders ua m.w = ok fs`) and that is a valid net/http message
    (`ValidRequest`, `ValidTrailers`), with a non-empty host, whose body is written in ANY chunking
    `m.chunks` and, if a Content-Length is sent, does not exceed it; for every QPACK with the round-trip
    contract, every limit `mh` that admits the sections, EVERY delivery chunking `cells` of the request
    stream and EVERY sequence of read sizes `ns`:
    the server's `handleRequestStream` head accepts the stream and builds EXACTLY `expectedReq`: the same
    method, host = the punycoded authority, RequestURI = the emitted path, proto HTTP/3.0, Content-Length =
    the sent one (or -1), and the header map = the emitted regular fields in order under canonical keys,
    with the Cookie fields joined by "; ", Content-Length as one normalised entry and the `Trailer`
    announcement moved to `Request.Trailer` (C19's statement, as an equation);
    the handler's `req.Body` then yields exactly the bytes written, a clean EOF, and `req.Trailer` is then
    exactly what `writeTrailers` emitted under canonical keys (`BodyPreserved`). -/
theorem request_message_preserved (q : Qpack) (hq : q.RoundTrip) (ext urlOK : List Nat → Bool) (ua : List Nat)
    (m : ReqMsg) (fs : List (List Nat × List Nat)) (host : List Nat)
    (hv : ValidRequest ua m.w) (hw : encodeHeaders ua m.w = .ok fs) (hvt : ValidTrailers m.trailers)
    (hm : m.w.method ≠ mConnect) (hp : m.w.puny = some host) (hhost : host ≠ [])
    (hurl : urlOK (emittedPath m.w host) = true)
    (hcl : shouldSendCL m.w.method m.w.contentLength = true → (m.chunks.flatten.length : Int) ≤ m.w.contentLength)
    (mh : Nat) (hmh : mh < 2 ^ 62) (hfit : Fits q mh fs)
    (hfitT : ∀ tf, writeTrailers m.trailers = some tf → Fits q mh tf)
    (hlen : ∀ c ∈ m.chunks, c.length < 2 ^ 62)
    (cells : List (Nat × Bool)) (hcells : cells.map (·.1) = requestWire q fs m) (ns : List Nat) :
    ∃ cells', serverHead q ext urlOK mh (pstateOf cells) = (pstateOf cells', .ok (expectedReq ua m.w host)) ∧
      BodyPreserved q ext mh (recvBody mh cells' (expectedReq ua m.w host).contentLength) cells'.length
        m.chunks.flatten m.trailers ns := by
  have hb : sentBytes (writeAll {} m.chunks) = encFrames (m.chunks.map dataFrameOf) := by
    have := writeAll_bytes m.chunks hlen {} rfl rfl
    simpa [sentBytes] using this
  have htm : ∀ s, trailerSec q m.trailers = some s → s.length ≤ mh := by
    intro s hs
    simp only [trailerSec, Option.map_eq_some_iff] at hs
    obtain ⟨tf, h1, rfl⟩ := hs
    exact (hfitT tf h1).frame
  obtain ⟨cells', hread, hrest⟩ := head_then_body mh hmh (q.enc fs) hfit.frame m.chunks hlen
    (trailerSec q m.trailers) htm cells (by rw [hcells, requestWire, hb])
  refine ⟨cells', ?_, ?_⟩
  · simp only [serverHead, hread, hq fs,
      request_fields_agree ext urlOK ua m.w fs host hv hw hm hp hhost hurl mh hfit.size]
  · apply bodyPreserved_of_layout q hq ext mh hmh m.chunks hlen m.trailers hvt hfitT cells' hrest
    show parsedReqCL m.w < 0 ∨ (m.chunks.flatten.length : Int) ≤ parsedReqCL m.w
    unfold parsedReqCL
    by_cases hs : shouldSendCL m.w.method m.w.contentLength = true
    · simp only [hs, ↓reduceIte]; exact Or.inr (hcl hs)
    · simp only [hs, Bool.false_eq_true, ↓reduceIte]; exact Or.inl (by decide)

/-! ### responses -/

/-- the bytes of the response stream, from the records C18's response writer model has written: every raw
    write as it is, the first HEADERS record carrying what C19's `responseWriter.writeHeader` emits for the
    writer's final status and the header map `hs`, the second one what `writeTrailers` emits for `t` -/
def responseWire (q : Qpack) (hs t : List (List Nat × List (List Nat))) (wfin : RW) : List Nat :=
  layoutRecs wfin.str.writes (q.enc (responseFields (wfin.status : Int) hs) :: (trailerSec q t).toList)

/-- `response_message_preserved`.  `w` is the response writer when the handler starts writing, `ops` ANY
    handler script (Header().Set/Del, WriteHeader, Write in any chunking, Flush, in any order), `wfin` the
    writer after the server's end-of-request processing. Two cases, stated explicitly (`hcase`):
    * a body is allowed (`Ready w`: final status set by WriteHeader, not a HEAD request, status not
      1xx/204/304, live stream, nothing written yet) and the declared Content-Length, if any, is not
      exceeded — then `body` = the bytes of all `Write` calls in order;
    * no body may be sent (`NoBody w`, C18 `head_and_nobody_status_suppress_body`: HEAD request, or final
      status 1xx / 204 / 304) — then `body` = [] whatever the handler writes.
    For every valid response header map `hs` (`ValidResponse`, C19) and trailer map `t`, every QPACK with
    the round-trip contract, every limit that admits the sections, EVERY delivery chunking of the response
    stream and EVERY sequence of read sizes: the client's `ReadResponse` accepts the stream and builds
    EXACTLY `expectedResp`: the same status, Content-Length = the declared one (or -1), header map = the
    emitted regular fields in order under canonical keys (connection-specific fields dropped, Content-Length
    normalised, `Trailer` announcement moved to `Response.Trailer`); `res.Body` then yields exactly `body`,
    a clean EOF, and the trailers are then exactly what `writeTrailers` emitted (`BodyPreserved`).
    (When a HEAD / 304 response declares a Content-Length without sending a body the reader still ends with
    a clean EOF after 0 bytes — that is the legitimate face of the under-length known finding.) -/
theorem response_message_preserved (q : Qpack) (hq : q.RoundTrip) (ext : List Nat → Bool)
    (w wfin : RW) (ops : List HOp) (hfin : wfin = (ops.foldl applyOp w).finish) (body : List Nat)
    (hcase : (Ready w ∧ (w.contentLen = 0 ∨ (payloads ops).flatten.length ≤ w.contentLen) ∧
                (payloads ops).flatten.length < 2 ^ 62 ∧ body = (payloads ops).flatten) ∨
             (NoBody w ∧ rawOf w.str = [] ∧ body = []))
    (hs t : List (List Nat × List (List Nat))) (clv : List Nat)
    (hv : ValidResponse (wfin.status : Int) hs clv) (hvt : ValidTrailers t)
    (hcount : hdrCount wfin.str.writes = 1 + (writeTrailers t).toList.length)
    (hclc : parsedRespCL hs clv < 0 ∨ (body.length : Int) ≤ parsedRespCL hs clv)
    (mh : Nat) (hmh : mh < 2 ^ 62) (hfit : Fits q mh (responseFields (wfin.status : Int) hs))
    (hfitT : ∀ tf, writeTrailers t = some tf → Fits q mh tf)
    (cells : List (Nat × Bool)) (hcells : cells.map (·.1) = responseWire q hs t wfin) (ns : List Nat) :
    ∃ cells', clientHead q ext mh (pstateOf cells) = (pstateOf cells', .ok (expectedResp (wfin.status : Int) hs clv)) ∧
      BodyPreserved q ext mh (recvBody mh cells' (expectedResp (wfin.status : Int) hs clv).contentLength)
        cells'.length body t ns := by
  have htm : ∀ s, trailerSec q t = some s → s.length ≤ mh := by
    intro s hs'
    simp only [trailerSec, Option.map_eq_some_iff] at hs'
    obtain ⟨tf, h1, rfl⟩ := hs'
    exact (hfitT tf h1).frame
  have hcount' : hdrCount wfin.str.writes =
      (q.enc (responseFields (wfin.status : Int) hs) :: (trailerSec q t).toList).length := by
    rw [hcount]
    cases hwt : writeTrailers t <;> simp [trailerSec, hwt] <;> omega
  -- the layout of the stream: HEADERS ‖ DATA frames carrying `body` ‖ HEADERS?
  have hlay : ∃ cs : List (List Nat), (∀ c ∈ cs, c.length < 2 ^ 62) ∧ cs.flatten = body ∧
      responseWire q hs t wfin = (hdrFrameOf (q.enc (responseFields (wfin.status : Int) hs))).enc ++
        encFrames (cs.map dataFrameOf) ++ encFrames ((trailerSec q t).map hdrFrameOf).toList := by
    rcases hcase with ⟨hr, hcl, hlen, rfl⟩ | ⟨hn, hraw, rfl⟩
    · obtain ⟨hf, raws, cs, tl, e1, e2, e3, e4, e5⟩ := ready_run w ops hr hcl hlen
      rw [← hfin] at e1
      refine ⟨cs, e5, e4, ?_⟩
      unfold responseWire
      rw [e1] at hcount' ⊢
      rw [layout_shape hf raws tl e2 _ _ hcount', e3]
    · have hsup := head_and_nobody_status_suppress_body w hn ops
      rw [← hfin, hraw] at hsup
      refine ⟨[], by simp, rfl, ?_⟩
      unfold responseWire
      rw [layout_hdrs_only _ (rawOf_nil_hdrs _ hsup) _ hcount']
      simp [encFrames, toList_map_hdr]
  obtain ⟨cs, hcs, hflat, hwire⟩ := hlay
  obtain ⟨cells', hread, hrest⟩ := head_then_body mh hmh _ hfit.frame cs hcs (trailerSec q t) htm cells
    (by rw [hcells, hwire])
  refine ⟨cells', ?_, ?_⟩
  · simp only [clientHead, hread, hq _, response_fields_agree ext _ hs clv hv mh hfit.size]
  · rw [← hflat]
    exact bodyPreserved_of_layout q hq ext mh hmh cs hcs t hvt hfitT cells' hrest _ (by rw [hflat]; exact hclc) ns

/-! ### declared length against bytes written -/

/-- `body_length_consistent`.  The body part of a message (one DATA frame per write, an optional trailer
    section within the limit), ANY delivery chunking, ANY read sizes, read through `body.Read` with the
    declared Content-Length `cl`:
    (a) declared = written: only the written bytes are returned, the only error is a clean EOF after ALL
        of them (never errTooMuchData), and positive reads do end with that EOF;
    (b) written > declared: never more than `cl` bytes are delivered, the only error is errTooMuchData,
        and positive reads do report it (C18 `content_length_enforced_partial`);
    (c) written < declared: NOT reported — the reader ends with a clean EOF after the written bytes
        (listed known finding C18/under-length-body, kernel-refuted full statement in C18). -/
theorem body_length_consistent (mh : Nat) (ws : List (List Nat)) (tsec : Option (List Nat))
    (hlen : ∀ w ∈ ws, w.length < 2 ^ 62) (ht62 : ∀ t, tsec = some t → t.length < 2 ^ 62)
    (htm : ∀ t, tsec = some t → t.length ≤ mh)
    (cells : List (Nat × Bool)) (hcells : cells.map (·.1) = encFrames (bodyFrames ws tsec)) (cl : Nat) (ns : List Nat) :
    (cl = ws.flatten.length →
      ((bodyOf mh cells cl).readMany ns).2.1 <+: ws.flatten ∧
      (∀ e, ((bodyOf mh cells cl).readMany ns).2.2 = some e →
        e = .eof ∧ ((bodyOf mh cells cl).readMany ns).2.1 = ws.flatten) ∧
      ((∀ n ∈ ns, 0 < n) → cells.length < ns.length → ((bodyOf mh cells cl).readMany ns).2.2 = some .eof)) ∧
    (cl < ws.flatten.length →
      ((bodyOf mh cells cl).readMany ns).2.1.length ≤ cl ∧ ((bodyOf mh cells cl).readMany ns).2.1 <+: ws.flatten ∧
      (∀ e, ((bodyOf mh cells cl).readMany ns).2.2 = some e → e = .tooMuchData) ∧
      ((∀ n ∈ ns, 0 < n) → cells.length < ns.length → ((bodyOf mh cells cl).readMany ns).2.2 = some .tooMuchData)) ∧
    (ws.flatten.length < cl →
      ∀ e, ((bodyOf mh cells cl).readMany ns).2.2 = some e →
        e = .eof ∧ ((bodyOf mh cells cl).readMany ns).2.1 = ws.flatten) := by
  have hok := bodyFrames_ok ws tsec hlen ht62
  have hctl := bodyFrames_ctl ws tsec
  have hexp := expect_bodyFrames mh ws tsec htm
  have hclean : (expect mh false (bodyFrames ws tsec)).2 = .eof := by rw [hexp]
  obtain ⟨p1, p2, p3, p4⟩ := content_length_enforced_partial mh cl (bodyFrames ws tsec) hok hctl hclean cells hcells ns
  rw [hexp] at p2 p3 p4
  simp only at p2 p3 p4
  have hcl' : (encFrames (bodyFrames ws tsec)).length = cells.length := by
    have := congrArg List.length hcells
    simpa using this.symm
  refine ⟨?_, ?_, ?_⟩
  · intro heq
    obtain ⟨b1, b2, b3⟩ := body_exact mh ws tsec hlen ht62 htm cells hcells (cl : Int) (Or.inr (by omega)) ns
    rw [recvBody_nat] at b1 b2 b3
    refine ⟨b1, fun e he => ⟨(b2 e he).1, (b2 e he).2.1⟩, ?_⟩
    intro hpos hl
    obtain ⟨e, he⟩ := Option.isSome_iff_exists.mp (b3 hpos hl)
    rw [he, (b2 e he).1]
  · intro hover
    refine ⟨p1, p2, ?_, ?_⟩
    · intro e he
      rcases p3 e he with ⟨e1, _⟩ | ⟨_, e2, _⟩
      · exact e1
      · omega
    · intro hpos hl
      exact p4 hover hpos (by rw [hcl']; exact hl)
  · intro hunder e he
    rcases p3 e he with ⟨_, e2⟩ | ⟨e1, _, e3⟩
    · omega
    · exact ⟨e1, e3⟩

/-! ### non-vacuity: concrete messages through the composed pipeline (QPACK := the length-prefixed toy codec) -/

section Examples
open Uquic.Model.H3.Fields (B Req Resp)

/-- a POST with a repeated header (X-Tag: one, two), a cookie pair, a declared length of 6, a body written
    in 3 chunks and one trailer -/
def rqMsg : ReqMsg :=
  { w := { method := B "POST", proto := B "HTTP/1.1", puny := some (B "example.com"), reqURI := B "/a?b=c",
           scheme := B "https",
           headers := [(B "X-Tag", [B "one", B "two"]), (B "Cookie", [B "a=1", B "b=2"])],
           trailerKeys := [B "X-Checksum"], contentLength := 6, gzip := false },
    chunks := [[1, 2], [3], [4, 5, 6]],
    trailers := [(B "X-Checksum", [B "abc"])] }
def rqUA : List Nat := B "ua"
/-- what `encodeHeaders` hands to the QPACK encoder -/
def rqFields : List (List Nat × List Nat) :=
  [(B ":authority", B "example.com"), (B ":method", B "POST"), (B ":path", B "/a?b=c"), (B ":scheme", B "https"),
   (B "trailer", B "X-Checksum"), (B "x-tag", B "one"), (B "x-tag", B "two"), (B "cookie", B "a=1"), (B "cookie", B "b=2"),
   (B "content-length", B "6"), (B "user-agent", B "ua")]
def rqWire : List Nat := requestWire toyQ rqFields rqMsg
/-- the request stream delivered in two chunks that cut the HEADERS frame -/
def rqCells : List (Nat × Bool) := markChunk (rqWire.take 40) ++ markChunk (rqWire.drop 40)
/-- what the handler must see -/
def rqExpected : Req :=
  { method := B "POST", proto := B "HTTP/3.0", host := B "example.com", requestURI := B "/a?b=c", urlFromPath := true,
    contentLength := 6,
    headers := [(B "X-Tag", B "one"), (B "X-Tag", B "two"), (B "User-Agent", B "ua"), (B "Content-Length", B "6"),
      (B "Cookie", B "a=1; b=2")],
    trailer := some [B "X-Checksum"] }

set_option maxRecDepth 100000 in
/-- the hypotheses of `request_message_preserved` are satisfiable by that request: the theorem applies -/
example (ns : List Nat) :
    ∃ cells', serverHead toyQ (fun _ => true) (fun _ => true) 1000 (pstateOf rqCells) =
        (pstateOf cells', .ok (expectedReq rqUA rqMsg.w (B "example.com"))) ∧
      BodyPreserved toyQ (fun _ => true) 1000 (recvBody 1000 cells' (expectedReq rqUA rqMsg.w (B "example.com")).contentLength)
        cells'.length rqMsg.chunks.flatten rqMsg.trailers ns :=
  request_message_preserved toyQ toyQ_roundTrip (fun _ => true) (fun _ => true) rqUA rqMsg rqFields (B "example.com")
    ⟨by decide, by decide, by decide, by decide, by decide, by decide, by decide⟩ (by decide)
    (by unfold ValidTrailers; decide) (by decide) rfl (by decide) rfl (by decide) 1000 (by decide)
    ⟨by decide, by decide⟩
    (by
      intro tf h
      have h1 : writeTrailers rqMsg.trailers = some [(B "x-checksum", B "abc")] := by decide
      rw [h1] at h; cases h
      exact ⟨by decide, by decide⟩)
    (by decide) rqCells (by decide) ns

set_option maxRecDepth 100000 in
/-- … and computed: the handler sees the method, host, URI, the repeated X-Tag values in order, the joined
    cookie, the normalised Content-Length and the announced trailer; -/
example : expectedReq rqUA rqMsg.w (B "example.com") = rqExpected ∧
    (serverHead toyQ (fun _ => true) (fun _ => true) 1000 (pstateOf rqCells)).2 = .ok rqExpected := by decide

/-- what is left on the stream after the head -/
def rqRest : List (Nat × Bool) := (serverHead toyQ (fun _ => true) (fun _ => true) 1000 (pstateOf rqCells)).1.u.cells

set_option maxRecDepth 100000 in
/-- … reads of sizes 4, 0, 1, 7, … return the six body bytes and a clean EOF, and `req.Trailer` is then
    X-Checksum: abc -/
example : ((recvBody 1000 rqRest 6).readMany [4, 0, 1, 7, 7, 7]).2 = ([1, 2, 3, 4, 5, 6], some .eof) ∧
    recvTrailers toyQ (fun _ => true) 1000 ((recvBody 1000 rqRest 6).readMany [4, 0, 1, 7, 7, 7]).1.str.m =
      some (.ok [(B "X-Checksum", B "abc")]) := by decide

/-- a 200 response streamed by a handler that flushes first and then writes "Hi", "", "!!!!!" -/
def rsW : RW := (({} : RW).WriteHeader 200).getD {}
def rsOps : List HOp := [.flush, .write [72, 105], .write [], .write (List.replicate 5 33)]
def rsFin : RW := (rsOps.foldl applyOp rsW).finish
/-- header map: a repeated Set-Cookie, a connection-specific field the writer drops, a trailer announcement -/
def rsHdr : List (List Nat × List (List Nat)) :=
  [(B "Content-Type", [B "text/plain"]), (B "Set-Cookie", [B "a=1", B "b=2"]), (B "Connection", [B "close"]),
   (B "Trailer", [B "X-T"])]
def rsCells : List (Nat × Bool) :=
  markChunk ((responseWire toyQ rsHdr [] rsFin).take 7) ++ markChunk ((responseWire toyQ rsHdr [] rsFin).drop 7)

theorem rsW_ready : Ready rsW :=
  ready_established {} 200 rfl rfl rfl rfl rfl rfl rfl rfl rfl rfl (by decide) (by decide)

set_option maxRecDepth 100000 in
/-- the hypotheses of `response_message_preserved` (body allowed) are satisfiable: the theorem applies -/
example (ns : List Nat) :
    ∃ cells', clientHead toyQ (fun _ => true) 1000 (pstateOf rsCells) =
        (pstateOf cells', .ok (expectedResp (rsFin.status : Int) rsHdr (B "0"))) ∧
      BodyPreserved toyQ (fun _ => true) 1000
        (recvBody 1000 cells' (expectedResp (rsFin.status : Int) rsHdr (B "0")).contentLength) cells'.length
        (payloads rsOps).flatten [] ns := by
  have hst : rsFin.status = 200 := by decide
  refine response_message_preserved toyQ toyQ_roundTrip (fun _ => true) rsW rsFin rsOps rfl _
    (Or.inl ⟨rsW_ready, Or.inl (by decide), by decide, rfl⟩) rsHdr [] (B "0") ?_ (by unfold ValidTrailers; decide)
    (by decide) (by decide) 1000 (by decide) ?_ (by intro tf h; cases h) rsCells (by decide) ns
  · rw [hst]; exact ⟨by decide, by decide, by decide, by decide⟩
  · rw [hst]; exact ⟨by decide, by decide⟩

set_option maxRecDepth 100000 in
/-- … and computed: one HEADERS record, status 200, DATA "Hi" and DATA "!!!!!" on the wire (the empty Write
    writes nothing); the client sees both Set-Cookie values in order, no Connection field, the announced
    trailer key, and no declared length -/
example : hdrCount rsFin.str.writes = 1 ∧ rsFin.status = 200 ∧
    sentBytes rsFin.str = [0, 2, 72, 105, 0, 5, 33, 33, 33, 33, 33] ∧
    (clientHead toyQ (fun _ => true) 1000 (pstateOf rsCells)).2 =
      .ok { status := 200, contentLength := -1,
            headers := [(B "Content-Type", B "text/plain"), (B "Set-Cookie", B "a=1"), (B "Set-Cookie", B "b=2")],
            trailer := some [B "X-T"] } := by decide

/-- the suppressed case: the same script answering a HEAD request -/
def hdFin : RW := (rsOps.foldl applyOp { isHead := true }).finish

set_option maxRecDepth 100000 in
/-- the hypotheses of `response_message_preserved` (no body may be sent) are satisfiable, with `body = []`
    although the handler wrote 7 bytes -/
example (ns : List Nat) :
    ∃ cells', clientHead toyQ (fun _ => true) 1000 (pstateOf (markChunk (responseWire toyQ rsHdr [] hdFin))) =
        (pstateOf cells', .ok (expectedResp (hdFin.status : Int) rsHdr (B "0"))) ∧
      BodyPreserved toyQ (fun _ => true) 1000
        (recvBody 1000 cells' (expectedResp (hdFin.status : Int) rsHdr (B "0")).contentLength) cells'.length [] [] ns := by
  have hst : hdFin.status = 200 := by decide
  refine response_message_preserved toyQ toyQ_roundTrip (fun _ => true) { isHead := true } hdFin rsOps rfl []
    (Or.inr ⟨⟨rfl, Or.inl rfl⟩, rfl, rfl⟩) rsHdr [] (B "0") ?_ (by unfold ValidTrailers; decide)
    (by decide) (by decide) 1000 (by decide) ?_ (by intro tf h; cases h) _ (by decide) ns
  · rw [hst]; exact ⟨by decide, by decide, by decide, by decide⟩
  · rw [hst]; exact ⟨by decide, by decide⟩

/-- `body_length_consistent`: "ab" ‖ "c" ‖ trailers, delivered byte by byte -/
def blCells : List (Nat × Bool) := (encFrames (bodyFrames [[97, 98], [99]] (some [9, 9]))).map fun b => (b, true)

set_option maxRecDepth 100000 in
/-- its hypotheses are satisfiable, and computed: declared 3 = written 3 → the bytes and a clean EOF;
    declared 2 → two bytes and errTooMuchData; declared 5 → the three bytes and a clean EOF (known finding) -/
example : blCells.map (·.1) = encFrames (bodyFrames [[97, 98], [99]] (some [9, 9])) ∧
    ((bodyOf 100 blCells 3).readMany (List.replicate 12 5)).2 = ([97, 98, 99], some .eof) ∧
    ((bodyOf 100 blCells 2).readMany (List.replicate 12 5)).2 = ([97, 98], some .tooMuchData) ∧
    ((bodyOf 100 blCells 5).readMany (List.replicate 12 5)).2 = ([97, 98, 99], some .eof) := by decide

end Examples

end Uquic.Props.C18Compose
