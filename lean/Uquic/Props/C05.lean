/-
C05 — packet protection round-trips, matches RFC 9001, rejects tampering; key updates neither early
nor late; packet numbers never reused and always decodable.

Property theorems only (helper lemmas live in Uquic/Proofs/{PN,PNGen,…}.lean).
-/
import Uquic.Proofs.PN
import Uquic.Proofs.PNGen

namespace Uquic.Props.C05
open Uquic.Model.PN Uquic.Model.Bytes Uquic.Proofs.PN Uquic.Proofs.PNGen

/-! ## 1. packet-number codec -/

/-- `pn_roundtrip` (receiver form, full strength): for EVERY packet number below 2^62, every wire length
    1..4 and every receiver state `L` (largest packet number successfully processed, `-1` = none) such
    that `pn` lies in the RFC 9000 A.3 window `(L+1-hwin, L+1+hwin]`, `hwin = 2^(8·len-1)`, decoding the
    truncated number the sender wrote (`pn mod 2^(8·len)`) yields exactly `pn`.
    In particular this covers `|pn − (L+1)| < 2^(8·len−1)`. -/
theorem pn_roundtrip (len : Nat) (hl : 1 ≤ len ∧ len ≤ 4) (pn L : Int)
    (hpn : 0 ≤ pn ∧ pn < 2 ^ 62) (hL : -1 ≤ L)
    (hwin : L + 1 - 2 ^ (8 * len) / 2 < pn ∧ pn ≤ L + 1 + 2 ^ (8 * len) / 2) :
    decodePN len L (truncatePN len pn) = pn :=
  decode_window len hl pn L hpn.1 hpn.2 hL hwin.1 hwin.2

/-- the symmetric form of the design: `|pn − (L+1)| < 2^(8·len−1)` -/
theorem pn_roundtrip_abs (len : Nat) (hl : 1 ≤ len ∧ len ≤ 4) (pn L : Int)
    (hpn : 0 ≤ pn ∧ pn < 2 ^ 62) (hL : -1 ≤ L)
    (hwin : (pn - (L + 1)).natAbs < 2 ^ (8 * len) / 2) :
    decodePN len L (truncatePN len pn) = pn := by
  apply pn_roundtrip len hl pn L hpn hL
  obtain ⟨h1, h4⟩ := hl
  have : len = 1 ∨ len = 2 ∨ len = 3 ∨ len = 4 := by omega
  rcases this with rfl | rfl | rfl | rfl <;> simp only [Nat.reduceMul, Nat.reducePow, Int.reducePow] at * <;> omega

/-- what `PacketNumberLengthForHeader` guarantees about the length it picks (`-1` = nothing acknowledged:
    `pn + 1 = pn - (-1)`) -/
theorem pnLen_spec (pn la : Int) :
    (pnLenForHeader pn la = 2 ∧ pn - la < 2 ^ 15) ∨ (pnLenForHeader pn la = 3 ∧ pn - la < 2 ^ 23) ∨
    pnLenForHeader pn la = 4 := by
  unfold pnLenForHeader invalidPN Uquic.Gen.Protocol.InvalidPacketNumber
  by_cases h : la = -1
  · subst h
    simp only [if_true]
    split
    · left; exact ⟨rfl, by omega⟩
    · split
      · right; left; exact ⟨rfl, by omega⟩
      · right; right; rfl
  · simp only [h, if_false]
    split
    · left; exact ⟨rfl, by omega⟩
    · split
      · right; left; exact ⟨rfl, by omega⟩
      · right; right; rfl

/-- `pn_roundtrip_sender`: the sender picks `len = PacketNumberLengthForHeader(pn, largestAcked)` from what
    it knows to be acknowledged (`-1` = nothing yet). Then for EVERY receiver state `L` with
    `largestAcked ≤ L` (the peer processed what it acknowledged) that is not more than half a window
    ahead of `pn` (`L < pn + hwin − 1`; in particular every `L < pn`, and every reordering within the
    window) the truncated number decodes to `pn` — provided no more than 2^31+1 packets are in flight
    beyond `largestAcked` (a 4-byte packet number cannot express more; see `pn_inflight_bound_needed`). -/
theorem pn_roundtrip_sender (pn largestAcked L : Int)
    (hpn : 0 ≤ pn ∧ pn < 2 ^ 62) (hla : -1 ≤ largestAcked ∧ largestAcked < pn)
    (hflight : pn - largestAcked ≤ 2 ^ 31 + 1)
    (hL : largestAcked ≤ L)
    (hahead : L < pn + 2 ^ (8 * pnLenForHeader pn largestAcked) / 2 - 1) :
    decodePN (pnLenForHeader pn largestAcked) L (truncatePN (pnLenForHeader pn largestAcked) pn) = pn := by
  rcases pnLen_spec pn largestAcked with ⟨h, hb⟩ | ⟨h, hb⟩ | h <;> rw [h] at hahead ⊢ <;>
    apply pn_roundtrip _ (by omega) pn L hpn (by omega) <;>
    simp only [Nat.reduceMul, Int.reducePow] at * <;> omega

/-- the in-flight bound of `pn_roundtrip_sender` is needed: with 2^31+2 packets beyond the largest
    acknowledged one a 4-byte number decodes wrongly (inherent in QUIC's 4-byte maximum, RFC 9000 §17.1). -/
theorem pn_inflight_bound_needed :
    let la : Int := 2 ^ 32; let pn : Int := 2 ^ 32 + 2 ^ 31 + 2
    pnLenForHeader pn la = 4 ∧ decodePN 4 la (truncatePN 4 pn) ≠ pn := by
  decide

example : decodePN 2 65000 (truncatePN 2 65600) = 65600 := by decide
example : pnLenForHeader 40000 (-1) = 3 ∧ pnLenForHeader 40000 10000 = 2 := by decide

/-! ## 2. packet numbers are never reused -/

/-- `pn_never_reused`: over ANY sequence of `Pop`s of the skipping generator (any non-negative draws, any
    periods, any start), from a freshly constructed generator or any well-formed state:
    returned numbers strictly increase; a number reported as skipped is never returned — neither before nor
    after — and the number right after a skipped one is returned (never two consecutive skips). -/
theorem pn_never_reused (g : SkipGen) (hwf : g.next ≤ g.nextToSkip) (ds : List Int) (hds : ∀ d ∈ ds, 0 ≤ d) :
    List.Pairwise (· < ·) ((g.run ds).map (·.2)) ∧
    (∀ s ∈ skippedOf (g.run ds), s ∉ (g.run ds).map (·.2)) ∧
    (∀ s ∈ skippedOf (g.run ds), s + 1 ∈ (g.run ds).map (·.2) ∧ s + 1 ∉ skippedOf (g.run ds)) := by
  obtain ⟨_, h2, h3⟩ := run_props ds g hwf hds
  refine ⟨h2, fun s hs => (h3 s hs).2.1, fun s hs => ⟨(h3 s hs).2.2, fun hc => ?_⟩⟩
  exact (h3 (s + 1) hc).2.1 (h3 s hs).2.2

/-- a freshly constructed generator is well formed, for every draw `Int31n` can return -/
theorem pn_gen_new_wf (initial period maxPeriod d : Int) (hd : 0 ≤ d) :
    (SkipGen.new initial period maxPeriod d).next ≤ (SkipGen.new initial period maxPeriod d).nextToSkip :=
  new_wf initial period maxPeriod d hd

/-- `Peek` announces exactly what the next `Pop` returns (the packer relies on this) -/
theorem pn_peek_is_next_pop (g : SkipGen) (d : Int) : g.peek = (g.pop d).2.2 := peek_eq_pop g d

/-- the sequential generator (Initial/Handshake spaces): strictly consecutive numbers -/
theorem pn_seq_consecutive (g : SeqGen) : g.pop.2.2 = g.next ∧ g.pop.1.next = g.next + 1 ∧ g.pop.2.1 = false ∧ g.peek = g.pop.2.2 := by
  simp [SeqGen.pop, SeqGen.peek]

example : (SkipGen.new 0 2 8 0).run [1, 0, 0, 0, 0, 0] = [(false, 0), (false, 1), (false, 2), (true, 4), (false, 5), (false, 6)] := by decide

/-! ## 3. nonces -/

/-- `nonce_injective`: distinct packet numbers (< 2^64, hence all < 2^62) have distinct 8-byte big-endian
    encodings, hence distinct nonces `IV xor (0… ‖ be64 pn)` under the same IV (of any length ≥ 8; 12 in QUIC). -/
theorem nonce_injective (iv : List UInt8) (hiv : 8 ≤ iv.length) (pn₁ pn₂ : Nat) (h₁ : pn₁ < 2 ^ 64) (h₂ : pn₂ < 2 ^ 64)
    (h : nonce iv pn₁ = nonce iv pn₂) : pn₁ = pn₂ := by
  unfold nonce at h
  have hx := xorBytes_cancel iv _ _ (by simp [beBytes_length]) (by simp [beBytes_length]; omega) h
  have := List.append_cancel_left hx
  exact beBytes_inj 8 pn₁ pn₂ (by simpa using h₁) (by simpa using h₂) this

theorem be64_injective (pn₁ pn₂ : Nat) (h₁ : pn₁ < 2 ^ 62) (h₂ : pn₂ < 2 ^ 62) (h : beBytes 8 pn₁ = beBytes 8 pn₂) : pn₁ = pn₂ :=
  beBytes_inj 8 pn₁ pn₂ (by omega) (by omega) h

example : nonce [0,1,2,3,4,5,6,7,8,9,10,11] 258 = [0,1,2,3,4,5,6,7,8,9,11,9] := by decide

end Uquic.Props.C05
