/-
C05 — packet protection round-trips, matches RFC 9001, rejects tampering; key updates neither early
nor late; packet numbers never reused and always decodable.

Property theorems only (helper lemmas live in Uquic/Proofs/{PN,PNGen,…}.lean).
-/
import Uquic.Proofs.PN
import Uquic.Proofs.PNGen
import Uquic.Proofs.KeyPhase
import Uquic.Proofs.Packet
import Uquic.Proofs.KeyPhaseSys
import Uquic.Proofs.PNSpace
import Uquic.Model.Crypto.UInitial
import Uquic.Model.Crypto.RfcConst
import Uquic.Generated.Handshake

namespace Uquic.Props.C05
open Uquic.Model.PN Uquic.Model.Bytes Uquic.Proofs.PN Uquic.Proofs.PNGen

/-! ## 1. packet-number codec -/

/-- `pn_roundtrip` (receiver form, full strength): for EVERY packet number below 2^62, every wire length
    1..4 and every receiver state `L` (largest packet number successfully processed, `-1` = none) such
    that `pn` lies in the RFC 9000 A.3 window `(L+1-hwin, L+1+hwin]`, `hwin = 2^(8·len-1)`, decoding the
    truncated number the sender wrote (`pn mod 2^(8·len)`) yields exactly `pn`.
    In particular this covers `|pn − (L+1)| < 2^(8·len−1)`. -/
theorem pn_roundtrip (len : Nat) (hl : 1 ≤ len ∧ len ≤ 4) (pn L : Int)
    (hpn : 0 ≤ pn ∧ pn < 2 ^ 62) (hL : -1 ≤ L)
    (hwin : L + 1 - 2 ^ (8 * len) / 2 < pn ∧ pn ≤ L + 1 + 2 ^ (8 * len) / 2) :
    decodePN len L (truncatePN len pn) = pn :=
  decode_window len hl pn L hpn.1 hpn.2 hL hwin.1 hwin.2

/-- the symmetric form of the design: `|pn − (L+1)| < 2^(8·len−1)` -/
theorem pn_roundtrip_abs (len : Nat) (hl : 1 ≤ len ∧ len ≤ 4) (pn L : Int)
    (hpn : 0 ≤ pn ∧ pn < 2 ^ 62) (hL : -1 ≤ L)
    (hwin : (pn - (L + 1)).natAbs < 2 ^ (8 * len) / 2) :
    decodePN len L (truncatePN len pn) = pn := by
  apply pn_roundtrip len hl pn L hpn hL
  obtain ⟨h1, h4⟩ := hl
  have : len = 1 ∨ len = 2 ∨ len = 3 ∨ len = 4 := by omega
  rcases this with rfl | rfl | rfl | rfl <;> simp only [Nat.reduceMul, Nat.reducePow, Int.reducePow] at * <;> omega

/-- `pn_decode_range`: for EVERY receiver state below the last packet number and every well-formed truncated
    number, the decoder returns a valid packet number (0 ≤ · < 2^62) congruent to what was on the wire -/
theorem pn_decode_range (len : Nat) (hl : 1 ≤ len ∧ len ≤ 4) (largest t : Int)
    (hL : -1 ≤ largest ∧ largest + 1 < 2 ^ 62) (ht : 0 ≤ t ∧ t < 2 ^ (8 * len)) :
    0 ≤ decodePN len largest t ∧ decodePN len largest t < 2 ^ 62 ∧ decodePN len largest t % 2 ^ (8 * len) = t :=
  decode_range len hl largest t hL.1 hL.2 ht.1 ht.2

/-- what `PacketNumberLengthForHeader` guarantees about the length it picks (`-1` = nothing acknowledged:
    `pn + 1 = pn - (-1)`) -/
theorem pnLen_spec (pn la : Int) :
    (pnLenForHeader pn la = 2 ∧ pn - la < 2 ^ 15) ∨ (pnLenForHeader pn la = 3 ∧ pn - la < 2 ^ 23) ∨
    pnLenForHeader pn la = 4 := by
  unfold pnLenForHeader invalidPN Uquic.Gen.Protocol.InvalidPacketNumber
  by_cases h : la = -1
  · subst h
    simp only [if_true]
    split
    · left; exact ⟨rfl, by omega⟩
    · split
      · right; left; exact ⟨rfl, by omega⟩
      · right; right; rfl
  · simp only [h, if_false]
    split
    · left; exact ⟨rfl, by omega⟩
    · split
      · right; left; exact ⟨rfl, by omega⟩
      · right; right; rfl

/-- `pn_roundtrip_sender`: the sender picks `len = PacketNumberLengthForHeader(pn, largestAcked)` from what
    it knows to be acknowledged (`-1` = nothing yet). Then for EVERY receiver state `L` with
    `largestAcked ≤ L` (the peer processed what it acknowledged) that is not more than half a window
    ahead of `pn` (`L < pn + hwin − 1`; in particular every `L < pn`, and every reordering within the
    window) the truncated number decodes to `pn` — provided no more than 2^31+1 packets are in flight
    beyond `largestAcked` (a 4-byte packet number cannot express more; see `pn_inflight_bound_needed`). -/
theorem pn_roundtrip_sender (pn largestAcked L : Int)
    (hpn : 0 ≤ pn ∧ pn < 2 ^ 62) (hla : -1 ≤ largestAcked ∧ largestAcked < pn)
    (hflight : pn - largestAcked ≤ 2 ^ 31 + 1)
    (hL : largestAcked ≤ L)
    (hahead : L < pn + 2 ^ (8 * pnLenForHeader pn largestAcked) / 2 - 1) :
    decodePN (pnLenForHeader pn largestAcked) L (truncatePN (pnLenForHeader pn largestAcked) pn) = pn := by
  rcases pnLen_spec pn largestAcked with ⟨h, hb⟩ | ⟨h, hb⟩ | h <;> rw [h] at hahead ⊢ <;>
    apply pn_roundtrip _ (by omega) pn L hpn (by omega) <;>
    simp only [Nat.reduceMul, Int.reducePow] at * <;> omega

/-- the in-flight bound of `pn_roundtrip_sender` is needed: with 2^31+2 packets beyond the largest
    acknowledged one a 4-byte number decodes wrongly (inherent in QUIC's 4-byte maximum, RFC 9000 §17.1). -/
theorem pn_inflight_bound_needed :
    let la : Int := 2 ^ 32; let pn : Int := 2 ^ 32 + 2 ^ 31 + 2
    pnLenForHeader pn la = 4 ∧ decodePN 4 la (truncatePN 4 pn) ≠ pn := by
  decide

example : decodePN 2 65000 (truncatePN 2 65600) = 65600 := by decide
example : pnLenForHeader 40000 (-1) = 3 ∧ pnLenForHeader 40000 10000 = 2 := by decide

/-! ## 2. packet numbers are never reused -/

/-- `pn_never_reused`: over ANY sequence of `Pop`s of the skipping generator (any non-negative draws, any
    periods, any start), from a freshly constructed generator or any well-formed state:
    returned numbers strictly increase; a number reported as skipped is never returned — neither before nor
    after — and the number right after a skipped one is returned (never two consecutive skips). -/
theorem pn_never_reused (g : SkipGen) (hwf : g.next ≤ g.nextToSkip) (ds : List Int) (hds : ∀ d ∈ ds, 0 ≤ d) :
    List.Pairwise (· < ·) ((g.run ds).map (·.2)) ∧
    (∀ s ∈ skippedOf (g.run ds), s ∉ (g.run ds).map (·.2)) ∧
    (∀ s ∈ skippedOf (g.run ds), s + 1 ∈ (g.run ds).map (·.2) ∧ s + 1 ∉ skippedOf (g.run ds)) := by
  obtain ⟨_, h2, h3⟩ := run_props ds g hwf hds
  refine ⟨h2, fun s hs => (h3 s hs).2.1, fun s hs => ⟨(h3 s hs).2.2, fun hc => ?_⟩⟩
  exact (h3 (s + 1) hc).2.1 (h3 s hs).2.2

/-- a freshly constructed generator is well formed, for every draw `Int31n` can return -/
theorem pn_gen_new_wf (initial period maxPeriod d : Int) (hd : 0 ≤ d) :
    (SkipGen.new initial period maxPeriod d).next ≤ (SkipGen.new initial period maxPeriod d).nextToSkip :=
  new_wf initial period maxPeriod d hd

/-- `Peek` announces exactly what the next `Pop` returns (the packer relies on this) -/
theorem pn_peek_is_next_pop (g : SkipGen) (d : Int) : g.peek = (g.pop d).2.2 := peek_eq_pop g d

/-- the sequential generator (Initial/Handshake spaces): strictly consecutive numbers -/
theorem pn_seq_consecutive (g : SeqGen) : g.pop.2.2 = g.next ∧ g.pop.1.next = g.next + 1 ∧ g.pop.2.1 = false ∧ g.peek = g.pop.2.2 := by
  simp [SeqGen.pop, SeqGen.peek]

example : (SkipGen.new 0 2 8 0).run [1, 0, 0, 0, 0, 0] = [(false, 0), (false, 1), (false, 2), (true, 4), (false, 5), (false, 6)] := by decide

/-! ## 2b. packet numbers across the whole life of a number space (Retry) -/

section Spaces
open Uquic.Model.PNSpace Uquic.Proofs.PNSpace

/-- `pn_never_reused_across_retry`: over ANY history of `PopPacketNumber` and `ResetForRetry` on the
    application-data space (whose 0-RTT key survives a Retry) — any draws, any number of Retries — the
    packet numbers handed out strictly increase: `ResetForRetry` seeds the new space from the old space's
    own next number, so no number (hence no AEAD nonce) is ever used twice under the unchanged key. -/
theorem pn_never_reused_across_retry (g : SkipGen) (hwf : g.next ≤ g.nextToSkip) (ops : List AppOp)
    (hd : ∀ op ∈ ops, match op with | .pop d => 0 ≤ d | .retry d => 0 ≤ d) :
    List.Pairwise (· < ·) (runApp g ops) :=
  (runApp_props ops g hwf hd).2

/-- the same for a sequential space (Initial): numbers keep increasing across a Retry (RFC 9000 §17.2.5.3) -/
theorem pn_seq_never_reused_across_retry (g : SeqGen) (ops : List SeqOp) :
    List.Pairwise (· < ·) (runSeq g ops) :=
  (runSeq_props ops g).2

/-- the handler's `ResetForRetry` is the seeding rule the theorems are about: each space continues from its
    OWN next number -/
theorem reset_for_retry_seeds_each_space (s s' : Spaces) (d : Int) (h : s.resetForRetry d = some s') :
    s'.app = SkipGen.new s.app.peek skipInitialPeriod skipMaxPeriod d ∧
    (∃ g, s.initial = some g ∧ s'.initial = some { next := g.peek }) ∧ s'.handshake = s.handshake := by
  unfold Spaces.resetForRetry at h
  split at h
  · cases h
  · rename_i g hg
    simp only [Option.some.injEq] at h
    subst h
    exact ⟨rfl, ⟨g, hg, rfl⟩, rfl⟩

example : runApp (SkipGen.new 0 2 8 0) [.pop 0, .pop 0, .pop 0, .pop 1, .retry 0, .pop 0, .pop 0] = [0, 1, 2, 4, 5, 6] := by decide

end Spaces

/-! ## 3. nonces -/

/-- `nonce_injective`: distinct packet numbers (< 2^64, hence all < 2^62) have distinct 8-byte big-endian
    encodings, hence distinct nonces `IV xor (0… ‖ be64 pn)` under the same IV (of any length ≥ 8; 12 in QUIC). -/
theorem nonce_injective (iv : List UInt8) (hiv : 8 ≤ iv.length) (pn₁ pn₂ : Nat) (h₁ : pn₁ < 2 ^ 64) (h₂ : pn₂ < 2 ^ 64)
    (h : nonce iv pn₁ = nonce iv pn₂) : pn₁ = pn₂ := by
  unfold nonce at h
  have hx := xorBytes_cancel iv _ _ (by simp [beBytes_length]) (by simp [beBytes_length]; omega) h
  have := List.append_cancel_left hx
  exact beBytes_inj 8 pn₁ pn₂ (by simpa using h₁) (by simpa using h₂) this

theorem be64_injective (pn₁ pn₂ : Nat) (h₁ : pn₁ < 2 ^ 62) (h₂ : pn₂ < 2 ^ 62) (h : beBytes 8 pn₁ = beBytes 8 pn₂) : pn₁ = pn₂ :=
  beBytes_inj 8 pn₁ pn₂ (by omega) (by omega) h

example : nonce [0,1,2,3,4,5,6,7,8,9,10,11] 258 = [0,1,2,3,4,5,6,7,8,9,11,9] := by decide

/-! ## 4. key updates (model: Uquic/Model/Crypto/KeyPhase.lean, histories: Uquic/Spec/KeyPhaseRun.lean) -/

section KeyUpdate
open Uquic.Model.KeyPhase Uquic.Spec.KeyPhaseRun Uquic.Proofs.KeyPhase

/-- `key_update_local`: in EVERY state, `KeyPhase()` moves to the next generation (by exactly one) only if
    the handshake is confirmed and either this is the first update or a packet sent with the current keys
    has been acknowledged (`updateAllowed`, RFC 9001 §6.1), and only when a packet-count interval was hit. -/
theorem key_update_local (a : KA) (e : Env) (h : (a.keyPhaseBit e).1.keyPhase ≠ a.keyPhase) :
    (a.keyPhaseBit e).1.keyPhase = a.keyPhase + 1 ∧
    a.handshakeConfirmed = true ∧
    (a.keyPhase = 0 ∨ (a.firstSentWithCurrentKey ≠ Uquic.Model.KeyPhase.invalidPN ∧ a.largestAcked ≠ Uquic.Model.KeyPhase.invalidPN ∧
        a.largestAcked ≥ a.firstSentWithCurrentKey)) ∧
    (a.numRcvdWithCurrentKey ≥ min e.keyUpdateInterval e.firstKeyUpdateInterval ∨
      a.numSentWithCurrentKey ≥ min e.keyUpdateInterval e.firstKeyUpdateInterval) := by
  rw [keyPhaseBit_phase] at h ⊢
  by_cases hs : a.shouldInitiateKeyUpdate e = true
  · have ha := (updateAllowed_iff a).1 (shouldInitiate_allowed a e hs)
    refine ⟨by simp [hs], ha.1, ha.2, ?_⟩
    unfold KA.shouldInitiateKeyUpdate at hs
    simp only [Bool.and_eq_true, Bool.or_eq_true, decide_eq_true_eq] at hs
    omega
  · simp [hs] at h

/-- `key_update_local_needs_peer` (reachable states, ALL histories under the caller contract — sealed packet
    numbers increase, ACKs only for sent packets): a second or later locally initiated update happens only
    after a packet protected with the CURRENT generation was received, i.e. the peer holds the current keys
    (RFC 9001 §6.1/§6.2: never more than one update ahead of the peer). -/
theorem key_update_local_needs_peer (e : Env) (ops : List Op) (hc : contract (-1) ops)
    (h : ((run e ops).a.keyPhaseBit e).1.keyPhase ≠ (run e ops).a.keyPhase) (hp : (run e ops).a.keyPhase ≠ 0) :
    (run e ops).a.numRcvdWithCurrentKey > 0 := by
  have inv := run_inv e ops {} inv_init hc
  obtain ⟨_, _, hcond, _⟩ := key_update_local _ e h
  rcases hcond with h0 | ⟨h1, _, h3⟩
  · exact absurd h0 hp
  · exact inv.ackConfirmed (by rwa [invalidPN_eq] at h1) h3

/-- `key_ack_discipline`: `SetLargestAcked` answers KEY_UPDATE_ERROR exactly when the ACK covers a packet of
    the current phase although nothing protected with the current keys has been received -/
theorem key_ack_discipline (a : KA) (pn : Int) :
    (a.setLargestAcked pn).2 = false ↔
      (a.firstSentWithCurrentKey ≠ Uquic.Model.KeyPhase.invalidPN ∧ pn ≥ a.firstSentWithCurrentKey ∧ a.numRcvdWithCurrentKey = 0) := by
  unfold KA.setLargestAcked; split <;> simp_all

/-- `key_update_remote`: `Open` moves to the next generation (by exactly one) iff it succeeded with the NEXT
    key; then the packet is authentic, sealed with generation `keyPhase+1`, carries the other key-phase bit,
    is not older than the first packet received with the current key, and we have already sent with the
    current keys (or are in phase 0). -/
theorem key_update_remote (a : KA) (e : Env) (t pn kp : Int) (p : Pkt)
    (h : (a.open e t pn kp p).1.keyPhase ≠ a.keyPhase) :
    (a.open e t pn kp p).1.keyPhase = a.keyPhase + 1 ∧ (a.open e t pn kp p).2 = .ok ∧
    p.authentic = true ∧ p.gen = a.keyPhase + 1 ∧ kp ≠ bit a.keyPhase ∧
    (a.dropExpired t).isOld pn = false ∧ ¬ (a.keyPhase > 0 ∧ a.firstSentWithCurrentKey = Uquic.Model.KeyPhase.invalidPN) := by
  obtain ⟨hu, hok, hph⟩ := openU_fst a e t pn kp p
  have hopen : (a.open e t pn kp p) = ((a.openU e t pn kp p).1, (a.openU e t pn kp p).2.1) := by simp [KA.open]
  obtain ⟨d1, d2, _⟩ := dropExpired_fields a t
  rw [hopen] at h ⊢
  simp only at h ⊢
  rw [hph, openApply_phase, d1] at h ⊢
  by_cases hd : (a.dropExpired t).openDecide pn kp p = (.ok, .next)
  · have := openDecide_ok _ pn kp p .next hd
    rw [d1] at this
    refine ⟨by simp [hd], hok.2 (by rw [hd]), this.1, ?_⟩
    rcases this.2 with ⟨hx, _⟩ | ⟨hx, _⟩ | ⟨_, h2, h3, h4, h5⟩
    · cases hx
    · cases hx
    · refine ⟨h2, h3, h4, ?_⟩
      simp only [KA.remoteUpdateTooQuick, d1, d2, Bool.and_eq_false_iff, decide_eq_false_iff_not] at h5
      intro hc
      rcases h5 with h5 | h5
      · exact h5 hc.1
      · exact h5 hc.2
  · simp [hd] at h

/-- `key_update_too_quick`: an authentic next-generation packet that arrives before we have sent anything in
    the current (non-zero) phase is answered with KEY_UPDATE_ERROR and no state change of the key phase;
    and `Open` reports KEY_UPDATE_ERROR for no other reason. -/
theorem key_update_too_quick (a : KA) (e : Env) (t pn kp : Int) (p : Pkt) :
    (a.open e t pn kp p).2 = .keyUpdateError ↔
      (kp ≠ bit a.keyPhase ∧ (a.dropExpired t).isOld pn = false ∧ p.authentic = true ∧ p.gen = a.keyPhase + 1 ∧
        a.keyPhase > 0 ∧ a.firstSentWithCurrentKey = Uquic.Model.KeyPhase.invalidPN) := by
  obtain ⟨d1, d2, _⟩ := dropExpired_fields a t
  have hopen : (a.open e t pn kp p).2 = (a.openU e t pn kp p).2.1 := by simp [KA.open]
  rw [hopen]
  unfold KA.openU KA.openInner
  simp only
  constructor
  · intro h
    generalize hd : (a.dropExpired t).openDecide pn kp p = d at h
    obtain ⟨r, u⟩ := d
    cases r <;> simp at h
    · split at h <;> simp at h
    · have := openDecide_keyUpdateError _ pn kp p u hd
      rw [d1, d2] at this
      refine ⟨?_, ?_, this.1, this.2.1, this.2.2.1, this.2.2.2⟩
      all_goals
        unfold KA.openDecide at hd
        repeat' split at hd
        all_goals simp_all
  · rintro ⟨h1, h2, h3, h4, h5, h6⟩
    have := openDecide_next (a.dropExpired t) pn kp p h3 (by rw [d1]; exact h4) (by rw [d1]; exact h1) h2
    have hq : (a.dropExpired t).remoteUpdateTooQuick = true := by
      simp [KA.remoteUpdateTooQuick, d1, d2, h5, h6]
    rw [hq] at this
    simp [this]

/-- `key_open_sound`: whenever `Open` succeeds, the packet is authentic (sealed by the peer, nothing
    modified, right packet number) and was opened with the key of exactly the generation it was sealed with:
    current (same bit), previous (other bit, inside the reordering window, key still held) or next (other
    bit, accepted as a key update). Hence tampering and foreign generations are always rejected. -/
theorem key_open_sound (a : KA) (e : Env) (t pn kp : Int) (p : Pkt) (h : (a.open e t pn kp p).2 = .ok) :
    p.authentic = true ∧
    ((p.gen = a.keyPhase ∧ kp = bit a.keyPhase) ∨
     (p.gen = a.keyPhase - 1 ∧ kp ≠ bit a.keyPhase ∧ (a.dropExpired t).isOld pn = true ∧ (a.dropExpired t).prevPresent = true) ∨
     (p.gen = a.keyPhase + 1 ∧ kp ≠ bit a.keyPhase ∧ (a.dropExpired t).isOld pn = false)) := by
  obtain ⟨hu, hok, _⟩ := openU_fst a e t pn kp p
  have hopen : (a.open e t pn kp p).2 = (a.openU e t pn kp p).2.1 := by simp [KA.open]
  rw [hopen] at h
  have h' := hok.1 h
  obtain ⟨d1, _⟩ := dropExpired_fields a t
  have := openDecide_ok (a.dropExpired t) pn kp p ((a.dropExpired t).openDecide pn kp p).2 (by rw [← h'])
  rw [d1] at this
  refine ⟨this.1, ?_⟩
  rcases this.2 with ⟨_, h1, h2⟩ | ⟨_, h1, h2, h3, h4⟩ | ⟨_, h1, h2, h3, _⟩
  · exact Or.inl ⟨h1, h2⟩
  · exact Or.inr (Or.inl ⟨h1, h2, h3, h4⟩)
  · exact Or.inr (Or.inr ⟨h1, h2, h3⟩)

/-- `tamper_rejected_keyphase`: nothing unauthentic and nothing of a generation other than
    `keyPhase-1, keyPhase, keyPhase+1` is ever opened, in any state -/
theorem key_open_rejects (a : KA) (e : Env) (t pn kp : Int) (p : Pkt)
    (h : p.authentic = false ∨ (p.gen ≠ a.keyPhase ∧ p.gen ≠ a.keyPhase - 1 ∧ p.gen ≠ a.keyPhase + 1)) :
    (a.open e t pn kp p).2 ≠ .ok := by
  intro hc
  have := key_open_sound a e t pn kp p hc
  rcases h with h | ⟨h1, h2, h3⟩
  · simp [h] at this
  · rcases this.2 with ⟨hh, _⟩ | ⟨hh, _⟩ | ⟨hh, _⟩ <;> contradiction

/-- `key_open_complete`: what the peer protects DOES open —
    (cur) an authentic packet of the current generation with the current bit, in every state;
    (next) one of the next generation, not older than the first packet received with the current key, once we
           have sent in the current phase (or in phase 0): it is accepted and the generation advances;
    (prev) one of the previous generation inside the reordering window (`pn < firstRcvdWithCurrentKey`, or
           nothing received with the current key yet) while the previous key is held, i.e. until the 3·PTO
           timer armed at the first packet of the current generation has expired. -/
theorem key_open_complete (a : KA) (e : Env) (t pn kp : Int) (p : Pkt) (ha : p.authentic = true) :
    (p.gen = a.keyPhase → kp = bit a.keyPhase → (a.open e t pn kp p).2 = .ok) ∧
    (p.gen = a.keyPhase + 1 → kp ≠ bit a.keyPhase → (a.dropExpired t).isOld pn = false →
       ¬ (a.keyPhase > 0 ∧ a.firstSentWithCurrentKey = Uquic.Model.KeyPhase.invalidPN) →
       (a.open e t pn kp p).2 = .ok ∧ (a.open e t pn kp p).1.keyPhase = a.keyPhase + 1) ∧
    (p.gen = a.keyPhase - 1 → kp ≠ bit a.keyPhase → (a.dropExpired t).isOld pn = true →
       a.prevPresent = true → (a.prevRcvAEADExpiry = 0 ∨ t ≤ a.prevRcvAEADExpiry) →
       (a.open e t pn kp p).2 = .ok) := by
  obtain ⟨hu, hok, hph⟩ := openU_fst a e t pn kp p
  obtain ⟨d1, d2, _⟩ := dropExpired_fields a t
  have hopen : (a.open e t pn kp p) = ((a.openU e t pn kp p).1, (a.openU e t pn kp p).2.1) := by simp [KA.open]
  rw [hopen]
  simp only
  refine ⟨?_, ?_, ?_⟩
  · intro hg hk
    apply hok.2
    rw [openDecide_cur _ pn kp p ha (by rw [d1]; exact hg) (by rw [d1]; exact hk)]
  · intro hg hk hold hq
    have hq' : (a.dropExpired t).remoteUpdateTooQuick = false := by
      simp only [KA.remoteUpdateTooQuick, d1, d2, Bool.and_eq_false_iff, decide_eq_false_iff_not]
      by_cases h0 : a.keyPhase > 0
      · right; exact fun hh => hq ⟨h0, hh⟩
      · left; exact h0
    have hd := openDecide_next _ pn kp p ha (by rw [d1]; exact hg) (by rw [d1]; exact hk) hold
    rw [hq'] at hd
    simp only [Bool.false_eq_true, if_false] at hd
    refine ⟨hok.2 (by rw [hd]), ?_⟩
    rw [hph, openApply_phase, hd, d1]; simp
  · intro hg hk hold hp hexp
    have hd := openDecide_prev _ pn kp p ha (by rw [d1]; exact hg) (by rw [d1]; exact hk) hold
    have hpp : (a.dropExpired t).prevPresent = true := by
      rw [dropExpired_prev, hp]
      rcases hexp with h0 | h1
      · simp [h0]
      · simp; omega
    rw [hpp] at hd
    apply hok.2
    rw [hd]; rfl

/-- `key_prev_dropped`: once the timer armed for the previous key has expired, packets of the previous
    generation get ErrKeysDropped (and the key is gone for good) -/
theorem key_prev_dropped (a : KA) (e : Env) (t pn kp : Int) (p : Pkt)
    (hk : kp ≠ bit a.keyPhase) (hold : (a.dropExpired t).isOld pn = true)
    (hexp : a.prevRcvAEADExpiry ≠ 0 ∧ t > a.prevRcvAEADExpiry) :
    (a.open e t pn kp p).2 = .keysDropped ∧ (a.open e t pn kp p).1.prevPresent = false := by
  obtain ⟨d1, _⟩ := dropExpired_fields a t
  have hpp : (a.dropExpired t).prevPresent = false := by
    rw [dropExpired_prev]; simp [hexp.1, hexp.2]
  have hd : (a.dropExpired t).openDecide pn kp p = (.keysDropped, .none) := by
    unfold KA.openDecide; simp [d1, hk, hold, hpp]
  simp [KA.open, KA.openU, KA.openInner, hd, KA.openApply, hpp]

/-- `key_aead_limit`: failed decryptions are counted; the failure that reaches the cipher suite's limit —
    and every one after it — is reported as AEAD_LIMIT_REACHED instead (RFC 9001 §6.6) -/
theorem key_aead_limit (a : KA) (e : Env) (t pn kp : Int) (p : Pkt) :
    ((a.open e t pn kp p).2 = .decryptionFailed → (a.open e t pn kp p).1.invalidPacketCount < e.invalidPacketLimit) ∧
    ((a.open e t pn kp p).2 = .aeadLimitReached → (a.open e t pn kp p).1.invalidPacketCount ≥ e.invalidPacketLimit) ∧
    a.invalidPacketCount ≤ (a.open e t pn kp p).1.invalidPacketCount := by
  have := openU_limit a e t pn kp p
  simpa [KA.open] using this

/-- the key phase changes ONLY through `KeyPhase()` or a successful `Open`: sealing, ACKs and the
    confirmation never move it -/
theorem key_phase_stable (a : KA) (pn : Int) :
    (a.seal pn).1.keyPhase = a.keyPhase ∧ (a.setLargestAcked pn).1.keyPhase = a.keyPhase ∧
    a.setHandshakeConfirmed.keyPhase = a.keyPhase ∧ (a.seal pn).2 = a.keyPhase := by
  refine ⟨?_, ?_, rfl, ?_⟩
  · unfold KA.seal; simp only; (repeat' split) <;> rfl
  · unfold KA.setLargestAcked; split <;> rfl
  · unfold KA.seal; simp only; (repeat' split) <;> rfl

/-- `key_update_discipline` (summary used by the manifest): local updates only when allowed, remote updates
    only when allowed and authentic, each by exactly one generation. -/
theorem key_update_discipline (a : KA) (e : Env) :
    ((a.keyPhaseBit e).1.keyPhase ≠ a.keyPhase →
       (a.keyPhaseBit e).1.keyPhase = a.keyPhase + 1 ∧ a.updateAllowed = true) ∧
    (∀ t pn kp p, (a.open e t pn kp p).1.keyPhase ≠ a.keyPhase →
       (a.open e t pn kp p).1.keyPhase = a.keyPhase + 1 ∧ p.authentic = true ∧ p.gen = a.keyPhase + 1 ∧
       ¬ (a.keyPhase > 0 ∧ a.firstSentWithCurrentKey = Uquic.Model.KeyPhase.invalidPN)) := by
  refine ⟨fun h => ?_, fun t pn kp p h => ?_⟩
  · obtain ⟨h1, h2, h3, _⟩ := key_update_local a e h
    exact ⟨h1, (updateAllowed_iff a).2 ⟨h2, h3⟩⟩
  · obtain ⟨h1, _, h3, h4, _, _, h7⟩ := key_update_remote a e t pn kp p h
    exact ⟨h1, h3, h4, h7⟩

-- the hypotheses are satisfiable by a non-trivial reachable state: two updates, the second one after the
-- peer answered in phase 1 and acknowledged a phase-1 packet
def exEnv : Env := { pto3 := 90, keyUpdateInterval := 2, firstKeyUpdateInterval := 1, invalidPacketLimit := 10 }
def exOps : List Op := [.confirm, .seal 0, .seal 1, .open 5 0 1 ⟨1, true⟩, .ack 1, .seal 2]
example : contract (-1) exOps := by simp [exOps, contract]
example : (run exEnv exOps).a.keyPhase = 1 ∧ (run exEnv exOps).a.numRcvdWithCurrentKey = 1 ∧
    (run exEnv (exOps ++ [.seal 3])).a.keyPhase = 2 := by decide

end KeyUpdate

/-! ## 4b. two endpoints and an adversarial network (system: Uquic/Spec/KeyPhaseSys.lean) -/

section Lockstep
open Uquic.Model.KeyPhase Uquic.Spec.KeyPhaseSys Uquic.Proofs.KeyPhaseSys

/-- `generation_lockstep`: for ALL interleavings of sends (with local key updates), deliveries in any
    order, any number of times, arbitrarily late or never, injected unauthentic packets, ACKs (the peer
    acknowledges only what it opened), confirmations and key-phase queries at two endpoints:
    the endpoints' key generations never differ by more than one, and every packet ever sealed is of a
    generation at most one ahead of its receiver — so `Open` only ever needs the previous, current or next
    key (`key_open_complete` then says when it succeeds), however many key updates happen. -/
theorem generation_lockstep (e : Env) (s : Sys) (h : Reach e s) :
    s.a.ka.keyPhase ≤ s.b.ka.keyPhase + 1 ∧ s.b.ka.keyPhase ≤ s.a.ka.keyPhase + 1 ∧
    (∀ q ∈ s.a.sent, q.1 ≤ s.b.ka.keyPhase + 1) ∧ (∀ q ∈ s.b.sent, q.1 ≤ s.a.ka.keyPhase + 1) := by
  obtain ⟨ia, ib⟩ := reach_inv e s h
  refine ⟨ia.lock, ib.lock, fun q hq => ?_, fun q hq => ?_⟩
  · have := (ia.sentOk q hq).1; have := ia.lock; omega
  · have := (ib.sentOk q hq).1; have := ib.lock; omega

/-- what the peer successfully opened was really sealed by us, in a generation the peer has reached; and
    packet numbers in flight are bounded by the last one sealed (no number is invented) -/
theorem opened_were_sealed (e : Env) (s : Sys) (h : Reach e s) :
    (∀ q ∈ s.b.opened, q ∈ s.a.sent ∧ q.1 ≤ s.b.ka.keyPhase) ∧ (∀ q ∈ s.a.opened, q ∈ s.b.sent ∧ q.1 ≤ s.a.ka.keyPhase) ∧
    (∀ q ∈ s.a.sent, q.2 ≤ s.a.last) ∧ (∀ q ∈ s.b.sent, q.2 ≤ s.b.last) := by
  obtain ⟨ia, ib⟩ := reach_inv e s h
  exact ⟨ia.openedOk, ib.openedOk, fun q hq => (ia.sentOk q hq).2.1, fun q hq => (ib.sentOk q hq).2.1⟩

-- a non-trivial reachable state: A confirmed, sent twice, updated its keys; B received the new generation
example : Reach exEnv
    { a := Act.apply exEnv (Act.apply exEnv (Act.apply exEnv {} .confirm) (.sealPkt 0)) (.sealPkt 1), b := {} } :=
  Reach.stepA _ (.sealPkt 1) (Reach.stepA _ (.sealPkt 0) (Reach.stepA _ .confirm Reach.init trivial) (by simp [Act.ok, Act.apply])) (by simp [Act.ok, Act.apply])
example : (Act.apply exEnv (Act.apply exEnv (Act.apply exEnv {} .confirm) (.sealPkt 0)) (.sealPkt 1)).ka.keyPhase = 1 := by decide

end Lockstep

/-! ## 5. byte-level packet protection (model: Uquic/Model/Crypto/Packet.lean) -/

section Protection
open Uquic.Model.Packet Uquic.Proofs.Packet

/-- `protect_roundtrip`: for ANY header-protection mask function, ANY IV and ANY AEAD that opens what it
    sealed and appends a 16-byte tag; every header `hdr` (first byte carrying `pnLen-1` in its low two bits,
    ending in the `pnLen`-byte big-endian truncation of `pn`), every `pn < 2^62`, every payload with
    `pnLen + |payload| ≥ 4` (so that the 16-byte header-protection sample exists — the SENDER pads:
    packet_packer.go `appendLongHeaderPacket`/`appendShortHeaderPacket` add `4 - pnLen - |payload|` bytes),
    every receiver state `largest` within the decoding window:
    `encryptPacket` succeeds and the peer's unpacker returns exactly the same header bytes, the same full
    packet number and the same payload. -/
theorem protect_roundtrip (k : Keys) (hdr payload : Bytes) (pn : Nat) (largest : Int)
    (haead : ∀ n a m, k.aead.dec n a (k.aead.enc n a m) = some m)
    (htag : ∀ n a m, (k.aead.enc n a m).length = m.length + 16)
    (hlen : pnLenOf (hdr.headD 0) + 1 ≤ hdr.length)
    (hpnbytes : hdr.drop (hdr.length - pnLenOf (hdr.headD 0)) = beBytes (pnLenOf (hdr.headD 0)) pn)
    (hmin : 4 ≤ pnLenOf (hdr.headD 0) + payload.length)
    (hpn : pn < 2 ^ 62) (hL : -1 ≤ largest)
    (hwin : largest + 1 - 2 ^ (8 * pnLenOf (hdr.headD 0)) / 2 < (pn : Int) ∧
            (pn : Int) ≤ largest + 1 + 2 ^ (8 * pnLenOf (hdr.headD 0)) / 2)
    (hres : reservedOK k.long (hdr.headD 0) = true) :
    ∃ pkt, protect k hdr pn payload = some pkt ∧
      unprotect k pkt (hdr.length - pnLenOf (hdr.headD 0)) largest =
        .ok { hdr := hdr, pn := pn, pnLen := pnLenOf (hdr.headD 0), payload := payload } := by
  obtain ⟨pkt, h1, _, h3⟩ := protect_unprotect k hdr payload pn largest haead hlen hpnbytes
    (by rw [htag]; omega) hpn hL hwin hres
  exact ⟨pkt, h1, h3⟩

/-- `protected_length`: a protected packet is exactly 16 bytes (the AEAD tag) longer than header + payload -/
theorem protected_length (k : Keys) (hdr payload : Bytes) (pn : Nat) (pkt : Bytes)
    (htag : ∀ n a m, (k.aead.enc n a m).length = m.length + 16)
    (h : protect k hdr pn payload = some pkt) : pkt.length = hdr.length + payload.length + 16 := by
  unfold protect at h
  simp only at h
  split at h
  · cases h
  · simp only [Option.some.injEq] at h
    rw [← h, applyHP_length, List.length_append, htag]; omega

/-- below the 4-byte bound `encryptPacket` cannot take its sample (the Go slice expression panics): the
    bound in `protect_roundtrip` is necessary, which is why the packer pads -/
theorem protect_needs_sample (k : Keys) (hdr payload : Bytes) (pn : Nat)
    (htag : ∀ n a m, (k.aead.enc n a m).length = m.length + 16)
    (hlen : pnLenOf (hdr.headD 0) ≤ hdr.length)
    (hshort : pnLenOf (hdr.headD 0) + payload.length < 4) : protect k hdr pn payload = none := by
  unfold protect
  simp only
  rw [if_pos (by rw [List.length_append, htag]; omega)]

/-- `only_sealed_opens` — tamper rejection **under the ideal-AEAD assumption** `hideal`: for this key,
    `Open` accepts `(nonce, aad, ciphertext)` only if the peer sealed `(nonce, aad, msg)` (relation `Sealed`)
    and the ciphertext is that sealing.  Then for EVERY byte string `data`, every header offset and receiver
    state: if the unpacker accepts `data`, then `(hdr, pn, payload)` it returns was sealed by the peer and
    `data` is bit for bit the packet `encryptPacket` produces for it. Every bit of a packet is AAD,
    ciphertext/tag, or a header-protected bit whose unmasked value is in the AAD. -/
theorem only_sealed_opens (k : Keys) (Sealed : Bytes → Bytes → Bytes → Prop)
    (hideal : ∀ n a c m, k.aead.dec n a c = some m → Sealed n a m ∧ c = k.aead.enc n a m)
    (data : Bytes) (off : Nat) (ho : 1 ≤ off) (largest : Int) (o : Opened)
    (h : unprotect k data off largest = .ok o) :
    Sealed (nonce k.iv o.pn.toNat) o.hdr o.payload ∧ protect k o.hdr o.pn.toNat o.payload = some data :=
  unprotect_is_protect k Sealed hideal data off ho largest o h

/-- `tamper_rejected`: if moreover the sender never uses a nonce twice (`pn_never_reused` +
    `nonce_injective`), then whatever is accepted as packet number `pn` is exactly the original packet:
    same header bytes, same payload, same bytes on the wire. So any modification of a protected packet is
    rejected (or is another genuine packet with another number) — it never yields different plaintext. -/
theorem tamper_rejected (k : Keys) (Sealed : Bytes → Bytes → Bytes → Prop)
    (hideal : ∀ n a c m, k.aead.dec n a c = some m → Sealed n a m ∧ c = k.aead.enc n a m)
    (huniq : ∀ n a m a' m', Sealed n a m → Sealed n a' m' → a = a' ∧ m = m')
    (hdr payload pkt : Bytes) (pn : Nat) (hs : Sealed (nonce k.iv pn) hdr payload)
    (hp : protect k hdr pn payload = some pkt)
    (data : Bytes) (off : Nat) (ho : 1 ≤ off) (largest : Int) (o : Opened)
    (h : unprotect k data off largest = .ok o) (hsame : o.pn.toNat = pn) :
    o.hdr = hdr ∧ o.payload = payload ∧ data = pkt := by
  obtain ⟨h1, h2⟩ := only_sealed_opens k Sealed hideal data off ho largest o h
  rw [hsame] at h1 h2
  obtain ⟨e1, e2⟩ := huniq _ _ _ _ _ h1 hs
  rw [e1, e2, hp] at h2
  exact ⟨e1, e2, (Option.some.inj h2).symm⟩

/-- the hypotheses of `protect_roundtrip` are satisfiable: a toy AEAD (identity + 16 zero bytes), a toy mask,
    a short header `[0x41, 0x12, 0x34]` (pnLen 2, pn 0x1234) and a 2-byte payload (the minimum) -/
def toyKeys : Keys :=
  { aead := { enc := fun _ _ m => m ++ List.replicate 16 0,
              dec := fun _ _ c => if c.length < 16 then none else some (c.take (c.length - 16)) },
    iv := List.replicate 12 7, hp := fun s i => (s.getD i 0) + 0xa5, long := false }
example : (match (protect toyKeys [0x41, 0x12, 0x34] 0x1234 [9, 8]).map (fun p => unprotect toyKeys p 1 0x1200) with
    | some (.ok o) => decide (o = { hdr := [0x41, 0x12, 0x34], pn := 0x1234, pnLen := 2, payload := [9, 8] })
    | _ => false) = true := by decide
example : protect toyKeys [0x41, 0x12, 0x34] 0x1234 [9] = none := by decide

/-- the ideal-AEAD hypothesis of `only_sealed_opens` / `tamper_rejected` is satisfiable: an AEAD that opens
    exactly the one thing it sealed -/
def oneShot (n0 a0 m0 c0 : Bytes) : AEAD :=
  { enc := fun _ _ _ => c0, dec := fun n a c => if n = n0 ∧ a = a0 ∧ c = c0 then some m0 else none }
example (n0 a0 m0 c0 : Bytes) : ∀ n a c m, (oneShot n0 a0 m0 c0).dec n a c = some m →
    (n = n0 ∧ a = a0 ∧ m = m0) ∧ c = (oneShot n0 a0 m0 c0).enc n a m := by
  intro n a c m h
  simp only [oneShot] at h ⊢
  split at h
  · rename_i hc; simp only [Option.some.injEq] at h; exact ⟨⟨hc.1, hc.2.1, h.symm⟩, hc.2.2⟩
  · cases h

/-! ### the uQUIC Initial serialisation glue (`uPacketPacker.appendInitialPacketPayload`) -/

open Uquic.Model.UInitial in
/-- whatever the frames and the spec'd packet size, after the glue's padding the header-protection sample
    exists (packet number + payload ≥ 4 bytes, RFC 9001 §5.4.2), so `protect_roundtrip` applies -/
theorem uinitial_padding_sufficient (pnLen : Nat) (payload : Bytes) (hdrLen packetSize : Nat) :
    4 ≤ pnLen + (padPayload pnLen payload hdrLen packetSize).length := by
  unfold padPayload
  simp only
  generalize (if packetSize > hdrLen + payload.length + 16 then
    payload ++ zeros (packetSize - (hdrLen + payload.length + 16)) else payload) = p1
  split
  · simp [zeros]; omega
  · omega

open Uquic.Model.UInitial in
/-- the Length field the glue writes covers exactly the protected packet: packet number, padded payload and
    AEAD tag — the bytes from the packet number to the end of what `encryptPacket` produced — so the peer's
    `wire.ParsePacket` cuts the datagram at the end of the tag -/
theorem uinitial_length_covers_packet (k : Keys) (tmpl payload : Bytes) (pn packetSize pnLen : Nat) (pkt : Bytes)
    (htag : ∀ n a m, (k.aead.enc n a m).length = m.length + 16)
    (hlen : pnLen + 2 ≤ tmpl.length)
    (h : protect k (setLength tmpl pnLen (lengthField pnLen (padPayload pnLen payload tmpl.length packetSize))) pn
          (padPayload pnLen payload tmpl.length packetSize) = some pkt) :
    pkt.length = (tmpl.length - pnLen) + lengthField pnLen (padPayload pnLen payload tmpl.length packetSize) := by
  have := protected_length k _ _ pn pkt htag h
  rw [this]
  unfold setLength lengthField
  simp only [List.length_append, List.length_take, List.length_drop, List.length_cons, List.length_nil]
  omega

end Protection

/-! ## 6. the constants of the key derivations are the RFCs' (regenerated facts vs. RFC 9001 / RFC 9369)

The derivation FUNCTIONS (HKDF-Expand-Label, AES, GCM) are external code; that the keys, IVs, masks and
tags the implementation computes are the RFC's for every connection ID and both versions is checked by
the `pkt`/`keyphase` correspondence drivers against the independent executable rendering of the RFCs in
Uquic/Model/Crypto/Prim.lean. What IS a theorem: every constant the Go code feeds into them. -/

section Derivations
open Uquic.Model Uquic.Gen

/-- Initial salts (RFC 9001 §5.2, RFC 9369 §3.3.1) -/
theorem salts_are_rfc : Handshake.quicSaltV1 = Rfc.salt 1 ∧ Handshake.quicSaltV2 = Rfc.salt 2 := by decide

/-- key / IV / header-protection labels for both versions (RFC 9001 §5.1, §5.4; RFC 9369 §3.3.2) -/
theorem labels_are_rfc :
    Handshake.hkdfLabelKeyV1 = Rfc.keyLabel 1 ∧ Handshake.hkdfLabelKeyV2 = Rfc.keyLabel 2 ∧
    Handshake.hkdfLabelIVV1 = Rfc.ivLabel 1 ∧ Handshake.hkdfLabelIVV2 = Rfc.ivLabel 2 ∧
    Handshake.hpLabelV1 = Rfc.hpLabel 1 ∧ Handshake.hpLabelV2 = Rfc.hpLabel 2 := by decide

/-- Retry integrity nonces (RFC 9001 §5.8, RFC 9369 §3.3.3) -/
theorem retry_nonces_are_rfc :
    Handshake.retryNonceV1 = Rfc.retryNonce 1 ∧ Handshake.retryNonceV2 = Rfc.retryNonce 2 := by decide

/-- header protection touches the low 4 bits of a long header's first byte and the low 5 bits of a short
    header's (RFC 9001 §5.4.1), for both the AES and the ChaCha20 protector -/
theorem hp_mask_bits_rfc :
    Uquic.Model.Packet.firstMask true = 0x0f ∧ Uquic.Model.Packet.firstMask false = 0x1f ∧
    Handshake.chachaFirstByteMaskLong = Handshake.aesFirstByteMaskLong ∧
    Handshake.chachaFirstByteMaskShort = Handshake.aesFirstByteMaskShort := by decide

/-- `ku_label_rfc`: the key-update label is the RFC's for BOTH versions — "quic ku" (RFC 9001 §6.1) and
    "quicv2 ku" (RFC 9369 §3.3.2). (Was false for QUIC v2 until /repo commit 6e47d06; the witness history
    corpus/C05/keyphase/v2-ku-label.ops is kept as a regression.) -/
theorem ku_label_rfc :
    Handshake.keyUpdateLabelV1 = Rfc.kuLabel 1 ∧ Handshake.keyUpdateLabelV2 = Rfc.kuLabel 2 := by decide

end Derivations

end Uquic.Props.C05
