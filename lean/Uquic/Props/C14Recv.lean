/-
Property C14 — the RECEIVE glue: which packets tell the sent packet handler "a packet arrived", and how often the bytes
of a packet are credited (round 5).

`Props.C14` proves the 3x bound for every history of handler calls, with validation only by `ReceivedPacket(Handshake)`.
Whether that call stands for a packet of the real client is decided in connection.go: `Model.Recv` is its receive
path for ANY sequence of datagrams (any coalescing; packets that are authentic or forged, duplicates, bad frames, foreign
connection IDs; any key state: buffered until keys arrive, dropped after keys are gone) and read-key installations.

* `validated_only_by_authenticated_handshake`  for EVERY such run on an unvalidated server connection: if the address ends
        up validated, the run contains a Handshake packet whose AEAD tag verifies under the connection's keys, with a new
        packet number and acceptable frames — forged / undecryptable / buffered / duplicate Handshake-type packets never
        lift the limit, whatever else arrives, in whatever order keys are installed;
* `unauthenticated_datagram_only_credits`      a datagram without a single authentic packet has exactly one effect on the
        handler: `ReceivedBytes(size)`; no packet is counted;
* `packets_counted_are_accepted_packets`       `ConnectionStats.PacketsReceived` grows by at most the number of authentic,
        new packets of a datagram;
* `early_accounting_breaks_it`                 kernel-checked witness: FALSE when the handler is told about the packet
        before it is unpacked (level taken from the header type): one forged Handshake-type packet validates;
* `received_credit_full_iff_no_recredit`       "the handler never credits more bytes than arrived" holds for ALL runs
        exactly when re-processing a buffered packet does not call `ReceivedBytes` again;
  `received_credit_partial`                    … and whatever that flag is, for runs without a read-key installation;
  `received_credit_witness`                    the regenerated fact `Gen.AmpRecv.requeuedPacketsCreditedAgain` decides
        which side the CODE is on: while it is `true` the full statement is false for the code (known finding
        C14-requeued-packet-credited-twice), once it is `false` the full statement is a theorem about the code;
* `recv_shape`                                 regenerated fact: every `sentPacketHandler.ReceivedPacket` call site of the
        root package runs only after an unpack call (semantic shape, see gofacts/x_amprecv.go).

Tie to the code: driver `ampe2e` (a REAL server connection; injected datagrams whose packets are described exactly by the
op text: well-protected Initials, duplicates, forged Handshake / 0-RTT packets before and after the keys exist, held-back
client datagrams released later) compares `pr` = ConnectionStats().PacketsReceived and `hr` with `Model.Recv`, monitors
`validated_without_authenticated_handshake`, `packet_counted_unauthenticated`, `datagram_credited_once`,
`wire_send_at_limit`.
-/
import Uquic.Props.C14
import Uquic.Model.Amp.RecvGlue
import Uquic.Generated.AmpRecv

namespace Uquic.Props.C14Recv

open Uquic.Model.Amp Uquic.Model.Recv

/-! ### helper lemmas -/

private theorem receivedPacket_counters (h : H) (l : Level) :
    (h.receivedPacket l).bytesReceived = h.bytesReceived ∧ (h.receivedPacket l).bytesSent = h.bytesSent ∧
    (h.receivedPacket l).persp = h.persp := by
  unfold H.receivedPacket; split <;> simp

private theorem receivedPacket_not_handshake (h : H) (l : Level) (hl : l ≠ .handshake) : h.receivedPacket l = h := by
  unfold H.receivedPacket; simp [hl]

private theorem level_handshake (k : Kind) : k.level = .handshake ↔ k = .handshake := by
  cases k <;> simp [Kind.level]

/-- a packet that is processed is authentic, new, acceptable -/
private theorem processed_inv {k : Keys} {p : RawPkt} {l : Level} (h : outcome k p = .processed l) :
    l = p.kind.level ∧ p.authentic = true ∧ p.fresh = true ∧ p.framesOk = true ∧ p.headerOk = true := by
  unfold outcome at h
  split at h
  · cases h
  · split at h
    · cases h
    · cases h
    · split at h
      · cases h
      · split at h
        · cases h
        · split at h
          · cases h
          · cases h
            refine ⟨rfl, ?_, ?_, ?_, ?_⟩ <;> simp_all

private def Inv (c : C) : Prop := c.h.validated = false ∧ ∀ p ∈ c.queue, p.good = false

private theorem walk_inv (pkts : List RawPkt) : ∀ (c : C), Inv c → (∀ p ∈ pkts, p.good = false) → Inv (c.walk pkts) := by
  induction pkts with
  | nil => intro c hc _; exact hc
  | cons p rest ih =>
    intro c hc hp
    have hrest : ∀ q ∈ rest, q.good = false := fun q hq => hp q (List.mem_cons_of_mem _ hq)
    have hpb : p.good = false := hp p (List.mem_cons_self ..)
    unfold C.walk
    split
    · exact hc
    · exact ⟨hc.1, hc.2⟩
    · exact ih c hc hrest
    · refine ih _ ⟨hc.1, ?_⟩ hrest
      intro q hq
      simp only at hq
      split at hq
      · rcases List.mem_append.mp hq with h | h
        · exact hc.2 q h
        · simp at h; subst h; exact hpb
      · exact hc.2 q hq
    · rename_i l ho
      obtain ⟨hl, ha, hf, hfr, hh⟩ := processed_inv ho
      have hk : p.kind ≠ .handshake := by
        intro hk
        simp [RawPkt.good, hk, ha, hf, hfr, hh] at hpb
      have hl' : l ≠ .handshake := by
        rw [hl]; intro h; exact hk ((level_handshake _).mp h)
      refine ih _ ⟨?_, hc.2⟩ hrest
      simp only [receivedPacket_not_handshake _ _ hl']
      exact hc.1

private theorem again_inv (b : Bool) (c : C) (p : RawPkt) (hc : Inv c) (hp : p.good = false) : Inv (c.again b p) := by
  unfold C.again
  split
  · exact hc
  · apply walk_inv
    · cases b <;> exact ⟨by simpa [H.receivedBytes] using hc.1, hc.2⟩
    · intro q hq; simp at hq; subst hq; exact hp

private theorem foldl_again_inv (b : Bool) (q : List RawPkt) : ∀ (c : C), Inv c → (∀ p ∈ q, p.good = false) →
    Inv (q.foldl (C.again b) c) := by
  induction q with
  | nil => intro c hc _; exact hc
  | cons p q ih =>
    intro c hc hq
    exact ih _ (again_inv b c p hc (hq p (List.mem_cons_self ..))) (fun r hr => hq r (List.mem_cons_of_mem _ hr))

private theorem step_inv (b : Bool) (c : C) (e : Ev) (hc : Inv c)
    (he : ∀ size pkts, e = .datagram size pkts → ∀ p ∈ pkts, p.good = false) : Inv (c.step b e) := by
  cases e with
  | datagram size pkts =>
    simp only [C.step, C.datagram]
    split
    · exact hc
    · exact walk_inv pkts _ ⟨by simpa [H.receivedBytes] using hc.1, hc.2⟩ (he size pkts rfl)
  | readKeys k =>
    simp only [C.step]
    exact foldl_again_inv b c.queue _ ⟨hc.1, by simp⟩ hc.2

private theorem run_inv (b : Bool) (evs : List Ev) : ∀ (c : C), Inv c → (∀ p ∈ packetsOf evs, p.good = false) →
    Inv (run b c evs) := by
  induction evs with
  | nil => intro c hc _; exact hc
  | cons e evs ih =>
    intro c hc hp
    have h1 : Inv (c.step b e) := by
      apply step_inv b c e hc
      intro size pkts he p hpm
      subst he
      exact hp p (by simp [packetsOf, hpm])
    have h2 : ∀ p ∈ packetsOf evs, p.good = false := by
      intro p hpm
      cases e with
      | datagram size pkts => exact hp p (by simp [packetsOf, hpm])
      | readKeys k => exact hp p (by simpa [packetsOf] using hpm)
    exact ih _ h1 h2

/-! ### validation -/

/-- `validated_only_by_authenticated_handshake`: for EVERY run of the receive path (any datagrams, any coalescing, any
packet kinds, any order of read-key installations, with or without the second credit) that starts with the client's
address unvalidated and nothing good in the buffer: if the handler ends up validated, then one of the packets that
arrived was a Handshake packet that is AUTHENTIC under the connection's keys, new, with acceptable frames and header.
Header type alone — a forged, undecryptable, buffered or replayed Handshake-type packet — never validates. -/
theorem validated_only_by_authenticated_handshake (creditAgain : Bool) (c : C) (evs : List Ev)
    (h0 : c.h.validated = false) (hq : ∀ p ∈ c.queue, p.good = false)
    (hv : (run creditAgain c evs).h.validated = true) :
    ∃ p ∈ packetsOf evs, p.kind = .handshake ∧ p.authentic = true ∧ p.fresh = true ∧ p.framesOk = true ∧ p.headerOk = true := by
  apply Classical.byContradiction
  intro hne
  have hall : ∀ p ∈ packetsOf evs, p.good = false := by
    intro p hp
    cases hg : p.good with
    | false => rfl
    | true =>
      exfalso; apply hne
      simp only [RawPkt.good, Bool.and_eq_true, beq_iff_eq] at hg
      exact ⟨p, hp, hg.1.1.1.1, hg.1.1.1.2, hg.1.1.2, hg.1.2, hg.2⟩
  have := (run_inv creditAgain evs c ⟨h0, hq⟩ hall).1
  rw [this] at hv; cases hv

example : (run true { h := H.new .server false }
      [.datagram 1200 [⟨.initial, 1200, true, true, true, true⟩], .datagram 300 [⟨.handshake, 300, false, true, true, true⟩],
       .readKeys .handshake, .datagram 300 [⟨.handshake, 300, false, true, true, true⟩]]).h.validated = false ∧
    (run true { h := H.new .server false }
      [.datagram 1200 [⟨.initial, 1200, true, true, true, true⟩], .readKeys .handshake,
       .datagram 300 [⟨.handshake, 300, true, true, true, true⟩]]).h.validated = true := by decide

private theorem walk_unauth (pkts : List RawPkt) : ∀ (c : C), (∀ p ∈ pkts, p.authentic = false) →
    (c.walk pkts).h = c.h ∧ (c.walk pkts).packets = c.packets := by
  induction pkts with
  | nil => intro c _; exact ⟨rfl, rfl⟩
  | cons p rest ih =>
    intro c hp
    have hrest : ∀ q ∈ rest, q.authentic = false := fun q hq => hp q (List.mem_cons_of_mem _ hq)
    unfold C.walk
    split
    · exact ⟨rfl, rfl⟩
    · exact ⟨rfl, rfl⟩
    · exact ih c hrest
    · exact ih _ hrest
    · rename_i l ho
      have := (processed_inv ho).2.1
      rw [hp p (List.mem_cons_self ..)] at this; cases this

/-- `unauthenticated_datagram_only_credits`: a datagram in which no packet is authentic (garbage, forged packets of any
type, packets of another connection) does exactly one thing to the handler of an open connection: its size is
credited. No packet is counted, nothing is validated. -/
theorem unauthenticated_datagram_only_credits (c : C) (size : Nat) (pkts : List RawPkt) (hopen : c.closed = false)
    (hp : ∀ p ∈ pkts, p.authentic = false) :
    (c.datagram size pkts).h = c.h.receivedBytes size ∧ (c.datagram size pkts).packets = c.packets := by
  simp only [C.datagram, hopen, Bool.false_eq_true, if_false]
  exact walk_unauth pkts _ hp

/-- number of packets of a datagram the connection can accept at all -/
def acceptable (pkts : List RawPkt) : Nat := (pkts.filter fun p => p.authentic && p.fresh).length

private theorem walk_packets (pkts : List RawPkt) : ∀ (c : C), (c.walk pkts).packets ≤ c.packets + acceptable pkts := by
  induction pkts with
  | nil => intro c; simp [C.walk, acceptable]
  | cons p rest ih =>
    intro c
    have hmono : acceptable rest ≤ acceptable (p :: rest) := by
      simp only [acceptable, List.filter_cons]; split <;> simp
    unfold C.walk
    split
    · omega
    · show c.packets ≤ _; omega
    · have := ih c; omega
    · have := ih ({ c with queue := if c.queue.length < maxUndecryptable then c.queue ++ [p] else c.queue }); simp only at this ⊢; omega
    · rename_i l ho
      obtain ⟨_, ha, hf, _, _⟩ := processed_inv ho
      have hacc : acceptable (p :: rest) = acceptable rest + 1 := by simp [acceptable, List.filter_cons, ha, hf]
      have := ih ({ c with h := c.h.receivedPacket l,
                           keys := if l = .handshake ∧ c.h.persp = .server then { c.keys with initial := false } else c.keys,
                           packets := c.packets + 1 })
      simp only at this ⊢; omega

/-- `packets_counted_are_accepted_packets`: the packet counter (ConnectionStats.PacketsReceived, incremented by the
handler's `ReceivedPacket`) grows by at most the number of authentic, new packets of the datagram. -/
theorem packets_counted_are_accepted_packets (c : C) (size : Nat) (pkts : List RawPkt) :
    (c.datagram size pkts).packets ≤ c.packets + acceptable pkts := by
  simp only [C.datagram]
  split
  · omega
  · exact walk_packets pkts _

/-- `early_accounting_breaks_it`: FALSE for a receive path that reports the packet to the handler before unpacking it
(encryption level derived from the unauthenticated header type): ONE forged Handshake-type packet, which the
connection then fails to decrypt, validates the address. -/
theorem early_accounting_breaks_it :
    ∃ (c : C) (size : Nat) (pkts : List RawPkt), c.h.validated = false ∧ (∀ p ∈ pkts, p.authentic = false) ∧
      (c.datagramEarly size pkts).h.validated = true :=
  ⟨{ h := H.new .server false, keys := { handshake := true } }, 60, [⟨.handshake, 60, false, true, true, true⟩],
   by decide, by decide, by decide⟩

/-! ### crediting -/

private theorem walk_bytes (pkts : List RawPkt) : ∀ (c : C), (c.walk pkts).h.bytesReceived = c.h.bytesReceived := by
  induction pkts with
  | nil => intro c; rfl
  | cons p rest ih =>
    intro c
    unfold C.walk
    split
    · rfl
    · rfl
    · exact ih c
    · rw [ih]
    · rw [ih]; exact (receivedPacket_counters _ _).1

/-- THE FULL STATEMENT about crediting: in every run, the handler has been credited at most the bytes that arrived. -/
def received_credit_full (creditAgain : Bool) : Prop :=
  ∀ (c : C) (evs : List Ev), (run creditAgain c evs).h.bytesReceived ≤ c.h.bytesReceived + arrived evs

private theorem foldl_again_false_bytes (q : List RawPkt) : ∀ (c : C),
    (q.foldl (C.again false) c).h.bytesReceived = c.h.bytesReceived := by
  induction q with
  | nil => intro c; rfl
  | cons p q ih =>
    intro c
    simp only [List.foldl_cons]
    rw [ih]
    unfold C.again
    split
    · rfl
    · simp [walk_bytes]

private theorem step_bytes (b : Bool) (c : C) (e : Ev) (hb : b = false ∨ ∀ k, e ≠ .readKeys k) :
    (c.step b e).h.bytesReceived ≤ c.h.bytesReceived + arrived [e] := by
  cases e with
  | datagram size pkts =>
    simp only [C.step, C.datagram, arrived]
    split
    · omega
    · rw [walk_bytes]; simp [H.receivedBytes]
  | readKeys k =>
    rcases hb with hb | hb
    · subst hb
      simp only [C.step, arrived]
      rw [foldl_again_false_bytes]; simp
    · exact absurd rfl (hb k)

private theorem arrived_cons (e : Ev) (evs : List Ev) : arrived (e :: evs) = arrived [e] + arrived evs := by
  cases e <;> simp [arrived]

private theorem run_bytes (b : Bool) (evs : List Ev) : ∀ (c : C), (b = false ∨ ∀ e ∈ evs, ∀ k, e ≠ .readKeys k) →
    (run b c evs).h.bytesReceived ≤ c.h.bytesReceived + arrived evs := by
  induction evs with
  | nil => intro c _; simp [Uquic.Model.Recv.run, arrived]
  | cons e evs ih =>
    intro c hb
    have h1 := step_bytes b c e (hb.imp id fun h => h e (List.mem_cons_self ..))
    have h2 := ih (c.step b e) (hb.imp id fun h e' he' => h e' (List.mem_cons_of_mem _ he'))
    rw [arrived_cons]
    simp only [Uquic.Model.Recv.run, List.foldl_cons] at h2 ⊢
    omega

/-- whatever re-processing does: runs in which no read keys are installed never credit more than arrived -/
theorem received_credit_partial (creditAgain : Bool) (c : C) (evs : List Ev) (hno : ∀ e ∈ evs, ∀ k, e ≠ .readKeys k) :
    (run creditAgain c evs).h.bytesReceived ≤ c.h.bytesReceived + arrived evs :=
  run_bytes creditAgain evs c (Or.inr hno)

/-- a forged Handshake packet that arrives before the Handshake keys exist is buffered; the key installation handles it
again — and credits it again -/
theorem received_credit_recredit_witness : ¬ received_credit_full true := by
  intro h
  have := h { h := H.new .server false } [.datagram 1200 [⟨.handshake, 1200, false, true, true, true⟩], .readKeys .handshake]
  revert this; decide

/-- `received_credit_full_iff_no_recredit`: the full statement holds exactly for a receive path that does NOT report a
buffered packet's bytes a second time. -/
theorem received_credit_full_iff_no_recredit (creditAgain : Bool) : received_credit_full creditAgain ↔ creditAgain = false := by
  constructor
  · intro h
    cases creditAgain with
    | false => rfl
    | true => exact absurd h received_credit_recredit_witness
  · intro hb c evs
    exact run_bytes creditAgain evs c (Or.inl hb)

/-- … and for the CODE (regenerated fact): while `run`'s re-processing loop reaches `ReceivedBytes` the full statement is
false for it — 1200 forged bytes buy 7200 bytes of budget — (listed finding C14-requeued-packet-credited-twice); as soon as
the fact turns `false` this same theorem says the full statement holds for the code. -/
theorem received_credit_witness :
    received_credit_full Uquic.Gen.AmpRecv.requeuedPacketsCreditedAgain ↔ Uquic.Gen.AmpRecv.requeuedPacketsCreditedAgain = false :=
  received_credit_full_iff_no_recredit _

/-- regenerated shape fact: every `sentPacketHandler.ReceivedPacket` call of the root package runs after an unpack call -/
theorem recv_shape : Uquic.Gen.AmpRecv.receivedPacketOnlyAfterUnpack = true := by decide

end Uquic.Props.C14Recv
