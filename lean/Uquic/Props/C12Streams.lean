/-
Property C12, continued — the stream COUNT a client advertised over the LIFE of the connection.

`Uquic.Props.C12` / `C12Glue` judge the check of the streams map as it is built (`num > maxStream`, no stream
completed yet). This module follows the limit through what happens afterwards: the application accepts streams
(or does not, yet), streams are finished by both sides and deleted from the map (streams_map_incoming.go
`deleteStream`, the cleanup path behind `Conn.onStreamCompleted`), MAX_STREAMS frames renew the count. The model
is the full incoming map of C15 (`Uquic.Model.Streams.Incoming`, branch for branch, accept split at mutex
granularity) — the same one the connection model `Uquic.Model.UQuic.LimitsGlue` runs for both stream kinds and the
`limglue` driver diffs against the real Conn (STREAM frames with FIN, AcceptStream, Read to EOF, Close, the framer's
MAX_STREAMS).

What C12 needs of it, for EVERY history of atomic steps (any interleaving of peer frames, accepts, cancellations,
deletions in any order, close), any stream kind and any configured count:

* a stream number the peer was ever told — the advertised initial_max_streams_* or any MAX_STREAMS sent so far —
  is never answered with STREAM_LIMIT_ERROR (`told_stream_never_refused`);
* what is not refused now is not refused later: the enforced limit never moves backwards
  (`stream_limit_never_revoked`);
* until the first MAX_STREAMS the check is exactly the one of `C12Glue.open_fires_iff` (`limit_exact_until_renewed`),
  hence for a spec-driven client exactly the advertised count (`spec_stream_limit_exact_until_renewed`);
* the completion of an accepted stream tells the peer a limit that leaves it as many streams as the configured
  count minus the streams still alive, counted from the streams it has OPENED (`completion_renews_from_opened`);
  counting from the streams the application has ACCEPTED instead takes back what was told
  (`counting_from_accepted_revokes`, a kernel-checked witness: three streams opened in one go, one accepted and
  finished, the peer's 16th stream of 16 advertised is refused).
-/
import Uquic.Proofs.StreamsIncomingRun
import Uquic.Proofs.StreamsMap
import Uquic.Proofs.StreamsTraceBasic
import Uquic.Props.C12Glue

namespace Uquic.Props.C12Streams
open Uquic.Model.Streams Uquic.Proofs.Streams
open Uquic.Model.UQuic.Limits Uquic.Model.UQuic.LimitsGlue

/-- the id of the `num`-th stream (1-based) the peer opens -/
def peerId (t : STyp) (p : Persp) (num : Int) : Int := firstIncoming t p + 4 * (num - 1)

/-- the peer's `num`-th stream is answered with STREAM_LIMIT_ERROR -/
def Refused (t : STyp) (p : Persp) (m : Incoming) (num : Int) : Prop :=
  (m.getOrOpen (peerId t p num)).2 = .err .limit

/-- the check of `GetOrOpenStream` as a stream COUNT: refused iff beyond `credit` -/
theorem refused_iff (t : STyp) (p : Persp) (m : Incoming) (num : Int) :
    Refused t p m num ↔ num > credit (firstIncoming t p) m := by
  unfold Refused peerId credit
  rw [getOrOpen_limit_iff]
  omega

theorem credit_new (t : STyp) (p : Persp) (n : Int) (hn : 0 ≤ n) :
    credit (firstIncoming t p) (Incoming.new t n p) = n := by
  have hfr := firstIncoming_range t p
  simp only [credit, Incoming.new]
  by_cases h0 : n = 0
  · subst h0; simp [numToID, invalidStreamID, Uquic.Gen.Protocol.InvalidStreamID]; omega
  · rw [numToID_incoming t p n h0]; omega

/-- **told_stream_never_refused.** Over any history: a stream number within the configured (advertised) count, or
    within any MAX_STREAMS value queued so far, is not refused. -/
theorem told_stream_never_refused (t : STyp) (p : Persp) (n : Int) (hn : 0 ≤ n) (ops : List InOp)
    (hw : ∀ op ∈ ops, op.wf (firstIncoming t p)) (num : Int)
    (htold : num ≤ n ∨ ∃ v ∈ msVals ((Incoming.new t n p).run ops).2, num ≤ v) :
    ¬ Refused t p ((Incoming.new t n p).run ops).1 num := by
  have hfr := firstIncoming_range t p
  obtain ⟨h1, _, h3⟩ := run_credit _ hfr.1 hfr.2 ops _ (inv_new t p n hn) hw
  have hc : credit (firstIncoming t p) (Incoming.new t n p) = n := credit_new t p n hn
  rw [hc] at h1
  rw [refused_iff]
  rcases htold with h | ⟨v, hv, h⟩
  · omega
  · have := (h3 v hv).2.1; omega

example : ((((Incoming.new .uni 16 .client).run
    [.getOrOpen 11, .getOrOpen 3, .accCall 0, .accLocked 0, .delete 3]).1).getOrOpen (peerId .uni .client 17)).2
    ≠ .err .limit := by decide

/-- **stream_limit_never_revoked.** What is not refused after a history is not refused after any continuation. -/
theorem stream_limit_never_revoked (t : STyp) (p : Persp) (n : Int) (hn : 0 ≤ n) (pre ops : List InOp)
    (hwp : ∀ op ∈ pre, op.wf (firstIncoming t p)) (hw : ∀ op ∈ ops, op.wf (firstIncoming t p)) (num : Int)
    (h : ¬ Refused t p ((Incoming.new t n p).run pre).1 num) :
    ¬ Refused t p ((Incoming.new t n p).run (pre ++ ops)).1 num := by
  have hfr := firstIncoming_range t p
  have hinv := run_inv _ hfr.1 hfr.2 pre _ (inv_new t p n hn) hwp
  obtain ⟨h1, _, _⟩ := run_credit _ hfr.1 hfr.2 ops _ hinv hw
  rw [irun_append]
  rw [refused_iff] at h ⊢
  simp only []
  omega

/-- while no MAX_STREAMS was queued, the limit is the one the map was built with -/
theorem credit_unchanged_without_renewal (first : Int) (hf0 : 0 ≤ first) (hf3 : first ≤ 3) (ops : List InOp) :
    ∀ m : Incoming, InInv first m → (∀ op ∈ ops, op.wf first) → msVals (m.run ops).2 = [] →
      (m.run ops).1.maxStream = m.maxStream := by
  induction ops with
  | nil => intro m _ _ _; rfl
  | cons o os ih =>
    intro m h hw hms
    rw [run_cons] at hms ⊢
    have sf := step_facts first hf0 hf3 m o h (hw o (by simp))
    rw [msVals_cons] at hms
    have hms' := List.append_eq_nil_iff.mp hms
    rw [ih _ sf.inv (fun op hop => hw op (by simp [hop])) hms'.2]
    rcases sf.credit with ⟨_, hmx⟩ | ⟨v, hfs, _, _, _⟩
    · exact hmx
    · rw [hfs] at hms'
      simp [msOfFrames] at hms'

/-- **limit_exact_until_renewed.** Until the first MAX_STREAMS the check of the map is `num > n` — the check
    `openFires` of the glue model (`C12Glue.open_fires_iff`). -/
theorem limit_exact_until_renewed (t : STyp) (p : Persp) (n : Int) (hn : 0 ≤ n) (ops : List InOp)
    (hw : ∀ op ∈ ops, op.wf (firstIncoming t p)) (hms : msVals ((Incoming.new t n p).run ops).2 = [])
    (num : Int) :
    Refused t p ((Incoming.new t n p).run ops).1 num ↔ openFires n num = true := by
  have hfr := firstIncoming_range t p
  have hmx := credit_unchanged_without_renewal _ hfr.1 hfr.2 ops _ (inv_new t p n hn) hw hms
  have hc : credit (firstIncoming t p) (Incoming.new t n p) = n := credit_new t p n hn
  rw [refused_iff]
  have : credit (firstIncoming t p) ((Incoming.new t n p).run ops).1 = n := by
    have h2 := hc
    simp only [credit] at h2 ⊢
    rw [hmx]; exact h2
  rw [this]
  simp [openFires]

/-- the incoming maps of a connection are built from the enforced stream counts (`Glue.new`) -/
theorem glue_maps_built_from_enforced (enf : Limits) (cfg : Config) (adv : Option OwnParams) (c : Nat) (i q : Int) :
    (Glue.new enf cfg adv c i q).life.inB = Incoming.new .bidi enf.streamsBidi .client ∧
    (Glue.new enf cfg adv c i q).life.inU = Incoming.new .uni enf.streamsUni .client := ⟨rfl, rfl⟩

/-- **spec_stream_limit_exact_until_renewed.** For every spec-driven client (every parameter list, every user
    Config) and every history without a MAX_STREAMS: a stream is refused exactly when its number exceeds the
    ADVERTISED count. -/
theorem spec_stream_limit_exact_until_renewed (ps : ParamList) (user : Config) (bidi : Bool) (ops : List InOp)
    (hn : 0 ≤ (specEnforced ps user).streams bidi)
    (hw : ∀ op ∈ ops, op.wf (firstIncoming (if bidi then .bidi else .uni) .client))
    (hms : msVals ((Incoming.new (if bidi then .bidi else .uni) ((specEnforced ps user).streams bidi) .client).run ops).2 = [])
    (num : Int) :
    Refused (if bidi then .bidi else .uni) .client
      ((Incoming.new (if bidi then .bidi else .uni) ((specEnforced ps user).streams bidi) .client).run ops).1 num ↔
    num > (specAdvertised ps).streams bidi := by
  rw [limit_exact_until_renewed _ _ _ hn ops hw hms num]
  exact Uquic.Props.C12Glue.open_fires_iff ps user bidi num

/-- … and afterwards never below it: a spec-driven client never refuses a stream within the advertised count,
    whatever was accepted, finished or deleted in between. -/
theorem spec_advertised_stream_never_refused (ps : ParamList) (user : Config) (bidi : Bool) (ops : List InOp)
    (hn : 0 ≤ (specEnforced ps user).streams bidi)
    (hw : ∀ op ∈ ops, op.wf (firstIncoming (if bidi then .bidi else .uni) .client))
    (num : Int) (hnum : num ≤ (specAdvertised ps).streams bidi) :
    ¬ Refused (if bidi then .bidi else .uni) .client
      ((Incoming.new (if bidi then .bidi else .uni) ((specEnforced ps user).streams bidi) .client).run ops).1 num := by
  apply told_stream_never_refused _ _ _ hn ops hw num
  left
  rw [(Uquic.Props.C12Glue.spec_enforced_eq_advertised ps user).2.2 bidi]
  exact hnum

/-! ## the renewal counts from the streams the peer has opened -/

/-- **completion_renews_from_opened.** The deletion of a stream the application had accepted (both sides finished)
    queues MAX_STREAMS = (streams the peer has opened) + (configured count − streams still in the map): the peer may
    again have the configured number of streams alive, and unaccepted streams count as opened. -/
theorem completion_renews_from_opened (first : Int) (m : Incoming) (o a : Nat) (id : SID) (sd : Bool)
    (hf0 : 0 ≤ first) (hf3 : first ≤ 3)
    (h : InCore first m o a) (hl : lookup m.streams id = some sd) (hacc : id < m.nextAccept)
    (hroom : m.maxNum > ((eraseKey m.streams id).length : Int))
    (hmax : m.nextOpen + 4 * (m.maxNum - ((eraseKey m.streams id).length : Int) - 1) ≤ maxStreamID) :
    (m.deleteStream id).2.2 =
      [.maxStreams m.typ ((o : Int) + (m.maxNum - ((eraseKey m.streams id).length : Int)))] ∧
    credit first (m.deleteStream id).1 = (o : Int) + (m.maxNum - ((eraseKey m.streams id).length : Int)) := by
  have hd := deleteInner_real m id sd hl hacc
  simp only [hroom, hmax, if_true] at hd
  have he := deleteStream_eq m id
  rw [he.2, he.1, hd]
  have ho := h.hopen
  refine ⟨?_, ?_⟩
  · simp only [idToNum, ho]
    congr 2
    omega
  · simp only [credit, ho]
    omega

/-- the same history on the map, computed: three streams opened in one go (the peer names its third), the first
    accepted and finished — MAX_STREAMS 17 of 16 configured -/
example : msVals ((Incoming.new .uni 16 .client).run
    [.getOrOpen 11, .accCall 0, .accLocked 0, .delete 3]).2 = [17] := by decide

/-- **counting_from_accepted_revokes.** Had `deleteStream` counted from `nextStreamToAccept` (streams the
    application has accepted) instead of `nextStreamToOpen`, then in that history the new limit would lie BELOW the
    16 streams the peer was told at the start: its 16th stream would be refused. -/
theorem counting_from_accepted_revokes :
    let m := ((Incoming.new .uni 16 .client).run [.getOrOpen 11, .accCall 0, .accLocked 0]).1
    let len : Int := (eraseKey m.streams 3).length
    m.nextAccept + 4 * (m.maxNum - len - 1) < peerId .uni .client 16 ∧
    ¬ (m.nextOpen + 4 * (m.maxNum - len - 1) < peerId .uni .client 16) := by decide

end Uquic.Props.C12Streams
