/-
Property C17, round 4: two pieces of glue around the close / idle core.

1. doDial's cancellation clause (transport.go, u_transport.go). The goroutine that called `Conn.run` reports on
   `recreateChan` when the FIRST recorded close error is `errCloseForRecreating` (a Version Negotiation packet was
   handled just before the dial context was cancelled: `conn.destroy(nil)` then loses the compare-and-swap), on
   `errChan` otherwise. `dial_cancel_returns`: once the clause is entered, the run loop's return and the goroutine's
   report make doDial return the cancellation - whichever channel is used. `dial_cancel_stuck_unless_both`: an
   inner select that lacks either channel has a history after which doDial never returns.
   `inner_select_receives_both` ties the "both" to the regenerated statement shape of both doDial.

2. keep-alive deadlines across sequences of packets received and sent (connection.go
   handleUnpackedShortHeaderPacket / registerPackedShortHeaderPacket / nextKeepAliveTime / nextIdleTimeoutTime):
   whatever is sent after a packet was received - path probe packets included - a keep-alive PING stays scheduled
   strictly before the idle deadline and the run loop's check sends it rather than declaring an idle timeout
   (`keepalive_precedes_idle_after_any_history`); path probe packets leave the idle bookkeeping alone
   (`probe_packet_leaves_idle_bookkeeping`).
-/
import Uquic.Proofs.C17Glue
import Uquic.Generated.Close

namespace Uquic.Props.C17Glue
open Uquic.Model.Dial Uquic.Proofs.C17Glue

/-! ## 1. doDial: the cancelled dial returns, whichever channel the goroutine reports on -/

/-- both `doDial`s wait on errChan AND recreateChan after destroying the connection (regenerated from the source) -/
theorem inner_select_receives_both :
    innerOf Uquic.Gen.Close.doDialCancelShape = ⟨true, true⟩ ∧
    innerOf Uquic.Gen.Close.uDoDialCancelShape = ⟨true, true⟩ := by decide

/-- the model `step` is the instance of the generalised step that both doDial have -/
theorem model_is_both (s : St) (es : List Ev) :
    runW (innerOf Uquic.Gen.Close.doDialCancelShape) s es = run s es ∧
    runW (innerOf Uquic.Gen.Close.uDoDialCancelShape) s es = run s es := by
  rw [inner_select_receives_both.1, inner_select_receives_both.2]
  exact ⟨runW_both s es, runW_both s es⟩

/-- Liveness of the cancellation clause under the obvious fairness: from ANY reachable state in which doDial has
    entered the clause (it is inside `conn.destroy(nil)` or at the inner select), once the run loop has returned
    (with a recreate error or any other: `rc`), the goroutine has reported and doDial has taken two steps, doDial
    has returned the cancellation. In particular a close error recorded BEFORE the cancellation
    (`errCloseForRecreating` after a Version Negotiation packet) does not leave Dial blocked. -/
theorem dial_cancel_returns (es : List Ev) (h : (run {} es).pc = .destroying ∨ (run {} es).pc = .waiting)
    (rc : Bool) (p1 p2 : Nat) :
    (run (run {} es) [.runReturns rc, .goroutineSignals, .dialStep p1, .dialStep p2]).pc = .returned .cancelled := by
  have hinv := Uquic.Proofs.Dial.inv_run {} es Uquic.Proofs.Dial.inv_init
  have hnt := notTaken_run {} es notTaken_init
  generalize run {} es = s at *
  obtain ⟨_, _, _, h4, _⟩ := hinv
  unfold NotTaken at hnt
  obtain ⟨pc, ctxDone, closeReq, runRet, sig, sigRec, sigTaken, hsC⟩ := s
  simp only at h h4 hnt
  rcases h with h | h
  · subst h
    have : sigTaken = false := hnt (by intro r; simp)
    subst this
    cases runRet <;> cases sig <;> simp [run, step]
  · subst h
    have : sigTaken = false := hnt (by intro r; simp)
    subst this
    have := (h4 rfl).1
    subst this
    cases sig <;> simp [run, step]

/-- the history of the hint: Version Negotiation handled, dial cancelled before doDial picked the recreate request -/
example : (run {} [.cancel, .dialStep 0, .runReturns true, .goroutineSignals, .dialStep 0, .dialStep 0]).pc = .returned .cancelled := by decide

theorem runW_append (w : InnerSel) (s : St) (a b : List Ev) : runW w s (a ++ b) = runW w (runW w s a) b := by
  induction a generalizing s with
  | nil => rfl
  | cons e rest ih => simp [runW, ih]

/-- Necessity: if the inner select lacks one of the two channels there is a history (the goroutine reports on
    exactly that channel after the clause was entered) after which NO continuation makes doDial return. -/
theorem dial_cancel_stuck_unless_both (w : InnerSel) (h : w ≠ ⟨true, true⟩) :
    ∃ es, ∀ more, (runW w {} (es ++ more)).pc = .waiting ∧ (runW w {} (es ++ more)).runReturned = true ∧
      (runW w {} (es ++ more)).signalled = true := by
  obtain ⟨e, r⟩ := w
  have key : ∀ rc : Bool, (InnerSel.mk e r).covers { signalIsRecreate := rc } = false →
      ∃ es, ∀ more, (runW ⟨e, r⟩ {} (es ++ more)).pc = .waiting ∧ (runW ⟨e, r⟩ {} (es ++ more)).runReturned = true ∧
        (runW ⟨e, r⟩ {} (es ++ more)).signalled = true := by
    intro rc hc
    refine ⟨[.cancel, .dialStep 0, .runReturns rc, .goroutineSignals, .dialStep 0], fun more => ?_⟩
    rw [runW_append]
    have hst : Stuck ⟨e, r⟩ (runW ⟨e, r⟩ {} [.cancel, .dialStep 0, .runReturns rc, .goroutineSignals, .dialStep 0]) := by
      cases rc <;> simp_all [runW, stepW, step, readyOuter, Stuck, InnerSel.covers]
    have := stuck_run _ _ more hst
    exact ⟨this.1, this.2.1, this.2.2.1⟩
  cases e <;> cases r
  · exact key true (by simp [InnerSel.covers])
  · exact key false (by simp [InnerSel.covers])
  · exact key true (by simp [InnerSel.covers])
  · exact absurd rfl h

/-! ## 2. keep-alives across sequences of packets received and sent -/

open Uquic.Model.Idle Uquic.Proofs.Idle

/-- a path probe packet (ack-eliciting or not) changes nothing in the idle / keep-alive bookkeeping -/
theorem probe_packet_leaves_idle_bookkeeping (s : Uquic.Model.Idle.St) (ae : Bool) (t : Int) : s.onShortSent ae true t = s := rfl

/-- whatever is sent, the keep-alive deadline stays where the last received packet put it -/
theorem sending_keeps_keepalive_deadline (s : Uquic.Model.Idle.St) (sends : List SeqEv) (hs : ∀ e ∈ sends, e.isSent = true) (pto : Int) :
    (s.runEvs sends).nextKeepAlive pto = s.nextKeepAlive pto :=
  nextKeepAlive_of_sameRcv (sameRcv_runSends s sends hs) pto

/-- After ANY history, once a packet is received at `t0`, and whatever 1-RTT packets are registered as sent
    afterwards (ack-eliciting or not, path probe packets or not, at any times): with keep-alives on and the
    negotiated interval (≤ idleTimeout/2, `negotiated_bounds`), the keep-alive is scheduled at
    `t0 + max(interval, 1.5 PTO)`, strictly before the idle deadline, and the run loop's check at or after that
    instant sends the PING - it does not declare an idle timeout. -/
theorem keepalive_precedes_idle_after_any_history (s0 : Uquic.Model.Idle.St) (hist sends : List SeqEv) (t0 pto : Int)
    (hs : ∀ e ∈ sends, e.isSent = true) (hpto : 0 < pto)
    (hkai : s0.keepAliveInterval ≤ s0.idleTimeout / 2) (hit : 0 ≤ s0.idleTimeout) (hon : s0.keepAlivePeriod ≠ 0)
    (hnz : t0 + max s0.keepAliveInterval (pto * 3 / 2) ≠ 0) :
    let s := (((s0.runEvs hist).onPacketReceived t0).runEvs sends)
    s.nextKeepAlive pto = t0 + max s0.keepAliveInterval (pto * 3 / 2) ∧
    s.nextKeepAlive pto < s.nextIdle pto ∧
    ∀ now, s.nextKeepAlive pto ≤ now → s.loopCheck pto now = .keepAlivePing := by
  intro s
  have hcfg1 := sameCfg_runEvs s0 hist
  have hrcv := sameRcv_runSends ((s0.runEvs hist).onPacketReceived t0) sends hs
  have hlr : s.lastPacketReceivedTime = t0 := hrcv.1
  have hitq : s.idleTimeout = s0.idleTimeout := hrcv.2.1.trans hcfg1.1
  have hkap : s.keepAlivePeriod = s0.keepAlivePeriod := hrcv.2.2.2.1.trans hcfg1.2.2.1
  have hkaiq : s.keepAliveInterval = s0.keepAliveInterval := hrcv.2.2.2.2.1.trans hcfg1.2.2.2
  have hps : s.keepAlivePingSent = false := hrcv.2.2.2.2.2
  have hlt := nextKeepAlive_lt_nextIdle s pto hpto (by rw [hkaiq, hitq]; exact hkai) (by rw [hitq]; exact hit)
    (by rw [hkap]; exact hon) hps
  rw [hlr, hkaiq] at hlt
  refine ⟨hlt.1, by rw [hlt.1]; exact hlt.2, ?_⟩
  intro now hnow
  unfold St.loopCheck
  simp only
  rw [hlt.1] at hnow ⊢
  have : ¬ now < t0 + max s0.keepAliveInterval (pto * 3 / 2) := by omega
  simp [hnz, this]

/-- hypotheses satisfiable: 1 s idle timeout, 200 ms keep-alives, a path probe and a non-ack-eliciting packet sent -/
example :
    let s := ((({ lastPacketReceivedTime := 5, idleTimeout := 1000, keepAlivePeriod := 200, keepAliveInterval := 200 } : Uquic.Model.Idle.St).runEvs
      [.sent true false 7]).onPacketReceived 100).runEvs [.sent true true 150, .sent false false 160]
    s.nextKeepAlive 30 = 300 ∧ s.nextIdle 30 = 1100 ∧ s.loopCheck 30 300 = .keepAlivePing := by decide

end Uquic.Props.C17Glue
