/-
C17 ∘ C16 — `routing_released` (DESIGN.md §7 C17 item 4): after any close path followed by expiry, no handler entry
and no reset token of the connection remains; between close and expiry every connection ID maps to the closed stand-in.

The close logic of C17 (`Uquic.Model.Close`: which cause takes which close path, `routingOf`; the order of the effects of
`handleCloseError` / the tail of `run`) is run on the connection-ID system of C16 (`Uquic.Model.ConnID`: generator,
manager, packet handler map) — see `Uquic.Proofs.CloseRouting` for the composed system `ConnSys`: arbitrary interleaved
histories of generator and manager calls, then the effect list of `runTail env ce`, where

  * `Effect.routing .removeAll`            = `connIDGenerator.RemoveAll()`
  * `Effect.routing .replaceRemote`        = `connIDGenerator.ReplaceWithClosed(nil, 3·PTO)`        → `closedRemoteConn`
  * `Effect.routing (.sendAndReplace f)`   = `sendConnectionClose` (the packer may still call the manager: `during`), then
                                             `connIDGenerator.ReplaceWithClosed(packet, 3·PTO)`       → `closedLocalConn`
  * `Effect.connIDManagerClose`            = `connIDManager.Close()` (deferred, hence last)

The classification of causes comes from `Uquic.Props.C17.peer_informed_iff_due` / `close_effects_order`, the routing
facts from the lemmas behind `Uquic.Props.C16.clean_after_close` (`replace_clean`, `removeAll_clean`,
`expiry_keeps_foreign`) at the composed state, the token facts from `Uquic.Props.C16More` (`tokset_subset`).
Assumption inherited from the C17 model: `sendConnectionClose` returns a packet (on its error path the code passes nil
and installs the silent stand-in instead; everything below except the kind of stand-in is the same).
-/
import Uquic.Proofs.CloseRouting
import Uquic.Props.C16
import Uquic.Props.C17

namespace Uquic.Props.C17Compose
open Uquic.Model Uquic.Model.ConnID Uquic.Proofs.ConnID Uquic.Proofs.CloseRouting

/-- the connection at setup: fresh generator and manager, the handler map holds the handshake connection ID (and, for a
    server, the client's original destination connection ID) and no token -/
def ConnSys.init (idLen : Nat) (initial : Bytes) (cd : Option Bytes) (dest : Bytes) : ConnSys :=
  { g := Generator.new idLen initial cd, m := Manager.new dest, r := Uquic.Props.C16.initialRouting initial cd }

theorem init_sinv (mk : Nat → Bytes) (idLen : Nat) (initial : Bytes) (cd : Option Bytes) (hne : cd ≠ some initial)
    (dest : Bytes) : SInv mk (initial :: cd.toList) (ConnSys.init idLen initial cd dest) := by
  refine ⟨Uquic.Props.C16.initial_rinv mk idLen initial cd hne, inv_new dest, ?_⟩
  intro x hx
  cases cd <;> simp [ConnSys.init, Uquic.Props.C16.initialRouting, Routing.add, lookupH] at hx
  all_goals (split at hx <;> simp at hx)

/-- the handler the transport installs for a stand-in of C17's model; a `closedLocalConn` gets a fresh packet counter -/
def handlerOf (r : ConnID.Routing) : Close.StandIn → Handler
  | .closedLocal _ => .closedLocal r.counters.length
  | .closedRemote => .closedRemote

/-- Which cause takes which close path (the `if`s at the end of `handleCloseError`), from C17's classification:
    a remote close leaves the silent stand-in; an immediate (destroy) close, or a client that has not sent a packet,
    removes everything at once; every other close sends CONNECTION_CLOSE with the code of the cause and leaves the
    stand-in that retransmits it. -/
theorem close_path_of_cause (persp : Close.Perspective) (sentFirstPacket : Bool) (ce : Close.CloseError) :
    ((Close.classify ce).isRemote = true →
        Close.routingOf persp sentFirstPacket ce = .replaceRemote) ∧
    ((Close.classify ce).isRemote = false → (ce.immediate = true ∨ (persp = .client ∧ sentFirstPacket = false)) →
        Close.routingOf persp sentFirstPacket ce = .removeAll) ∧
    ((Close.classify ce).isRemote = false → ce.immediate = false → ¬ (persp = .client ∧ sentFirstPacket = false) →
        Close.routingOf persp sentFirstPacket ce = .sendAndReplace (Close.ccFrameOf (Close.classify ce).cause)) := by
  have P := Uquic.Props.C17.peer_informed_iff_due persp sentFirstPacket ce
  refine ⟨?_, ?_, ?_⟩
  · intro hr
    have := P.2.2 hr
    cases hro : Close.routingOf persp sentFirstPacket ce <;> simp [hro, Close.standInOf] at this ⊢
  · intro hr hi
    have hn : ¬ ((Close.routingOf persp sentFirstPacket ce).sent.isSome = true) := by
      rw [P.1]
      rintro ⟨_, h2, h3⟩
      rcases hi with hi | hi
      · rw [hi] at h2; cases h2
      · exact h3 hi
    unfold Close.routingOf at hn ⊢
    simp only [hr] at hn ⊢
    cases hi2 : ce.immediate <;> cases persp <;> cases sentFirstPacket <;> simp_all [Close.Routing.sent]
  · intro hr hi hc
    have hs := P.1.mpr ⟨hr, hi, hc⟩
    have := (P.2.1 hs).1
    cases hro : Close.routingOf persp sentFirstPacket ce <;> simp [hro, Close.Routing.sent] at this ⊢
    exact this

/-- **routing_released.** For every history of the connection (generator and manager calls interleaved in any way), every
    close cause `ce`, either perspective, and whatever the packer asks of the manager while the CONNECTION_CLOSE is
    packed (`during`): run the effects of the tail of `Conn.run` in program order. Then

    (tokens) no stateless reset token of the connection is registered any more — at once, on every close path;
    (removeAll) on the `RemoveAll` path the handler map holds no entry of the connection at once;
    (standin) on both `ReplaceWithClosed` paths every connection ID the generator answered for maps to the closed
      stand-in C17 predicts for the cause (`closedRemoteConn` for a remote close, a `closedLocalConn` with a fresh
      counter when a CONNECTION_CLOSE was sent), no packet reaches any live connection through the map, and exactly
      one expiry timer is pending, for exactly these IDs, at `now + expiry`;
    (released) on every path, once `expiry` (3·PTO) has passed: no handler entry, no timer, no token remains. -/
theorem routing_released (mk : Nat → Bytes) (idLen : Nat) (initial : Bytes) (cd : Option Bytes) (hne : cd ≠ some initial)
    (hf : FreshGen mk (initial :: cd.toList)) (dest : Bytes) (ops : List SOp)
    (hv : SysValid mk (ConnSys.init idLen initial cd dest) ops)
    (env : Close.Env) (ce : Close.CloseError) (expiry : Int) (during : List Op)
    (hd : ValidRun ((ConnSys.init idLen initial cd dest).run mk ops).m during) :
    let s := (ConnSys.init idLen initial cd dest).run mk ops
    let path := Close.routingOf env.persp env.sentFirstPacket ce
    let s' := closeConn mk expiry during s (Close.runTail env ce)
    s'.r.tokens = [] ∧
    (path = .removeAll → s'.r.handlers = [] ∧ s'.r.timers = []) ∧
    (∀ st, Close.standInOf path = some st →
        (∀ id ∈ s.g.allIDs, lookupH id s'.r.handlers = some (handlerOf s.r st)) ∧
        (∀ id c, (s'.r.deliver id).2 ≠ Delivery.conn c) ∧
        s'.r.timers = [(s.r.now + expiry, s.g.allIDs, handlerOf s.r st)]) ∧
    (∀ d, expiry ≤ d →
        (s'.r.advance d).handlers = [] ∧ (s'.r.advance d).timers = [] ∧ (s'.r.advance d).tokens = []) := by
  intro s path s'
  have hs : SInv mk (initial :: cd.toList) s := run_sinv hf (init_sinv mk idLen initial cd hne dest) hv
  have hr : s'.r = { (routingCalls s.g expiry path).foldl Routing.applyG (beforeRouting mk during s path).r with tokens := [] } := by
    simp only [s', closeConn_runTail]
    exact close_result hf hs expiry during hd path
  have h1 : SInv mk (initial :: cd.toList) (beforeRouting mk during s path) := beforeRouting_sinv hf hs during hd path
  have hg : (beforeRouting mk during s path).g = s.g := beforeRouting_g during s path
  have hc : (beforeRouting mk during s path).r.counters = s.r.counters := beforeRouting_counters during s path
  have hnow : (beforeRouting mk during s path).r.now = s.r.now := by
    cases path with
    | replaceRemote => rfl
    | removeAll => rfl
    | sendAndReplace f => simp only [beforeRouting]; rw [runMgr_r]
  have R := h1.rinv
  rw [hg] at R
  generalize beforeRouting mk during s path = s1 at hr h1 hc hnow R
  clear_value s' path
  refine ⟨by rw [hr], ?_, ?_, ?_⟩
  · intro hp
    rw [hr, hp]
    simp only [routingCalls]
    refine ⟨removeAll_clean R, ?_⟩
    have := (removeMany_ok s.g.allIDs R.map).1.noTimers
    simpa [Generator.removeAll] using this
  · intro st hst
    -- which of the two replace paths
    have hcalls : routingCalls s.g expiry path = s.g.replaceWithClosed (localStandIn path) expiry ∧
        handlerOf s.r st = closedHandler s1.r (localStandIn path) := by
      cases path with
      | replaceRemote =>
        simp only [Close.standInOf, Option.some.injEq] at hst; subst hst
        exact ⟨rfl, by simp [handlerOf, closedHandler, localStandIn]⟩
      | removeAll => simp [Close.standInOf] at hst
      | sendAndReplace f =>
        simp only [Close.standInOf, Option.some.injEq] at hst; subst hst
        exact ⟨rfl, by simp [handlerOf, closedHandler, localStandIn, hc]⟩
    have C := replace_clean R (localStandIn path) expiry
    simp only at C
    rw [hr, hcalls.1, hcalls.2]
    refine ⟨C.1, ?_, ?_⟩
    · intro id c
      rw [deliver_with_tokens]
      exact C.2.2.1 id c
    · simp [Generator.replaceWithClosed, Routing.applyG, Routing.replaceWithClosed, R.map.noTimers, closedHandler, hnow]
  · intro d hd
    rw [hr, advance_with_tokens]
    simp only
    cases hp : path with
    | removeAll =>
      simp only [routingCalls]
      have hh := removeAll_clean R
      have ht : ((s.g.removeAll).foldl Routing.applyG s1.r).timers = [] := by
        have := (removeMany_ok s.g.allIDs R.map).1.noTimers
        simpa [Generator.removeAll] using this
      simp [Routing.advance, hh, ht]
    | replaceRemote =>
      have C := (replace_clean R false expiry).2.2.2 d hd
      exact ⟨C.1, C.2, trivial⟩
    | sendAndReplace f =>
      have C := (replace_clean R true expiry).2.2.2 d hd
      exact ⟨C.1, C.2, trivial⟩

/-- The same for `handleCloseError` alone (the part of the tail of `run` that touches the routing state), together with
    the order C17 proves for it: the one routing effect comes before the manager's `Close`, which is last — so the tokens
    are still registered while the CONNECTION_CLOSE is packed. -/
theorem routing_released_handleCloseError (mk : Nat → Bytes) (expiry : Int) (during : List Op) (s : ConnSys)
    (env : Close.Env) (ce : Close.CloseError) :
    closeConn mk expiry during s (Close.handleCloseError env ce) = closeConn mk expiry during s (Close.runTail env ce) ∧
    (Close.handleCloseError env ce).getLast? = some .connIDManagerClose ∧
    ((Close.handleCloseError env ce).filter (fun e => match e with | .routing _ => true | _ => false)) =
      [.routing (Close.routingOf env.persp env.sentFirstPacket ce)] := by
  have O := Uquic.Props.C17.close_effects_order env ce
  exact ⟨by rw [closeConn_handleCloseError, closeConn_runTail], O.2.1, O.2.2⟩

/-- A second connection that registers one of the closed connection's IDs before the expiry (zero-length connection IDs:
    every dial on the transport uses the empty ID) keeps its entry — and only it — through the expiry, on both
    `ReplaceWithClosed` paths. -/
theorem routing_released_keeps_foreign (mk : Nat → Bytes) (idLen : Nat) (initial : Bytes) (cd : Option Bytes)
    (hne : cd ≠ some initial) (hf : FreshGen mk (initial :: cd.toList)) (dest : Bytes) (ops : List SOp)
    (hv : SysValid mk (ConnSys.init idLen initial cd dest) ops)
    (env : Close.Env) (ce : Close.CloseError) (expiry : Int) (during : List Op)
    (hd : ValidRun ((ConnSys.init idLen initial cd dest).run mk ops).m during)
    (hp : Close.routingOf env.persp env.sentFirstPacket ce ≠ .removeAll) (id : Bytes) (c : Nat) (d : Int) (hde : expiry ≤ d) :
    let s' := closeConn mk expiry during ((ConnSys.init idLen initial cd dest).run mk ops) (Close.runTail env ce)
    (∀ kv, kv ∈ ((s'.r.install id c).advance d).handlers ↔ kv = (id, Handler.conn c)) ∧
    (((s'.r.install id c).advance d).deliver id).2 = Delivery.conn c := by
  generalize hsdef : (ConnSys.init idLen initial cd dest).run mk ops = s at hd ⊢
  intro s'
  have hs : SInv mk (initial :: cd.toList) s := by
    rw [← hsdef]; exact run_sinv hf (init_sinv mk idLen initial cd hne dest) hv
  have hr : s'.r = { (routingCalls s.g expiry (Close.routingOf env.persp env.sentFirstPacket ce)).foldl Routing.applyG
      (beforeRouting mk during s (Close.routingOf env.persp env.sentFirstPacket ce)).r with tokens := [] } := by
    simp only [s', closeConn_runTail]
    exact close_result hf hs expiry during hd _
  have h1 := beforeRouting_sinv hf hs during hd (Close.routingOf env.persp env.sentFirstPacket ce)
  have hg := beforeRouting_g (mk := mk) during s (Close.routingOf env.persp env.sentFirstPacket ce)
  have R := h1.rinv
  rw [hg] at R
  generalize Close.routingOf env.persp env.sentFirstPacket ce = path at hr hp R
  generalize beforeRouting mk during s path = s1 at hr R
  have hcalls : routingCalls s.g expiry path = s.g.replaceWithClosed (localStandIn path) expiry := by
    cases path with
    | replaceRemote => rfl
    | removeAll => exact absurd rfl hp
    | sendAndReplace f => rfl
  have K := expiry_keeps_foreign R (localStandIn path) expiry id c d hde
  simp only at K
  rw [hcalls] at hr
  have hi : s'.r.install id c =
      { ((s.g.replaceWithClosed (localStandIn path) expiry).foldl Routing.applyG s1.r).install id c with tokens := [] } := by
    rw [hr]; rfl
  rw [hi, advance_with_tokens, deliver_with_tokens]
  exact K

/-- Between close and expiry, packets for the closed connection's IDs arriving one after the other: on the path that sent
    a CONNECTION_CLOSE the transport's stand-in (C16's model: a packet counter, answer when `n &&& (n-1) = 0`) retransmits
    it on exactly the packets C17's model of closed_conn.go (`bits.OnesCount32(n) == 1`) says — the 1st, 2nd, 4th, 8th …;
    on the remote-close path every packet is absorbed. -/
theorem standin_backoff_agrees (mk : Nat → Bytes) (idLen : Nat) (initial : Bytes) (cd : Option Bytes) (hne : cd ≠ some initial)
    (hf : FreshGen mk (initial :: cd.toList)) (dest : Bytes) (ops : List SOp)
    (hv : SysValid mk (ConnSys.init idLen initial cd dest) ops)
    (env : Close.Env) (ce : Close.CloseError) (expiry : Int) (during : List Op)
    (hd : ValidRun ((ConnSys.init idLen initial cd dest).run mk ops).m during)
    (pkts : List Bytes) (hp : ∀ id ∈ pkts, id ∈ ((ConnSys.init idLen initial cd dest).run mk ops).g.allIDs)
    (hn : pkts.length < 4294967296) :
    let s' := closeConn mk expiry during ((ConnSys.init idLen initial cd dest).run mk ops) (Close.runTail env ce)
    (∀ f, Close.routingOf env.persp env.sentFirstPacket ce = .sendAndReplace f →
        (deliverAll s'.r pkts).2 = (List.range pkts.length).map fun i => Delivery.closedLocal (standInAnswer i)) ∧
    (Close.routingOf env.persp env.sentFirstPacket ce = .replaceRemote →
        (deliverAll s'.r pkts).2 = pkts.map fun _ => Delivery.closedRemote) := by
  generalize hsdef : (ConnSys.init idLen initial cd dest).run mk ops = s at hd hp ⊢
  intro s'
  have hs : SInv mk (initial :: cd.toList) s := by
    rw [← hsdef]; exact run_sinv hf (init_sinv mk idLen initial cd hne dest) hv
  have hr : s'.r = { (routingCalls s.g expiry (Close.routingOf env.persp env.sentFirstPacket ce)).foldl Routing.applyG
      (beforeRouting mk during s (Close.routingOf env.persp env.sentFirstPacket ce)).r with tokens := [] } := by
    simp only [s', closeConn_runTail]
    exact close_result hf hs expiry during hd _
  have h1 := beforeRouting_sinv hf hs during hd (Close.routingOf env.persp env.sentFirstPacket ce)
  have hg := beforeRouting_g (mk := mk) during s (Close.routingOf env.persp env.sentFirstPacket ce)
  have R := h1.rinv
  rw [hg] at R
  generalize Close.routingOf env.persp env.sentFirstPacket ce = path at hr R
  generalize beforeRouting mk during s path = s1 at hr R
  clear_value s'
  refine ⟨?_, ?_⟩
  · intro f hpath
    subst hpath
    have C := (replace_clean R true expiry).1
    rw [hr, deliverAll_with_tokens]
    simp only [routingCalls]
    rw [deliverAll_local s1.r.counters.length pkts _ 0 (fun id hid => by simpa [closedHandler] using C id (hp id hid))
      (by simp [Generator.replaceWithClosed, Routing.applyG, Routing.replaceWithClosed])
      (by simp [Generator.replaceWithClosed, Routing.applyG, Routing.replaceWithClosed, List.getD_eq_getElem?_getD])]
    apply List.map_congr_left
    intro i hi
    have : i < pkts.length := List.mem_range.mp hi
    rw [standInAnswer_eq i (by omega)]
    simp
  · intro hpath
    subst hpath
    have C := (replace_clean R false expiry).1
    rw [hr, deliverAll_with_tokens]
    simp only [routingCalls]
    exact deliverAll_remote pkts _ (fun id hid => by simpa [closedHandler] using C id (hp id hid))

/-! ## the hypotheses are satisfiable by non-trivial histories; the three paths all occur -/

/-- a server connection: IDs issued, one retired, the peer's IDs arrive, a path is probed, the active ID rotates -/
def sampleOps : List SOp :=
  [.gen (.setMax 4), .mgr (.new 1 0 [21] [11] 0), .mgr (.new 2 0 [22] [12] 0), .gen (.retire 1 [7] 50), .mgr .hsDone,
   .gen (.hsDone 70), .mgr (.path 3), .mgr (.get 0)]

def sampleMk : Nat → Bytes := fun k => [100 + k]

example : FreshGen sampleMk ([1] :: (some [2]).toList) :=
  ⟨fun a b h => by simpa [sampleMk] using h, fun k => by simp [sampleMk]; omega⟩

example : SysValid sampleMk (ConnSys.init 4 [1] (some [2]) [9]) sampleOps := by
  simp [sampleOps, Proofs.CloseRouting.SysValid, OpValid]

/-- before the close: six connection IDs routed to the connection, two reset tokens registered -/
example :
    let s := (ConnSys.init 4 [1] (some [2]) [9]).run sampleMk sampleOps
    s.g.allIDs.length = 6 ∧ s.r.handlers.length = 6 ∧ s.r.tokens = [[11], [12]] := by decide

def appErr : Close.Err := { id := 1, asApp := some (7, false) }
def remoteErr : Close.Err := { id := 2, asTr := some (10, true) }
def env : Close.Env := { persp := .server, sentFirstPacket := true }

/-- local application close → CONNECTION_CLOSE + local stand-in; remote close → silent stand-in; destroy → RemoveAll -/
example :
    Close.routingOf .server true ⟨some appErr, false⟩ = .sendAndReplace { isApp := true, code := 7 } ∧
    Close.routingOf .server true ⟨some remoteErr, false⟩ = .replaceRemote ∧
    Close.routingOf .server true ⟨some appErr, true⟩ = .removeAll ∧
    Close.routingOf .client false ⟨some appErr, false⟩ = .removeAll := by decide

/-- the local close on the sample connection (the packer rotates the connection ID once more while packing): six
    stand-in entries, one timer, no token; after the expiry nothing -/
example :
    let s := (ConnSys.init 4 [1] (some [2]) [9]).run sampleMk sampleOps
    let s' := closeConn sampleMk 300 [.get 0] s (Close.runTail env ⟨some appErr, false⟩)
    s'.r.handlers.length = 6 ∧ (s'.r.handlers.all fun kv => kv.2 == Handler.closedLocal 0) = true ∧
    s'.r.timers.length = 1 ∧ s'.r.tokens = [] ∧ (s'.r.advance 300).handlers = [] ∧ s'.m.closed = true := by decide

example : ValidRun ((ConnSys.init 4 [1] (some [2]) [9]).run sampleMk sampleOps).m [.get 0] := by
  simp [ValidRun, OpValid]

/-- nine packets for three of the closed connection's IDs: CONNECTION_CLOSE goes out again on the 1st, 2nd, 4th, 8th -/
example :
    let s := (ConnSys.init 4 [1] (some [2]) [9]).run sampleMk sampleOps
    let s' := closeConn sampleMk 300 [.get 0] s (Close.runTail env ⟨some appErr, false⟩)
    (deliverAll s'.r [[1], [101], [2], [1], [1], [103], [100], [2], [1]]).2 =
      [true, true, false, true, false, false, false, true, false].map Delivery.closedLocal := by decide

end Uquic.Props.C17Compose
