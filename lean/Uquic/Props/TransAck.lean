/-
Tie theorems, loss-recovery timer arithmetic (property C06): `State.getScaledPTO` of Uquic/Model/Ack/Sent.lean
EQUALS the definition regenerated from internal/ackhandler/sent_packet_handler.go (`getScaledPTO`) by the
source-to-Lean translator (gofacts/trans.go → Uquic.Generated.TransAck), which itself calls the translation of
`utils.RTTStats.PTO`; and properties proved DIRECTLY about the translated `RTTStats.PTO` (no model in between).

The model takes `rttStats.PTO(false/true)` as environment inputs `env.pto0/pto1`; the theorem assumes they are the
translated `RTTStats_PTO` of the same estimator fields.  Range hypotheses (Go: Duration int64, ptoCount uint32):
`0 ≤ PTO`, `ptoCount < 64` and `PTO · 2^ptoCount < 2^63` — the range in which the Go shift does not wrap; outside
it the Go code relies on the wrapped value being `≤ 0` or huge (the model keeps that wrap, `shl64`; the unbounded
translation cannot see it, so nothing is claimed there).
-/
import Uquic.Generated.TransAck
import Uquic.Model.Ack.Sent
import Uquic.Generated.Congestion
import Uquic.Proofs.TransLemmas

namespace Uquic.Props.TransAck
open Uquic.Proofs.Trans Uquic.Model.Sent
open Uquic.Gen.TransAck

/-- the translated `RTTStats.PTO` is at least the timer granularity for non-negative estimator fields … -/
theorem RTTStats_PTO_ge_granularity (inc hasM : Bool) (mad md srtt : Int) (h1 : 0 ≤ mad) (h2 : 0 ≤ srtt) :
    RTTStats_PTO inc hasM mad md srtt ≥ 1000000 := by
  unfold RTTStats_PTO; tie_arith

/-- … and including the peer's max_ack_delay never shortens it -/
theorem RTTStats_PTO_mono_ackdelay (hasM : Bool) (mad md srtt : Int) (h1 : 0 ≤ mad) :
    RTTStats_PTO false hasM mad md srtt ≤ RTTStats_PTO true hasM mad md srtt := by
  unfold RTTStats_PTO; tie_arith

/-- before the first sample it is twice the default initial RTT (regenerated constant) -/
theorem RTTStats_PTO_initial (inc : Bool) (mad md srtt : Int) :
    RTTStats_PTO inc false mad md srtt = 2 * Uquic.Gen.Congestion.DefaultInitialRTT := by
  unfold RTTStats_PTO Uquic.Gen.Congestion.DefaultInitialRTT; tie_arith

theorem sentPacketHandler_getScaledPTO_model_is_source (s : State) (env : Env) (inc hasM : Bool) (mad md srtt : Int)
    (e0 : env.pto0 = RTTStats_PTO false hasM mad md srtt) (e1 : env.pto1 = RTTStats_PTO true hasM mad md srtt)
    (hk : s.ptoCount < 64)
    (h0 : 0 ≤ RTTStats_PTO inc hasM mad md srtt)
    (hw : RTTStats_PTO inc hasM mad md srtt * 2 ^ s.ptoCount < 2 ^ 63) :
    s.getScaledPTO env inc = sentPacketHandler_getScaledPTO inc s.ptoCount hasM mad md srtt := by
  unfold State.getScaledPTO sentPacketHandler_getScaledPTO shl64 wrap64 Uquic.Trans.shl
  have c : maxPTODuration = 60000000000 := by decide
  rw [c, Int.toNat_natCast]
  have hp : (if inc = true then env.pto1 else env.pto0) = RTTStats_PTO inc hasM mad md srtt := by
    cases inc <;> simp [e0, e1]
  rw [hp]
  generalize RTTStats_PTO inc hasM mad md srtt = P at *
  have hc : ((2 ^ s.ptoCount : Nat) : Int) = (2 : Int) ^ s.ptoCount := by push_cast; rfl
  rw [hc]
  have hpos : (0 : Int) < 2 ^ s.ptoCount := Int.pow_pos (by decide)
  have hnn : 0 ≤ P * 2 ^ s.ptoCount := Int.mul_nonneg h0 (Int.le_of_lt hpos)
  generalize P * 2 ^ s.ptoCount = X at *
  have hk' : ¬ s.ptoCount ≥ 64 := by omega
  simp only [hk', if_false]
  tie_arith

example : sentPacketHandler_getScaledPTO true 2 true 25000000 10000000 100000000 = 660000000 := by decide

end Uquic.Props.TransAck
