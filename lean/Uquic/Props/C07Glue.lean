/-
Property C07 — the glue in connection.go around the received-packet handler
(model `Uquic.Model.AckGlue`, tied to the Go code by the `ackglue` driver on a real client `Conn`).

* registration: every packet of a (coalesced) datagram is registered with the sent-packet handler with the largest
  acked of ITS OWN ACK frame (InvalidPacketNumber if it carries none), so the forget threshold handed to
  `receivedPacketHandler.IgnorePacketsBelow` comes only from ACK frames sent in the application-data space;
* timer: whenever the received-packet handler's ACK alarm is set, `Conn.maybeResetTimer` arms the connection timer
  no later than that alarm under every blocking mode in which a packet can be written at all (not blocked,
  congestion limited); composed with `Uquic.Props.C07.ack_timely`: every pending ack-eliciting 1-RTT packet has an
  ACK queued or the connection timer fires no later than max_ack_delay after its arrival.
-/
import Uquic.Model.Ack.Glue
import Uquic.Props.C07

namespace Uquic.Props.C07Glue
open Uquic.Model.Rcv Uquic.Model.AckGlue Uquic.Proofs.Rcv

/-! ### registration -/

/-- every long header packet is registered exactly once, in its own space, with its own ACK's largest acked -/
theorem registered_long (long : List LongPart) (short : Option ShortPart) (p : LongPart) (hp : p ∈ long) :
    { lvl := p.lvl, pn := p.pn, largestAcked := largestAckedOf p.ack } ∈ sendPackedCoalesced long short := by
  unfold sendPackedCoalesced
  exact List.mem_append_left _ (List.mem_map.mpr ⟨p, hp, rfl⟩)

/-- 1. `registered_largest_acked_is_own_ack`: whatever else is coalesced into the datagram, every registration made by
    `sendPackedCoalescedPacket` stems from one packet of the datagram, in that packet's number space, and carries
    `InvalidPacketNumber` if that packet has no ACK frame and otherwise the largest acked of that packet's own frame. -/
theorem registered_largest_acked_is_own_ack (long : List LongPart) (short : Option ShortPart) (r : Reg)
    (hr : r ∈ sendPackedCoalesced long short) :
    (∃ p ∈ long, r.lvl = p.lvl ∧ r.pn = p.pn ∧
        ((p.ack = none ∧ r.largestAcked = invalidPN) ∨ (∃ la, p.ack = some la ∧ r.largestAcked = la))) ∨
    (∃ p, short = some p ∧ r.lvl = .oneRTT ∧ r.pn = p.pn ∧
        ((p.ack = none ∧ r.largestAcked = invalidPN) ∨ (∃ la, p.ack = some la ∧ r.largestAcked = la))) := by
  unfold sendPackedCoalesced at hr
  rcases List.mem_append.mp hr with h | h
  · left
    obtain ⟨p, hp, rfl⟩ := List.mem_map.mp h
    refine ⟨p, hp, rfl, rfl, ?_⟩
    cases hpa : p.ack with
    | none => left; simp [regLong, largestAckedOf, hpa]
    | some la => right; exact ⟨la, rfl, by simp [regLong, largestAckedOf, hpa]⟩
  · right
    cases short with
    | none => simp at h
    | some p =>
      simp only [List.mem_singleton] at h
      subst h
      refine ⟨p, rfl, rfl, rfl, ?_⟩
      cases hpa : p.ack with
      | none => left; simp [regShort, largestAckedOf, hpa]
      | some la => right; exact ⟨la, rfl, by simp [regShort, largestAckedOf, hpa]⟩

/-- the registrations are exactly one per packet, in order -/
theorem registered_count (long : List LongPart) (short : Option ShortPart) :
    (sendPackedCoalesced long short).length = long.length + (if short.isSome then 1 else 0) := by
  unfold sendPackedCoalesced
  cases short <;> simp

/-- a packet without an ACK frame is registered with `InvalidPacketNumber`, whatever precedes it in the datagram
    (the seeded defect C07-r2s1 registered it with the preceding packet's largest acked) -/
theorem short_without_ack_registered_invalid (long : List LongPart) (p : ShortPart) (hp : p.ack = none) :
    (sendPackedCoalesced long (some p)).getLast? = some { lvl := .oneRTT, pn := p.pn, largestAcked := invalidPN } := by
  unfold sendPackedCoalesced
  simp [regShort, largestAckedOf, hp]

/-- 2. `forget_threshold_from_own_space`: every threshold handed to `IgnorePacketsBelow` when packets of a datagram are
    acknowledged is `largest acked + 1` of the ACK frame carried by the datagram's 1-RTT packet; ACK frames of
    Initial/Handshake packets never move the application-data threshold. -/
theorem forget_threshold_from_own_space (long : List LongPart) (short : Option ShortPart)
    (hlong : ∀ p ∈ long, p.lvl ≠ .oneRTT) (acked : List Reg)
    (hsub : ∀ r ∈ acked, r ∈ sendPackedCoalesced long short) (v : Int) (hv : v ∈ forgetCalls acked) :
    ∃ p la, short = some p ∧ p.ack = some la ∧ v = la + 1 := by
  unfold forgetCalls at hv
  obtain ⟨r, hr, hc⟩ := List.mem_filterMap.mp hv
  split at hc
  next hcond =>
    injection hc with hc
    rcases registered_largest_acked_is_own_ack long short r (hsub r hr) with ⟨p, hp, hl, _, _⟩ | ⟨p, hs, _, _, ha⟩
    · exact absurd (hl ▸ hcond.2) (hlong p hp)
    · rcases ha with ⟨_, hinv⟩ | ⟨la, hla, hrl⟩
      · exact absurd hinv hcond.1
      · exact ⟨p, la, hs, hla, by omega⟩
  next => cases hc

/-- no 1-RTT ACK in the datagram → acknowledging its packets forgets nothing -/
theorem no_app_ack_no_forget (long : List LongPart) (short : Option ShortPart)
    (hlong : ∀ p ∈ long, p.lvl ≠ .oneRTT) (hshort : ∀ p, short = some p → p.ack = none) (acked : List Reg)
    (hsub : ∀ r ∈ acked, r ∈ sendPackedCoalesced long short) : forgetCalls acked = [] := by
  cases h : forgetCalls acked with
  | nil => rfl
  | cons v vs =>
    obtain ⟨p, la, hs, hla, _⟩ := forget_threshold_from_own_space long short hlong acked hsub v (by simp [h])
    rw [hshort p hs] at hla
    cases hla

/-- `registerPackedShortHeaderPacket`: own ACK, except path probes (registered without a largest acked) -/
theorem register_short_own_ack (p : ShortPart) (probe : Bool) :
    (registerShort p probe).lvl = .oneRTT ∧ (registerShort p probe).pn = p.pn ∧
    (registerShort p probe).largestAcked = (if probe then invalidPN else largestAckedOf p.ack) := by
  unfold registerShort
  cases probe <;> simp [regShort]

example : sendPackedCoalesced [{ lvl := .handshake, pn := 2, ack := some 5 }] (some { pn := 0, ack := none }) =
    [{ lvl := .handshake, pn := 2, largestAcked := 5 }, { lvl := .oneRTT, pn := 0, largestAcked := -1 }] := by decide

/-! ### the connection timer -/

theorem fold_le_left (d t : Int) : fold d t ≤ d := by
  unfold fold; split <;> omega

theorem fold_le_right (d t : Int) (ht : t ≠ 0) : fold d t ≤ t := by
  unfold fold; split <;> omega

/-- 3. `ack_alarm_always_armed`: whenever the received-packet handler's ACK alarm is set, the deadline the connection
    timer is armed with is not later than it — when not blocked AND when congestion limited (an ACK-only packet is
    not subject to congestion control).  Hard-blocked (send queue full) is excluded: no packet at all can be written,
    the run loop is woken by the send queue becoming available and then recomputes the timer (see `hard_blocked`). -/
theorem ack_alarm_always_armed (i : TimerIn) (hb : i.blocked ≠ .hardBlocked) (ha : i.ackAlarm ≠ 0) :
    timerDeadline i ≤ i.ackAlarm := by
  unfold timerDeadline
  simp only [hb, if_false]
  have h1 := fold_le_right (baseDeadline i) i.ackAlarm ha
  have h2 := fold_le_left (fold (baseDeadline i) i.ackAlarm) i.lossTimeout
  split
  · omega
  · have h3 := fold_le_left (fold (fold (baseDeadline i) i.ackAlarm) i.lossTimeout) i.pacingDeadline
    omega

/-- the special case the seeded defect C07-r2s2 broke -/
theorem ack_alarm_armed_when_congestion_limited (i : TimerIn) (hb : i.blocked = .congestionLimited)
    (ha : i.ackAlarm ≠ 0) : timerDeadline i ≤ i.ackAlarm :=
  ack_alarm_always_armed i (by rw [hb]; decide) ha

/-- the loss-detection timeout is covered under the same modes -/
theorem loss_timeout_always_armed (i : TimerIn) (hb : i.blocked ≠ .hardBlocked) (hl : i.lossTimeout ≠ 0) :
    timerDeadline i ≤ i.lossTimeout := by
  unfold timerDeadline
  simp only [hb, if_false]
  have h2 := fold_le_right (fold (baseDeadline i) i.ackAlarm) i.lossTimeout hl
  split
  · omega
  · have h3 := fold_le_left (fold (fold (baseDeadline i) i.ackAlarm) i.lossTimeout) i.pacingDeadline
    omega

/-- the timer never waits beyond the handshake / keep-alive / idle deadline, in every mode -/
theorem deadline_le_base (i : TimerIn) : timerDeadline i ≤ baseDeadline i := by
  unfold timerDeadline
  simp only []
  have h1 := fold_le_left (baseDeadline i) i.ackAlarm
  have h2 := fold_le_left (fold (baseDeadline i) i.ackAlarm) i.lossTimeout
  have h3 := fold_le_left (fold (fold (baseDeadline i) i.ackAlarm) i.lossTimeout) i.pacingDeadline
  split
  · omega
  · split <;> omega

/-- hard-blocked: only the base deadline (documented exception of `ack_alarm_always_armed`) -/
theorem hard_blocked (i : TimerIn) (hb : i.blocked = .hardBlocked) : timerDeadline i = baseDeadline i := by
  unfold timerDeadline; simp [hb]

/-- …and the exception is real: the statement of `ack_alarm_always_armed` fails when hard-blocked -/
theorem hard_blocked_witness :
    ∃ i : TimerIn, i.blocked = .hardBlocked ∧ i.ackAlarm ≠ 0 ∧ ¬ timerDeadline i ≤ i.ackAlarm :=
  ⟨{ blocked := .hardBlocked, ackAlarm := 25, idleTimeout := 30000, lastPacketReceivedTime := 1 }, rfl, by decide, by decide⟩

/-- the pacing deadline is folded in only when the connection is not blocked -/
theorem pacing_ignored_when_congestion_limited (i : TimerIn) (hb : i.blocked = .congestionLimited) (p : Int) :
    timerDeadline { i with pacingDeadline := p } = timerDeadline i := by
  unfold timerDeadline baseDeadline nextIdleTimeoutTime nextKeepAliveTime idleTimeoutStartTime
  simp [hb]

/-- the timer is armed exactly for the earliest due event when nothing is blocked -/
theorem unblocked_deadline_is_min (i : TimerIn) (hb : i.blocked = .none)
    (ha : i.ackAlarm ≠ 0) (hl : i.lossTimeout ≠ 0) (hp : i.pacingDeadline ≠ 0) :
    timerDeadline i = min (min (min (baseDeadline i) i.ackAlarm) i.lossTimeout) i.pacingDeadline := by
  unfold timerDeadline fold
  simp only [hb]
  simp only [ha, hl, hp, ne_eq, not_false_eq_true, true_and]
  split
  · contradiction
  · split
    · contradiction
    · repeat' split
      all_goals omega

/-- 4. `timer_covers_pending_ack` (composition with `Uquic.Props.C07.ack_timely`): for every history of the app-data
    tracker under the caller contract and every connection state whose ACK alarm is the tracker's, each accepted
    ack-eliciting packet not yet covered by a returned ACK has an ACK queued (the run loop sends it at once), or the
    connection timer fires no later than max_ack_delay after the packet's arrival — also while congestion limited. -/
theorem timer_covers_pending_ack (ops : List AOp) (hc : ContractAll {} ops) (i : TimerIn)
    (hb : i.blocked ≠ .hardBlocked) (hal : i.ackAlarm = (runT ops).a.ackAlarm) :
    ∀ x ∈ (runT ops).pend,
      (runT ops).a.ackQueued = true ∨ timerDeadline i ≤ x.2 + maxAckDelay := by
  intro x hx
  rcases Uquic.Props.C07.ack_timely ops hc x hx with h | ⟨h1, h2⟩
  · exact Or.inl h
  · right
    have := ack_alarm_always_armed i hb (by rw [hal]; exact h1)
    omega

def exampleCongestionLimited : TimerIn :=
  { blocked := .congestionLimited, ackAlarm := 1025, lossTimeout := 5000, lastPacketReceivedTime := 1000, idleTimeout := 30000, pacingDeadline := 1001 }
example : timerDeadline exampleCongestionLimited = 1025 := by decide

end Uquic.Props.C07Glue
