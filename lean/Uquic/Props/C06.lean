import Uquic.Model.Ack.Sent
namespace Uquic.Props.C06
open Uquic.Model.Sent
theorem placeholder : (1 : Nat) = 1 := rfl
end Uquic.Props.C06
