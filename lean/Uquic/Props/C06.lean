/-
Property C06 — loss recovery resolves every frame exactly once; accounts balanced.
Theorems over the model `Uquic.Model.Sent` (internal/ackhandler sent-packet handler).
-/
import Uquic.Proofs.SentLedger
import Uquic.Proofs.SentFlight

namespace Uquic.Props.C06
open Uquic.Model.Sent Uquic.Proofs.Sent List

/-- **ledger** (invariant form): for every history of operations with arbitrary environment inputs that does
    not end in a panic,  tracked-before ⊎ handed  =  tracked-after ⊎ reported ⊎ discarded  as multisets. -/
theorem ledger_run (ops : List (Op × StepEnv)) : ∀ (s : State), DummyOK s → (s.run ops).res.isPanic = false →
    (pending s ++ (s.run ops).handed ~ pending (s.run ops).s ++ evFrames (s.run ops).evs ++ (s.run ops).disc) ∧
      DummyOK (s.run ops).s := by
  induction ops with
  | nil => intro s d _; simp [State.run]; exact d
  | cons x xs ih =>
    intro s d hok
    obtain ⟨op, e⟩ := x
    simp only [State.run] at hok ⊢
    cases hr : (s.step op e).2.res with
    | ok =>
      simp only [hr] at hok ⊢
      obtain ⟨s1, s2⟩ := step_ledger d (by rw [hr]; rfl)
      obtain ⟨i1, i2⟩ := ih _ s2 hok
      refine ⟨?_, i2⟩
      simp only [evFrames_append] at i1 ⊢
      perm_solve [s1, i1]
    | err c =>
      simp only [hr] at hok ⊢
      exact step_ledger d (by rw [hr]; rfl)
    | panic c => simp [hr, Res.isPanic] at hok

theorem new_pending (pn : PN) (val client : Bool) (nts : PN) : pending (State.new pn val client nts) = [] := by
  simp [State.new, pending, spacePending, Space.new, Hist.pending]

theorem new_DummyOK (pn : PN) (val client : Bool) (nts : PN) : DummyOK (State.new pn val client nts) := by
  refine ⟨?_, ?_, ?_⟩ <;> intro p hp <;> simp [State.new, Space.new] at hp

/-- **ledger**: from a fresh handler, after any history without a panic, the frames handed over are exactly
    the frames still tracked, plus those reported (acked or lost), plus those discarded — as multisets. -/
theorem ledger (pn : PN) (val client : Bool) (nts : PN) (ops : List (Op × StepEnv))
    (hok : ((State.new pn val client nts).run ops).res.isPanic = false) :
    ((State.new pn val client nts).run ops).handed ~ pending ((State.new pn val client nts).run ops).s ++
      evFrames ((State.new pn val client nts).run ops).evs ++ ((State.new pn val client nts).run ops).disc := by
  have := (ledger_run ops _ (new_DummyOK pn val client nts) hok).1
  rw [new_pending] at this
  simpa using this

/-- each frame is reported at most once, and a reported frame is neither tracked any more nor discarded -/
theorem reported_at_most_once (pn : PN) (val client : Bool) (nts : PN) (ops : List (Op × StepEnv))
    (hok : ((State.new pn val client nts).run ops).res.isPanic = false) (hnd : ((State.new pn val client nts).run ops).handed.Nodup) :
    (evFrames ((State.new pn val client nts).run ops).evs).Nodup ∧
    ∀ f ∈ evFrames ((State.new pn val client nts).run ops).evs,
      f ∉ pending ((State.new pn val client nts).run ops).s ∧ f ∉ ((State.new pn val client nts).run ops).disc := by
  have h := ledger pn val client nts ops hok
  have nd := (h.nodup_iff).mp hnd
  rw [List.nodup_append] at nd
  obtain ⟨nd1, nd2, nd3⟩ := nd
  rw [List.nodup_append] at nd1
  obtain ⟨_, nd5, nd6⟩ := nd1
  refine ⟨nd5, ?_⟩
  intro f hf
  constructor
  · intro hp; exact nd6 f hp f hf rfl
  · intro hd; exact nd3 f (List.mem_append_right _ hf) f hd rfl

/-- a frame handed over that is neither tracked any more nor discarded (with its packet number space, by
    0-RTT rejection, or as a path probe dropped at migration) has been reported exactly once -/
theorem resolved_exactly_once (pn : PN) (val client : Bool) (nts : PN) (ops : List (Op × StepEnv))
    (hok : ((State.new pn val client nts).run ops).res.isPanic = false) (f : Frame)
    (hp : f ∉ pending ((State.new pn val client nts).run ops).s) (hd : f ∉ ((State.new pn val client nts).run ops).disc) :
    (evFrames ((State.new pn val client nts).run ops).evs).count f = ((State.new pn val client nts).run ops).handed.count f := by
  have h := (ledger pn val client nts ops hok).count_eq f
  simp only [List.count_append] at h
  rw [List.count_eq_zero_of_not_mem hp, List.count_eq_zero_of_not_mem hd] at h
  omega

/-! ### in_flight_balanced -/

/-- a history obeys the caller contract (`Valid`) at every operation that is executed -/
def ValidRun (s : State) : List (Op × StepEnv) → Prop
  | [] => True
  | (op, e) :: rest => Valid s op ∧ ((s.step op e).2.res = .ok → ValidRun (s.step op e).1 rest)

theorem new_FInv (pn : PN) (val client : Bool) (nts : PN) : FInv (State.new pn val client nts) := by
  refine ⟨⟨(Space.new_flight _ _ _).1, (Space.new_flight _ _ _).1, (Space.new_flight _ _ _).1⟩, ?_⟩
  simp [State.new, total, spaceFlight, (Space.new_flight _ _ _).2]

theorem flight_run (ops : List (Op × StepEnv)) : ∀ (s : State), FInv s → ValidRun s ops →
    ((s.run ops).res = .ok → FInv (s.run ops).s) ∧ Benign (s.run ops).res := by
  induction ops with
  | nil => intro s fi _; exact ⟨fun _ => fi, Benign_ok⟩
  | cons x xs ih =>
    intro s fi hv
    obtain ⟨op, e⟩ := x
    obtain ⟨v1, v2⟩ := hv
    obtain ⟨s1, s2⟩ := @step_flight s op e fi v1
    simp only [State.run]
    cases hr : (s.step op e).2.res with
    | ok => simp only []; exact ih _ (s1 hr) (v2 hr)
    | err c => simp only []; exact ⟨fun h => by simp at h, Benign_err c⟩
    | panic c => simp only []; rw [hr] at s2; exact ⟨fun h => by simp at h, s2⟩

/-- **in_flight_balanced**: after every history that obeys the caller contract and completed normally,
    `bytesInFlight` is exactly the total size of the tracked packets counted in flight (all of them
    ack-eliciting, none a path probe), it is not negative, and in every packet number space
    `numOutstanding` is exactly the number of outstanding packets. -/
theorem in_flight_balanced (pn : PN) (val client : Bool) (nts : PN) (ops : List (Op × StepEnv))
    (hv : ValidRun (State.new pn val client nts) ops) (hok : ((State.new pn val client nts).run ops).res = .ok) :
    let s := ((State.new pn val client nts).run ops).s
    s.bytesInFlight = spaceFlight s.initial + spaceFlight s.handshake + wsum flightOf s.app.hist.packets ∧
    0 ≤ s.bytesInFlight ∧
    (∀ sp, s.initial = some sp → sp.hist.numOutstanding = wsum outOf sp.hist.packets) ∧
    (∀ sp, s.handshake = some sp → sp.hist.numOutstanding = wsum outOf sp.hist.packets) ∧
    s.app.hist.numOutstanding = wsum outOf s.app.hist.packets := by
  have fi := (flight_run ops _ (new_FInv pn val client nts) hv).1 hok
  refine ⟨fi.2, by rw [fi.2]; exact total_nonneg fi.1, ?_, ?_, fi.1.app.count⟩
  · intro sp hsp; have := fi.1.ini; rw [hsp] at this; exact this.count
  · intro sp hsp; have := fi.1.hs; rw [hsp] at this; exact this.count

/-- the `panic("negative bytes_in_flight")`, `panic("negative number of outstanding packets")` and
    `panic("cleanup failed")` branches are unreachable in any history that obeys the caller contract -/
theorem accounting_panics_unreachable (pn : PN) (val client : Bool) (nts : PN) (ops : List (Op × StepEnv))
    (hv : ValidRun (State.new pn val client nts) ops) :
    ((State.new pn val client nts).run ops).res ≠ .panic .negativeBytesInFlight ∧
    ((State.new pn val client nts).run ops).res ≠ .panic .negativeOutstanding ∧
    ((State.new pn val client nts).run ops).res ≠ .panic .cleanupFailed :=
  (flight_run ops _ (new_FInv pn val client nts) hv).2

end Uquic.Props.C06
