/-
Property C06 — loss recovery resolves every frame exactly once; accounts balanced.
Theorems over the model `Uquic.Model.Sent` (internal/ackhandler sent-packet handler).
-/
import Uquic.Proofs.SentLedger

namespace Uquic.Props.C06
open Uquic.Model.Sent Uquic.Proofs.Sent List

/-- all frames handed to `SentPacket` during a history -/
def handedAll (ops : List (Op × StepEnv)) : List Frame := ops.flatMap fun x => handed x.1

/-- **ledger** (invariant form): for every history of operations with arbitrary environment inputs, as long
    as no operation panics,  tracked-before ⊎ handed  =  tracked-after ⊎ reported ⊎ discarded  as multisets. -/
theorem ledger_run (ops : List (Op × StepEnv)) : ∀ (s : State), DummyOK s → (s.run ops).ok = true →
    (pending s ++ handedAll ops ~ pending (s.run ops).s ++ evFrames (s.run ops).evs ++ (s.run ops).disc) ∧
      DummyOK (s.run ops).s := by
  induction ops with
  | nil => intro s d _; simp [State.run, handedAll]; exact d
  | cons x xs ih =>
    intro s d hok
    obtain ⟨op, e⟩ := x
    simp only [State.run] at hok ⊢
    by_cases hp : (s.step op e).2.res.isPanic = true
    · simp [hp] at hok
    · have hp' : (s.step op e).2.res.isPanic = false := by simpa using hp
      simp only [hp', Bool.false_eq_true, if_false] at hok ⊢
      obtain ⟨s1, s2⟩ := step_ledger d hp'
      obtain ⟨i1, i2⟩ := ih _ s2 hok
      refine ⟨?_, i2⟩
      simp only [handedAll, List.flatMap_cons, evFrames_append] at i1 ⊢
      perm_solve [s1, i1]

theorem new_pending (pn : PN) (val client : Bool) (nts : PN) : pending (State.new pn val client nts) = [] := by
  simp [State.new, pending, spacePending, Space.new, Hist.pending]

theorem new_DummyOK (pn : PN) (val client : Bool) (nts : PN) : DummyOK (State.new pn val client nts) := by
  refine ⟨?_, ?_, ?_⟩ <;> intro p hp <;> simp [State.new, Space.new] at hp

/-- **ledger**: from a fresh handler, after any history without a panic, the frames handed over are exactly
    the frames still tracked, plus those reported (acked or lost), plus those discarded — as multisets. -/
theorem ledger (pn : PN) (val client : Bool) (nts : PN) (ops : List (Op × StepEnv))
    (hok : ((State.new pn val client nts).run ops).ok = true) :
    handedAll ops ~ pending ((State.new pn val client nts).run ops).s ++
      evFrames ((State.new pn val client nts).run ops).evs ++ ((State.new pn val client nts).run ops).disc := by
  have := (ledger_run ops _ (new_DummyOK pn val client nts) hok).1
  rw [new_pending] at this
  simpa using this

/-- each frame is reported at most once, and a reported frame is neither tracked any more nor discarded -/
theorem reported_at_most_once (pn : PN) (val client : Bool) (nts : PN) (ops : List (Op × StepEnv))
    (hok : ((State.new pn val client nts).run ops).ok = true) (hnd : (handedAll ops).Nodup) :
    (evFrames ((State.new pn val client nts).run ops).evs).Nodup ∧
    ∀ f ∈ evFrames ((State.new pn val client nts).run ops).evs,
      f ∉ pending ((State.new pn val client nts).run ops).s ∧ f ∉ ((State.new pn val client nts).run ops).disc := by
  have h := ledger pn val client nts ops hok
  have nd := (h.nodup_iff).mp hnd
  rw [List.nodup_append] at nd
  obtain ⟨nd1, nd2, nd3⟩ := nd
  rw [List.nodup_append] at nd1
  obtain ⟨_, nd5, nd6⟩ := nd1
  refine ⟨nd5, ?_⟩
  intro f hf
  constructor
  · intro hp; exact nd6 f hp f hf rfl
  · intro hd; exact nd3 f (List.mem_append_right _ hf) f hd rfl

/-- a frame handed over that is neither tracked any more nor discarded (with its packet number space, by
    0-RTT rejection, or as a path probe dropped at migration) has been reported exactly once -/
theorem resolved_exactly_once (pn : PN) (val client : Bool) (nts : PN) (ops : List (Op × StepEnv))
    (hok : ((State.new pn val client nts).run ops).ok = true) (f : Frame)
    (hp : f ∉ pending ((State.new pn val client nts).run ops).s) (hd : f ∉ ((State.new pn val client nts).run ops).disc) :
    (evFrames ((State.new pn val client nts).run ops).evs).count f = (handedAll ops).count f := by
  have h := (ledger pn val client nts ops hok).count_eq f
  simp only [List.count_append] at h
  rw [List.count_eq_zero_of_not_mem hp, List.count_eq_zero_of_not_mem hd] at h
  omega

end Uquic.Props.C06
