/-
Property C06 — loss recovery resolves every frame exactly once; accounts balanced.
Theorems over the model `Uquic.Model.Sent` (internal/ackhandler sent-packet handler).
-/
import Uquic.Proofs.SentLedger

namespace Uquic.Props.C06
open Uquic.Model.Sent Uquic.Proofs.Sent List

/-- **ledger** (invariant form): for every history of operations with arbitrary environment inputs that does
    not end in a panic,  tracked-before ⊎ handed  =  tracked-after ⊎ reported ⊎ discarded  as multisets. -/
theorem ledger_run (ops : List (Op × StepEnv)) : ∀ (s : State), DummyOK s → (s.run ops).res.isPanic = false →
    (pending s ++ (s.run ops).handed ~ pending (s.run ops).s ++ evFrames (s.run ops).evs ++ (s.run ops).disc) ∧
      DummyOK (s.run ops).s := by
  induction ops with
  | nil => intro s d _; simp [State.run]; exact d
  | cons x xs ih =>
    intro s d hok
    obtain ⟨op, e⟩ := x
    simp only [State.run] at hok ⊢
    cases hr : (s.step op e).2.res with
    | ok =>
      simp only [hr] at hok ⊢
      obtain ⟨s1, s2⟩ := step_ledger d (by rw [hr]; rfl)
      obtain ⟨i1, i2⟩ := ih _ s2 hok
      refine ⟨?_, i2⟩
      simp only [evFrames_append] at i1 ⊢
      perm_solve [s1, i1]
    | err c =>
      simp only [hr] at hok ⊢
      exact step_ledger d (by rw [hr]; rfl)
    | panic c => simp [hr, Res.isPanic] at hok

theorem new_pending (pn : PN) (val client : Bool) (nts : PN) : pending (State.new pn val client nts) = [] := by
  simp [State.new, pending, spacePending, Space.new, Hist.pending]

theorem new_DummyOK (pn : PN) (val client : Bool) (nts : PN) : DummyOK (State.new pn val client nts) := by
  refine ⟨?_, ?_, ?_⟩ <;> intro p hp <;> simp [State.new, Space.new] at hp

/-- **ledger**: from a fresh handler, after any history without a panic, the frames handed over are exactly
    the frames still tracked, plus those reported (acked or lost), plus those discarded — as multisets. -/
theorem ledger (pn : PN) (val client : Bool) (nts : PN) (ops : List (Op × StepEnv))
    (hok : ((State.new pn val client nts).run ops).res.isPanic = false) :
    ((State.new pn val client nts).run ops).handed ~ pending ((State.new pn val client nts).run ops).s ++
      evFrames ((State.new pn val client nts).run ops).evs ++ ((State.new pn val client nts).run ops).disc := by
  have := (ledger_run ops _ (new_DummyOK pn val client nts) hok).1
  rw [new_pending] at this
  simpa using this

/-- each frame is reported at most once, and a reported frame is neither tracked any more nor discarded -/
theorem reported_at_most_once (pn : PN) (val client : Bool) (nts : PN) (ops : List (Op × StepEnv))
    (hok : ((State.new pn val client nts).run ops).res.isPanic = false) (hnd : ((State.new pn val client nts).run ops).handed.Nodup) :
    (evFrames ((State.new pn val client nts).run ops).evs).Nodup ∧
    ∀ f ∈ evFrames ((State.new pn val client nts).run ops).evs,
      f ∉ pending ((State.new pn val client nts).run ops).s ∧ f ∉ ((State.new pn val client nts).run ops).disc := by
  have h := ledger pn val client nts ops hok
  have nd := (h.nodup_iff).mp hnd
  rw [List.nodup_append] at nd
  obtain ⟨nd1, nd2, nd3⟩ := nd
  rw [List.nodup_append] at nd1
  obtain ⟨_, nd5, nd6⟩ := nd1
  refine ⟨nd5, ?_⟩
  intro f hf
  constructor
  · intro hp; exact nd6 f hp f hf rfl
  · intro hd; exact nd3 f (List.mem_append_right _ hf) f hd rfl

/-- a frame handed over that is neither tracked any more nor discarded (with its packet number space, by
    0-RTT rejection, or as a path probe dropped at migration) has been reported exactly once -/
theorem resolved_exactly_once (pn : PN) (val client : Bool) (nts : PN) (ops : List (Op × StepEnv))
    (hok : ((State.new pn val client nts).run ops).res.isPanic = false) (f : Frame)
    (hp : f ∉ pending ((State.new pn val client nts).run ops).s) (hd : f ∉ ((State.new pn val client nts).run ops).disc) :
    (evFrames ((State.new pn val client nts).run ops).evs).count f = ((State.new pn val client nts).run ops).handed.count f := by
  have h := (ledger pn val client nts ops hok).count_eq f
  simp only [List.count_append] at h
  rw [List.count_eq_zero_of_not_mem hp, List.count_eq_zero_of_not_mem hd] at h
  omega

end Uquic.Props.C06
