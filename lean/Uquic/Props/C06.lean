/-
Property C06 — loss recovery resolves every frame exactly once; accounts balanced.
Theorems over the model `Uquic.Model.Sent` (internal/ackhandler sent-packet handler).
-/
import Uquic.Proofs.SentLedger
import Uquic.Proofs.SentFlight
import Uquic.Proofs.SentAcked
import Uquic.Proofs.SentTimer
import Uquic.Proofs.SentSkipped
import Uquic.Proofs.SentDisc
import Uquic.Proofs.SentOverdue
import Uquic.Proofs.SentProbe
import Uquic.Proofs.SentAcksBin

namespace Uquic.Props.C06
open Uquic.Model.Sent Uquic.Proofs.Sent List

/-- **ledger** (invariant form): for every history of operations with arbitrary environment inputs that does
    not end in a panic,  tracked-before ⊎ handed  =  tracked-after ⊎ reported ⊎ discarded  as multisets. -/
theorem ledger_run (ops : List (Op × StepEnv)) : ∀ (s : State), DummyOK s → (s.run ops).res.isPanic = false →
    (pending s ++ (s.run ops).handed ~ pending (s.run ops).s ++ evFrames (s.run ops).evs ++ (s.run ops).disc) ∧
      DummyOK (s.run ops).s := by
  induction ops with
  | nil => intro s d _; simp [State.run]; exact d
  | cons x xs ih =>
    intro s d hok
    obtain ⟨op, e⟩ := x
    simp only [State.run] at hok ⊢
    cases hr : (s.step op e).2.res with
    | ok =>
      simp only [hr] at hok ⊢
      obtain ⟨s1, s2⟩ := step_ledger d (by rw [hr]; rfl)
      obtain ⟨i1, i2⟩ := ih _ s2 hok
      refine ⟨?_, i2⟩
      simp only [evFrames_append] at i1 ⊢
      perm_solve [s1, i1]
    | err c =>
      simp only [hr] at hok ⊢
      exact step_ledger d (by rw [hr]; rfl)
    | panic c => simp [hr, Res.isPanic] at hok

theorem new_pending (pn : PN) (val client : Bool) (nts : PN) : pending (State.new pn val client nts) = [] := by
  simp [State.new, pending, spacePending, Space.new, Hist.pending]

theorem new_DummyOK (pn : PN) (val client : Bool) (nts : PN) : DummyOK (State.new pn val client nts) := by
  refine ⟨?_, ?_, ?_⟩ <;> intro p hp <;> simp [State.new, Space.new] at hp

/-- **ledger**: from a fresh handler, after any history without a panic, the frames handed over are exactly
    the frames still tracked, plus those reported (acked or lost), plus those discarded — as multisets. -/
theorem ledger (pn : PN) (val client : Bool) (nts : PN) (ops : List (Op × StepEnv))
    (hok : ((State.new pn val client nts).run ops).res.isPanic = false) :
    ((State.new pn val client nts).run ops).handed ~ pending ((State.new pn val client nts).run ops).s ++
      evFrames ((State.new pn val client nts).run ops).evs ++ ((State.new pn val client nts).run ops).disc := by
  have := (ledger_run ops _ (new_DummyOK pn val client nts) hok).1
  rw [new_pending] at this
  simpa using this

/-- each frame is reported at most once, and a reported frame is neither tracked any more nor discarded -/
theorem reported_at_most_once (pn : PN) (val client : Bool) (nts : PN) (ops : List (Op × StepEnv))
    (hok : ((State.new pn val client nts).run ops).res.isPanic = false) (hnd : ((State.new pn val client nts).run ops).handed.Nodup) :
    (evFrames ((State.new pn val client nts).run ops).evs).Nodup ∧
    ∀ f ∈ evFrames ((State.new pn val client nts).run ops).evs,
      f ∉ pending ((State.new pn val client nts).run ops).s ∧ f ∉ ((State.new pn val client nts).run ops).disc := by
  have h := ledger pn val client nts ops hok
  have nd := (h.nodup_iff).mp hnd
  rw [List.nodup_append] at nd
  obtain ⟨nd1, nd2, nd3⟩ := nd
  rw [List.nodup_append] at nd1
  obtain ⟨_, nd5, nd6⟩ := nd1
  refine ⟨nd5, ?_⟩
  intro f hf
  constructor
  · intro hp; exact nd6 f hp f hf rfl
  · intro hd; exact nd3 f (List.mem_append_right _ hf) f hd rfl

/-- a frame handed over that is neither tracked any more nor discarded (with its packet number space, by
    0-RTT rejection, or as a path probe dropped at migration) has been reported exactly once -/
theorem resolved_exactly_once (pn : PN) (val client : Bool) (nts : PN) (ops : List (Op × StepEnv))
    (hok : ((State.new pn val client nts).run ops).res.isPanic = false) (f : Frame)
    (hp : f ∉ pending ((State.new pn val client nts).run ops).s) (hd : f ∉ ((State.new pn val client nts).run ops).disc) :
    (evFrames ((State.new pn val client nts).run ops).evs).count f = ((State.new pn val client nts).run ops).handed.count f := by
  have h := (ledger pn val client nts ops hok).count_eq f
  simp only [List.count_append] at h
  rw [List.count_eq_zero_of_not_mem hp, List.count_eq_zero_of_not_mem hd] at h
  omega

/-! ### in_flight_balanced -/

/-- a history obeys the caller contract (`Valid`) at every operation that is executed -/
def ValidRun (s : State) : List (Op × StepEnv) → Prop
  | [] => True
  | (op, e) :: rest => Valid s op ∧ ((s.step op e).2.res = .ok → ValidRun (s.step op e).1 rest)

theorem new_FInv (pn : PN) (val client : Bool) (nts : PN) : FInv (State.new pn val client nts) := by
  refine ⟨⟨(Space.new_flight _ _ _).1, (Space.new_flight _ _ _).1, (Space.new_flight _ _ _).1⟩, ?_⟩
  simp [State.new, total, spaceFlight, (Space.new_flight _ _ _).2]

theorem flight_run (ops : List (Op × StepEnv)) : ∀ (s : State), FInv s → ValidRun s ops →
    ((s.run ops).res = .ok → FInv (s.run ops).s) ∧ Benign (s.run ops).res := by
  induction ops with
  | nil => intro s fi _; exact ⟨fun _ => fi, Benign_ok⟩
  | cons x xs ih =>
    intro s fi hv
    obtain ⟨op, e⟩ := x
    obtain ⟨v1, v2⟩ := hv
    obtain ⟨s1, s2⟩ := @step_flight s op e fi v1
    simp only [State.run]
    cases hr : (s.step op e).2.res with
    | ok => simp only []; exact ih _ (s1 hr) (v2 hr)
    | err c => simp only []; exact ⟨fun h => by simp at h, Benign_err c⟩
    | panic c => simp only []; rw [hr] at s2; exact ⟨fun h => by simp at h, s2⟩

/-- **in_flight_balanced**: after every history that obeys the caller contract and completed normally,
    `bytesInFlight` is exactly the total size of the tracked packets counted in flight (all of them
    ack-eliciting, none a path probe), it is not negative, and in every packet number space
    `numOutstanding` is exactly the number of outstanding packets. -/
theorem in_flight_balanced (pn : PN) (val client : Bool) (nts : PN) (ops : List (Op × StepEnv))
    (hv : ValidRun (State.new pn val client nts) ops) (hok : ((State.new pn val client nts).run ops).res = .ok) :
    let s := ((State.new pn val client nts).run ops).s
    s.bytesInFlight = spaceFlight s.initial + spaceFlight s.handshake + wsum flightOf s.app.hist.packets ∧
    0 ≤ s.bytesInFlight ∧
    (∀ sp, s.initial = some sp → sp.hist.numOutstanding = wsum outOf sp.hist.packets) ∧
    (∀ sp, s.handshake = some sp → sp.hist.numOutstanding = wsum outOf sp.hist.packets) ∧
    s.app.hist.numOutstanding = wsum outOf s.app.hist.packets := by
  have fi := (flight_run ops _ (new_FInv pn val client nts) hv).1 hok
  refine ⟨fi.2, by rw [fi.2]; exact total_nonneg fi.1, ?_, ?_, fi.1.app.count⟩
  · intro sp hsp; have := fi.1.ini; rw [hsp] at this; exact this.count
  · intro sp hsp; have := fi.1.hs; rw [hsp] at this; exact this.count

/-- the `panic("negative bytes_in_flight")`, `panic("negative number of outstanding packets")` and
    `panic("cleanup failed")` branches are unreachable in any history that obeys the caller contract -/
theorem accounting_panics_unreachable (pn : PN) (val client : Bool) (nts : PN) (ops : List (Op × StepEnv))
    (hv : ValidRun (State.new pn val client nts) ops) :
    ((State.new pn val client nts).run ops).res ≠ .panic .negativeBytesInFlight ∧
    ((State.new pn val client nts).run ops).res ≠ .panic .negativeOutstanding ∧
    ((State.new pn val client nts).run ops).res ≠ .panic .cleanupFailed :=
  (flight_run ops _ (new_FInv pn val client nts) hv).2

/-! ### ack_of_unsent, ack_of_skipped -/

/-- **ack_of_unsent**: an ACK whose largest acknowledged number exceeds the largest packet number sent in
    that space is answered with PROTOCOL_VIOLATION; nothing changes and no callback is made. -/
theorem ack_of_unsent (s : State) (env : Env) (ranges : List Range) (lvl : Level) (now : Time) (sp : Space) (top : Range)
    (hg : s.getSpace lvl = some sp) (hh : ranges.head? = some top) (hgt : top.2 > sp.largestSent) :
    s.receivedAck env ranges lvl now = (s, { res := .err .ackUnsent }) := by
  have hl : ∃ bot, ranges.getLast? = some bot := by
    cases ranges with
    | nil => simp at hh
    | cons a as => exact ⟨(a :: as).getLast (by simp), List.getLast?_eq_some_getLast (by simp)⟩
  obtain ⟨bot, hl⟩ := hl
  unfold State.receivedAck
  simp only [hg, hh, hl, hgt, if_true]


/-- **acks_packet_binary_eq_linear**: for every ACK frame accepted by `wire.AckFrame.validateAckRanges` (every
    range non-empty, ranges strictly descending with a gap between them — `ValidRanges`), the binary search of
    `wire.AckFrame.AcksPacket` (`sort.Search`, modelled step for step with its iteration count as fuel:
    `acksPacketBin`, the function the handler model calls) answers exactly like the linear search "first range
    whose Smallest ≤ p" (`acksPacket`, the rendering the property statements use), for every packet number and
    bounds. -/
theorem acks_packet_binary_eq_linear (ranges : List Range) (hv : ValidRanges ranges) (lowest largest p : PN) :
    acksPacketBin ranges lowest largest p = acksPacket ranges lowest largest p :=
  acksPacketBin_eq_linear ranges hv lowest largest p

/-- `f.AckRanges[i]` in `AcksPacket` never indexes out of range, for EVERY list of ranges (validated or not):
    past the range check `p` is at least `LowestAcked()`, the Smallest of the last range, so `sort.Search`'s
    predicate holds at the last index and the search stops at or before it. -/
theorem acks_packet_index_in_range (ranges : List Range) (bot : Range) (hl : ranges.getLast? = some bot) (p : PN)
    (hp : ¬ p < bot.1) : sortSearch ranges.length (geSmallest ranges p) < ranges.length :=
  acksPacketBin_index_in_range ranges bot hl p hp

/-- the hypothesis of `acks_packet_binary_eq_linear` is satisfiable by a frame with missing ranges, and the
    search is not trivial on it: 7 lies in the middle range, 5 in a gap -/
example : ValidRanges [(10, 12), (7, 8), (1, 3)] ∧ acksPacketBin [(10, 12), (7, 8), (1, 3)] 1 12 7 = true ∧
    acksPacketBin [(10, 12), (7, 8), (1, 3)] 1 12 5 = false := by
  refine ⟨⟨by decide, by decide⟩, by decide, by decide⟩

/-- does the ACK with these ranges (wire order) acknowledge packet number `p` -/
def acks (ranges : List Range) (p : PN) : Bool :=
  match ranges.head?, ranges.getLast? with
  | some top, some bot => acksPacket ranges bot.1 top.2 p
  | _, _ => false

/-- **ack_of_skipped** (full statement): after any history without a Retry, an ACK (accepted by
    `validateAckRanges`) in the application-data space that covers *any* packet number that was deliberately skipped during that history (and stays
    within the numbers sent) is answered with PROTOCOL_VIOLATION.
    FALSE on the unchanged tree — see `ack_of_skipped_witness`; `ack_of_skipped_partial` is what holds. -/
def ack_of_skipped : Prop :=
  ∀ (pn : PN) (val client : Bool) (nts : PN) (ops : List (Op × StepEnv)) (env : Env) (now : Time) (ranges : List Range) (p : PN),
    (ops.all fun x => !Op.isRetry x.1) = true →
    ((State.new pn val client nts).run ops).res = .ok →
    p ∈ ((State.new pn val client nts).run ops).skipped →
    ValidRanges ranges → acks ranges p = true →
    (∀ top, ranges.head? = some top → top.2 ≤ ((State.new pn val client nts).run ops).s.app.largestSent) →
    (((State.new pn val client nts).run ops).s.receivedAck env ranges .oneRTT now).2.res = .err .ackSkipped

/-- **ack_of_skipped_partial**: an ACK (accepted by `validateAckRanges`) in the application-data space that covers one of the skipped packet
    numbers the history still *remembers* (the last `maxSkippedPackets`) is answered with
    PROTOCOL_VIOLATION and no callback is made; tracked frames and `bytesInFlight` are untouched. -/
theorem ack_of_skipped_partial (s : State) (env : Env) (ranges : List Range) (now : Time) (p : PN)
    (hb : s.ackedBuf = 0) (hp : p ∈ s.app.hist.skipped) (hv : ValidRanges ranges) (ha : acks ranges p = true)
    (hle : ∀ top, ranges.head? = some top → top.2 ≤ s.app.largestSent) :
    (s.receivedAck env ranges .oneRTT now).2.res = .err .ackSkipped ∧ (s.receivedAck env ranges .oneRTT now).2.evs = [] ∧
    pending (s.receivedAck env ranges .oneRTT now).1 = pending s ∧
    (s.receivedAck env ranges .oneRTT now).1.bytesInFlight = s.bytesInFlight := by
  unfold acks at ha
  cases hh : ranges.head? with
  | none => simp [hh] at ha
  | some top =>
    cases hl : ranges.getLast? with
    | none => simp [hh, hl] at ha
    | some bot =>
      simp only [hh, hl] at ha
      have hle' := hle top hh
      unfold State.receivedAck
      simp only [State.getSpace, hh, hl]
      rw [if_neg (by omega)]
      obtain ⟨e1, e2, e3, e4, e5⟩ := completeValidation_spec s env .oneRTT now
      generalize s.completeValidation env .oneRTT now = s1 at e1 e2 e3 e4 e5 ⊢
      unfold State.ackCore
      rw [if_neg (by omega)]
      have hany : s.app.hist.skipped.any (acksPacketBin ranges bot.1 top.2) = true :=
        List.any_eq_true.mpr ⟨p, hp, by rw [acksPacketBin_eq_linear ranges hv]; exact ha⟩
      simp only [hany, and_self, if_true]
      exact ⟨trivial, trivial, pending_eq e1 e2 e3, e4⟩

/-- environment of the witness: RTT 100 ms, PTO 200 / 225 ms, the generator's first skip far away -/
def wEnv : StepEnv := { env := { latestRTT := 100000000, smoothedRTT := 100000000, pto0 := 200000000, pto1 := 225000000 }, nts := 300 }

set_option maxRecDepth 100000 in
/-- the hypotheses of `ack_of_unsent` are satisfiable: a fresh client, one Initial packet sent (number 0),
    an ACK for packet 5 -/
example : ((State.new 0 false true 300).run [(.send .initial 1000 (-1) 100 false false [⟨1, true⟩] [], wEnv),
    (.ack .initial 2000 [(5, 5)], wEnv)]).res = .err .ackUnsent := by decide

/-- the witness history: handshake confirmed, one packet sent, then six PTOs each followed by a probe packet -/
def wOps : List (Op × StepEnv) :=
  [(.drop .initial 1000, wEnv), (.drop .handshake 1000, wEnv),
   (.send .oneRTT 1000 (-1) 100 false false [⟨1, true⟩] [], wEnv),
   (.timeout 2000, wEnv), (.send .oneRTT 2001 (-1) 100 false false [⟨2, true⟩] [], wEnv),
   (.timeout 3000, wEnv), (.send .oneRTT 3001 (-1) 100 false false [⟨3, true⟩] [], wEnv),
   (.timeout 4000, wEnv), (.send .oneRTT 4001 (-1) 100 false false [⟨4, true⟩] [], wEnv),
   (.timeout 5000, wEnv), (.send .oneRTT 5001 (-1) 100 false false [⟨5, true⟩] [], wEnv),
   (.timeout 6000, wEnv), (.send .oneRTT 6001 (-1) 100 false false [⟨6, true⟩] [], wEnv),
   (.timeout 7000, wEnv), (.send .oneRTT 7001 (-1) 100 false false [⟨7, true⟩] [], wEnv)]

set_option maxRecDepth 100000 in
/-- the six PTOs skipped 1, 3, 5, 7, 9, 11; only the last four are remembered -/
theorem witness_skipped : ((State.new 0 false true 300).run wOps).res = .ok ∧
    ((State.new 0 false true 300).run wOps).skipped = [1, 3, 5, 7, 9, 11] ∧
    ((State.new 0 false true 300).run wOps).s.app.hist.skipped = [5, 7, 9, 11] ∧
    ((State.new 0 false true 300).run wOps).s.app.largestSent = 12 := by decide

set_option maxRecDepth 100000 in
/-- … and an ACK for packets 0–1 (1 was skipped) is processed normally -/
theorem witness_ack : (((State.new 0 false true 300).run wOps).s.receivedAck wEnv.env [(0, 1)] .oneRTT 8000).2.res = .ok := by decide

/-- **ack_of_skipped_witness**: the full statement is false on the unchanged tree (known finding
    `ack-of-old-skipped-pn`) -/
theorem ack_of_skipped_witness : ¬ ack_of_skipped := by
  intro h
  have := h 0 false true 300 wOps wEnv.env 8000 [(0, 1)] 1 (by decide) witness_skipped.1
    (by rw [witness_skipped.2.1]; decide) ⟨by decide, by decide⟩ (by decide) (by intro top ht; simp at ht; subst ht; rw [witness_skipped.2.2.2]; decide)
  rw [witness_ack] at this
  exact absurd this (by decide)


/-! ### the state of the handler between operations -/

/-- everything the theorems below need about a state reached by a history: the accounting invariant, and
    `h.ackedPackets` is empty (it is only left non-empty by an aborted `ReceivedAck`) -/
def Reached (s : State) : Prop := FInv s ∧ s.ackedBuf = 0

theorem reached_new (pn : PN) (val client : Bool) (nts : PN) : Reached (State.new pn val client nts) :=
  ⟨new_FInv pn val client nts, rfl⟩

theorem reached_run (ops : List (Op × StepEnv)) : ∀ (s : State), Reached s → ValidRun s ops → (s.run ops).res = .ok →
    Reached (s.run ops).s := by
  induction ops with
  | nil => intro s r _ _; exact r
  | cons x xs ih =>
    intro s r hv hok
    obtain ⟨op, e⟩ := x
    obtain ⟨v1, v2⟩ := hv
    simp only [State.run] at hok ⊢
    cases hr : (s.step op e).2.res with
    | ok =>
      simp only [hr] at hok ⊢
      exact ih _ ⟨(step_flight r.1 v1).1 hr, by rw [step_ackedBuf hr]; exact r.2⟩ (v2 hr) hok
    | err c => simp [hr] at hok
    | panic c => simp [hr] at hok

/-- **acked_in_order_once**: in every reached state and for every ACK frame with at least one range,
    `detectAndRemoveAckedPackets` collects strictly ascending packet numbers, each of them tracked and covered
    by a range of the ACK, never takes the "BUG: ackhandler would have acked wrong packet" branch, and its
    removal loop reports exactly the collected numbers, each once (no "packet not found", no nil entry). -/
theorem acked_in_order_once (s : State) (hr : Reached s) (lvl : Level) (sp : Space) (hg : s.getSpace lvl = some sp)
    (ranges : List Range) (top bot : Range) (hh : ranges.head? = some top) (hl : ranges.getLast? = some bot) :
    ∃ probes stash acc,
      collect (decide (ranges.length > 1)) bot.1 top.2 sp.hist.first sp.hist.packets ranges.reverse sp.hist.probes [] [] =
        .done probes stash acc ∧
      List.Pairwise (· < ·) acc ∧
      (∀ q ∈ acc, (∃ p, sp.hist.lookup q = some p) ∧ ∃ r ∈ ranges, r.1 ≤ q ∧ q ≤ r.2) ∧
      (ackedLoop lvl acc { sp.hist with probes := probes } stash [] []).2.2.2.2 = .ok ∧
      (ackedLoop lvl acc { sp.hist with probes := probes } stash [] []).2.2.2.1.map Prod.fst = acc :=
  detectAndRemove_spec sp.hist (FOK_getSpace hr.1.1 hg) ranges top bot lvl hh hl

/-- **acked_complete**: for an ACK frame accepted by `validateAckRanges`, every tracked packet (other than
    the placeholder of a path probe) whose number is covered by one of its ranges is collected by
    `detectAndRemoveAckedPackets` — together with `acked_in_order_once`: each newly acknowledged tracked packet
    is returned exactly once, in ascending order. -/
theorem acked_complete (sp : Space) (ranges : List Range) (top bot : Range) (hh : ranges.head? = some top)
    (hl : ranges.getLast? = some bot) (hv : ValidRanges ranges) (q : PN) (p : Packet) (hq : sp.hist.lookup q = some p)
    (hpp : p.pathProbe = false) (hcov : ∃ r ∈ ranges, r.1 ≤ q ∧ q ≤ r.2) :
    q ∈ CollectRes.acc (collect (decide (ranges.length > 1)) bot.1 top.2 sp.hist.first sp.hist.packets ranges.reverse sp.hist.probes [] []) :=
  detectAndRemove_complete sp.hist ranges top bot hh hl hv q p hq hpp hcov

/-- … consequently `ReceivedAck` in a reached state ends in exactly one of: success, the two
    PROTOCOL_VIOLATION errors, or a nil/empty-frame panic caused by the caller (dropped space, no ranges) -/
theorem ack_outcomes (s : State) (hr : Reached s) (env : Env) (ranges : List Range) (lvl : Level) (now : Time) :
    (s.receivedAck env ranges lvl now).2.res = .ok ∨ (s.receivedAck env ranges lvl now).2.res = .err .ackUnsent ∨
    (s.receivedAck env ranges lvl now).2.res = .err .ackSkipped ∨ (s.receivedAck env ranges lvl now).2.res = .panic .nilSpace ∨
    (s.receivedAck env ranges lvl now).2.res = .panic .emptyAck :=
  receivedAck_outcomes hr.1 hr.2

/-! ### timer_armed -/

/-- a history obeys the timer theorem's caller contract (`ValidT`) at every operation that is executed -/
def ValidRunT (s : State) : List (Op × StepEnv) → Prop
  | [] => True
  | (op, e) :: rest => ValidT s op ∧ ((s.step op e).2.res = .ok → ValidRunT (s.step op e).1 rest)

theorem timer_run (ops : List (Op × StepEnv)) : ∀ (s : State), TInv s → ValidRunT s ops → (s.run ops).res = .ok →
    TInv (s.run ops).s := by
  induction ops with
  | nil => intro s t _ _; exact t
  | cons x xs ih =>
    intro s t hv hok
    obtain ⟨op, e⟩ := x
    obtain ⟨v1, v2⟩ := hv
    simp only [State.run] at hok ⊢
    cases hr : (s.step op e).2.res with
    | ok =>
      simp only [hr] at hok ⊢
      exact ih _ (step_timer t v1 hr) (v2 hr) hok
    | err c => simp [hr] at hok
    | panic c => simp [hr] at hok

/-- **timer_armed**: after every history that completed normally, in which packets are sent at positive
    clock readings and a Retry arrives only while no Handshake packet is outstanding: whenever
    ack-eliciting Initial or Handshake data is outstanding, or the handshake is confirmed and
    ack-eliciting application data is outstanding, and sending is not amplification-limited, the
    loss-detection alarm is set (`alarm.Time ≠ 0`).  Along the way: a space with outstanding packets has a
    positive `lastAckElicitingPacketTime`. -/
theorem timer_armed (pn : PN) (val client : Bool) (nts : PN) (ops : List (Op × StepEnv))
    (hv : ValidRunT (State.new pn val client nts) ops) (hok : ((State.new pn val client nts).run ops).res = .ok) :
    let s := ((State.new pn val client nts).run ops).s
    ((s.hasOutstandingCrypto || (s.handshakeConfirmed && s.app.hist.hasOutstandingPackets)) && !s.isAmplificationLimited) = true →
      s.alarm.time ≠ 0 :=
  (timer_run ops _ (TInv_new pn val client nts) hv hok).armed

/-- the hypotheses of `timer_armed` are satisfiable and its conclusion is not vacuous: a client sent one
    Initial packet; a deadline one PTO later is armed -/
example : let s := ((State.new 0 false true 300).run [(.send .initial 1000 (-1) 100 false false [⟨1, true⟩] [], wEnv)]).s
    needsTimer s = true ∧ s.alarm.time = 200001000 := by decide

/-! ### where frames are discarded -/

/-- **discarded_only_when_dropped**: in a reached state, sending, `ReceivedAck`, `OnLossDetectionTimeout`,
    `QueueProbePacket`, `ReceivedBytes` and `ReceivedPacket` never discard a frame without reporting it: the
    `discarded` part of the ledger grows only in `DropPackets` (a whole packet number space, or rejected
    0-RTT packets), `ResetForRetry` and `MigratedPath` (outstanding path probes). -/
theorem discarded_only_when_dropped (s : State) (hr : Reached s) (op : Op) (e : StepEnv)
    (hk : Op.keepsFrames op = true) (hok : (s.step op e).2.res = .ok) : (s.step op e).2.disc = [] :=
  step_disc hr.1 hk hok

/-! ### loss detection is complete -/

/-- **overdue_declared_lost**: in a reached state, whenever `detectLostPackets` runs on a packet number space
    (after an ACK that newly acknowledged something, or when the loss timer fires) it completes, and afterwards
    the space tracks no packet at or below `largestAcked` that was sent at least
    `max(9/8·max(latest_rtt, smoothed_rtt), granularity)` ago or that is `packetThreshold` or more packet numbers
    behind — for every kind of packet, Path MTU probes (ack-eliciting, in flight, but not "outstanding")
    included.  With `ledger` their frames have therefore been reported lost. -/
theorem overdue_declared_lost (s : State) (hr : Reached s) (env : Env) (now : Time) (lvl : Level) (sp : Space)
    (hg : s.getSpace lvl = some sp) :
    ∃ sp', (s.detectLostPackets env now lvl).1.getSpace lvl = some sp' ∧ (s.detectLostPackets env now lvl).2.2 = none ∧
      ∀ q p, sp'.hist.lookup q = some p → q ≤ sp.largestAcked →
        ¬ (p.sendTime ≤ now - lossDelayOf env ∨ sp.hist.difference sp.largestAcked q ≥ packetThreshold) :=
  detectLostPackets_no_overdue hr.1 hg

/-! ### which skipped numbers are remembered -/

theorem new_SeqGens (pn : PN) (val client : Bool) (nts : PN) : SeqGens (State.new pn val client nts) := by
  constructor <;> intro sp h <;> simp [State.new] at h <;> subst h <;> rfl

theorem remembered_run (ops : List (Op × StepEnv)) : ∀ (s : State) (gs : List PN), SeqGens s →
    s.app.hist.skipped = lastN maxSkippedPackets gs → (ops.all fun x => !Op.isRetry x.1) = true → (s.run ops).res = .ok →
    (s.run ops).s.app.hist.skipped = lastN maxSkippedPackets (gs ++ (s.run ops).skipped) := by
  induction ops with
  | nil => intro s gs _ h _ _; simpa [State.run] using h
  | cons x xs ih =>
    intro s gs g h hnr hok
    obtain ⟨op, e⟩ := x
    simp only [List.all_cons, Bool.and_eq_true, Bool.not_eq_true'] at hnr
    simp only [State.run] at hok ⊢
    cases hr : (s.step op e).2.res with
    | ok =>
      simp only [hr] at hok ⊢
      have r := step_skrel g hnr.1 hr
      have h' : (s.step op e).1.app.hist.skipped = lastN maxSkippedPackets (gs ++ (s.step op e).2.skipped) := by
        rw [r.app, h, lastN_ring]
      have := ih _ _ (SeqGens_rel g r) h' hnr.2 hok
      rw [this, List.append_assoc]
    | err c => simp [hr] at hok
    | panic c => simp [hr] at hok

/-- **remembered_last**: in every history without a Retry that completed normally, the skipped packet numbers
    the application-data history remembers (and `ack_of_skipped_partial` protects) are exactly the last
    `maxSkippedPackets` of all packet numbers skipped so far -/
theorem remembered_last (pn : PN) (val client : Bool) (nts : PN) (ops : List (Op × StepEnv))
    (hnr : (ops.all fun x => !Op.isRetry x.1) = true) (hok : ((State.new pn val client nts).run ops).res = .ok) :
    ((State.new pn val client nts).run ops).s.app.hist.skipped =
      lastN maxSkippedPackets ((State.new pn val client nts).run ops).skipped := by
  have := remembered_run ops _ [] (new_SeqGens pn val client nts) (by simp [State.new, Space.new, lastN]) hnr hok
  simpa using this

/-! ### the anti-deadlock probe (RFC 9002 §6.2.2.1; /repo 23a90f5) -/

/-- the error branch `sentPacketHandler BUG: PTO fired, but bytes_in_flight is 0 and Initial and Handshake
    already dropped` of `OnLossDetectionTimeout` is unreachable: no history whatsoever (no caller contract) ends
    in it — the anti-deadlock guard (in the shape of the current source, and in the older one) holds only
    before the peer completed address validation, and until then the Handshake space exists: a server starts
    with completed validation, a client drops the Handshake space only together with completing it. -/
theorem pto_bug_branch_unreachable (pn : PN) (val client : Bool) (nts : PN) (ops : List (Op × StepEnv)) :
    ((State.new pn val client nts).run ops).res ≠ .err .bugPTO :=
  (run_PInv ops _ (new_PInv pn val client nts)).2

/-- the state in which `getPTOTimeAndSpace` arms the anti-deadlock PTO: handshake not confirmed, no Initial or
    Handshake packet outstanding, the peer has not completed address validation -/
def AntiDeadlockArmed (s : State) : Prop :=
  s.handshakeConfirmed = false ∧ s.hasOutstandingCrypto = false ∧ s.peerCompleted = false

instance (s : State) : Decidable (AntiDeadlockArmed s) := by unfold AntiDeadlockArmed; infer_instance

/-- … and it does arm it: in that state, with no loss timer pending, not amplification limited and no path probe
    outstanding, `lossDetectionTime` is a PTO alarm one (scaled) PTO from now, for the Initial space (the
    Handshake space once Initial was dropped) — whatever `bytesInFlight` is. -/
theorem anti_deadlock_pto_armed (s : State) (env : Env) (now : Time) (ha : AntiDeadlockArmed s)
    (hl : s.getLossTimeAndSpace.1 = 0) (hamp : s.isAmplificationLimited = false) (hpp : s.pathProbeLossTime = 0)
    (hnow : 0 ≤ now) :
    s.lossDetectionTime env now = { time := now + s.getScaledPTO env false, typ := .pto,
                                    level := if s.initial.isSome then .initial else .handshake } ∧
    now + s.getScaledPTO env false ≠ 0 := by
  obtain ⟨hc, ho, hp⟩ := ha
  have hpos : 0 < s.getScaledPTO env false := by
    have hm : 0 < maxPTODuration := by decide
    unfold State.getScaledPTO
    simp only [Bool.false_eq_true, if_false]
    split <;> omega
  have hg : s.getPTOTimeAndSpace env now =
      (now + s.getScaledPTO env false, if s.initial.isSome then Level.initial else Level.handshake) := by
    unfold State.getPTOTimeAndSpace
    simp only [hc, ho, hp]
    simp
    split <;> simp_all
  refine ⟨?_, by omega⟩
  unfold State.lossDetectionTime
  rw [if_neg (by simp [hp]), if_neg (by simp [hamp]), if_neg (by simp [hl]), hg, if_pos ⟨by simp only []; omega, Or.inl hpp⟩]

/-- **anti_deadlock_probe_sent**: after ANY history, whenever the loss-detection alarm fires in the state in
    which `getPTOTimeAndSpace` arms the anti-deadlock PTO (handshake not confirmed, no Initial/Handshake packet
    outstanding, peer address validation not completed; no loss timer pending), `OnLossDetectionTimeout` returns
    normally and has queued a probe: `numProbesToSend` and `ptoCount` are one higher, `ptoMode` is SendPTOInitial
    (SendPTOHandshake once the Initial space was dropped; one of the two spaces exists), and — unless
    amplification limited or at the tracked-packet cap — `SendMode` then answers that PTO mode WHATEVER the
    congestion controller and the pacer say.  No hypothesis on `bytesInFlight` (0-RTT packets in flight do not
    suppress the probe); the guard shape is the regenerated fact `antiDeadlockWhenArmed`. -/
theorem anti_deadlock_probe_sent (pn : PN) (val client : Bool) (nts : PN) (ops : List (Op × StepEnv))
    (env : Env) (now : Time) (nts' : PN)
    (ha : AntiDeadlockArmed ((State.new pn val client nts).run ops).s)
    (hl : ((State.new pn val client nts).run ops).s.getLossTimeAndSpace.1 = 0) :
    let s := ((State.new pn val client nts).run ops).s
    let r := s.onLossDetectionTimeout env now nts'
    r.2.res = .ok ∧ r.1.numProbesToSend = s.numProbesToSend + 1 ∧ r.1.numProbesToSend > 0 ∧ r.1.ptoCount = s.ptoCount + 1 ∧
    r.1.ptoMode = (if s.initial.isSome then sendPTOInitial else sendPTOHandshake) ∧
    (s.initial.isSome = true ∨ s.handshake.isSome = true) ∧ r.1.bytesInFlight = s.bytesInFlight ∧
    ∀ canSend pacing : Bool, r.1.isAmplificationLimited = false →
      r.1.app.hist.len + optLen r.1.initial + optLen r.1.handshake < maxTrackedSentPackets →
      r.1.sendMode canSend pacing = r.1.ptoMode := by
  intro s r
  have hw : antiDeadlockWhenArmed = true := by decide
  have pi : PInv s := (run_PInv ops _ (new_PInv pn val client nts)).1
  obtain ⟨hc, ho, hp⟩ := ha
  obtain ⟨e, hh⟩ := timeout_probe_when_armed s env now nts' pi.hs hc ho hp hl
  have er : r = ((s.antiDeadlockProbe [] []).1.setTimer env now, (s.antiDeadlockProbe [] []).2) := by
    show s.onLossDetectionTimeout env now nts' = _
    rw [onLossDetectionTimeout_eq, hw]; exact e
  obtain ⟨q1, q2, q3, q4, q5, q6, q7, q8, q9, q10, q11⟩ := antiDeadlockProbe_spec s [] [] (Or.inr hh)
  have hnp : r.1.numProbesToSend = s.numProbesToSend + 1 := by rw [er]; exact q2
  have hpos : r.1.numProbesToSend > 0 := by have := pi.np; omega
  refine ⟨by rw [er]; exact q1, hnp, hpos, by rw [er]; exact q3, by rw [er]; exact q4, Or.inr hh, by rw [er]; exact q8, ?_⟩
  intro canSend pacing hamp ht
  exact sendMode_probe_pending r.1 canSend pacing hpos hamp ht

/-- the witness history: a client sends its ClientHello (Initial packet 0) and three 0-RTT packets; the
    server's ACK for the Initial packet arrives (it does not complete address validation), the ACKs for the 0-RTT
    packets do not (they travel in 1-RTT packets the client cannot read yet) -/
def adOps : List (Op × StepEnv) :=
  [(.send .initial 1000 (-1) 1200 false false [⟨1, true⟩] [], wEnv),
   (.send .zeroRTT 1001 (-1) 1200 false false [] [⟨2, true⟩], wEnv),
   (.send .zeroRTT 1002 (-1) 1200 false false [] [⟨3, true⟩], wEnv),
   (.send .zeroRTT 1003 (-1) 1200 false false [] [⟨4, true⟩], wEnv),
   (.ack .initial 50000000 [(0, 0)], wEnv)]

set_option maxRecDepth 100000 in
/-- **old_guard_stalls_witness** (kernel-checked): after `adOps` the handler is in the anti-deadlock state with
    3600 bytes of 0-RTT data in flight and the PTO alarm armed for the Initial space.  When that alarm fires,
    `OnLossDetectionTimeout` with the guard of BEFORE /repo 23a90f5 (`bytesInFlight == 0 && …`) returns without
    queueing a probe (numProbesToSend 0, ptoMode SendNone, ptoCount unchanged), re-arms the same kind of alarm,
    and a congestion-limited `SendMode` answers SendAck: the ClientHello retransmission / Finished is never
    sent and the timer keeps firing.  With the guard of the current source the same call queues a probe and
    `SendMode` answers SendPTOInitial although the congestion controller says no. -/
theorem old_guard_stalls_witness :
    let run := (State.new 0 false true 300).run adOps
    let s := run.s
    let old := s.onLossDetectionTimeoutG false wEnv.env s.alarm.time 300
    let new := s.onLossDetectionTimeoutG true wEnv.env s.alarm.time 300
    run.res = .ok ∧ AntiDeadlockArmed s ∧ s.getLossTimeAndSpace.1 = 0 ∧ s.bytesInFlight = 3600 ∧
    s.alarm = { time := 250000000, typ := .pto, level := .initial } ∧
    old.2.res = .ok ∧ old.1.numProbesToSend = 0 ∧ old.1.ptoMode = sendNone ∧ old.1.ptoCount = s.ptoCount ∧
    old.1.alarm = { time := 450000000, typ := .pto, level := .initial } ∧ old.1.sendMode false true = sendAck ∧
    new.2.res = .ok ∧ new.1.numProbesToSend = 1 ∧ new.1.ptoMode = sendPTOInitial ∧
    new.1.sendMode false true = sendPTOInitial := by decide

/-- the current source has the guard `anti_deadlock_probe_sent` is about (regenerated shape fact) -/
theorem anti_deadlock_guard_is_when_armed : antiDeadlockWhenArmed = true := by decide

/-! ### examples: the hypotheses are satisfiable by non-trivial histories -/

instance (s : State) (op : Op) : Decidable (Valid s op) := by
  cases op <;> simp only [Valid] <;> infer_instance

instance (s : State) (op : Op) : Decidable (ValidT s op) := by
  cases op <;> simp only [ValidT] <;> infer_instance

instance decValidRun : (s : State) → (ops : List (Op × StepEnv)) → Decidable (ValidRun s ops)
  | _, [] => isTrue trivial
  | s, (op, e) :: rest =>
    have := decValidRun (s.step op e).1 rest
    inferInstanceAs (Decidable (Valid s op ∧ ((s.step op e).2.res = .ok → ValidRun (s.step op e).1 rest)))

instance decValidRunT : (s : State) → (ops : List (Op × StepEnv)) → Decidable (ValidRunT s ops)
  | _, [] => isTrue trivial
  | s, (op, e) :: rest =>
    have := decValidRunT (s.step op e).1 rest
    inferInstanceAs (Decidable (ValidT s op ∧ ((s.step op e).2.res = .ok → ValidRunT (s.step op e).1 rest)))

/-- a non-trivial history for the examples: a client sends two Initial packets, the second one is
    acknowledged, a PTO fires, the first packet is queued as a probe (declared lost), the Initial space is
    dropped with one packet still tracked -/
def exOps : List (Op × StepEnv) :=
  [(.send .initial 1000 (-1) 1200 false false [⟨1, true⟩] [⟨2, true⟩], wEnv),
   (.send .initial 2000 (-1) 300 false false [⟨3, true⟩] [], wEnv),
   (.send .handshake 2500 (-1) 50 false false [] [], wEnv),
   (.ack .initial 3000 [(1, 1)], wEnv),
   (.timeout 400000000, wEnv),
   (.probe .initial, wEnv),
   (.send .initial 400001000 (-1) 1200 false false [⟨4, true⟩] [], wEnv),
   (.drop .initial 400002000, wEnv)]

set_option maxRecDepth 100000 in
/-- the hypotheses of `ledger`, `in_flight_balanced` and `timer_armed` hold for `exOps`, and the outcome is not
    trivial: frame 3 acked, frames 1 and 2 lost, frame 4 discarded with the Initial space -/
example : let r := (State.new 0 false true 300).run exOps
    r.res = .ok ∧ ValidRun (State.new 0 false true 300) exOps ∧ ValidRunT (State.new 0 false true 300) exOps ∧
    r.handed = [⟨1, true⟩, ⟨2, true⟩, ⟨3, true⟩, ⟨4, true⟩] ∧
    r.evs = [.acked ⟨3, true⟩, .lost ⟨1, true⟩, .lost ⟨2, true⟩] ∧ r.disc = [⟨4, true⟩] ∧
    r.s.bytesInFlight = 0 := by decide


end Uquic.Props.C06
