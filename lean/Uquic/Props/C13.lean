/-
C13 — handshakes converge or fail cleanly; forged packets cannot change the outcome.

Property theorems only (helpers in Uquic/Proofs/Gate*.lean).  The statements are about the models
  Uquic.Model.Handshake.Gate      (connection.go: handleOnePacket … handleUnpackedLongHeaderPacket),
  Uquic.Model.Handshake.Auth      (checkTransportParameters),
  Uquic.Model.Handshake.Deadline  (maybeResetTimer / the timeout checks of run),
  Uquic.Model.Handshake.ZeroRTT   (DropPackets(0-RTT), ResetFor0RTT),
and quantify over ALL gate states, ALL packet summaries and ALL sequences of datagrams.  `opens`
(does the AEAD open the packet) and `retryTagFor` (for which original destination connection ID the
Retry integrity tag verifies) are inputs: ideal packet protection is the trusted base (C05).
-/
import Uquic.Proofs.GateRun
import Uquic.Proofs.GateMisc
import Uquic.Spec.GateMon
import Uquic.Model.Handshake.DialCancel

namespace Uquic.Props.C13
open Uquic.Model.Handshake Uquic.Proofs.Gate

/-! ## 1. nothing forged has an effect once a genuine packet was processed -/

/-- Once `receivedFirstPacket` is set, every Retry and every Version Negotiation packet leaves the gate
state unchanged and is dropped, and so is every Initial carrying another source connection ID — whatever
its other fields are (valid Retry tag, valid Initial keys, …). -/
theorem no_effect_after_genuine (s : GateState) (p : PacketSummary) (h : s.receivedFirstPacket = true) :
    ((p.kind = .retry ∨ p.kind = .vn) → (gate s p).1 = s ∧ ∃ r, (gate s p).2 = .drop r) ∧
    (p.kind = .initial → p.srcConnID ≠ s.handshakeDestConnID → (gate s p).1 = s ∧ ∃ r, (gate s p).2 = .drop r) := by
  have hk := gate_stepKind s p
  constructor
  · intro hkind
    generalize (gate s p).1 = s' at hk
    generalize (gate s p).2 = a at hk
    cases hk with
    | drop r => exact ⟨rfl, r, rfl⟩
    | buffer h1 h2 => rcases hkind with e | e <;> simp_all
    | retry _ _ h3 => simp [h] at h3
    | recreate v _ _ h3 => simp [h] at h3
    | fail _ _ h3 => simp [h] at h3
    | processLong fatal h1 h2 => rcases hkind with e | e <;> simp_all
    | processShort fatal h1 => rcases hkind with e | e <;> simp_all
  · intro hi hne
    generalize (gate s p).1 = s' at hk
    generalize (gate s p).2 = a at hk
    cases hk with
    | drop r => exact ⟨rfl, r, rfl⟩
    | buffer _ _ _ h4 => exact absurd (h4 h hi) hne
    | retry h1 => simp [hi] at h1
    | recreate v h1 => simp [hi] at h1
    | fail h1 => simp [hi] at h1
    | processLong fatal _ _ _ _ _ _ h7 => exact absurd (h7 h hi) hne
    | processShort fatal h1 => simp [hi] at h1

example : ∃ (s : GateState) (p : PacketSummary), s.receivedFirstPacket = true ∧ p.kind = .retry ∧
    p.retryTagFor = some s.destConnID ∧ p.srcConnID ≠ s.destConnID ∧ p.version = s.version :=
  ⟨{ receivedFirstPacket := true, destConnID := [1] }, { kind := .retry, retryTagFor := some [1], srcConnID := [2], version := 1 },
   rfl, rfl, rfl, by decide, rfl⟩

/-- … and this holds along every sequence of datagrams (coalesced or not): from the first genuine packet
on, no packet — forged, replayed, corrupted or genuine — moves version, connection IDs or the Retry /
version-negotiation flags; only the counter of queued undecryptable packets can grow; and no action other
than drop / buffer / process is ever taken (no Retry restart, no version change, no VersionNegotiationError). -/
theorem no_effect_after_genuine_run (s : GateState) (ds : List (List PacketSummary)) (h : s.receivedFirstPacket = true) :
    core (runDatagrams s ds).1 = core s ∧
    ∀ a ∈ (runDatagrams s ds).2, (∃ r, a = .drop r) ∨ a = .buffer ∨ a = .process ∨ a = .processFatal ∨ a = .notReached := by
  let P : GateState → Prop := fun t => t.receivedFirstPacket = true ∧ core t = core s
  have hP : ∀ t p, P t → P (gate t p).1 := by
    intro t p ⟨h1, h2⟩
    exact ⟨gate_rfp_mono t p h1, by rw [(gate_frozen t p h1).1, h2]⟩
  constructor
  · exact (runDatagrams_preserves P hP ds s ⟨h, rfl⟩).2
  · refine runDatagrams_actions P
      (fun a => (∃ r, a = .drop r) ∨ a = .buffer ∨ a = .process ∨ a = .processFatal ∨ a = .notReached) hP ?_ ?_ ?_ ds s ?_
    · intro t p ⟨h1, _⟩
      rcases (gate_frozen t p h1).2 with ⟨r, e⟩ | e | e | e
      · exact Or.inl ⟨r, e⟩
      · exact Or.inr (Or.inl e)
      · exact Or.inr (Or.inr (Or.inl e))
      · exact Or.inr (Or.inr (Or.inr (Or.inl e)))
    · intro r; exact Or.inl ⟨r, rfl⟩
    · exact Or.inr (Or.inr (Or.inr (Or.inr rfl)))
    · exact ⟨h, rfl⟩

/-! ## 2. Retry -/

/-- A Retry whose integrity tag does not verify (for the connection ID in use) is dropped in EVERY state
and changes nothing. -/
theorem bad_retry_ignored (s : GateState) (p : PacketSummary) (hk : p.kind = .retry)
    (htag : p.retryTagFor ≠ some s.destConnID) :
    (gate s p).1 = s ∧ ∃ r, (gate s p).2 = .drop r := by
  have h := gate_stepKind s p
  generalize (gate s p).1 = s' at h
  generalize (gate s p).2 = a at h
  cases h with
  | drop r => exact ⟨rfl, r, rfl⟩
  | buffer h1 => exact absurd hk h1
  | retry _ _ _ _ _ h6 => exact absurd h6 htag
  | recreate v h1 => simp [hk] at h1
  | fail h1 => simp [hk] at h1
  | processLong fatal h1 => exact absurd hk h1
  | processShort fatal h1 => simp [hk] at h1

example : ∃ (s : GateState) (p : PacketSummary), p.kind = .retry ∧ p.retryTagFor ≠ some s.destConnID ∧ s.receivedFirstPacket = false :=
  ⟨{ destConnID := [1] }, { kind := .retry, retryTagFor := none }, rfl, by decide, rfl⟩

/-- A Retry that does not change the connection ID is dropped (even with a valid tag). -/
theorem retry_same_cid_ignored (s : GateState) (p : PacketSummary) (hk : p.kind = .retry)
    (hsame : p.srcConnID = s.destConnID) :
    (gate s p).1 = s ∧ ∃ r, (gate s p).2 = .drop r := by
  have h := gate_stepKind s p
  generalize (gate s p).1 = s' at h
  generalize (gate s p).2 = a at h
  cases h with
  | drop r => exact ⟨rfl, r, rfl⟩
  | buffer h1 => exact absurd hk h1
  | retry _ _ _ _ h5 => exact absurd hsame h5
  | recreate v h1 => simp [hk] at h1
  | fail h1 => simp [hk] at h1
  | processLong fatal h1 => exact absurd hk h1
  | processShort fatal h1 => simp [hk] at h1

/-- When a Retry IS accepted, it carried a verifying tag, changed the connection ID, arrived before any
genuine packet and before any other Retry, and the state records exactly its source connection ID. -/
theorem retry_accept_conditions (s : GateState) (p : PacketSummary) (d : CID) (tok : List Nat)
    (h : (gate s p).2 = .restartWithRetry d tok) :
    p.kind = .retry ∧ p.retryTagFor = some s.destConnID ∧ p.srcConnID ≠ s.destConnID ∧ p.version = s.version ∧
    s.perspective = .client ∧ s.receivedFirstPacket = false ∧ s.receivedRetry = false ∧ d = p.srcConnID ∧
    (gate s p).1 = { s with receivedRetry := true, handshakeDestConnID := d, retrySrcConnID := some d, destConnID := d } := by
  have hs := gate_stepKind s p
  generalize (gate s p).1 = s' at hs h ⊢
  generalize (gate s p).2 = a at hs h
  cases hs with
  | retry h1 h2 h3 h4 h5 h6 h7 =>
    simp only [Action.restartWithRetry.injEq] at h
    obtain ⟨rfl, _⟩ := h
    exact ⟨h1, h6, h5, h7, h2, h3, h4, rfl, rfl⟩
  | processLong fatal => cases fatal <;> simp at h
  | processShort fatal => cases fatal <;> simp at h
  | _ => simp at h

/-- At most one Retry is ever accepted, over any sequence of datagrams from any state; none if one was
accepted before. -/
theorem at_most_one_retry (s : GateState) (ds : List (List PacketSummary)) :
    countAccepts (runDatagrams s ds).2 ≤ 1 ∧ (s.receivedRetry = true → countAccepts (runDatagrams s ds).2 = 0) := by
  have h := runDatagrams_budget ds s
  constructor
  · have : budget s ≤ 1 := by unfold budget; split <;> omega
    omega
  · intro hr
    have : budget s = 0 := by simp [budget, hr]
    omega

/-- the same for a sequence of single packets -/
theorem at_most_one_retry_packets (s : GateState) (ps : List PacketSummary) :
    countAccepts (runPackets s ps).2 ≤ 1 := by
  have h := runPackets_budget ps s
  have : budget s ≤ 1 := by unfold budget; split <;> omega
  omega

example : countAccepts (runPackets (GateState.newClient [1] 1 [1] false)
    [{ kind := .retry, version := 1, srcConnID := [2], retryTagFor := some [1] },
     { kind := .retry, version := 1, srcConnID := [3], retryTagFor := some [2] }]).2 = 1 := by decide

/-! ## 3. Version Negotiation -/

/-- A Version Negotiation packet never changes the gate state.  It is dropped when it lists the version
in use, and whenever a packet was already received or a version was already negotiated; otherwise the
connection is re-created with the first of OUR versions that the packet lists, or fails with
VersionNegotiationError when there is none.  No other outcome exists. -/
theorem vn_rules (s : GateState) (p : PacketSummary) (hk : p.kind = .vn) :
    (gate s p).1 = s ∧
    (p.vnVersions.contains s.version = true → ∃ r, (gate s p).2 = .drop r) ∧
    (s.receivedFirstPacket = true ∨ s.versionNegotiated = true ∨ s.perspective = .server → ∃ r, (gate s p).2 = .drop r) ∧
    ((∃ r, (gate s p).2 = .drop r) ∨
     (∃ v, (gate s p).2 = .recreate v ∧ chooseSupportedVersion s.supported p.vnVersions = some v ∧
        v ∈ s.supported ∧ p.vnVersions.contains v = true ∧ v ≠ s.version) ∨
     ((gate s p).2 = .fail ∧ ∀ v ∈ s.supported, p.vnVersions.contains v = false)) := by
  have h := gate_stepKind s p
  generalize (gate s p).1 = s' at h
  generalize (gate s p).2 = a at h
  cases h with
  | drop r => exact ⟨rfl, fun _ => ⟨r, rfl⟩, fun _ => ⟨r, rfl⟩, Or.inl ⟨r, rfl⟩⟩
  | buffer _ h2 => exact absurd hk h2
  | retry h1 => simp [hk] at h1
  | recreate v _ h2 h3 h4 h5 h6 =>
    refine ⟨rfl, ?_, ?_, Or.inr (Or.inl ⟨v, rfl, h6, ?_⟩)⟩
    · intro hc; rw [h5] at hc; exact absurd hc (by decide)
    · intro hc; rcases hc with hc | hc | hc <;> simp_all
    · unfold chooseSupportedVersion at h6
      have hm := List.mem_of_find?_eq_some h6
      have hv := List.find?_some h6
      refine ⟨hm, hv, ?_⟩
      intro e; subst e; rw [h5] at hv; exact absurd hv (by decide)
  | fail _ h2 h3 h4 h5 h6 =>
    refine ⟨rfl, ?_, ?_, Or.inr (Or.inr ⟨rfl, ?_⟩)⟩
    · intro hc; rw [h5] at hc; exact absurd hc (by decide)
    · intro hc; rcases hc with hc | hc | hc <;> simp_all
    · unfold chooseSupportedVersion at h6
      intro v hv
      have := List.find?_eq_none.mp h6 v hv
      simpa using this
  | processLong fatal _ h2 => exact absurd hk h2
  | processShort fatal h1 => simp [hk] at h1

example : (gate (GateState.newClient [1] 5 [5, 1] false) { kind := .vn, vnVersions := [7, 1] }).2 = .recreate 1 := by decide
example : (gate (GateState.newClient [1] 5 [5, 1] false) { kind := .vn, vnVersions := [7, 9] }).2 = .fail := by decide

/-- "never after versionNegotiated", for the connection `doDial` really creates: both `Transport.doDial` and
`UTransport.doDial` dial again after a Version Negotiation packet with `hasNegotiatedVersion = <the argument
in the source, regenerated>`; with it, the re-created connection drops EVERY Version Negotiation packet
unchanged, and along every sequence of datagrams it is never re-created again and never fails with
VersionNegotiationError (so a dial makes at most two connection attempts). If either call site stops
passing `true`, this theorem no longer compiles. -/
theorem no_effect_after_version_negotiated (spec : Bool) (dcid : CID) (v : Nat) (sup : List Nat) :
    (∀ p, p.kind = .vn → (gate (GateState.recreated spec dcid v sup) p).1 = GateState.recreated spec dcid v sup ∧
        ∃ r, (gate (GateState.recreated spec dcid v sup) p).2 = .drop r) ∧
    (∀ ds, ∀ a ∈ (runDatagrams (GateState.recreated spec dcid v sup) ds).2, (∀ w, a ≠ .recreate w) ∧ a ≠ .fail) := by
  have h0 : (GateState.recreated spec dcid v sup).versionNegotiated = true := by
    cases spec <;>
      simp [GateState.recreated, GateState.newClient, recreateMarksNegotiated,
        Uquic.Gen.Gate.recreateArgUTransport, Uquic.Gen.Gate.recreateArgTransport]
  constructor
  · intro p hk
    exact (gate_vn_mono _ p h0).2.2.2 hk
  · intro ds
    exact runDatagrams_actions (fun t => t.versionNegotiated = true) (fun a => (∀ w, a ≠ .recreate w) ∧ a ≠ .fail)
      (fun t p h => (gate_vn_mono t p h).1) (fun t p h => ⟨(gate_vn_mono t p h).2.1, (gate_vn_mono t p h).2.2.1⟩)
      (by intro r; simp) (by simp) ds _ h0

example : (gate (GateState.recreated true [1] 1 [5, 1]) { kind := .vn, vnVersions := [5, 9] }).2 = .drop .unexpectedPacket := by decide

/-! ## 4. what cannot be decrypted cannot do anything -/

/-- A long- or short-header packet that the AEAD does not open (everything an attacker without the keys
can craft) moves nothing but the queue counter, and is dropped or queued: it is never processed, never
restarts or re-creates the connection, never fails it. -/
theorem forged_undecryptable_is_drop (s : GateState) (p : PacketSummary)
    (hk : p.kind ≠ .retry ∧ p.kind ≠ .vn) (ho : p.opens = false) :
    core (gate s p).1 = core s ∧ ((∃ r, (gate s p).2 = .drop r) ∨ ((gate s p).2 = .buffer ∧ p.keys = .notYet)) := by
  have h := gate_stepKind s p
  generalize (gate s p).1 = s' at h
  generalize (gate s p).2 = a at h
  cases h with
  | drop r => exact ⟨rfl, Or.inl ⟨r, rfl⟩⟩
  | buffer _ _ h3 => exact ⟨by simp [core], Or.inr ⟨rfl, h3⟩⟩
  | retry h1 => exact absurd h1 hk.1
  | recreate v h1 => exact absurd h1 hk.2
  | fail h1 => exact absurd h1 hk.2
  | processLong fatal _ _ _ h4 => simp [ho] at h4
  | processShort fatal _ h2 => simp [ho] at h2

/-- … along any sequence of datagrams made only of such packets, of Retries with a bad tag and of Version
Negotiation packets listing the version in use: the gate state (up to the queue counter) is where it was. -/
theorem forged_sequence_is_inert (s : GateState) (ds : List (List PacketSummary))
    (hall : ∀ d ∈ ds, ∀ p ∈ d,
      (p.kind = .retry ∧ p.retryTagFor = none) ∨ (p.kind = .vn ∧ p.vnVersions.contains s.version = true) ∨
      (p.kind ≠ .retry ∧ p.kind ≠ .vn ∧ p.opens = false)) :
    ∀ a ∈ (runDatagrams s ds).2, (∃ r, a = .drop r) ∨ a = .buffer ∨ a = .notReached := by
  -- every single step with such a packet keeps the core and yields drop/buffer; the loop structure only adds drops
  have step : ∀ t p, core t = core s →
      ((p.kind = .retry ∧ p.retryTagFor = none) ∨ (p.kind = .vn ∧ p.vnVersions.contains s.version = true) ∨
       (p.kind ≠ .retry ∧ p.kind ≠ .vn ∧ p.opens = false)) →
      core (gate t p).1 = core s ∧ ((∃ r, (gate t p).2 = .drop r) ∨ (gate t p).2 = .buffer) := by
    intro t p ht hp
    rcases hp with ⟨h1, h2⟩ | ⟨h1, h2⟩ | ⟨h1, h2, h3⟩
    · have := bad_retry_ignored t p h1 (by simp [h2])
      exact ⟨by rw [this.1]; exact ht, Or.inl this.2⟩
    · have hv : t.version = s.version := ((core_eq_iff t s).mp ht).2.1
      have := vn_rules t p h1
      exact ⟨by rw [this.1]; exact ht, Or.inl (this.2.1 (by rw [hv]; exact h2))⟩
    · have := forged_undecryptable_is_drop t p ⟨h1, h2⟩ h3
      refine ⟨by rw [this.1]; exact ht, ?_⟩
      rcases this.2 with e | ⟨e, _⟩
      · exact Or.inl e
      · exact Or.inr e
  -- induction over the datagrams, carrying the hypothesis on their parts
  suffices H : ∀ (ds : List (List PacketSummary)) (t : GateState), core t = core s →
      (∀ d ∈ ds, ∀ p ∈ d, (p.kind = .retry ∧ p.retryTagFor = none) ∨ (p.kind = .vn ∧ p.vnVersions.contains s.version = true) ∨
        (p.kind ≠ .retry ∧ p.kind ≠ .vn ∧ p.opens = false)) →
      ∀ a ∈ (runDatagrams t ds).2, (∃ r, a = .drop r) ∨ a = .buffer ∨ a = .notReached from H ds s rfl hall
  have parts : ∀ (ps : List PacketSummary) (t : GateState) (last : Option CID), core t = core s →
      (∀ p ∈ ps, (p.kind = .retry ∧ p.retryTagFor = none) ∨ (p.kind = .vn ∧ p.vnVersions.contains s.version = true) ∨
        (p.kind ≠ .retry ∧ p.kind ≠ .vn ∧ p.opens = false)) →
      core (gateParts t last ps).1 = core s ∧
      ∀ a ∈ (gateParts t last ps).2, (∃ r, a = .drop r) ∨ a = .buffer ∨ a = .notReached := by
    intro ps
    induction ps with
    | nil => intro t last ht _; exact ⟨by simpa [gateParts] using ht, by simp [gateParts]⟩
    | cons p rest ih =>
      intro t last ht hps
      have hp := hps p (List.mem_cons_self ..)
      have hrest : ∀ q ∈ rest, _ := fun q hq => hps q (List.mem_cons_of_mem _ hq)
      have hs := step t p ht hp
      have hact : (∃ r, (gate t p).2 = .drop r) ∨ (gate t p).2 = .buffer ∨ (gate t p).2 = .notReached := by
        rcases hs.2 with e | e
        · exact Or.inl e
        · exact Or.inr (Or.inl e)
      unfold gateParts
      split
      · refine ⟨ht, ?_⟩
        intro a ha
        simp only [List.mem_cons, List.mem_map] at ha
        rcases ha with rfl | ⟨_, _, rfl⟩
        · exact Or.inl ⟨_, rfl⟩
        · exact Or.inr (Or.inr rfl)
      · split
        · refine ⟨ht, ?_⟩
          intro a ha
          simp only [List.mem_cons, List.mem_map] at ha
          rcases ha with rfl | ⟨_, _, rfl⟩
          · exact Or.inl ⟨_, rfl⟩
          · exact Or.inr (Or.inr rfl)
        · simp only
          split
          · refine ⟨hs.1, ?_⟩
            intro a ha
            simp only [List.mem_cons, List.mem_map] at ha
            rcases ha with rfl | ⟨_, _, rfl⟩
            · exact hact
            · exact Or.inr (Or.inr rfl)
          · have := ih (gate t p).1 (some p.destConnID) hs.1 hrest
            refine ⟨this.1, ?_⟩
            intro a ha
            simp only [List.mem_cons] at ha
            rcases ha with rfl | ha
            · exact hact
            · exact this.2 a ha
  intro ds
  induction ds with
  | nil => intro t _ _ a ha; simp [runDatagrams] at ha
  | cons d rest ih =>
    intro t ht hds a ha
    have hd := parts d t none ht (hds d (List.mem_cons_self ..))
    simp only [runDatagrams, List.mem_append] at ha
    rcases ha with ha | ha
    · exact hd.2 a ha
    · exact ih (gateDatagram t d).1 hd.1 (fun d' hd' => hds d' (List.mem_cons_of_mem _ hd')) a ha

/-! ## 5. authenticated connection IDs -/

/-- The peer's transport parameters are accepted iff `initial_source_connection_id` equals the source
connection ID of the first packet processed (`handshakeDestConnID`) and — for a client —
`original_destination_connection_id` equals the destination of the very first Initial and
`retry_source_connection_id` is present-and-equal exactly when a Retry was accepted. -/
theorem cid_authentication (s : GateState) (p : CIDParams) :
    checkTransportParameters s p = none ↔
      p.initialSourceConnectionID = s.handshakeDestConnID ∧
      (s.perspective = .client →
        p.originalDestinationConnectionID = s.origDestConnID ∧ p.retrySourceConnectionID = s.retrySrcConnID) := by
  unfold checkTransportParameters
  by_cases h1 : p.initialSourceConnectionID = s.handshakeDestConnID
  · by_cases h2 : s.perspective = .server
    · simp [h1, h2]
    · have hc : s.perspective = .client := by cases hp : s.perspective <;> simp_all
      by_cases h3 : p.originalDestinationConnectionID = s.origDestConnID
      · cases hr : s.retrySrcConnID <;> cases hq : p.retrySourceConnectionID <;> simp [h1, hc, h3, eq_comm]
      · simp [h1, hc, h3]
  · simp [h1]

/-- every rejection is a TRANSPORT_PARAMETER_ERROR -/
theorem cid_mismatch_is_transport_parameter_error (s : GateState) (p : CIDParams) :
    handleTransportParameters s p = .accepted ∨ handleTransportParameters s p = .transportParameterError := by
  unfold handleTransportParameters; split <;> simp

/-- What the client compares against is fixed by genuine events only: over any datagram sequence from a
fresh client connection, `origDestConnID` is the destination ID the client chose, and
`retrySrcConnID` is set iff a Retry was accepted. -/
theorem auth_inputs_fixed (dcid : CID) (v : Nat) (sup : List Nat) (neg : Bool) (ds : List (List PacketSummary)) :
    (runDatagrams (GateState.newClient dcid v sup neg) ds).1.origDestConnID = dcid ∧
    ((runDatagrams (GateState.newClient dcid v sup neg) ds).1.retrySrcConnID.isSome =
      (runDatagrams (GateState.newClient dcid v sup neg) ds).1.receivedRetry) := by
  let P : GateState → Prop := fun t => t.origDestConnID = dcid ∧ t.retrySrcConnID.isSome = t.receivedRetry
  have hP : ∀ t p, P t → P (gate t p).1 := by
    intro t p ⟨h1, h2⟩
    have hk := gate_stepKind t p
    generalize (gate t p).1 = t' at hk
    generalize (gate t p).2 = a at hk
    cases hk with
    | drop r => exact ⟨h1, h2⟩
    | buffer => exact ⟨h1, h2⟩
    | retry => exact ⟨h1, rfl⟩
    | recreate v => exact ⟨h1, h2⟩
    | fail => exact ⟨h1, h2⟩
    | processLong fatal =>
      have := firstPacket_core t p
      exact ⟨by rw [this.2.2.2.2.2.2.1]; exact h1, by rw [this.2.2.2.2.2.2.2, this.2.2.2.2.1]; exact h2⟩
    | processShort fatal => exact ⟨h1, h2⟩
  exact runDatagrams_preserves P hP ds _ ⟨rfl, rfl⟩

/-! ## 6. the handshake deadline -/

/-- While the handshake is incomplete the timer set by `maybeResetTimer` never lies beyond
`creationTime + handshakeTimeout` nor beyond `idleStart + HandshakeIdleTimeout`; and the check the run
loop performs when it wakes at or after that deadline closes the connection — with HandshakeTimeoutError
when the handshake timeout has passed, else with IdleTimeoutError — and never lets it continue.
(`handshakeTimeout = handshakeTimeoutFactor * HandshakeIdleTimeout`, the factor regenerated from config.go;
keep-alive not due, as with the default `KeepAlivePeriod = 0`.) -/
theorem deadline_bounded (c : Clock) (a : Alarms) (b : Blocked) :
    maybeResetTimer c a b ≤ c.creationTime + c.handshakeTimeout ∧
    maybeResetTimer c a b ≤ c.idleStart + c.handshakeIdleTimeout ∧
    (∀ now, now ≥ c.creationTime + c.handshakeTimeout → postWake c now = .handshakeTimeout) ∧
    (∀ now, now < c.creationTime + c.handshakeTimeout → now ≥ c.idleStart + c.handshakeIdleTimeout →
      postWake c now = .idleTimeout) ∧
    (∀ now, now ≥ c.handshakeDeadline → postWake c now ≠ .continue) ∧
    (∀ now, postWake c now = .continue → now < c.creationTime + c.handshakeTimeout ∧ now < c.idleStart + c.handshakeIdleTimeout) := by
  have h1 := maybeResetTimer_le c a b
  have h2 := handshakeDeadline_le c
  refine ⟨by omega, by omega, ?_, ?_, ?_, ?_⟩
  · intro now hn
    unfold postWake
    have : now - c.creationTime ≥ c.handshakeTimeout := by omega
    simp [this]
  · intro now hn hi
    unfold postWake
    have h3 : ¬ now - c.creationTime ≥ c.handshakeTimeout := by omega
    have h4 : now - c.idleStart ≥ c.handshakeIdleTimeout := by omega
    simp [h3, h4]
  · intro now hn
    unfold postWake
    simp only [Bool.false_eq_true, ite_false]
    rcases handshakeDeadline_eq c with e | e
    · have : now - c.creationTime ≥ c.handshakeTimeout := by omega
      simp [this]
    · by_cases h3 : now - c.creationTime ≥ c.handshakeTimeout
      · simp [h3]
      · have h4 : now - c.idleStart ≥ c.handshakeIdleTimeout := by omega
        simp [h3, h4]
  · intro now hc
    unfold postWake at hc
    simp only [Bool.false_eq_true, ite_false] at hc
    by_cases h3 : now - c.creationTime ≥ c.handshakeTimeout
    · simp [h3] at hc
    · by_cases h4 : now - c.idleStart ≥ c.handshakeIdleTimeout
      · simp [h3, h4] at hc
      · omega

/-- with the regenerated factor the handshake timeout is twice the handshake idle timeout, so a dial
cannot outlive `2 * HandshakeIdleTimeout` per attempt -/
theorem handshake_timeout_value (c : Clock) : c.handshakeTimeout = 2 * c.handshakeIdleTimeout := by
  simp [Clock.handshakeTimeout, handshakeTimeoutFactor, Uquic.Gen.Gate.handshakeTimeoutFactor]

example : postWake { creationTime := 100, lastPacketReceivedTime := 100, firstAckElicitingSent := 100,
                     handshakeIdleTimeout := defaultHandshakeIdleTimeout } (100 + 5000000000) = .idleTimeout := by decide

/-! ## 6b. a cancelled dial returns -/

open DialCancel in
/-- Dial never hangs on cancellation: once the dial context is cancelled and `conn.destroy(nil)` was issued, then
— however the run loop ends (ordinary error, or errCloseForRecreating because it was just acting on a Version
Negotiation packet) — after the run loop returned and its goroutine reported, the cancelled `doDial` (Transport's and
UTransport's, with the channels they really listen on, regenerated from the source) returns within two of its own
steps, in every interleaving that follows. If either function stops listening on one of the two channels this
theorem no longer compiles (`cancel_needs_both_channels` is the counterexample). -/
theorem dial_cancel_returns (spec : Bool) (e : RunEnd) (s : St)
    (h1 : s.runEnded = some e) (h2 : s.signalled = true) (hp : s.pc ≠ .returned) :
    (run (waitsOf spec) s [.dialStep, .dialStep]).pc = .returned := by
  have hw : (waitsOf spec).contains e.chan = true := by
    cases spec <;> cases e <;>
      simp [waitsOf, RunEnd.chan, Uquic.Gen.Gate.cancelWaitUTransport, Uquic.Gen.Gate.cancelWaitTransport]
  have hm : e.chan ∈ waitsOf spec := by simpa using hw
  cases hpc : s.pc with
  | returned => exact absurd hpc hp
  | destroying => simp [run, step, hpc, h1, h2, hm]
  | waiting => simp [run, step, hpc, h1, h2, hm]

open DialCancel in
/-- … and nothing that can still happen afterwards un-returns it or blocks it: from any state, any continuation
that contains the run loop's end, the goroutine's report and then two steps of doDial ends returned. -/
theorem dial_cancel_returns_run (spec : Bool) (e : RunEnd) :
    (run (waitsOf spec) {} [.runReturns e, .goroutineSignals, .dialStep, .dialStep]).pc = .returned := by
  cases spec <;> cases e <;>
    simp [run, step, waitsOf, RunEnd.chan, Uquic.Gen.Gate.cancelWaitUTransport, Uquic.Gen.Gate.cancelWaitTransport]

open DialCancel in
/-- listening on errChan only is not enough: if the run loop ends for re-creation, the dial waits for ever -/
theorem cancel_needs_both_channels (n : Nat) :
    (run ["errChan"] {} ([.runReturns .recreate, .goroutineSignals] ++ List.replicate n .dialStep)).pc ≠ .returned := by
  have : ∀ (n : Nat) (s : St), s.runEnded = some .recreate → s.pc ≠ .returned →
      (run ["errChan"] s (List.replicate n .dialStep)).pc ≠ .returned := by
    intro n
    induction n with
    | zero => intro s _ hp; simpa [run] using hp
    | succ k ih =>
      intro s hr hp
      simp only [List.replicate_succ, run]
      apply ih
      · cases hpc : s.pc <;> simp [step, hpc, hr, RunEnd.chan]
      · cases hpc : s.pc <;> simp_all [step, RunEnd.chan]
  simpa [run, step] using this n _ (by simp [step]) (by simp [step])

/-! ## 7. rejected 0-RTT is discarded -/

open ZeroRTT in
/-- When 0-RTT is rejected, `DropPackets(0-RTT)` removes EVERY 0-RTT packet from the sent-packet history
(exactly those: the 1-RTT packets stay), takes their bytes out of bytes-in-flight, calls no frame callback
(no OnAcked / OnLost: nothing is retransmitted by the transport) and does not panic — provided the
accounting invariant holds and 0-RTT packets precede 1-RTT packets, as packet numbers do. -/
theorem zero_rtt_reject_discards (s : Sent) (hacc : zeroRTTInFlight s.history ≤ s.bytesInFlight)
    (hord : zeroRTTFirst s.history) :
    ∃ s', s.dropZeroRTT = some s' ∧
      (∀ q ∈ s'.history, q.level ≠ .zeroRTT) ∧
      s'.history = s.history.filter (fun q => q.level ≠ .zeroRTT) ∧
      s'.bytesInFlight = s.bytesInFlight - zeroRTTInFlight s.history ∧
      s'.callbacks = s.callbacks := by
  obtain ⟨h', e1, e2, e3⟩ := dropLoop_spec s.history s.bytesInFlight hacc hord
  refine ⟨{ s with history := h', bytesInFlight := s.bytesInFlight - zeroRTTInFlight s.history }, ?_, e2, e3, rfl, rfl⟩
  simp [Sent.dropZeroRTT, e1]

open ZeroRTT in
/-- `ResetFor0RTT`: every stream that was open is closed with Err0RTTRejected (unless it already carried
an error), the maps are back to their initial (empty) state, and every Open…/Accept… call answers
Err0RTTRejected until `UseResetMaps` (i.e. `NextConnection`) — only the application can resend. -/
theorem zero_rtt_reject_closes_streams (m : StreamsMap) :
    (m.resetFor0RTT).live = [] ∧
    (m.resetFor0RTT).openCheck = some .zeroRTTRejected ∧
    (∀ st ∈ m.live, st.closedWith = none →
      { st with closedWith := some StreamErr.zeroRTTRejected } ∈ (m.resetFor0RTT).detached) ∧
    (∀ st ∈ (m.resetFor0RTT).detached, st ∈ m.detached ∨ st.closedWith.isSome) ∧
    ((m.resetFor0RTT).useResetMaps).openCheck = none := by
  refine ⟨rfl, rfl, ?_, ?_, rfl⟩
  · intro st hst hc
    simp only [StreamsMap.resetFor0RTT, List.mem_append, List.mem_map]
    right
    exact ⟨st, hst, by simp [hc]⟩
  · intro st hst
    simp only [StreamsMap.resetFor0RTT, List.mem_append, List.mem_map] at hst
    rcases hst with h | ⟨x, _, rfl⟩
    · exact Or.inl h
    · right; cases hx : x.closedWith <;> simp [hx]

open ZeroRTT in
example : (Sent.dropZeroRTT { history := [⟨0, .zeroRTT, 1200, true⟩, ⟨1, .zeroRTT, 300, false⟩, ⟨2, .oneRTT, 50, true⟩],
                              bytesInFlight := 1250 }) =
    some { history := [⟨2, .oneRTT, 50, true⟩], bytesInFlight := 50 } := by decide

end Uquic.Props.C13
