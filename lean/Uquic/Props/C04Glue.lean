/-
Property C04, the glue: "a receiver answers the first byte beyond the limits it announced with
FLOW_CONTROL_ERROR" — at the level of a PACKET.  The frame that is the first to go beyond the stream's
or the connection's receive window decides what the connection is closed with, whatever frames follow
it in the same packet, with qlog tracing on or off.

Model: `Uquic.Model.FlowGlue` — the frame loop of `Conn.handleFrames` (the C15 `frameLoop`, whose
per-branch skip guards are regenerated from connection.go: `Uquic.Gen.Streams.skipGuards`) around the
C04 flow-control model (`UpdateHighestReceived` for STREAM / RESET_STREAM, `UpdateSendWindow` for
MAX_STREAM_DATA / MAX_DATA).  Tied to the Go code by the `pkt` operation of the `flowcall` driver (real
constructors, real `handleShortHeaderPacket` → `handleFrames`, monitor `packet_first_violation_reported`).
-/
import Uquic.Props.C04
import Uquic.Proofs.FlowGlue

set_option linter.unusedSimpArgs false
set_option linter.unusedVariables false

namespace Uquic.Props.C04Glue
open Uquic.Model.FlowControl Uquic.Model.FlowGlue Uquic.Proofs.FlowGlue
open Uquic.Model.Streams (frameLoop handleFramesG firstErrorSpec)
open Uquic.Props.C04 (finalSizeViolation beyondLimits receiver_exact_step)

/-! ## 1. the packet loop -/

/-- **packet_first_error_wins.**  `Conn.handleFrames`, traced or not: the frames of a packet are handled
    in order up to and including the first one whose handler fails; no later frame is handled; the
    packet's result is that frame's error.  Rests on the regenerated fact that every dispatch branch of
    `handleFrames` (the STREAM fast path and `handleFrame`) has its skip guard. -/
theorem packet_first_error_wins (now : Int) (trace : Bool) (s : State) (fs : List PFrame) :
    handlePacket now trace s fs = firstErrorSpec (handleOne now) s fs :=
  Uquic.Proofs.Streams.frameLoop_eq_spec (handleOne now) PFrame.guarded trace all_guarded fs s

/-- tracing (qlog) changes neither the answer nor the state of the flow controllers -/
theorem tracing_changes_nothing (now : Int) (s : State) (fs : List PFrame) :
    handlePacket now true s fs = handlePacket now false s fs := by
  rw [packet_first_error_wins, packet_first_error_wins]

/-- **offending_frame_decides.**  If the frames `pre` of a packet are handled without error (leaving the
    controllers in state `s1`) and the next frame `f` is answered with error `e`, then the whole packet
    `pre ++ f :: post` is answered with `e` and the controllers are left exactly as `f` left them — for
    EVERY tail `post` and with tracing on or off. -/
theorem offending_frame_decides (now : Int) (trace : Bool) (s s1 : State) (pre post : List PFrame) (f : PFrame)
    (e : PErr) (hpre : firstErrorSpec (handleOne now) s pre = (s1, none)) (hf : (handleOne now s1 f).2 = some e) :
    handlePacket now trace s (pre ++ f :: post) = ((handleOne now s1 f).1, some e) := by
  rw [packet_first_error_wins, spec_append_none (handleOne now) pre (f :: post) s s1 hpre,
    spec_cons_some (handleOne now) s1 f post e hf]

/-! ## 2. which error a frame is answered with -/

/-- a STREAM frame reaching stream `id`: FLOW_CONTROL_ERROR exactly when it respects the final size and
    raises the highest offset beyond the stream's window or — counting the increment at connection
    level — the connection's; FINAL_SIZE_ERROR exactly when it contradicts the final size -/
theorem stream_frame_error (now : Int) (s : State) (id : Nat) (e : Int) (fin : Bool) (st : Stream)
    (hs : s.streams[id]? = some st) :
    ((handleOne now s (.stream id e fin)).2 = some .flowControl ↔
      (¬ finalSizeViolation st e fin ∧ beyondLimits st s.conn e)) ∧
    ((handleOne now s (.stream id e fin)).2 = some .finalSize ↔ finalSizeViolation st e fin) ∧
    ((handleOne now s (.stream id e fin)).2 = none ↔ (¬ finalSizeViolation st e fin ∧ ¬ beyondLimits st s.conn e)) := by
  obtain ⟨r, hr, h1, h2, h3⟩ := receiver_exact_step hs e fin now
  simp only [handleOne, hr]
  cases r <;> simp [errOf] at * <;> simp [*]

/-- the same for RESET_STREAM: its final size is judged like a FIN at that offset -/
theorem reset_frame_error (now : Int) (s : State) (id : Nat) (fs : Int) (st : Stream)
    (hs : s.streams[id]? = some st) :
    ((handleOne now s (.reset id fs)).2 = some .flowControl ↔
      (¬ finalSizeViolation st fs true ∧ beyondLimits st s.conn fs)) ∧
    ((handleOne now s (.reset id fs)).2 = some .finalSize ↔ finalSizeViolation st fs true) := by
  obtain ⟨r, hr, h1, h2, h3⟩ := receiver_exact_step hs fs true now
  simp only [handleOne, hr]
  cases r <;> simp [errOf] at * <;> simp [*]

/-- frames that carry credit or nothing never fail -/
theorem credit_frames_never_fail (now : Int) (s : State) (f : PFrame)
    (hf : (∃ id v, f = .maxStreamData id v) ∨ (∃ v, f = .maxData v) ∨ f = .other) :
    (handleOne now s f).2 = none := by
  rcases hf with ⟨id, v, rfl⟩ | ⟨v, rfl⟩ | rfl <;> rfl

/-! ## 3. the sentence of the property, at packet level -/

/-- **packet_flow_control_error.**  Frames `pre` handled without error; then a STREAM frame for stream
    `id` that respects the final size but raises the highest offset above the stream's or the
    connection's receive window: the packet is answered with FLOW_CONTROL_ERROR — whatever follows the
    offending frame in the packet, traced or not. -/
theorem packet_flow_control_error (now : Int) (trace : Bool) (s s1 : State) (pre post : List PFrame)
    (id : Nat) (e : Int) (fin : Bool) (st : Stream)
    (hpre : firstErrorSpec (handleOne now) s pre = (s1, none)) (hs : s1.streams[id]? = some st)
    (hok : ¬ finalSizeViolation st e fin) (hb : beyondLimits st s1.conn e) :
    (handlePacket now trace s (pre ++ .stream id e fin :: post)).2 = some .flowControl := by
  rw [offending_frame_decides now trace s s1 pre post _ _ hpre
    ((stream_frame_error now s1 id e fin st hs).1.mpr ⟨hok, hb⟩)]

/-- **packet_reset_flow_control_error.**  The same for a RESET_STREAM whose final size lies beyond the
    limits (RFC 9000 §4.5: the final size counts against flow control). -/
theorem packet_reset_flow_control_error (now : Int) (trace : Bool) (s s1 : State) (pre post : List PFrame)
    (id : Nat) (fs : Int) (st : Stream)
    (hpre : firstErrorSpec (handleOne now) s pre = (s1, none)) (hs : s1.streams[id]? = some st)
    (hok : ¬ finalSizeViolation st fs true) (hb : beyondLimits st s1.conn fs) :
    (handlePacket now trace s (pre ++ .reset id fs :: post)).2 = some .flowControl := by
  rw [offending_frame_decides now trace s s1 pre post _ _ hpre
    ((reset_frame_error now s1 id fs st hs).1.mpr ⟨hok, hb⟩)]

/-- **packet_final_size_error.**  … and a STREAM frame contradicting the final size: FINAL_SIZE_ERROR. -/
theorem packet_final_size_error (now : Int) (trace : Bool) (s s1 : State) (pre post : List PFrame)
    (id : Nat) (e : Int) (fin : Bool) (st : Stream)
    (hpre : firstErrorSpec (handleOne now) s pre = (s1, none)) (hs : s1.streams[id]? = some st)
    (hv : finalSizeViolation st e fin) :
    (handlePacket now trace s (pre ++ .stream id e fin :: post)).2 = some .finalSize := by
  rw [offending_frame_decides now trace s s1 pre post _ _ hpre
    ((stream_frame_error now s1 id e fin st hs).2.1.mpr hv)]

/-- **packet_within_limits_accepted.**  Conversely a packet is refused only if one of its frames is: when
    every frame is accepted in whatever state it meets, so is the packet. -/
theorem packet_within_limits_accepted (now : Int) (trace : Bool) (s : State) (fs : List PFrame)
    (hall : ∀ s' f, f ∈ fs → (handleOne now s' f).2 = none) :
    (handlePacket now trace s fs).2 = none := by
  rw [packet_first_error_wins]
  exact spec_all_none (handleOne now) fs s hall

/-! ## 4. the guards are needed, and the hypotheses are satisfiable -/

/-- a connection window of 1000 and two streams with a window of 100 each -/
def exState : State := run (State.init 1000 2000 false) [.newStream 100 200 0, .newStream 100 200 0]

/-- **skip_guard_needed.**  With the STREAM branch unguarded, a TRACED packet
    [STREAM one byte beyond stream 0's window, a harmless STREAM frame for stream 1] is answered with no
    error at all (the second frame's `nil` overwrites `handleErr`), untraced it is refused; the guarded
    loop refuses it either way. -/
theorem skip_guard_needed :
    (handleFramesG (handleOne 5) (fun f => f.branch != "stream") true exState
        [.stream 0 101 false, .stream 1 50 false]).2 = none ∧
    (handleFramesG (handleOne 5) (fun f => f.branch != "stream") false exState
        [.stream 0 101 false, .stream 1 50 false]).2 = some .flowControl ∧
    (handleFramesG (handleOne 5) (fun _ => true) true exState
        [.stream 0 101 false, .stream 1 50 false]).2 = some .flowControl := by
  decide

/-- one packet [MAX_DATA, data up to stream 0's limit, PING, one byte beyond stream 1's limit, more data,
    MAX_STREAM_DATA], traced: FLOW_CONTROL_ERROR -/
example :
    (handlePacket 5 true exState
      [.maxData 10, .stream 0 100 false, .other, .stream 1 101 false, .stream 0 100 true, .maxStreamData 0 7]).2
      = some .flowControl := by
  decide

/-- … and data beyond the CONNECTION window, spread over two packets and two streams, although each
    stream stays within its own window -/
example :
    let s0 := run (State.init 150 2000 false) [.newStream 100 200 0, .newStream 100 200 0]
    let s1 := (handlePacket 5 false s0 [.stream 0 100 false]).1
    (handlePacket 6 true s1 [.other, .stream 1 51 false, .other]).2 = some .flowControl ∧
    (handlePacket 6 true s1 [.other, .stream 1 50 false, .other]).2 = none := by
  decide

example := packet_flow_control_error 5 true exState exState [] [.stream 1 50 false] 0 101 false
  (Stream.new 100 200 0) (by rfl) (by decide) (by unfold finalSizeViolation; decide) (by unfold beyondLimits; decide)

/-! ## 5. state carried across a 0-RTT rejection -/

open Uquic.Proofs.Flow in
/-- **zero_rtt_rejection_only_new_limits.**  A resuming client sends 0-RTT data under REMEMBERED limits.  When
    the server rejects 0-RTT (`dropEncryptionLevel(0-RTT)`: every stream is discarded, `connFlowController.Reset`)
    nothing remembered survives: for every later history the connection send window is exactly the largest
    MAX_DATA seen SINCE the rejection (the server's new `initial_max_data` arrives as one), starting from 0, and
    the bytes counted as sent never exceed it. -/
theorem zero_rtt_rejection_only_new_limits {s : State} (h : Reach s) (hr : (step s .reset).2 = .resetOk)
    (ops : List Op) (hv : ValidFrom (step s .reset).1 ops) (hn : ∀ op ∈ ops, op ≠ .reset) :
    (step s .reset).1.streams = [] ∧ (step s .reset).1.conn.bytesSent = 0 ∧
    (run (step s .reset).1 ops).conn.sendWindow = Uquic.Props.C04.largestMaxData 0 ops ∧
    (run (step s .reset).1 ops).conn.bytesSent ≤ Uquic.Props.C04.largestMaxData 0 ops := by
  have h1 : Reach (step s .reset).1 := Reach.step .reset h trivial
  have hz : (step s .reset).1.streams = [] ∧ (step s .reset).1.conn.bytesSent = 0 ∧
      (step s .reset).1.conn.sendWindow = 0 := by
    simp only [step, stepT] at hr ⊢
    cases hc : Conn.reset s.conn with
    | none => rw [hc] at hr; cases hr
    | some c =>
      simp only []
      unfold Conn.reset at hc
      split at hc
      · cases hc
      · cases hc; simp
  have hw := Uquic.Props.C04.send_window_is_largest_seen h1 ops hv hn
  rw [hz.2.2] at hw
  have hb := (Uquic.Props.C04.sender_within_credit (h1.run ops hv)).2.2
  exact ⟨hz.1, hz.2.1, hw, by rw [← hw]; exact hb⟩

/-- remembered limit 1000, 600 bytes sent in 0-RTT, rejection, new `initial_max_data` 100: the window is 100 -/
example :
    let s := run { State.init 1200 6000 false with rtt := 1 } [.cmax 1000, .newStream 10 10 1000, .sent 0 600]
    (step s .reset).2 = .resetOk ∧ (run (step s .reset).1 [.cmax 100]).conn.sendWindow = 100 ∧
      (run (step s .reset).1 [.cmax 100]).conn.bytesSent = 0 := by
  decide

end Uquic.Props.C04Glue
