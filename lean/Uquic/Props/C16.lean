import Uquic.Model.ConnID.Routing
namespace Uquic.Props.C16
theorem placeholder : (1 : Nat) = 1 := rfl
end Uquic.Props.C16
