/-
Property C16 — connection IDs: limits both ways, retirements reported, routing clean.

Models: `Uquic.Model.ConnID.Manager` (conn_id_manager.go, u_conn_id_manager.go), `Generator` (conn_id_generator.go),
`Routing` (transport.go packetHandlerMap, closed_conn.go). The theorems quantify over arbitrary operation histories
(induction over the list of operations); the only hypotheses are what the callers in /repo guarantee (`OpValid`:
Retire Prior To ≤ Sequence Number as enforced by the frame parser; the preferred address and the server's reset token
arrive once, with the transport parameters) and, for routing, that the application's ConnectionIDGenerator returns
fresh connection IDs.
-/
import Uquic.Proofs.ConnIDTokens
import Uquic.Proofs.ConnIDAccept
import Uquic.Proofs.ConnIDClose
import Uquic.Proofs.ConnIDRpt
import Uquic.Proofs.ConnIDPaths

namespace Uquic.Props.C16
open Uquic.Model.ConnID Uquic.Proofs.ConnID

/-! ## the peer's connection IDs (connIDManager) -/

/-- The queue is strictly ascending, every queued sequence number is above the active one and above every number ever
    used for path probing, none is below the retirement floor, and no sequence number is held in two places. -/
theorem queue_wf {m : Manager} (h : Reach m) :
    SortedQ m.queue ∧
    (∀ e ∈ m.queue, m.activeSeq < e.seq ∧ m.highestProbing < e.seq ∧ m.highestRetired ≤ e.seq) ∧
    (∀ pe ∈ m.probing, pe.2.seq ≠ m.activeSeq ∧ pe.2.seq ≤ m.highestProbing) ∧
    (inUse m).Nodup := by
  have hi := reach_inv h
  exact ⟨hi.sorted, fun e he => ⟨hi.q_gt_active e he, hi.q_gt_hp e he, hi.q_ge_hr e he⟩,
    fun pe hpe => ⟨hi.p_ne_active pe hpe, hi.p_le_hp pe hpe⟩, inv_nodup hi⟩

/-- Ledger: in every step from a reachable state, each sequence number is in exactly one place; a number that leaves
    {active} ∪ queue ∪ path-probing does so with a RETIRE_CONNECTION_ID; a number delivered by the peer is either kept
    or answered with RETIRE_CONNECTION_ID (unless the frame itself is a PROTOCOL_VIOLATION); RETIRE_CONNECTION_ID is
    never queued for a number that stays in use, and never twice in one step. -/
theorem every_retirement_reported {m : Manager} (h : Reach m) (op : Op) (hv : OpValid m op) :
    (inUse (m.step op).1).Nodup ∧
    (∀ s ∈ inUse m, s ∉ inUse (m.step op).1 → Ev.retire s ∈ (m.step op).2.1) ∧
    (∀ r, opRcv op = some r → (m.step op).2.2 ≠ .err .protocolViolation →
        r ∈ inUse (m.step op).1 ∨ Ev.retire r ∈ (m.step op).2.1) ∧
    (∀ s, Ev.retire s ∈ (m.step op).2.1 → s ∉ inUse (m.step op).1) ∧
    (retiredIn (m.step op).2.1).Nodup := by
  have S := step_spec op (reach_inv h) hv
  exact ⟨inv_nodup S.1.inv, S.1.leave, S.2, fun s hs => (S.1.gone s hs).1, S.1.nodup⟩

/-- Once RETIRE_CONNECTION_ID was queued for a sequence number, that number is never in use again — whatever the peer
    sends afterwards (retransmissions, reordering, Retire Prior To, conflicting contents). -/
theorem retired_never_reused (dest : Bytes) (ops1 ops2 : List Op) (hv : ValidRun (Manager.new dest) (ops1 ++ ops2))
    (s : Nat) (hs : Ev.retire s ∈ ((Manager.new dest).run ops1).2) :
    s ∉ inUse ((Manager.new dest).run (ops1 ++ ops2)).1 := by
  obtain ⟨hv1, hv2⟩ := validRun_append hv
  have h1 := retired_stay_out (inv_new dest) [] (by simp) hv1
  have hi1 := reach_inv (reach_run (Reach.init dest) hv1)
  rw [run_append]
  simp only
  refine (retired_stay_out hi1 (retiredIn ((Manager.new dest).run ops1).2) ?_ hv2 s (Or.inl (mem_retiredIn.mpr hs))).2
  intro x hx
  exact h1 x (Or.inr (mem_retiredIn.mp hx))

/-- Retire Prior To is honoured (RFC 9000 §5.1.2, §19.15): when `Add` has processed a NEW_CONNECTION_ID frame without
    closing the connection for a frame-level reason (result ok, or CONNECTION_ID_LIMIT_ERROR raised after processing) and the
    frame was not answered by one of the early exits (duplicate of a path-probing ID; reordered / already retired
    sequence number, which is retired at once), no sequence number below the frame's Retire Prior To is in use any more
    — neither queued, nor assigned to a probed path, nor active: the code rotates away from an active ID below Retire
    Prior To in the same call, a replacement always exists (at least the frame's own connection ID). -/
theorem retire_prior_to_honoured {m : Manager} (h : Reach m) (seq rpt : Nat) (id tok : Bytes) (draw : Nat)
    (hv : rpt ≤ seq) (hz : m.activeID ≠ [])
    (hp : (m.probing.any fun pe => pe.2.seq == seq) = false) (hr : m.retireNow seq = false)
    (hok : (m.addFrame seq rpt id tok draw).2.2 = .ok ∨ (m.addFrame seq rpt id tok draw).2.2 = .err .limitError) :
    ∀ s ∈ inUse (m.addFrame seq rpt id tok draw).1, rpt ≤ s := by
  have F := addFrame_state m seq rpt id tok draw
  rw [F.1]
  apply add_rpt seq rpt id tok draw (reach_inv h) hv hz hp hr
  -- the result of `add` was ok in both cases
  have hnl := add_no_limit m seq rpt id tok draw
  unfold Manager.addFrame at hok
  simp only at hok
  split at hok
  · assumption
  · rename_i hne
    rcases hok with hok | hok
    · exact absurd hok hne
    · exact absurd hok hnl

/-- In particular for every frame that carries a sequence number above everything the manager holds or has retired
    (a frame that is neither a retransmission nor reordered): its Retire Prior To is always honoured. -/
theorem retire_prior_to_honoured_new_highest {m : Manager} (h : Reach m) (seq rpt : Nat) (id tok : Bytes) (draw : Nat)
    (hv : rpt ≤ seq) (hz : m.activeID ≠ []) (hnew : Enter m seq)
    (hok : (m.addFrame seq rpt id tok draw).2.2 = .ok ∨ (m.addFrame seq rpt id tok draw).2.2 = .err .limitError) :
    ∀ s ∈ inUse (m.addFrame seq rpt id tok draw).1, rpt ≤ s :=
  let e := enter_no_early_exit (reach_inv h) hnew
  retire_prior_to_honoured h seq rpt id tok draw hv hz e.1 e.2 hok

/-- Stateless reset tokens: after any history the add/remove callbacks have registered exactly (as a multiset) the
    tokens of the active and the path-probing connection IDs. -/
theorem tokens_exact (dest : Bytes) (ops : List Op) (hv : ValidRun (Manager.new dest) ops) :
    (regAfter [] ((Manager.new dest).run ops).2).Perm (expectedToks ((Manager.new dest).run ops).1) :=
  run_tok (inv_new dest) hv [] (by simp [expectedToks, Manager.new, optToks])

/-- After `Close` no stateless reset token stays registered. -/
theorem tokens_clean_after_close (dest : Bytes) (ops : List Op) (hv : ValidRun (Manager.new dest) ops)
    (hc : ((Manager.new dest).run ops).1.closed = true) :
    regAfter [] ((Manager.new dest).run ops).2 = [] := by
  have := tokens_exact dest ops hv
  simp only [expectedToks, hc, ↓reduceIte] at this
  exact List.Perm.eq_nil this

/-- `updateConnectionID` is never reached with an empty queue (`h.queue[0]` cannot panic): an open manager does not
    panic at all, except for the two documented caller errors. -/
theorem updateConnectionID_nonempty {m : Manager} (h : Reach m) (hc : m.closed = false) (op : Op) (hv : OpValid m op)
    (hop : ∀ t, op ≠ .setTok t) (hop2 : ∀ i, op ≠ .changeInitial i) : (m.step op).2.2 ≠ .panic :=
  no_panic (reach_inv h) hc op hv hop hop2

/-! ## accepting what was advertised -/

/-- The shape of the code the next theorems rest on (regenerated from /repo): `Add` compares the queue length by `>=` with
    max(const, connIDLimit), `SetConnectionIDLimit` stores its argument, the spec-driven client passes the limit its
    spec advertises, the expiry callback of `ReplaceWithClosed` deletes only entries that still hold its own stand-in. -/
theorem shape_facts :
    Uquic.Gen.ConnID.enforcedBoundIsGE = true ∧ Uquic.Gen.ConnID.enforcedBoundUsesConnIDLimit = true ∧ Uquic.Gen.ConnID.setConnectionIDLimitStores = true ∧
    Uquic.Gen.ConnID.specClientSetsConnIDLimit = true ∧ Uquic.Gen.ConnID.expiryDeletesOnlyOwnHandler = true ∧
    Uquic.Gen.ConnID.serverGeneratorTracksRoutedIDs = true := by decide

/-- Full strength: whatever limit `adv` the endpoint advertised — the plain constant, or the limit of a QUIC spec
    recorded with `SetConnectionIDLimit` — a NEW_CONNECTION_ID frame after which at most `adv` connection IDs are in
    use is never answered with CONNECTION_ID_LIMIT_ERROR. Holds in every state. -/
theorem accept_within_advertised (m : Manager) (seq rpt : Nat) (id tok : Bytes) (draw : Nat) (adv : Nat)
    (hadv : adv ≤ max maxActiveConnectionIDs m.connIDLimit)
    (hcount : (inUse (m.addFrame seq rpt id tok draw).1).length ≤ adv) :
    (m.addFrame seq rpt id tok draw).2.2 ≠ .err .limitError :=
  accept_within m seq rpt id tok draw adv hadv hcount

/-- the plain endpoint: every `ActiveConnectionIDLimit:` literal of its transport parameters is within the bound -/
theorem accept_plain_endpoint :
    ∀ a ∈ Uquic.Gen.ConnID.advertisedLimitCallSites, a.toNat ≤ max maxActiveConnectionIDs 0 := by decide

/-- the spec-driven client: a spec that advertises `L` (0 = parameter absent, the peer then assumes the default)
    records `L`, and what the peer may use is within the bound -/
theorem accept_spec_client (L : Nat) :
    (if L = 0 then Uquic.Gen.Protocol.DefaultActiveConnectionIDLimit.toNat else L)
      ≤ max maxActiveConnectionIDs ((Manager.new []).setConnectionIDLimit L).connIDLimit := by
  simp only [Manager.setConnectionIDLimit]
  split
  · have : Uquic.Gen.Protocol.DefaultActiveConnectionIDLimit.toNat ≤ maxActiveConnectionIDs := by decide
    omega
  · omega

/-- the built-in parrots: each advertised limit is accepted once recorded -/
theorem accept_parrots :
    ∀ a ∈ Uquic.Gen.ConnID.parrotAdvertisedLimits,
      a.toNat ≤ max maxActiveConnectionIDs ((Manager.new []).setConnectionIDLimit a.toNat).connIDLimit := by decide

/-! ## our connection IDs (connIDGenerator) -/

/-- The number of issued and unretired connection IDs never exceeds min(peer limit, MaxIssuedConnectionIDs) (at least
    the handshake connection ID), for every history in which SetMaxActiveConnIDs carries the peer's limit `L`. -/
theorem issue_within_peer_limit (mk : Nat → Bytes) (idLen : Nat) (initial : Bytes) (cd : Option Bytes) (L : Nat)
    (ops : List GOp) (hl : LimitIs L ops) :
    ((Generator.new idLen initial cd).run mk ops).1.active.length ≤ max 1 (min L maxIssuedConnectionIDs) :=
  run_bound mk L (by simp [Generator.new, issueBound]; omega) hl

/-- Retiring an unissued sequence number, or the connection ID the frame arrived on, is a PROTOCOL_VIOLATION and
    changes nothing. -/
theorem retire_rules (mk : Nat → Bytes) (g : Generator) (seq : Nat) (dest : Bytes) (expiry : Int) :
    (seq > g.highestSeq → g.retire mk seq dest expiry = (g, [], .err .protocolViolation)) ∧
    (seq ≤ g.highestSeq → lookupSeq seq g.active = some dest →
        g.retire mk seq dest expiry = (g, [], .err .protocolViolation)) := by
  refine ⟨?_, ?_⟩
  · intro h; simp [Generator.retire, h]
  · intro h hl
    have : ¬ seq > g.highestSeq := by omega
    simp [Generator.retire, this, hl]

/-- A retirement issues exactly one replacement, none for sequence number 0, none for a duplicate frame. -/
theorem retire_replacement (mk : Nat → Bytes) (g : Generator) (seq : Nat) (dest : Bytes) (expiry : Int)
    (h : (g.retire mk seq dest expiry).2.2 = .ok) :
    newFrames (g.retire mk seq dest expiry).2.1 =
      (if (lookupSeq seq g.active).isSome ∧ seq ≠ 0 then 1 else 0) := by
  unfold Generator.retire at h ⊢
  split
  · rename_i hgt; simp [hgt] at h
  · split
    · rename_i hnone; simp [newFrames, hnone]
    · rename_i id hl
      split
      · rename_i heq; simp_all
      · split
        · rename_i h0; simp [newFrames, h0]
        · rename_i h0; simp [newFrames, Generator.issueNewConnID, h0, hl]

/-! ## routing (packetHandlerMap) -/

/-- the handler map at connection setup: the handshake connection ID and (server) the client's original destination -/
def initialRouting (initial : Bytes) (cd : Option Bytes) : Routing :=
  match cd with
  | some c => (({} : Routing).add initial).add c
  | none => ({} : Routing).add initial

theorem initial_rinv (mk : Nat → Bytes) (idLen : Nat) (initial : Bytes) (cd : Option Bytes) (hne : cd ≠ some initial) :
    RInv mk (initial :: cd.toList) (Generator.new idLen initial cd) (initialRouting initial cd) := by
  cases cd with
  | none =>
    refine ⟨⟨?_, ?_, rfl⟩, ?_, ?_, ?_, ?_, ?_⟩ <;>
      simp [initialRouting, Routing.add, lookupH, keysOf, Generator.new, Generator.allIDs]
  | some c =>
    have hc : ¬ initial = c := fun h => hne (by rw [h])
    have hc' : ¬ c = initial := fun h => hc h.symm
    refine ⟨⟨?_, ?_, ?_⟩, ?_, ?_, ?_, ?_, ?_⟩ <;>
      simp [initialRouting, Routing.add, lookupH, keysOf, Generator.new, Generator.allIDs, hc, hc']
    · intro x; constructor
      · rintro (h | h); exact Or.inr h; exact Or.inl h
      · rintro (h | h); exact Or.inr h; exact Or.inl h

/-- Packets are routed to the connection for precisely its issued and not yet expired connection IDs: after any
    history of the generator (issuing, RETIRE_CONNECTION_ID frames, handshake completion, expiry of retired IDs) a
    packet reaches the connection iff its destination connection ID is one the generator still answers for — a retired
    and expired, or foreign, connection ID never reaches it. -/
theorem routing_exact (mk : Nat → Bytes) (idLen : Nat) (initial : Bytes) (cd : Option Bytes) (hne : cd ≠ some initial)
    (hf : FreshGen mk (initial :: cd.toList)) (ops : List GOp) (id : Bytes) :
    let s := runSys mk (Generator.new idLen initial cd) (initialRouting initial cd) ops
    ((s.2.deliver id).2 = Delivery.conn 0 ↔ id ∈ s.1.allIDs) := by
  intro s
  have h : RInv mk (initial :: cd.toList) s.1 s.2 := run_rinv hf (initial_rinv mk idLen initial cd hne)
  constructor
  · intro hd
    unfold Routing.deliver at hd
    split at hd
    · cases hd
    · rename_i hl
      exact (h.exact id).mp (List.mem_map.mpr ⟨_, lookupH_some_mem hl, rfl⟩)
    · cases hd
    · cases hd
  · intro hin
    have hk := (h.exact id).mpr hin
    obtain ⟨kv, hkv, rfl⟩ := List.mem_map.mp hk
    have hconn := h.map.allConn kv hkv
    have hl : lookupH kv.1 s.2.handlers = some (Handler.conn 0) := by
      apply lookupH_of_mem h.map.nodup
      rw [← hconn]
      exact hkv
    unfold Routing.deliver
    rw [hl]

/-- After the connection closes, every connection ID is removed once the closing period ends: `RemoveAll` (immediate
    close) leaves nothing at once; `ReplaceWithClosed` (local or remote close) maps every connection ID of the
    connection to the closed stand-in, no packet reaches any connection through them, and after the expiry no handler
    entry and no timer remains. The expiry removes exactly the closed connection's own stand-in entries: if another
    connection `c` registered one of these IDs in the meantime (with zero-length connection IDs every dial on the
    transport uses the empty ID), that entry — and only it — is still there afterwards and receives its packets. -/
theorem clean_after_close (mk : Nat → Bytes) (idLen : Nat) (initial : Bytes) (cd : Option Bytes) (hne : cd ≠ some initial)
    (hf : FreshGen mk (initial :: cd.toList)) (ops : List GOp) (localClose : Bool) (expiry : Int) :
    let s := runSys mk (Generator.new idLen initial cd) (initialRouting initial cd) ops
    let r1 := (s.1.replaceWithClosed localClose expiry).foldl Routing.applyG s.2
    (s.1.removeAll.foldl Routing.applyG s.2).handlers = [] ∧
    (∀ id ∈ s.1.allIDs, lookupH id r1.handlers = some (closedHandler s.2 localClose)) ∧
    (∀ id c, (r1.deliver id).2 ≠ Delivery.conn c) ∧
    (∀ d, expiry ≤ d → (r1.advance d).handlers = [] ∧ (r1.advance d).timers = []) ∧
    (∀ id c d, expiry ≤ d →
        (∀ kv, kv ∈ ((r1.install id c).advance d).handlers ↔ kv = (id, Handler.conn c)) ∧
        (((r1.install id c).advance d).deliver id).2 = Delivery.conn c) := by
  intro s r1
  have h : RInv mk (initial :: cd.toList) s.1 s.2 := run_rinv hf (initial_rinv mk idLen initial cd hne)
  have hr := replace_clean h localClose expiry
  exact ⟨removeAll_clean h, hr.1, hr.2.2.1, hr.2.2.2, fun id c d hd => expiry_keeps_foreign h localClose expiry id c d hd⟩

/-- In any handler map and at any time: an entry disappears at an expiry only if a due timer was armed for its ID
    with exactly its handler, i.e. only a closed connection's own stand-in is ever removed by the timer. -/
theorem expiry_removes_only_own (r : Routing) (d : Int) (kv : Bytes × Handler) (hin : kv ∈ r.handlers)
    (hgone : kv ∉ (r.advance d).handlers) :
    ∃ t ∈ r.timers, t.1 ≤ r.now + d ∧ kv.1 ∈ t.2.1 ∧ kv.2 = t.2.2 := by
  apply Classical.byContradiction
  intro hne
  apply hgone
  rw [advance_mem]
  refine ⟨hin, ?_⟩
  intro t ht hdue hc
  exact hne ⟨t, ht, hdue, hc.1, hc.2⟩

/-! ## path probing glue (path_manager.go around the manager) -/

/-- A path that is dropped gives its connection ID back: for every history of the server-side path manager (packets from
    new and known addresses, PATH_RESPONSEs, PATH_CHALLENGEs declared lost, evictions after `pathTimeout`, migration)
    interleaved with the connection's other uses of the connection ID manager, every connection ID allocated for path
    probing belongs to a path the path manager still tracks, or to the path the connection migrated to
    (`SwitchToPath` keeps that one). Hypotheses on the history: the manager is open and the peer uses non-zero-length
    connection IDs at every step (otherwise nothing is ever allocated), and nobody calls GetConnIDForPath /
    RetireConnIDForPath behind the path manager's back. -/
theorem probing_id_released (dest : Bytes) (ops : List SysOp)
    (hv : SysRunValid { m := Manager.new dest } ops) :
    ∀ k ∈ pKeys (Sys.run { m := Manager.new dest } ops).m,
      k ∈ pathIDs (Sys.run { m := Manager.new dest } ops).pm ∨ k ∈ (Sys.run { m := Manager.new dest } ops).kept :=
  released_run (s := { m := Manager.new dest }) (by intro k hk; simp [pKeys, Manager.new] at hk) hv

/-- …and it does so by the book: when the PATH_CHALLENGE of a path is declared lost, the path is dropped,
    RETIRE_CONNECTION_ID is queued for the sequence number of its connection ID, its stateless reset token is
    unregistered, and the manager holds nothing for the path any more. -/
theorem lost_challenge_retires {pm : PathManager} {m : Manager} {pid : Nat} {e : Entry} (hc : m.closed = false)
    (hz : m.activeID ≠ []) (hp : pm.paths.any (fun p => p.id == pid) = true) (hl : lookupPath pid m.probing = some e) :
    (onLost pm m pid).2.2.1 = [Ev.retire e.seq, Ev.rmTok e.tok] ∧ pid ∉ pathIDs (onLost pm m pid).1 ∧
    pid ∉ pKeys (onLost pm m pid).2.1 :=
  lost_retires hc hz hp hl

example :
    let s := Sys.run { m := Manager.new [9] }
      [.mgr (.new 1 0 [1] [1] 0), .mgr (.new 2 0 [2] [2] 0), .pkt 7 100 false true, .pkt 8 200 true false, .lost 0, .resp 1]
    pathIDs s.pm = [1] ∧ pKeys s.m = [1] ∧ inUse s.m = [0, 2] := by decide

/-! ## the hypotheses are satisfiable by non-trivial histories -/

/-- a peer history with reordering, a duplicate, a Retire Prior To jump, rotation and path probing -/
def sampleOps : List Op :=
  [.new 2 0 [2] [2] 0, .new 1 0 [1] [1] 0, .hsDone, .get 7, .path 3, .new 1 0 [1] [1] 0, .new 4 3 [4] [4] 9,
   .new 2 0 [2] [2] 0, .retirePath 3, .new 5 4 [5] [5] 1, .close]

example : ValidRun (Manager.new [9]) sampleOps := by
  simp [sampleOps, ValidRun, OpValid]

example : inUse ((Manager.new [9]).run (sampleOps.take 7)).1 = [4] ∧
    retiredIn ((Manager.new [9]).run (sampleOps.take 7)).2 = [0, 2, 1] := by decide

example : regAfter [] ((Manager.new [9]).run (sampleOps.take 5)).2 = [[2], [1]] := by decide

/-- the seeded history: a probing ID (1) held while the active ID rotates twice (highestRetired = 2), then Retire
    Prior To 2: sequence number 1 is retired and its token removed -/
example :
    let m1 := ((Manager.new [9]).run [.new 1 0 [1] [1] 0, .new 2 0 [2] [2] 0, .new 3 0 [3] [3] 0, .path 1, .hsDone, .get 0,
      .new 4 0 [4] [4] 0]).1
    -- enough packets sent for the second rotation
    let m := ({ m1 with sinceChange := m1.perID }.get 0).1
    m.highestRetired = 2 ∧ inUse m = [3, 4, 1] ∧
    (m.addFrame 5 2 [5] [5] 0).2.1 = [.retire 1, .rmTok [1]] ∧ inUse (m.addFrame 5 2 [5] [5] 0).1 = [3, 4, 5] := by
  decide

/-- a generator history: limit 4, two retirements (one of sequence number 0), expiry -/
def sampleGOps : List GOp := [.setMax 4, .retire 1 [7] 50, .retire 0 [7] 60, .hsDone 70, .removeRetired 55]

example : LimitIs 4 sampleGOps := by simp [sampleGOps, LimitIs]

example : ((Generator.new 4 [1] (some [2])).run (fun k => [100 + k]) sampleGOps).1.active.map (·.1) = [2, 3, 4] := by decide

example : FreshGen (fun k => [100 + k]) [[1], [2]] :=
  ⟨fun a b h => by simpa using h, fun k => by simp; omega⟩

end Uquic.Props.C16
