/-
Property C15, continued — the TRACE-level lift of the sub-map theorems to the whole `streamsMap`.

`Uquic.Props.C15` proves the event theorems (`credit_monotone`, `accept_once_in_order`, `outgoing_ids`,
`blocked_once_per_limit`) for each sub-map's own transition system and lifts STATES to the whole map
(`map_submaps_reachable`).  Here the EVENTS are lifted: an observer of the whole map sees, per step, the stream ids handed
to callers (`OpenStream[Sync]`, `OpenUniStream[Sync]`, `AcceptStream`, `AcceptUniStream`) and the control frames queued.
Projected to one (stream type, direction) — ids by their type / initiator bits, frames by their kind and type field —

  `map_trace_lift`: for every history of the whole map (both perspectives, any limits), after ANY prefix `pre` (which may
  contain `ResetFor0RTT`), along any continuation `ops` without a further `ResetFor0RTT`, what the map shows of each
  (stream type, direction) is exactly the event trace of that sub-map's own transition system run from the sub-map's
  state after `pre`, and the sub-map ends in that run's final state.

`ResetFor0RTT` replaces all four sub-maps by fresh ones (`Uquic.Props.C15.reset_for_0rtt`), i.e. it starts a new epoch:
ids and credits start over, so the event theorems are per epoch by nature — they are stated for "any prefix, then a
reset-free continuation", which covers every epoch; with `pre = []` they are the sub-map theorems verbatim. The steps
that goroutines still blocked inside replaced (closed) maps make afterwards show up in no projection
(`Uquic.Proofs.Streams.MInv`: replaced maps are closed, closed maps hand out no stream and queue no frame).
-/
import Uquic.Proofs.StreamsTraceRun
import Uquic.Props.C15

namespace Uquic.Props.C15More
open Uquic.Model.Streams Uquic.Proofs.Streams
open Uquic.Props.C15 (runMap)

theorem runMap_minv (pers : Persp) (nb nu : Int) (pre : List MapOp) (hwp : ∀ op ∈ pre, op.wf) :
    MInv pers nb nu (runMap (Map.new pers nb nu) pre) :=
  minv_run pre (minv_new pers nb nu) hwp

/-- **map_trace_lift.** -/
theorem map_trace_lift (pers : Persp) (nb nu : Int) (hnb : 0 ≤ nb) (hnu : 0 ≤ nu) (pre ops : List MapOp)
    (hwp : ∀ op ∈ pre, op.wf) (hw : ∀ op ∈ ops, op.wf) (hnr : ∀ op ∈ ops, op ≠ .resetFor0RTT) (t : STyp) :
    let m0 := runMap (Map.new pers nb nu) pre
    let m1 := (runMapEv m0 ops).1
    let evs := (runMapEv m0 ops).2
    m1 = runMap m0 ops ∧
    (∃ os : List OutOp, (∀ o ∈ os, o.wf) ∧ m1.out t = ((m0.out t).run os).1 ∧
        mapOpened t pers evs = openedIds ((m0.out t).run os).2 ∧ mapBlocked t evs = sbVals ((m0.out t).run os).2) ∧
    (∃ is : List InOp, (∀ o ∈ is, o.wf (firstIncoming t pers)) ∧ m1.inc t = ((m0.inc t).run is).1 ∧
        mapAccepted t pers evs = acceptedIds ((m0.inc t).run is).2 ∧ mapCredit t evs = msVals ((m0.inc t).run is).2) := by
  intro m0 m1 evs
  have R := map_run_tr hnb hnu ops m0 (runMap_minv pers nb nu pre hwp) hw hnr
  exact ⟨runMapEv_state ops m0, R.out t, R.inc t⟩

theorem new_inc (pers : Persp) (nb nu : Int) (t : STyp) :
    (Map.new pers nb nu).inc t = Incoming.new t (limOf nb nu t) pers := by cases t <;> rfl
theorem new_out (pers : Persp) (nb nu : Int) (t : STyp) :
    (Map.new pers nb nu).out t = Outgoing.new t pers := by cases t <;> rfl

theorem credit_new (t : STyp) (p : Persp) (n : Int) (hn : 0 ≤ n) :
    credit (firstIncoming t p) (Incoming.new t n p) = n := by
  have hfr := firstIncoming_range t p
  simp only [credit, Incoming.new]
  by_cases h0 : n = 0
  · subst h0; simp [numToID, invalidStreamID, Uquic.Gen.Protocol.InvalidStreamID]; omega
  · rw [numToID_incoming t p n h0]; omega

/-- **map_credit_monotone.**  In every epoch of the whole map the MAX_STREAMS values of one stream type are strictly
    increasing, all above the credit advertised at the beginning of the continuation (the configured limit when
    nothing happened before) and never above 2^60. -/
theorem map_credit_monotone (pers : Persp) (nb nu : Int) (hnb : 0 ≤ nb) (hnu : 0 ≤ nu) (pre ops : List MapOp)
    (hwp : ∀ op ∈ pre, op.wf) (hw : ∀ op ∈ ops, op.wf) (hnr : ∀ op ∈ ops, op ≠ .resetFor0RTT) (t : STyp) :
    let m0 := runMap (Map.new pers nb nu) pre
    let evs := (runMapEv m0 ops).2
    (mapCredit t evs).Pairwise (· < ·) ∧
    (∀ v ∈ mapCredit t evs, credit (firstIncoming t pers) (m0.inc t) < v ∧ v ≤ maxStreamCount) ∧
    (pre = [] → ∀ v ∈ mapCredit t evs, limOf nb nu t < v) := by
  intro m0 evs
  have hm := runMap_minv pers nb nu pre hwp
  obtain ⟨is, his, _, _, hc⟩ := (map_run_tr hnb hnu ops m0 hm hw hnr).inc t
  have hfr := firstIncoming_range t pers
  obtain ⟨_, h2, h3⟩ := run_credit _ hfr.1 hfr.2 is (m0.inc t) (hm.incFacts hnb hnu t).1 his
  have hc' : mapCredit t evs = msVals ((m0.inc t).run is).2 := hc
  rw [hc']
  refine ⟨h2, fun v hv => ⟨(h3 v hv).1, (h3 v hv).2.2⟩, ?_⟩
  intro hpre v hv
  have := (h3 v hv).1
  have hm0 : m0.inc t = Incoming.new t (limOf nb nu t) pers := by
    simp only [m0, hpre, runMap, List.foldl_nil]; exact new_inc pers nb nu t
  rw [hm0, credit_new t pers _ (limOf_nonneg nb nu hnb hnu t)] at this
  exact this

/-- **map_accept_once_in_order.**  In every epoch the peer-initiated stream ids of one type that the whole map hands to
    `AcceptStream` / `AcceptUniStream` callers are consecutive — each once, no gap, in order — starting at the next
    stream to accept (the first incoming id of that type when nothing happened before). -/
theorem map_accept_once_in_order (pers : Persp) (nb nu : Int) (hnb : 0 ≤ nb) (hnu : 0 ≤ nu) (pre ops : List MapOp)
    (hwp : ∀ op ∈ pre, op.wf) (hw : ∀ op ∈ ops, op.wf) (hnr : ∀ op ∈ ops, op ≠ .resetFor0RTT) (t : STyp) :
    let m0 := runMap (Map.new pers nb nu) pre
    let evs := (runMapEv m0 ops).2
    mapAccepted t pers evs =
      (List.range (mapAccepted t pers evs).length).map (fun (i : Nat) => (m0.inc t).nextAccept + 4 * (i : Int)) ∧
    ((runMapEv m0 ops).1.inc t).nextAccept = (m0.inc t).nextAccept + 4 * ((mapAccepted t pers evs).length : Int) ∧
    (pre = [] → (m0.inc t).nextAccept = firstIncoming t pers) := by
  intro m0 evs
  have hm := runMap_minv pers nb nu pre hwp
  obtain ⟨is, his, hs, ha, _⟩ := (map_run_tr hnb hnu ops m0 hm hw hnr).inc t
  have hfr := firstIncoming_range t pers
  obtain ⟨h1, h2⟩ := run_accept _ hfr.1 hfr.2 is (m0.inc t) (hm.incFacts hnb hnu t).1 his
  have ha' : mapAccepted t pers evs = acceptedIds ((m0.inc t).run is).2 := ha
  rw [ha', hs]
  refine ⟨h1, h2, ?_⟩
  intro hpre
  simp only [m0, hpre, runMap, List.foldl_nil]
  rw [new_inc]; rfl

/-- **map_outgoing_ids.**  In every epoch the locally initiated stream ids of one type that the whole map hands to
    `OpenStream` / `OpenStreamSync` callers (and their Uni forms) are consecutive from the next stream to open (the first
    outgoing id of that type and perspective when nothing happened before), and none exceeds the peer's limit. -/
theorem map_outgoing_ids (pers : Persp) (nb nu : Int) (hnb : 0 ≤ nb) (hnu : 0 ≤ nu) (pre ops : List MapOp)
    (hwp : ∀ op ∈ pre, op.wf) (hw : ∀ op ∈ ops, op.wf) (hnr : ∀ op ∈ ops, op ≠ .resetFor0RTT) (t : STyp) :
    let m0 := runMap (Map.new pers nb nu) pre
    let evs := (runMapEv m0 ops).2
    mapOpened t pers evs =
      (List.range (mapOpened t pers evs).length).map (fun (i : Nat) => (m0.out t).nextStream + 4 * (i : Int)) ∧
    (∀ id ∈ mapOpened t pers evs, typeOf id = t ∧ initiatedBy id = pers ∧ id ≤ ((runMapEv m0 ops).1.out t).maxStream) ∧
    (pre = [] → (m0.out t).nextStream = firstOutgoing t pers) := by
  intro m0 evs
  have hm := runMap_minv pers nb nu pre hwp
  obtain ⟨os, hos, hs, ho, _⟩ := (map_run_tr hnb hnu ops m0 hm hw hnr).out t
  obtain ⟨hf, ⟨k, hk⟩, _, _⟩ := hm.outFacts t
  obtain ⟨h1, _, h3⟩ := orun_ids os (m0.out t) k hf hk hos
  have ho' : mapOpened t pers evs = openedIds ((m0.out t).run os).2 := ho
  refine ⟨by rw [ho']; exact h1, ?_, ?_⟩
  · intro id hid
    have hcls : typeOf id = t ∧ initiatedBy id = pers := by
      simp only [mapOpened, List.mem_flatMap, evOpened, List.mem_filter, Bool.and_eq_true, decide_eq_true_eq] at hid
      obtain ⟨_, _, _, h⟩ := hid
      exact h
    refine ⟨hcls.1, hcls.2, ?_⟩
    rw [hs]
    exact h3 id (by rw [← ho']; exact hid)
  · intro hpre
    simp only [m0, hpre, runMap, List.foldl_nil]
    rw [new_out]; rfl

/-- **map_blocked_once_per_limit.**  In every epoch the limits carried by the STREAMS_BLOCKED frames of one type queued
    by the whole map are strictly increasing (at most one frame per limit value), none below the peer's limit at the
    beginning of the continuation and none above its limit at the end. -/
theorem map_blocked_once_per_limit (pers : Persp) (nb nu : Int) (hnb : 0 ≤ nb) (hnu : 0 ≤ nu) (pre ops : List MapOp)
    (hwp : ∀ op ∈ pre, op.wf) (hw : ∀ op ∈ ops, op.wf) (hnr : ∀ op ∈ ops, op ≠ .resetFor0RTT) (t : STyp) :
    let m0 := runMap (Map.new pers nb nu) pre
    let evs := (runMapEv m0 ops).2
    (mapBlocked t evs).Pairwise (· < ·) ∧ (mapBlocked t evs).Nodup ∧
    (∀ v ∈ mapBlocked t evs, limitNum (m0.out t) ≤ v ∧ v ≤ limitNum ((runMapEv m0 ops).1.out t)) ∧
    (pre = [] → ∀ v ∈ mapBlocked t evs, 0 ≤ v) := by
  intro m0 evs
  have hm := runMap_minv pers nb nu pre hwp
  obtain ⟨os, hos, hs, _, hb⟩ := (map_run_tr hnb hnu ops m0 hm hw hnr).out t
  obtain ⟨hf, ⟨k, hk⟩, _, _⟩ := hm.outFacts t
  obtain ⟨_, _, h3, h4⟩ := orun_sb os (m0.out t) k hf hk hos
  have hb' : mapBlocked t evs = sbVals ((m0.out t).run os).2 := hb
  rw [hb', hs]
  refine ⟨h3, ?_, fun v hv => ⟨(h4 v hv).1, (h4 v hv).2.2.1⟩, ?_⟩
  · rw [List.nodup_iff_pairwise_ne]
    exact h3.imp (fun h => by omega)
  · intro hpre v hv
    have := (h4 v hv).1
    have hm0 : m0.out t = Outgoing.new t pers := by
      simp only [m0, hpre, runMap, List.foldl_nil]; exact new_out pers nb nu t
    have h0 : limitNum (Outgoing.new t pers) = 0 := by
      simp [limitNum, Outgoing.new, invalidStreamNum, Uquic.Gen.Protocol.InvalidStreamNum]
    rw [hm0, h0] at this
    exact this

/-- The ids handed out by the whole map are never ambiguous: an id handed to an `Accept…` caller is peer-initiated, an
    id handed to an `Open…` caller is locally initiated — every id a step shows is in exactly the projections above. -/
theorem map_ids_partition (pers : Persp) (ev : MapEv) (id : SID) (hid : id ∈ evIds ev) :
    (id ∈ evOpened (typeOf id) pers ev ∧ initiatedBy id = pers) ∨
    (id ∈ evAccepted (typeOf id) pers ev ∧ initiatedBy id ≠ pers) := by
  by_cases h : initiatedBy id = pers
  · left; simp [evOpened, hid, h]
  · right; simp [evAccepted, hid, h]

/-! ## the hypotheses are satisfiable by non-trivial histories -/

/-- a server: the peer opens bidi streams 0 and 4 (limit 2) and uni stream 2; both bidi streams are accepted and
    completed; locally two uni streams are opened against a peer limit of 1, then the limit is raised -/
def sampleOps : List MapOp :=
  [.recvFrame 4, .accept .bidi 1, .accLocked 1, .accept .bidi 2, .accLocked 2, .delete 0, .delete 4, .recvFrame 2,
   .maxStreams .uni 1, .openStream .uni, .openStream .uni, .openSync .uni 7 false, .maxStreams .uni 3,
   .outRecv 7, .outWakeLocked 7]

example : (∀ op ∈ sampleOps, op.wf) ∧ (∀ op ∈ sampleOps, op ≠ .resetFor0RTT) := by
  refine ⟨?_, ?_⟩ <;> simp [sampleOps, MapOp.wf]

example :
    let evs := (runMapEv (Map.new .server 2 2) sampleOps).2
    mapAccepted .bidi .server evs = [0, 4] ∧ mapCredit .bidi evs = [3, 4] ∧
    mapOpened .uni .server evs = [3, 7] ∧ mapBlocked .uni evs = [1] ∧
    mapAccepted .uni .server evs = [] ∧ mapOpened .bidi .server evs = [] := by decide

/-- a second epoch: after `ResetFor0RTT` / `UseResetMaps` the ids start over -/
example :
    let m0 := runMap (Map.new .server 2 2) (sampleOps ++ [.resetFor0RTT, .useResetMaps])
    let evs := (runMapEv m0 [.recvFrame 0, .accept .bidi 9, .accLocked 9, .maxStreams .uni 1, .openStream .uni]).2
    mapAccepted .bidi .server evs = [0] ∧ mapOpened .uni .server evs = [3] := by decide

end Uquic.Props.C15More
