/-
C14 ∘ C06 — the anti-amplification theorem of C14, proved over a SLICE of sentPacketHandler
(Uquic/Model/Amp/Limit.lean), holds for the FULL model of the same Go object
(Uquic/Model/Ack/Sent.lean + SentHist.lean, the model whose complete internal state C06's oracle compares
with the real handler after every operation).

  * `amp_slice_refines` — the slice is a sound abstraction: with `amp : Sent.State → Amp.H` the projection
    (perspective, bytesSent, bytesReceived, peerAddressValidated), every step of a history of the full
    model (a SendMode consultation, a datagram of coalesced SentPacket calls, ReceivedBytes, ReceivedPacket,
    ReceivedAck, OnLossDetectionTimeout, QueueProbePacket, DropPackets, ResetForRetry, MigratedPath — for
    every outcome of the call) is one step or a stutter of the slice model, ghosts included; and the full
    model's SendMode answers SendNone whenever the slice says "amplification limited";
  * `amplification_bound_full` — C14's `amplification_bound` lifted along the refinement;
  * `validated_only_by_handshake_full`, `validated_monotone_full`.

Property theorems only; definitions and helper lemmas: Uquic/Proofs/AmpRefineFrame.lean, AmpRefine.lean.
-/
import Uquic.Proofs.AmpRefine
import Uquic.Props.C14

namespace Uquic.Props.C14Compose
open Uquic.Model Uquic.Proofs.AmpRefine

/-! ## 1. refinement -/

/-- `amp_slice_refines` (operation form).  For EVERY state of the full model with non-negative byte counters
and EVERY operation of the full model with non-negative sizes (any environment, any outcome — ok, error or
panic): the projection of the successor state is the slice's run of `absOp` from the projection of the
state, where `absOp` is `[sent [size]]` for a send whose PopPacketNumber returned, `[rcvBytes n]`,
`[rcvPacket l]`, and `[]` (a stutter) for ReceivedAck, OnLossDetectionTimeout, QueueProbePacket, DropPackets,
ResetForRetry, MigratedPath, a failed PopPacketNumber and a ReceivedPacket of the invalid level. -/
theorem amp_slice_refines_op (s : Sent.State) (hn : NonNeg s) (op : Sent.Op) (e : Sent.StepEnv) (hok : OpOK op) :
    amp (s.step op e).1 = (absOp s op e).foldl Amp.H.apply (amp s) ∧ (absOp s op e).length ≤ 1 ∧
    NonNeg (s.step op e).1 :=
  ⟨(amp_step hn op e hok).1, absOp_length s op e, (amp_step hn op e hok).2⟩

/-- `amp_slice_refines`.  Histories of the full model are lists of `FOp` (SendMode consultations with the
congestion answers as environment inputs, datagrams of coalesced packets, any other call), run by `FSt.step`
on the full handler state plus the ghosts of the slice's run state.  For every such run state with
non-negative counters and every step with non-negative sizes:
  (1) the projection commutes: `ampSt (x.step op)` is the slice's run (`Amp.St.step`) of `absF x op` — exactly
      one slice operation or a stutter — from `ampSt x`, and the counters stay non-negative;
  (2) the slice's `isAmplificationLimited` is the full model's, and whenever it holds the full model's
      SendMode answers SendNone, whatever the congestion controller says and whatever the PTO state is;
  (3) the "≠ SendNone" verdict of the full model's SendMode is the slice's verdict for the environment input
      `wantsOf` (the answer of the rest of the function), and with a legal `ptoMode` (every reachable state,
      `Uquic.Proofs.AmpRefine.run_ptoOK`) the two answers are the same SendMode code. -/
theorem amp_slice_refines (x : FSt) (hn : NonNeg x.s) (op : FOp) (hok : op.ok) :
    (ampSt (x.step op) = (absF x op).foldl Amp.St.step (ampSt x) ∧ (absF x op).length ≤ 1 ∧ NonNeg (x.step op).s) ∧
    ((amp x.s).isAmplificationLimited = x.s.isAmplificationLimited ∧
      ∀ cs pb, (amp x.s).isAmplificationLimited = true → x.s.sendMode cs pb = Sent.sendNone) ∧
    (∀ cs pb, (((amp x.s).sendMode (wantsOf x.s cs pb) != .none) = (x.s.sendMode cs pb != Sent.sendNone)) ∧
      (PtoOK x.s → ((amp x.s).sendMode (wantsOf x.s cs pb)).code = x.s.sendMode cs pb)) := by
  obtain ⟨r1, r2, r3⟩ := step_refines hn op hok
  exact ⟨⟨r1, r3, r2⟩, ⟨isLimited_amp hn, fun cs pb h => sendMode_none_of_slice_limited hn cs pb h⟩,
    fun cs pb => sendMode_refines hn cs pb⟩

/-- history form: the projection of the state reached by ANY history of a fresh full handler (non-negative
sizes) is exactly the state the slice model reaches on the abstracted history -/
theorem amp_slice_refines_run (pn : Int) (cav client : Bool) (nts : Int) (ops : List FOp) (hok : ∀ op ∈ ops, op.ok) :
    ampSt (frun (FSt.init pn cav client nts) ops) =
      Amp.run (if client then .client else .server) cav (absHist (FSt.init pn cav client nts) ops) ∧
    NonNeg (frun (FSt.init pn cav client nts) ops).s :=
  run_refines_new pn cav client nts ops hok

/-- C14's `limited_blocks_every_mode` lifted: an unvalidated full handler at or above three times the
received bytes answers SendNone to every consultation — PTO probes and ACK-only packets are blocked too,
and neither the congestion controller nor the tracked-packet limits are consulted first. -/
theorem limited_blocks_every_mode_full (s : Sent.State) (hn : NonNeg s) (cs pb : Bool) (hv : s.peerValidated = false)
    (hl : 3 * s.bytesReceived ≤ s.bytesSent) : s.sendMode cs pb = Sent.sendNone := by
  have h := Uquic.Props.C14.limited_blocks_every_mode (amp s) (wantsOf s cs pb) hv
    (by obtain ⟨h1, h2⟩ := hn; simp only [amp]; omega)
  have r := (sendMode_refines hn cs pb).1
  rw [h] at r
  simpa using r.symm

/-- a server one 1200-byte Initial in: a datagram of two coalesced packets (Initial 700 + Handshake 500) is
one slice step `sent [700, 500]`; an ACK is a stutter; the hypotheses of the refinement hold -/
def exState : FSt := frun (FSt.init 0 false false 300) [.call (.rcvBytes 1200 1000) {}, .mode true true]

def exDgram : FOp :=
  .dgram [{ lvl := .initial, now := 2000, largestAcked := -1, size := 700, frames := [⟨1, true⟩] },
          { lvl := .handshake, now := 2000, largestAcked := -1, size := 500, frames := [⟨2, true⟩] }]

set_option maxRecDepth 100000 in
example : NonNeg exState.s ∧ exState.permitted = true ∧
    absF exState exDgram = [.sent [700, 500]] ∧ (exState.step exDgram).s.bytesSent = 1200 ∧
    (exState.step exDgram).s.bytesInFlight = 1200 ∧
    absF (exState.step exDgram) (.call (.ack .initial 3000 [(0, 0)]) {}) = [] ∧
    ((exState.step exDgram).step (.call (.ack .initial 3000 [(0, 0)]) {})).s.bytesInFlight = 500 := by
  unfold NonNeg; decide

example : exDgram.ok := by
  intro p hp
  simp only [List.mem_cons, List.not_mem_nil, or_false] at hp
  rcases hp with h | h <;> subst h <;> decide

/-- … and `limited_blocks_every_mode_full` is not vacuous: after 3600 bytes the same server answers SendNone,
although congestion controller and pacer would allow sending -/
def exLimited : FSt :=
  frun exState [exDgram, .mode true true,
    .dgram [{ lvl := .initial, now := 3000, largestAcked := -1, size := 1200, frames := [⟨3, true⟩] }], .mode true true,
    .dgram [{ lvl := .initial, now := 4000, largestAcked := -1, size := 1200, frames := [⟨4, true⟩] }]]

set_option maxRecDepth 100000 in
example : NonNeg exLimited.s ∧ exLimited.s.peerValidated = false ∧ 3 * exLimited.s.bytesReceived ≤ exLimited.s.bytesSent ∧
    exLimited.disciplined = true ∧ exLimited.s.sendMode true true = Sent.sendNone := by
  unfold NonNeg; decide

/-! ## 2. the amplification bound over the full model -/

/-- `amplification_bound_full`.  For EVERY history `ops` of the FULL sent-packet-handler model of a server
(any initial packet number, any skip draw; arrivals of any non-negative sizes, processed packets of any
level, ACK frames with arbitrary ranges, loss-detection timeouts at arbitrary times, probe queueing, space
drops, Retry resets, path migration, arbitrary RTT-estimator values, SendMode consultations with arbitrary
congestion-controller answers, datagrams of arbitrary coalesced packets of non-negative sizes — each call with
whatever outcome the model gives it) in which every datagram is sent only after a `SendMode ≠ SendNone`
answer computed after the previous datagram (`disciplined`), at EVERY prefix `pre` at which the address is not
yet validated:
  * the handler's counters are exactly the bytes handed to it,
  * `bytesSent ≤ 3·bytesReceived + size of the last datagram`, and
  * if `pre` is followed by a datagram, then `bytesSent < 3·bytesReceived` held immediately before it.
Proof: C14's `amplification_bound` applied to the abstracted history, transported along `amp_slice_refines`. -/
theorem amplification_bound_full (pn : Int) (cav : Bool) (nts : Int) (ops : List FOp)
    (hok : ∀ op ∈ ops, op.ok)
    (hd : (frun (FSt.init pn cav false nts) ops).disciplined = true) :
    ∀ pre suf, ops = pre ++ suf → (frun (FSt.init pn cav false nts) pre).s.peerValidated = false →
      (frun (FSt.init pn cav false nts) pre).s.bytesSent = (frun (FSt.init pn cav false nts) pre).out ∧
      (frun (FSt.init pn cav false nts) pre).s.bytesReceived = (frun (FSt.init pn cav false nts) pre).inn ∧
      (frun (FSt.init pn cav false nts) pre).s.bytesSent ≤
        3 * (frun (FSt.init pn cav false nts) pre).s.bytesReceived + (frun (FSt.init pn cav false nts) pre).last ∧
      (∀ op rest pkts, suf = op :: rest → op.norm = .dgram pkts →
        (frun (FSt.init pn cav false nts) pre).s.bytesSent < 3 * (frun (FSt.init pn cav false nts) pre).s.bytesReceived) := by
  intro pre suf hops hv
  subst hops
  have R : ampSt (frun (FSt.init pn cav false nts) (pre ++ suf)) =
      Amp.run .server cav (absHist (FSt.init pn cav false nts) (pre ++ suf)) :=
    (run_refines_new pn cav false nts (pre ++ suf) hok).1
  obtain ⟨Rp, hn⟩ := run_refines_new pn cav false nts pre (fun op h => hok op (List.mem_append_left _ h))
  have Rp' : ampSt (frun (FSt.init pn cav false nts) pre) = Amp.run .server cav (absHist (FSt.init pn cav false nts) pre) := Rp
  have hdA : (Amp.run .server cav (absHist (FSt.init pn cav false nts) (pre ++ suf))).disciplined = true := by
    rw [← R]; exact hd
  have B := Uquic.Props.C14.amplification_bound cav _ hdA (absHist (FSt.init pn cav false nts) pre)
    (absHist (frun (FSt.init pn cav false nts) pre) suf) (absHist_append pre suf _) (by rw [← Rp']; exact hv)
  rw [← Rp'] at B
  generalize frun (FSt.init pn cav false nts) pre = x at B hn hv ⊢
  obtain ⟨b1, b2, b3, b4⟩ := B
  obtain ⟨n1, n2⟩ := hn
  simp only [ampSt, amp] at b1 b2 b3 b4
  refine ⟨by omega, by omega, by omega, ?_⟩
  intro op rest pkts hs hnorm
  subst hs
  have := b4 (sendAll x.s pkts).2 (absHist (x.step op) rest) (by simp [absHist, absF, hnorm, absN])
  omega

/-- the hypotheses are satisfiable by a non-trivial history of the full model: a padded Initial arrives, the
server sends a coalesced Initial+Handshake datagram, the client's ACK arrives in a small datagram, a PTO fires
and its two probes are sent, then SendMode answers SendNone at 4799 of 3·1250 = 3750 + 1199 bytes -/
def exOps : List FOp :=
  [.call (.rcvBytes 1200 1000) {}, .mode true true, exDgram,
   .call (.rcvBytes 50 2500) {}, .call (.rcvPacket .initial 2500) {}, .call (.ack .initial 2500 [(0, 0)]) {},
   .mode true false,
   .dgram [{ lvl := .handshake, now := 3000, largestAcked := -1, size := 1200, frames := [⟨3, true⟩] }],
   .call (.timeout 70000000000) {}, .mode false false,
   .dgram [{ lvl := .handshake, now := 70000000001, largestAcked := -1, size := 1199, frames := [⟨4, true⟩] }],
   .mode true true, .call (.send .handshake 70000000002 (-1) 1200 false false [⟨5, true⟩] []) {},
   .mode true true]

set_option maxRecDepth 100000 in
example : (frun (FSt.init 0 false false 300) exOps).disciplined = true ∧
    (frun (FSt.init 0 false false 300) exOps).s.peerValidated = false ∧
    (frun (FSt.init 0 false false 300) exOps).s.bytesSent = 4799 ∧
    (frun (FSt.init 0 false false 300) exOps).s.bytesReceived = 1250 ∧
    (frun (FSt.init 0 false false 300) exOps).last = 1200 ∧
    (frun (FSt.init 0 false false 300) exOps).permitted = false ∧
    absHist (FSt.init 0 false false 300) exOps =
      [.rcvBytes 1200, .mode .any, .sent [700, 500], .rcvBytes 50, .rcvPacket .initial, .mode .pacingLimited, .sent [1200],
       .mode .ptoHandshake, .sent [1199], .mode .ptoHandshake, .sent [1200], .mode .any] := by decide

example : ∀ op ∈ exOps, op.ok := by
  intro op hop
  simp only [exOps, List.mem_cons, List.not_mem_nil, or_false] at hop
  rcases hop with h | h | h | h | h | h | h | h | h | h | h | h | h | h <;> subst h <;>
    first
    | trivial
    | (simp only [FOp.ok, OpOK]; decide)
    | (intro p hp
       simp only [List.mem_cons, List.not_mem_nil, or_false] at hp
       rcases hp with h | h <;> subst h <;> decide)

/-! ## 3. validation -/

/-- `validated_only_by_handshake_full`: the full model of a server counts the peer's address as validated only
if it was constructed so (`clientAddressValidated`: a validated token / Retry) or a `ReceivedPacket` at
Handshake level occurred — no ACK, timeout, drop, Retry reset, migration, send or byte arrival validates.
(No size hypotheses: proved directly on the full model.) -/
theorem validated_only_by_handshake_full (pn : Int) (cav : Bool) (nts : Int) (ops : List FOp)
    (hv : (frun (FSt.init pn cav false nts) ops).s.peerValidated = true) :
    cav = true ∨ ∃ now e, FOp.call (.rcvPacket .handshake now) e ∈ ops := by
  rcases frun_validated ops _ hv with h | h
  · left; simpa [FSt.init, Sent.State.new] using h
  · exact Or.inr h

/-- … and validation is never undone -/
theorem validated_monotone_full (x : FSt) (pre suf : List FOp) (hv : (frun x pre).s.peerValidated = true) :
    (frun x (pre ++ suf)).s.peerValidated = true := by
  rw [frun_append]; exact frun_validated_mono suf _ hv

set_option maxRecDepth 100000 in
example : (frun (FSt.init 0 false false 300) (exOps ++ [.call (.rcvPacket .oneRTT 1) {}])).s.peerValidated = false ∧
    (frun (FSt.init 0 false false 300) (exOps ++ [.call (.rcvPacket .handshake 1) {}])).s.peerValidated = true ∧
    (frun (FSt.init 0 true false 300) []).s.peerValidated = true := by decide

end Uquic.Props.C14Compose
