/-
Tie theorems, ring buffer (property C18 depends on internal/utils/ringbuffer for the framer's stream
queue): the model's `len` / `empty` EQUAL the definitions regenerated from the Go methods
`(RingBuffer).Len` / `(RingBuffer).Empty` by the source-to-Lean translator (gofacts/trans.go →
Uquic.Generated.TransRing) on every run.

Range hypotheses: positions and `len(r.ring)` are Go `int`s that the model keeps as `Nat`; for `Len`
the well-formedness invariant (`head`, `tail` inside the ring — proved preserved by every exported
method in Uquic.Props.C18Ring) makes the model's truncated `Nat` subtraction the Go subtraction.
The methods with slice effects (grow, PushBack, PopFront, Clear) are outside the translator's subset
and are tied by the `ringq` differential driver.
-/
import Uquic.Generated.TransRing
import Uquic.Model.Util.RingBuffer

namespace Uquic.Props.TransRing
open Uquic.Model.Util.RingBuffer
open Uquic.Gen.TransRing (RingBuffer_Len RingBuffer_Empty)

/-- `(RingBuffer).Len`: model = source on every well-formed ring -/
theorem RingBuffer_Len_model_is_source (r : RB) (h : r.WF) :
    ((r.len : Nat) : Int) = RingBuffer_Len r.full (r.head : Int) (r.cap : Int) (r.tail : Int) := by
  unfold RB.len RingBuffer_Len
  obtain ⟨h0, h1, _⟩ := h
  by_cases hf : r.full = true
  · simp [hf]
  · by_cases hc : 0 < r.cap
    · obtain ⟨_, _⟩ := h1 hc
      have hf' : r.full = false := by simpa using hf
      simp only [hf', Bool.false_eq_true, if_false]
      split <;> split <;> omega
    · obtain ⟨a, b, _⟩ := h0 (by omega)
      simp [hf, a, b]

/-- `(RingBuffer).Empty`: model = source for all states -/
theorem RingBuffer_Empty_model_is_source (r : RB) :
    r.empty = RingBuffer_Empty r.full (r.head : Int) (r.tail : Int) := by
  unfold RB.empty RingBuffer_Empty
  cases r.full <;> simp [Int.ofNat_inj]
  by_cases e : r.head = r.tail <;> simp [e]

example : RingBuffer_Len false 3 4 1 = 2 := by decide

end Uquic.Props.TransRing
