/-
Tie theorems, frame and header lengths (property C08): `Frame.length` of the wire model
(Uquic/Model/Wire/Frames.lean), `shortHeaderLen` and `encodeAckDelay` EQUAL the definitions regenerated from
internal/wire/*.go by the source-to-Lean translator (gofacts/trans.go → Uquic.Generated.TransWire) on every run.

Shape: the model's frame fields are `Nat` (the uint64 bit patterns written on the wire), cast to `Int` for the
translated defs.  Every theorem assumes `<fn>_panics … = false`, the regenerated characterisation of the inputs on
which `quicvarint.Len` panics (a field above 2^62-1; `varintLen_panics_iff`).  Additional range hypotheses:
* `ResetStreamFrame.Length`: `ReliableSize < 2^63` (Go: int64 `ByteCount`, the model holds its uint64 pattern).
* `encodeAckDelay`: none beyond `0 ≤ delay` (a `Nat` in the model); the Go conversion `uint64(…)` of a negative
  duration would wrap — `encodeAckDelay_no_wrap`.
* lengths of byte slices are `List.length` (non-negative by type).
Not translated (outside the subset: loop over the ACK ranges): `AckFrame.Length`.
-/
import Uquic.Generated.TransWire
import Uquic.Model.Wire.Frames
import Uquic.Model.Wire.Header
import Uquic.Props.TransVarint

namespace Uquic.Props.TransWire
open Uquic.Proofs.Trans Uquic.Model.Wire Uquic.Props.TransVarint
open Uquic.Gen.TransWire

/-- rewrite the translated `quicvarint.Len` into the model's, then close the `if` skeleton by arithmetic
    (`Varint.len _` are atoms for `omega`) -/
macro "wire_tie" : tactic => `(tactic| (simp only [← varintLen_model_is_source] at *; tie_arith))

theorem MaxDataFrame_Length_model_is_source (v : Nat) (h : MaxDataFrame_Length_panics v = false) :
    ((Frame.length (.maxData v) : Nat) : Int) = MaxDataFrame_Length v := by
  unfold MaxDataFrame_Length_panics at h; unfold MaxDataFrame_Length Frame.length; wire_tie

theorem MaxStreamsFrame_Length_model_is_source (t : StreamType) (v : Nat) (h : MaxStreamsFrame_Length_panics v = false) :
    ((Frame.length (.maxStreams t v) : Nat) : Int) = MaxStreamsFrame_Length v := by
  unfold MaxStreamsFrame_Length_panics at h; unfold MaxStreamsFrame_Length Frame.length; wire_tie

theorem MaxStreamDataFrame_Length_model_is_source (sid v : Nat) (h : MaxStreamDataFrame_Length_panics v sid = false) :
    ((Frame.length (.maxStreamData sid v) : Nat) : Int) = MaxStreamDataFrame_Length v sid := by
  unfold MaxStreamDataFrame_Length_panics at h; unfold MaxStreamDataFrame_Length Frame.length; wire_tie

theorem DataBlockedFrame_Length_model_is_source (v : Nat) (h : DataBlockedFrame_Length_panics v = false) :
    ((Frame.length (.dataBlocked v) : Nat) : Int) = DataBlockedFrame_Length v := by
  unfold DataBlockedFrame_Length_panics at h; unfold DataBlockedFrame_Length Frame.length; wire_tie

theorem StreamsBlockedFrame_Length_model_is_source (t : StreamType) (v : Nat) (h : StreamsBlockedFrame_Length_panics v = false) :
    ((Frame.length (.streamsBlocked t v) : Nat) : Int) = StreamsBlockedFrame_Length v := by
  unfold StreamsBlockedFrame_Length_panics at h; unfold StreamsBlockedFrame_Length Frame.length; wire_tie

theorem StreamDataBlockedFrame_Length_model_is_source (sid v : Nat) (h : StreamDataBlockedFrame_Length_panics v sid = false) :
    ((Frame.length (.streamDataBlocked sid v) : Nat) : Int) = StreamDataBlockedFrame_Length v sid := by
  unfold StreamDataBlockedFrame_Length_panics at h; unfold StreamDataBlockedFrame_Length Frame.length; wire_tie

theorem StopSendingFrame_Length_model_is_source (sid ec : Nat) (h : StopSendingFrame_Length_panics ec sid = false) :
    ((Frame.length (.stopSending sid ec) : Nat) : Int) = StopSendingFrame_Length ec sid := by
  unfold StopSendingFrame_Length_panics at h; unfold StopSendingFrame_Length Frame.length; wire_tie

theorem ResetStreamFrame_Length_model_is_source (sid ec fs rs : Nat) (hr : rs < 2 ^ 63)
    (h : ResetStreamFrame_Length_panics ec fs rs sid = false) :
    ((Frame.length (.resetStream sid ec fs rs) : Nat) : Int) = ResetStreamFrame_Length ec fs rs sid := by
  unfold ResetStreamFrame_Length_panics at h; unfold ResetStreamFrame_Length Frame.length posI64; wire_tie

theorem StreamFrame_Length_model_is_source (sid off : Nat) (data : Bytes) (fin dlp : Bool)
    (h : StreamFrame_Length_panics dlp data.length off sid = false) :
    ((Frame.length (.stream sid off data fin dlp) : Nat) : Int) = StreamFrame_Length dlp data.length off sid := by
  unfold StreamFrame_Length_panics at h; unfold StreamFrame_Length Frame.length; wire_tie

theorem CryptoFrame_Length_model_is_source (off : Nat) (data : Bytes) (h : CryptoFrame_Length_panics data.length off = false) :
    ((Frame.length (.crypto off data) : Nat) : Int) = CryptoFrame_Length data.length off := by
  unfold CryptoFrame_Length_panics at h; unfold CryptoFrame_Length Frame.length; wire_tie

theorem NewTokenFrame_Length_model_is_source (tok : Bytes) (h : NewTokenFrame_Length_panics tok.length = false) :
    ((Frame.length (.newToken tok) : Nat) : Int) = NewTokenFrame_Length tok.length := by
  unfold NewTokenFrame_Length_panics at h; unfold NewTokenFrame_Length Frame.length; wire_tie

theorem RetireConnectionIDFrame_Length_model_is_source (seq : Nat) (h : RetireConnectionIDFrame_Length_panics seq = false) :
    ((Frame.length (.retireConnectionID seq) : Nat) : Int) = RetireConnectionIDFrame_Length seq := by
  unfold RetireConnectionIDFrame_Length_panics at h; unfold RetireConnectionIDFrame_Length Frame.length; wire_tie

theorem NewConnectionIDFrame_Length_model_is_source (seq rpt : Nat) (cid tok : Bytes)
    (h : NewConnectionIDFrame_Length_panics cid.length rpt seq = false) :
    ((Frame.length (.newConnectionID seq rpt cid tok) : Nat) : Int) = NewConnectionIDFrame_Length cid.length rpt seq := by
  unfold NewConnectionIDFrame_Length_panics at h; unfold NewConnectionIDFrame_Length Frame.length; wire_tie

theorem ConnectionCloseFrame_Length_model_is_source (isApp : Bool) (ec ft : Nat) (reason : Bytes)
    (h : ConnectionCloseFrame_Length_panics ec ft isApp reason.length = false) :
    ((Frame.length (.connectionClose isApp ec ft reason) : Nat) : Int) = ConnectionCloseFrame_Length ec ft isApp reason.length := by
  unfold ConnectionCloseFrame_Length_panics at h; unfold ConnectionCloseFrame_Length Frame.length; wire_tie

theorem DatagramFrame_Length_model_is_source (dlp : Bool) (data : Bytes) (h : DatagramFrame_Length_panics dlp data.length = false) :
    ((Frame.length (.datagram dlp data) : Nat) : Int) = DatagramFrame_Length dlp data.length := by
  unfold DatagramFrame_Length_panics at h; unfold DatagramFrame_Length Frame.length; wire_tie

theorem AckFrequencyFrame_Length_model_is_source (seq th mad rt : Nat)
    (h : AckFrequencyFrame_Length_panics th rt mad seq = false) :
    ((Frame.length (.ackFrequency seq th mad rt) : Nat) : Int) = AckFrequencyFrame_Length th rt mad seq := by
  have hd : Int.tdiv (mad : Int) 1000 = ((mad / 1000 : Nat) : Int) := by simp
  unfold AckFrequencyFrame_Length_panics at h; unfold AckFrequencyFrame_Length Frame.length
  rw [hd] at h ⊢; wire_tie

theorem PathChallengeFrame_Length_model_is_source (d : Bytes) :
    ((Frame.length (.pathChallenge d) : Nat) : Int) = PathChallengeFrame_Length := by
  unfold PathChallengeFrame_Length Frame.length; rfl

theorem PingFrame_Length_model_is_source : ((Frame.length .ping : Nat) : Int) = PingFrame_Length := by
  unfold PingFrame_Length Frame.length; rfl

theorem HandshakeDoneFrame_Length_model_is_source : ((Frame.length .handshakeDone : Nat) : Int) = HandshakeDoneFrame_Length := by
  unfold HandshakeDoneFrame_Length Frame.length; rfl

theorem ImmediateAckFrame_Length_model_is_source : ((Frame.length .immediateAck : Nat) : Int) = ImmediateAckFrame_Length := by
  decide

/-- `wire.ShortHeaderLen(dest, pnLen)` (`dest.Len()` is the connection ID's length byte) -/
theorem ShortHeaderLen_model_is_source (dest : Bytes) (pnLen : Nat) :
    ((Hdr.shortHeaderLen dest pnLen : Nat) : Int) = ShortHeaderLen pnLen dest.length := by
  unfold Hdr.shortHeaderLen ShortHeaderLen; omega

/-- `encodeAckDelay(delay)`: the model divides the non-negative nanosecond count by 1000·2^AckDelayExponent -/
theorem encodeAckDelay_model_is_source (delayNs : Nat) :
    ((Uquic.Model.Wire.encodeAckDelay delayNs : Nat) : Int) = Uquic.Gen.TransWire.encodeAckDelay delayNs := by
  have c : sendAckDelayExponent = 3 := by decide
  unfold Uquic.Model.Wire.encodeAckDelay Uquic.Gen.TransWire.encodeAckDelay
  rw [c, Int.tdiv_eq_ediv_of_nonneg (by omega)]
  omega

/-- the conversion `uint64(…)` in `encodeAckDelay` does not wrap for a non-negative duration -/
theorem encodeAckDelay_no_wrap (delay : Int) (h : 0 ≤ delay) : encodeAckDelay_safe delay := by
  unfold encodeAckDelay_safe
  rw [Int.tdiv_eq_ediv_of_nonneg h]; omega

/-! ### proved DIRECTLY about the translated source (no model function in between) -/

/-- `CryptoFrame.MaxDataLen(maxSize)`: a CRYPTO frame carrying that many bytes at that offset fits `maxSize`
    — as long as the data length still encodes in at most two bytes (`≤ 16383`) … -/
theorem CryptoFrame_MaxDataLen_fits (maxSize off : Int) (h0 : 0 ≤ off) (h1 : off ≤ 4611686018427387903)
    (hm : 0 ≤ maxSize) (hr : CryptoFrame_MaxDataLen maxSize off ≤ 16383) (hp : 0 < CryptoFrame_MaxDataLen maxSize off) :
    CryptoFrame_Length (CryptoFrame_MaxDataLen maxSize off) off ≤ maxSize := by
  have p0 := (varintLen_panics_false_iff off).2 h1
  have l1 : 1 ≤ Uquic.Gen.TransVarint.varintLen off ∧ Uquic.Gen.TransVarint.varintLen off ≤ 8 := by
    unfold Uquic.Gen.TransVarint.varintLen; tie_arith
  unfold CryptoFrame_Length CryptoFrame_MaxDataLen at *
  simp only [p0, varintLen_panics_iff_int, varintLen_eq_one_iff, Bool.false_eq_true, if_false] at *
  generalize Uquic.Gen.TransVarint.varintLen off = L at *
  unfold Uquic.Gen.TransVarint.varintLen
  tie_arith

/-- … and NOT beyond: with a 4-byte length the frame overshoots `maxSize` by two bytes (the function reserves one
    byte for the length and gives back only one more).  Observation about /repo recorded in DESIGN §11 (C09);
    here it is a kernel-checked fact about the regenerated source. -/
theorem CryptoFrame_MaxDataLen_overshoot_witness :
    CryptoFrame_Length (CryptoFrame_MaxDataLen 20000 0) 0 = 20002 := by decide

example : ResetStreamFrame_Length 7 100 0 4 = 5 := by decide

end Uquic.Props.TransWire
