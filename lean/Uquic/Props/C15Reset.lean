/-
Property C15, 0-RTT rejection at the level of the whole `streamsMap` (round 4).

A client that resumes a session starts with the transport parameters remembered from the ticket; when the
server rejects 0-RTT, `ResetFor0RTT` replaces the four sub-maps and the parameters of the NEW handshake are
applied (`HandleTransportParameters`, called `UpdateLimits` in upstream quic-go).  These may be SMALLER than
the remembered ones.  Since `SetMaxStream` only ever raises a limit (`params_only_raise`), the new limits
take effect only because the fresh maps start without any limit: nothing remembered may be re-applied to
them.  Proved over the map model, for every prior history:

* `limits_after_0rtt_rejection` — after `ResetFor0RTT`, any operations that are not MAX_STREAMS / transport
  parameters / another reset (Open…/Accept… calls answered with Err0RTTRejected, UseResetMaps, frames,
  deletions, goroutines leaving the replaced maps, …) and then transport parameters `p`, both outgoing limits
  are exactly `p`'s;
* `opened_after_0rtt_rejection_within_new_limit` — hence, until the peer grants more, every locally opened
  stream id is within `p`'s limit and every STREAMS_BLOCKED carries exactly `p`'s stream count;
* `reapplying_remembered_params_violates` — kernel-checked witness that re-applying remembered parameters to
  the fresh maps (seed C15-r3s3) breaks this: the limit stays at the remembered value.

The correspondence driver `smap` drives these sequences through the real `streamsMap` (generator scenario
`zrtt`: remembered parameters, 0-RTT streams, ResetFor0RTT, smaller / equal / larger parameters, UseResetMaps in
either order, opens up to and beyond the new limit); monitors `outgoing_within_limit`,
`blocked_carries_limit` and `blocked_sent_when_blocked` judge against a ghost limit that starts over at
ResetFor0RTT.
-/
import Uquic.Proofs.StreamsReset
import Uquic.Props.C15More

set_option linter.unusedSimpArgs false
set_option linter.unusedVariables false

namespace Uquic.Props.C15Reset
open Uquic.Model.Streams Uquic.Proofs.Streams
open Uquic.Props.C15 (runMap)

/-- **params_only_raise.**  Transport parameters (and MAX_STREAMS) never lower an outgoing limit: afterwards it
    is the larger of the old limit and the parameter's. -/
theorem params_only_raise (m : Map) (hd : m.dead = false) (nb nu : Int) (t : STyp) :
    ((m.step (.params nb nu)).1.out t).maxStream = max (m.out t).maxStream (numToID (limOf nb nu t) t m.pers) :=
  (params_limits m hd nb nu t).1

/-- **limits_unchanged_without_grant.**  Only MAX_STREAMS, transport parameters and ResetFor0RTT change an
    outgoing limit; no other whole-map operation does, in any state. -/
theorem limits_unchanged_without_grant (m : Map) (ops : List MapOp) (h : ∀ op ∈ ops, op.setsLimit = false) (t : STyp) :
    ((runMap m ops).out t).maxStream = (m.out t).maxStream :=
  (run_keeps_limits ops h t m).1

theorem runMap_pers (pers : Persp) (nb nu : Int) (pre : List MapOp) (hwp : ∀ op ∈ pre, op.wf) :
    (runMap (Map.new pers nb nu) pre).pers = pers :=
  (reach_run pers nb nu pre _ (reach_new pers nb nu) hwp).hp

/-- **limits_after_0rtt_rejection.**  For both perspectives, all configured limits and EVERY prior history
    `pre` (remembered parameters of any size, MAX_STREAMS, streams opened in 0-RTT, blocked callers, earlier
    rejections, …): if `ResetFor0RTT` goes through (the map was not closed before) and the connection is still
    alive when the new transport parameters `p` arrive, then after them the outgoing limit of each stream type
    is exactly `p`'s — `InvalidStreamID` (no stream at all) for 0 — independently of anything in `pre`. -/
theorem limits_after_0rtt_rejection (pers : Persp) (nb nu : Int) (pre mid : List MapOp) (pb pu : Int)
    (hpb : 0 ≤ pb) (hpu : 0 ≤ pu) (hwp : ∀ op ∈ pre, op.wf) (hmid : ∀ op ∈ mid, op.setsLimit = false) :
    let m0 := runMap (Map.new pers nb nu) pre
    m0.dead = false → (m0.step .resetFor0RTT).2.panic = false →
    (runMap m0 (.resetFor0RTT :: mid)).dead = false →
    ∀ t, ((runMap m0 (.resetFor0RTT :: (mid ++ [.params pb pu]))).out t).maxStream = numToID (limOf pb pu t) t pers := by
  intro m0 hd0 hnp halive t
  have := (limits_after_reset m0 mid pb pu hpb hpu hd0 hnp hmid halive t).1
  rw [runMap_pers pers nb nu pre hwp] at this
  exact this

theorem limitNum_numToID (o : Outgoing) (n : Int) (hn : 0 ≤ n) (t : STyp) (p : Persp)
    (h : o.maxStream = numToID n t p) : limitNum o = n := by
  have e2 : invalidStreamID = -1 := rfl
  unfold limitNum
  rw [h]
  unfold numToID idToNum
  split
  · next h0 => simp [e2, h0]
  · cases t <;> cases p <;> simp only <;> split <;> omega

/-- **opened_after_0rtt_rejection_within_new_limit.**  … and as long as the peer grants nothing more (any
    continuation `cont` without MAX_STREAMS / parameters / reset — UseResetMaps, Open…, OpenStreamSync callers
    and their internal steps, cancellations, deletions, frames, close): every locally initiated stream id of
    type `t` handed to a caller is within `p`'s limit, and every STREAMS_BLOCKED of type `t` carries exactly
    `p`'s stream count (not a remembered one). -/
theorem opened_after_0rtt_rejection_within_new_limit (pers : Persp) (nb nu : Int) (hnb : 0 ≤ nb) (hnu : 0 ≤ nu)
    (pre mid cont : List MapOp) (pb pu : Int) (hpb : 0 ≤ pb) (hpu : 0 ≤ pu)
    (hwp : ∀ op ∈ pre, op.wf) (hwm : ∀ op ∈ mid, op.wf) (hwc : ∀ op ∈ cont, op.wf)
    (hmid : ∀ op ∈ mid, op.setsLimit = false) (hcont : ∀ op ∈ cont, op.setsLimit = false) :
    let m0 := runMap (Map.new pers nb nu) pre
    let m1 := runMap m0 (.resetFor0RTT :: (mid ++ [.params pb pu]))
    let evs := (runMapEv m1 cont).2
    m0.dead = false → (m0.step .resetFor0RTT).2.panic = false →
    (runMap m0 (.resetFor0RTT :: mid)).dead = false →
    ∀ t, (∀ id ∈ mapOpened t pers evs, id ≤ numToID (limOf pb pu t) t pers) ∧
         (∀ v ∈ mapBlocked t evs, v = limOf pb pu t) := by
  intro m0 m1 evs hd0 hnp halive t
  have hl := limits_after_0rtt_rejection pers nb nu pre mid pb pu hpb hpu hwp hmid hd0 hnp halive t
  -- the whole prefix as one history
  let pre' := pre ++ (MapOp.resetFor0RTT :: (mid ++ [.params pb pu]))
  have hpre' : runMap (Map.new pers nb nu) pre' = m1 := by
    simp only [pre', runMap, List.foldl_append]; rfl
  have hwp' : ∀ op ∈ pre', op.wf := by
    intro op hop
    simp only [pre', List.mem_append, List.mem_cons, List.mem_nil_iff, or_false] at hop
    rcases hop with h | h | h | h
    · exact hwp op h
    · subst h; trivial
    · exact hwm op h
    · subst h; exact ⟨hpb, hpu⟩
  have hnr : ∀ op ∈ cont, op ≠ .resetFor0RTT := by
    intro op hop he; subst he; have := hcont _ hop; simp [MapOp.setsLimit] at this
  have hend : (((runMapEv m1 cont).1).out t).maxStream = numToID (limOf pb pu t) t pers := by
    rw [runMapEv_state]
    have := limits_unchanged_without_grant m1 cont hcont t
    simp only [runMap] at this
    rw [this]; exact hl
  have hlim : 0 ≤ limOf pb pu t := by cases t <;> simpa [limOf]
  refine ⟨?_, ?_⟩
  · have h := (C15More.map_outgoing_ids pers nb nu hnb hnu pre' cont hwp' hwc hnr t).2.1
    simp only [hpre'] at h
    intro id hid
    have := (h id hid).2.2
    rw [hend] at this
    exact this
  · have h := (C15More.map_blocked_once_per_limit pers nb nu hnb hnu pre' cont hwp' hwc hnr t).2.2.1
    simp only [hpre'] at h
    intro v hv
    obtain ⟨h1, h2⟩ := h v hv
    rw [limitNum_numToID _ _ hlim t pers hl] at h1
    rw [limitNum_numToID _ _ hlim t pers hend] at h2
    omega

/-- the scenario of seed C15-r3s3 on the model: parameters from the ticket allow 5 streams, two are opened in
    0-RTT, the server rejects 0-RTT and now allows 2: after `UseResetMaps` two streams open (ids start over), the
    third is refused and STREAMS_BLOCKED carries 2. -/
example :
    let m := runMap (Map.new .client 3 3)
      [.params 5 5, .openStream .bidi, .openStream .bidi, .resetFor0RTT, .params 2 2, .useResetMaps]
    let (m1, e1) := m.step (.openStream .bidi)
    let (m2, e2) := m1.step (.openStream .bidi)
    let (_, e3) := m2.step (.openStream .bidi)
    (e1.opened, e2.opened, e3.opened, e3.frames) =
      (some (.stream 0), some (.stream 4), some (.err .limitReached), [.streamsBlocked .bidi 2]) := by decide

/-- **reapplying_remembered_params_violates.**  Witness for the regression of seed C15-r3s3: had `ResetFor0RTT`
    re-applied the remembered parameters (5 streams) to the fresh maps, the smaller parameters of the new
    handshake (2 streams) would be ignored — the limit stays at stream 16 instead of stream 4, and a third stream
    opens. -/
theorem reapplying_remembered_params_violates :
    let good := runMap (Map.new .client 3 3) [.params 5 5, .resetFor0RTT, .params 2 2, .useResetMaps]
    let bad := runMap (Map.new .client 3 3) [.params 5 5, .resetFor0RTT, .params 5 5, .params 2 2, .useResetMaps]
    good.outBidi.maxStream = numToID 2 .bidi .client ∧ bad.outBidi.maxStream = numToID 5 .bidi .client ∧
    (runMapEv bad [.openStream .bidi, .openStream .bidi, .openStream .bidi]).2.map (·.opened) =
      [some (.stream 0), some (.stream 4), some (.stream 8)] := by decide

end Uquic.Props.C15Reset
