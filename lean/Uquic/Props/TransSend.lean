/-
Tie theorems, STREAM frame sizing as the send-stream model uses it (property C01): `Frame.length` and
`Frame.maxDataLen` of Uquic/Model/Stream/Send.lean EQUAL the definitions regenerated from
internal/wire/stream_frame.go (`StreamFrame.Length`, `StreamFrame.MaxDataLen`) by the source-to-Lean translator
(gofacts/trans.go → Uquic.Generated.TransWire) on every run.

Range hypotheses: stream id, offset, data length and `maxSize` at most 2^62-1 (`quicvarint.Len` panics above; the
model's copy of `varintLen` leaves the panic out).  Under them `…_panics = false` is PROVED
(`StreamFrame_Length_no_panic`, `StreamFrame_MaxDataLen_no_panic`), and `maxSize - headerLen` (int64) cannot wrap.
-/
import Uquic.Generated.TransWire
import Uquic.Model.Stream.Send
import Uquic.Props.TransVarint

namespace Uquic.Props.TransSend
open Uquic.Proofs.Trans Uquic.Model.Stream.Send Uquic.Props.TransVarint
open Uquic.Gen.TransWire

local notation "vmax" => (4611686018427387903 : Int)

theorem varint_no_panic (i : Int) (h : i ≤ vmax) : Uquic.Gen.TransVarint.varintLen_panics i = false :=
  (varintLen_panics_false_iff i).2 h

theorem varintLen_pos (i : Nat) : 1 ≤ varintLen i ∧ varintLen i ≤ 8 := by
  unfold varintLen; (repeat' split) <;> omega

theorem StreamFrame_Length_no_panic (sid : Nat) (f : Frame) (hs : (sid : Int) ≤ vmax) (ho : (f.offset : Int) ≤ vmax)
    (hd : (f.data.length : Int) ≤ vmax) :
    StreamFrame_Length_panics f.dataLenPresent f.data.length f.offset sid = false := by
  unfold StreamFrame_Length_panics
  simp only [varint_no_panic _ hs, varint_no_panic _ ho, varint_no_panic _ hd]
  tie_arith

theorem StreamFrame_Length_model_is_source (sid : Nat) (f : Frame) (hs : (sid : Int) ≤ vmax) (ho : (f.offset : Int) ≤ vmax)
    (hd : (f.data.length : Int) ≤ vmax) :
    ((f.length sid : Nat) : Int) = StreamFrame_Length f.dataLenPresent f.data.length f.offset sid := by
  unfold StreamFrame_Length Frame.length
  simp only [varint_no_panic _ hs, varint_no_panic _ ho, varint_no_panic _ hd, ← varintLen_send_model_is_source _ hs,
    ← varintLen_send_model_is_source _ ho, ← varintLen_send_model_is_source _ hd]
  tie_arith

/-- `MaxDataLen`: besides stream id and offset the only varint taken is of `maxSize - headerLen`, and only whether it
    is one byte long matters: both sides reduce to linear arithmetic through `varintLen … = 1 ↔ … ≤ 63` -/
theorem StreamFrame_MaxDataLen_model_is_source (sid : Nat) (f : Frame) (maxSize : Nat) (hs : (sid : Int) ≤ vmax)
    (ho : (f.offset : Int) ≤ vmax) (hm : (maxSize : Int) ≤ vmax) :
    ((f.maxDataLen sid maxSize : Nat) : Int) = StreamFrame_MaxDataLen maxSize f.dataLenPresent f.offset sid := by
  have v1 := varintLen_pos sid
  have v2 := varintLen_pos f.offset
  unfold StreamFrame_MaxDataLen Frame.maxDataLen Frame.headerLen1
  simp only [varint_no_panic _ hs, varint_no_panic _ ho, ← varintLen_send_model_is_source _ hs,
    ← varintLen_send_model_is_source _ ho, varintLen_panics_iff_int, varintLen_eq_one_iff, bne_iff_ne, ne_eq,
    Bool.and_eq_true, decide_eq_true_eq, varintLen_send_eq_one_iff]
  tie_arith

theorem StreamFrame_MaxDataLen_no_panic (sid : Nat) (f : Frame) (maxSize : Nat) (hs : (sid : Int) ≤ vmax)
    (ho : (f.offset : Int) ≤ vmax) (hm : (maxSize : Int) ≤ vmax) :
    StreamFrame_MaxDataLen_panics maxSize f.dataLenPresent f.offset sid = false := by
  have v1 := varintLen_pos sid
  have v2 := varintLen_pos f.offset
  unfold StreamFrame_MaxDataLen_panics
  simp only [varint_no_panic _ hs, varint_no_panic _ ho, ← varintLen_send_model_is_source _ hs,
    ← varintLen_send_model_is_source _ ho, varintLen_panics_iff_int]
  tie_arith

example : StreamFrame_MaxDataLen 100 true 0 4 = 96 := by decide

end Uquic.Props.TransSend
