/-
Property C03, the glue: a frame that contradicts an established final size, exceeds an advertised
receive window or the crypto buffer is what the CONNECTION is closed with — whatever frames follow it in
the same packet, with qlog tracing on or off.

Model: `Uquic.Model.Reassembly.RConn` (Model/Reassembly/Glue.lean): the frame loop of
`Conn.handleFrames` (the C15 `frameLoop`, whose per-branch skip guards are regenerated from
connection.go) around `streamsMap.HandleStreamFrame` / `HandleResetStreamFrame`, the receive streams
with the ONE connection flow controller, and `Conn.handleCryptoFrame`.  Tied to the Go code by the
`rglue` driver (real constructors, real `handleShortHeaderPacket`, reads through the public API).
-/
import Uquic.Props.C03
import Uquic.Proofs.ReasmGlue

set_option linter.unusedSimpArgs false
set_option linter.unusedVariables false

namespace Uquic.Props.C03Glue
open Uquic.Model.Reassembly Uquic.Proofs.ReasmGlue
open Uquic.Model.Streams (frameLoop handleFramesG firstErrorSpec)
open Uquic.Props.C03 (FinalSizeViolated)

/-! ## 1. the packet loop -/

/-- **packet_first_error_wins.**  `Conn.handleFrames`, traced or not: the frames of a packet are handled
    in order up to and including the first one whose handler fails; no later frame is handled; the
    packet's result is that frame's error.  Rests on the regenerated fact that every dispatch branch of
    `handleFrames` (STREAM, ACK, everything else) has its skip guard. -/
theorem packet_first_error_wins (c : RConn) (trace : Bool) (fs : List GFrame) :
    c.handleFrames trace fs = firstErrorSpec handleOne c fs :=
  Uquic.Proofs.Streams.frameLoop_eq_spec handleOne GFrame.guarded trace all_guarded fs c

/-- **offending_frame_closes_connection.**  If the frames `pre` of a packet are handled without error
    (leaving the connection in state `c1`) and the next frame `f` is answered with error `e`, then the
    whole packet `pre ++ f :: post` is answered with `e` and the connection is left exactly as `f` left
    it — for EVERY tail `post` and with tracing on or off. -/
theorem offending_frame_closes_connection (c c1 : RConn) (trace : Bool) (pre post : List GFrame) (f : GFrame)
    (e : GErr) (hpre : firstErrorSpec handleOne c pre = (c1, none)) (hf : (handleOne c1 f).2 = some e) :
    c.handleFrames trace (pre ++ f :: post) = ((handleOne c1 f).1, some e) := by
  rw [packet_first_error_wins, spec_append_none handleOne pre (f :: post) c c1 hpre,
    spec_cons_some handleOne c1 f post e hf]

/-- tracing (qlog) changes neither the result nor the state -/
theorem tracing_changes_nothing (c : RConn) (fs : List GFrame) :
    c.handleFrames true fs = c.handleFrames false fs := by
  rw [packet_first_error_wins, packet_first_error_wins]

/-- … and the guards are needed: with the STREAM branch unguarded, a traced packet
    [CRYPTO beyond the buffer limit, harmless STREAM_DATA-free FIN] is answered with no error at all,
    while the guarded loop answers CRYPTO_BUFFER_EXCEEDED. -/
theorem skip_guards_needed :
    (handleFramesG handleOne (fun f => f.branch != "stream") true (RConn.new .server ⟨100, 100, 100, 1000⟩)
        [.crypto 16384 [1], .stream 0 0 [] true]).2 = none ∧
    (handleFramesG handleOne (fun _ => true) true (RConn.new .server ⟨100, 100, 100, 1000⟩)
        [.crypto 16384 [1], .stream 0 0 [] true]).2 = some (.crypto .cryptoBufferExceeded) := by
  decide

/-! ## 2. which error a frame is answered with -/

theorem attach_fc (c : RConn) (s : RStream) :
    (c.attach s).fc.receivedFinal = s.fc.receivedFinal ∧ (c.attach s).fc.highest = s.fc.highest ∧
    (c.attach s).fc.window = s.fc.window ∧ (c.attach s).fc.conn = c.conn := by
  simp [RConn.attach]

/-- **stream_frame_error.**  A STREAM frame that reaches a live stream `s` (the streams map found or
    opened it) is answered with FINAL_SIZE_ERROR exactly when it contradicts the final size `s` knows,
    and with FLOW_CONTROL_ERROR exactly when it respects it but raises the highest offset above the
    stream's window or the CONNECTION's window (the sum over all streams). -/
theorem stream_frame_error (c c1 : RConn) (id : Int) (off : Nat) (data : Bytes) (fin : Bool) (s : RStream)
    (hl : c.lookup id = (c1, .found s)) :
    ((handleOne c (.stream id off data fin)).2 = some (.stream .finalSize) ↔
      FinalSizeViolated s.fc (off + data.length) fin) ∧
    ((handleOne c (.stream id off data fin)).2 = some (.stream .flowControl) ↔
      (¬ FinalSizeViolated s.fc (off + data.length) fin ∧ off + data.length > s.fc.highest ∧
        (off + data.length > s.fc.window ∨
         c1.conn.highest + (off + data.length - s.fc.highest) > c1.conn.window))) := by
  have ha := attach_fc c1 s
  have hv : FinalSizeViolated (c1.attach s).fc (off + data.length) fin ↔ FinalSizeViolated s.fc (off + data.length) fin := by
    unfold FinalSizeViolated; rw [ha.1, ha.2.1]
  simp only [handleOne, RConn.onStream, hl]
  constructor
  · rw [← hv, ← Uquic.Props.C03.final_size_iff, ← handleStreamFrame_err _ off data fin none .finalSize (Or.inl rfl)]
    cases ((c1.attach s).handleStreamFrame off data fin none).err <;> simp
  · rw [← hv, ← ha.2.1, ← ha.2.2.1, ← ha.2.2.2, ← Uquic.Props.C03.flow_limit_iff,
      ← handleStreamFrame_err _ off data fin none .flowControl (Or.inr rfl)]
    cases ((c1.attach s).handleStreamFrame off data fin none).err <;> simp

/-- **reset_frame_error.**  The same for RESET_STREAM: its final size is judged like a FIN at that offset. -/
theorem reset_frame_error (c c1 : RConn) (id : Int) (final code : Nat) (s : RStream)
    (hl : c.lookup id = (c1, .found s)) (hs : s.shutdown = false) :
    ((handleOne c (.reset id final code)).2 = some (.stream .finalSize) ↔ FinalSizeViolated s.fc final true) ∧
    ((handleOne c (.reset id final code)).2 = some (.stream .flowControl) ↔
      (¬ FinalSizeViolated s.fc final true ∧ final > s.fc.highest ∧
        (final > s.fc.window ∨ c1.conn.highest + (final - s.fc.highest) > c1.conn.window))) := by
  have ha := attach_fc c1 s
  have hv : FinalSizeViolated (c1.attach s).fc final true ↔ FinalSizeViolated s.fc final true := by
    unfold FinalSizeViolated; rw [ha.1, ha.2.1]
  have hs' : (c1.attach s).shutdown = false := by simp [RConn.attach, hs]
  simp only [handleOne, RConn.onStream, hl]
  constructor
  · rw [← hv, ← Uquic.Props.C03.final_size_iff, ← handleResetStreamFrame_err _ final 0 code .finalSize hs']
    cases ((c1.attach s).handleResetStreamFrame final 0 code).err <;> simp
  · rw [← hv, ← ha.2.1, ← ha.2.2.1, ← ha.2.2.2, ← Uquic.Props.C03.flow_limit_iff,
      ← handleResetStreamFrame_err _ final 0 code .flowControl hs']
    cases ((c1.attach s).handleResetStreamFrame final 0 code).err <;> simp

/-- **crypto_frame_error.**  A CRYPTO frame reaching beyond `MaxCryptoStreamOffset` is answered with
    CRYPTO_BUFFER_EXCEEDED and changes nothing. -/
theorem crypto_frame_error (c : RConn) (off : Nat) (data : Bytes) (h : off + data.length > maxCryptoStreamOffset) :
    handleOne c (.crypto off data) = (c, some (.crypto .cryptoBufferExceeded)) := by
  simp [handleOne, CryptoStream.handleAndDrain, Uquic.Props.C03.crypto_offset_limit c.crypto off data h]

/-! ## 3. the sentences of the property, at packet level -/

/-- **final_size_error_closes_connection.**  Frames `pre` handled without error; then a STREAM frame for
    a live stream that contradicts the stream's final size: the packet is answered with
    FINAL_SIZE_ERROR, whatever follows, traced or not. -/
theorem final_size_error_closes_connection (c c1 c2 : RConn) (trace : Bool) (pre post : List GFrame)
    (id : Int) (off : Nat) (data : Bytes) (fin : Bool) (s : RStream)
    (hpre : firstErrorSpec handleOne c pre = (c1, none)) (hl : c1.lookup id = (c2, .found s))
    (hv : FinalSizeViolated s.fc (off + data.length) fin) :
    (c.handleFrames trace (pre ++ .stream id off data fin :: post)).2 = some (.stream .finalSize) := by
  rw [offending_frame_closes_connection c c1 trace pre post _ _ hpre
    ((stream_frame_error c1 c2 id off data fin s hl).1.mpr hv)]

/-- **reset_final_size_error_closes_connection.**  The same for a RESET_STREAM whose final size
    contradicts what the stream knows. -/
theorem reset_final_size_error_closes_connection (c c1 c2 : RConn) (trace : Bool) (pre post : List GFrame)
    (id : Int) (final code : Nat) (s : RStream)
    (hpre : firstErrorSpec handleOne c pre = (c1, none)) (hl : c1.lookup id = (c2, .found s))
    (hs : s.shutdown = false) (hv : FinalSizeViolated s.fc final true) :
    (c.handleFrames trace (pre ++ .reset id final code :: post)).2 = some (.stream .finalSize) := by
  rw [offending_frame_closes_connection c c1 trace pre post _ _ hpre
    ((reset_frame_error c1 c2 id final code s hl hs).1.mpr hv)]

/-- **flow_control_error_closes_connection.**  … a STREAM frame that respects the final size but raises
    the highest offset above the stream's or the connection's advertised window: FLOW_CONTROL_ERROR. -/
theorem flow_control_error_closes_connection (c c1 c2 : RConn) (trace : Bool) (pre post : List GFrame)
    (id : Int) (off : Nat) (data : Bytes) (fin : Bool) (s : RStream)
    (hpre : firstErrorSpec handleOne c pre = (c1, none)) (hl : c1.lookup id = (c2, .found s))
    (hok : ¬ FinalSizeViolated s.fc (off + data.length) fin) (hhi : off + data.length > s.fc.highest)
    (hw : off + data.length > s.fc.window ∨ c2.conn.highest + (off + data.length - s.fc.highest) > c2.conn.window) :
    (c.handleFrames trace (pre ++ .stream id off data fin :: post)).2 = some (.stream .flowControl) := by
  rw [offending_frame_closes_connection c c1 trace pre post _ _ hpre
    ((stream_frame_error c1 c2 id off data fin s hl).2.mpr ⟨hok, hhi, hw⟩)]

/-- **crypto_buffer_error_closes_connection.**  … a CRYPTO frame beyond the crypto buffer limit:
    CRYPTO_BUFFER_EXCEEDED, and the connection state is the one the frames before it produced. -/
theorem crypto_buffer_error_closes_connection (c c1 : RConn) (trace : Bool) (pre post : List GFrame)
    (off : Nat) (data : Bytes)
    (hpre : firstErrorSpec handleOne c pre = (c1, none)) (h : off + data.length > maxCryptoStreamOffset) :
    c.handleFrames trace (pre ++ .crypto off data :: post) = (c1, some (.crypto .cryptoBufferExceeded)) := by
  have hc := crypto_frame_error c1 off data h
  rw [offending_frame_closes_connection c c1 trace pre post _ (.crypto .cryptoBufferExceeded) hpre (by rw [hc]), hc]

/-- **rejected_frame_keeps_stream_data.**  When the flow controller rejects a STREAM frame, the stream
    the application holds still has everything it had received, its read position, the frame being read
    and its final offset: nothing delivered or deliverable is corrupted by the offending frame (and, by
    `offending_frame_closes_connection`, no later frame of the packet touches any stream). -/
theorem rejected_frame_keeps_stream_data (c c1 : RConn) (id : Int) (off : Nat) (data : Bytes) (fin : Bool)
    (s : RStream) (e : StreamErr) (hl : c.lookup id = (c1, .found s))
    (he : ((c1.attach s).fc.updateHighestReceived (off + data.length) fin).2 = some e) :
    (handleOne c (.stream id off data fin)).2 = some (.stream e) ∧
    ∃ s', (handleOne c (.stream id off data fin)).1.getStream id = some s' ∧
      s'.sorter = s.sorter ∧ s'.readPos = s.readPos ∧ s'.cur = s.cur ∧ s'.rpif = s.rpif ∧
      s'.finalOffset = s.finalOffset := by
  have hr := Uquic.Props.C03.frame_rejected_unchanged (c1.attach s) off data fin none e he
  simp only [handleOne, RConn.onStream, hl]
  refine ⟨by rw [hr.1]; rfl, ((c1.attach s).handleStreamFrame off data fin none).s, ?_, ?_⟩
  · simp only [RConn.detach, RConn.getStream, RConn.setStream]
    split <;> simp
  · simpa [RConn.attach] using hr.2

/-! ## 4. the hypotheses are satisfiable -/

/-- a traced server connection: stream 0 finished at size 1; then ONE packet
    [PING, data beyond the final size, a fine frame for another stream, PING] is answered with
    FINAL_SIZE_ERROR -/
example :
    let c0 := RConn.new .server ⟨100, 100, 100, 1000⟩
    let c1 := (c0.handleFrames true [.stream 0 0 [7] true]).1
    (c1.handleFrames true [.ping, .stream 0 1 [9] false, .stream 4 0 [] true, .ping]).2 = some (.stream .finalSize) := by
  decide

/-- … and data beyond the connection window, spread over two streams, is a FLOW_CONTROL_ERROR even
    though each stream stays inside its own window -/
example :
    ((RConn.new .server ⟨100, 100, 100, 3⟩).handleFrames false
      [.stream 0 0 [1, 2] false, .stream 4 0 [3, 4] false, .ping]).2 = some (.stream .flowControl) := by
  decide

end Uquic.Props.C03Glue

