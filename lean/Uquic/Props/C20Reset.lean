/-
Property C20, the bytes in flight the handler reports to the congestion controller (round 5).

The controller's decisions depend on ONE number it does not own: `bytesInFlight`, a counter kept by
sent_packet_handler.go and handed over as `priorInFlight` (growth: `isCwndLimited`) and to `CanSend`
(send gating).  "Grows only while window-limited" and "releases new data only below the window" are
statements about the bytes REALLY outstanding, so they hold for the connection only if the counter
equals the total size of the packets the handler still tracks as in flight — after every operation,
including the ones that write packets off wholesale: `MigratedPath` (which also installs a fresh
controller for the new path), `ResetForRetry`, `DropPackets` (Initial / Handshake space, rejected
0-RTT) and `QueueProbePacket`.  The theorems are about the glue model `Uquic.Model.Cong.Glue`
(all three packet number spaces; Path MTU probes; path probes), which the `congh` driver compares
with the real sentPacketHandler after every operation.
-/
import Uquic.Model.Cong.Sender
import Uquic.Model.Cong.Glue
import Uquic.Proofs.CongInv
import Uquic.Proofs.CongStep
import Uquic.Proofs.CongGlue
import Uquic.Proofs.CongReset

namespace Uquic.Props.C20Reset

open Uquic.Model.Cong Uquic.Proofs.Cong

/-- a fresh handler is balanced -/
theorem new_balanced (mds : Nat) (rtt : Rtt) : ({ s := Sender.new mds rtt } : Glue).Balanced := rfl

/-- **The counter is the outstanding bytes.**  For every history of handler operations — packets sent
in any space (ack-eliciting or not, 0-RTT, Path MTU probes, path probes), ACK frames with arbitrary
ranges / ECN verdicts / loss-detection outcomes, loss-timer expiries, `QueueProbePacket`,
`DropPackets` of a space or of rejected 0-RTT, `ResetForRetry` (while no Handshake packet is in flight:
the caller's contract), `MigratedPath`, `SetMaxDatagramSize`, RTT updates — `bytesInFlight` equals the
total size of the tracked packets that were counted when sent. -/
theorem bytes_in_flight_balanced (mds : Nat) (rtt : Rtt) (ops : List GOp)
    (hok : ({ s := Sender.new mds rtt } : Glue).okRun ops) :
    (({ s := Sender.new mds rtt } : Glue).runG ops).Balanced :=
  runG_balanced ops _ (new_balanced mds rtt) hok

/-- one step, from any balanced state -/
theorem bytes_in_flight_balanced_step (g : Glue) (op : GOp) (h : g.Balanced) (hok : op.ok g) : (g.stepG op).Balanced :=
  stepG_balanced g op h hok

example : ∃ g : Glue, g.Balanced ∧ g.bytesInFlight = 2600 ∧ g.out.length = 3 :=
  ⟨(((Glue.sendMany { s := Sender.new 1200 Rtt.default } 1000 1200 [0]).send 1000 1 1400 true (mtu := true)).1.send 1000 2 1200 true (probe := true)).1,
   by decide, by decide, by decide⟩

/-- `removeFromBytesInFlight` never meets a packet larger than the counter: the "negative
bytes_in_flight" panic is unreachable from a balanced state, whichever packets are written off -/
theorem accounting_never_negative (g : Glue) (f : Pkt → Bool) (h : g.Balanced) : g.dropPanics f = false :=
  drop_no_panic g f h

/-- **What the controller is told.**  Every `OnCongestionEvent` / `OnPacketAcked` call `ReceivedAck`
makes carries as `priorInFlight` exactly the bytes outstanding before the ACK was processed. -/
theorem glue_prior_is_outstanding (g : Glue) (hb : g.Balanced) (ranges : List (Int × Int)) (congested : Bool)
    (gone : List (Nat × Int)) (sp : Nat) :
    ∀ c ∈ g.ackCalls ranges congested gone sp,
      (∀ pn b p, c = Call.cong pn b p → p = inFlightBytes g.out) ∧
      (∀ pn b p, c = Call.acked pn b p → p = inFlightBytes g.out) := by
  intro c hc
  have := ackCalls_prior g ranges congested gone sp c hc
  unfold Glue.Balanced at hb
  exact ⟨fun pn b p e => (this.1 pn b p e).trans hb, fun pn b p e => (this.2.1 pn b p e).trans hb⟩

/-- … and the loss timer -/
theorem glue_timeout_prior_is_outstanding (g : Glue) (hb : g.Balanced) (gone : List (Nat × Int)) :
    ∀ c ∈ g.timeoutCalls gone, ∃ pn b, c = Call.cong pn b (inFlightBytes g.out) := by
  intro c hc
  obtain ⟨q, _, _, _, he⟩ := timeoutCalls_cong g gone c hc
  unfold Glue.Balanced at hb
  exact ⟨q.pn, q.size, hb ▸ he⟩

/-- **Growth only while REALLY window-limited.**  Whatever the controller's state when a call made by
`ReceivedAck` reaches it: if that call makes the window grow, the sender was window-limited with
respect to the bytes really outstanding before the ACK — the tracked in-flight packets, not a stale
counter — and the window grew by exactly one datagram size. -/
theorem glue_grows_only_when_really_limited (g : Glue) (hb : g.Balanced) (ranges : List (Int × Int)) (congested : Bool)
    (gone : List (Nat × Int)) (sp : Nat) (c : Call) (hc : c ∈ g.ackCalls ranges congested gone sp)
    (s : Sender) (hlo : 2 * s.mds ≤ s.cwnd) (hgrow : s.cwnd < (s.step c.toOp).1.cwnd) :
    s.isCwndLimited (inFlightBytes g.out) = true ∧ (s.step c.toOp).1.cwnd = s.cwnd + s.mds := by
  have hlo' : s.mds * minCwndPackets ≤ s.cwnd := by rw [minCwndPackets_eq]; omega
  have hp := ackCalls_prior g ranges congested gone sp c hc
  unfold Glue.Balanced at hb
  rcases step_grow s c.toOp hlo' hgrow with ⟨pn, b, prior, t, h1, _, h3, _, h5⟩ | ⟨m, h1, _⟩
  · cases c with
    | acked pn' b' p' =>
      simp only [Call.toOp, Op.acked.injEq] at h1
      obtain ⟨rfl, rfl, rfl, rfl⟩ := h1
      have := hp.2.1 _ _ _ rfl
      rw [← hb, ← this]
      exact ⟨h3, h5⟩
    | sent _ _ _ _ => simp [Call.toOp] at h1
    | exitSS => simp [Call.toOp] at h1
    | cong _ _ _ => simp [Call.toOp] at h1
    | mds _ => simp [Call.toOp] at h1
  · cases c with
    | mds m' => exact absurd rfl (hp.2.2 m')
    | sent _ _ _ _ => simp [Call.toOp] at h1
    | exitSS => simp [Call.toOp] at h1
    | cong _ _ _ => simp [Call.toOp] at h1
    | acked _ _ _ => simp [Call.toOp] at h1

/-- **Send gating on the outstanding bytes.**  In a balanced state `SendMode` — which asks `CanSend`
about the handler's counter — answers `SendAny` / `SendPacingLimited` only while the bytes really
outstanding are below the window. -/
theorem glue_send_gating_outstanding (g : Glue) (hb : g.Balanced) (amp : Bool)
    (tracked maxTracked maxOutstanding numProbes : Nat) (ptoMode : SendMode) (now : Int)
    (hpto : ptoMode ≠ .any ∧ ptoMode ≠ .pacingLimited)
    (h : sendMode g.s amp tracked maxTracked maxOutstanding numProbes ptoMode g.bytesInFlight now = .any ∨
         sendMode g.s amp tracked maxTracked maxOutstanding numProbes ptoMode g.bytesInFlight now = .pacingLimited) :
    inFlightBytes g.out < g.s.cwnd := by
  unfold Glue.Balanced at hb
  rw [← hb]
  unfold sendMode at h
  by_cases h1 : amp = true
  · simp [h1] at h
  · by_cases h2 : tracked ≥ maxTracked
    · simp [h1, h2] at h
    · by_cases h3 : numProbes > 0
      · simp only [h1, h2, h3, if_true, if_false, Bool.false_eq_true] at h
        rcases h with h | h
        · exact absurd h hpto.1
        · exact absurd h hpto.2
      · by_cases h4 : g.s.canSend g.bytesInFlight = true
        · simpa [Sender.canSend] using h4
        · simp [h1, h2, h3, h4] at h

theorem inFlightBytes_zero (l : List Pkt) (h : ∀ p ∈ l, p.inFlight = false) : inFlightBytes l = 0 := by
  induction l with
  | nil => rfl
  | cons p r ih =>
    simp only [inFlightBytes, h p (List.mem_cons_self), Bool.false_eq_true, if_false,
      ih (fun q hq => h q (List.mem_cons_of_mem _ hq))]

/-- **A path migration writes the old path off completely.**  After `MigratedPath` no packet of the
application-data history is tracked any more — ordinary packets, 0-RTT packets and Path MTU probes
alike; only path probes, which were never counted, may stay — the counter is balanced again, and the
controller is the fresh one for the new path: initial window of 32 datagrams, slow start, no cut-back
mark. -/
theorem migrate_writes_off_path (g : Glue) (hb : g.Balanced) (mds : Nat) (rtt : Rtt) (pp : List Int) :
    (g.migrate mds rtt pp).Balanced ∧
    (∀ p ∈ (g.migrate mds rtt pp).out, p.sp = 2 → p.probe = true) ∧
    (g.migrate mds rtt pp).s = Sender.new mds rtt ∧
    (g.migrate mds rtt pp).s.cwnd = 32 * mds ∧ (g.migrate mds rtt pp).s.lastCutback = invalidPN := by
  refine ⟨migrate_balanced g mds rtt pp hb, ?_, rfl, ?_, rfl⟩
  · intro p hp hsp
    simp only [Glue.migrate, Glue.drop, List.mem_filter] at hp
    have h2 := hp.1.2
    cases hpr : p.probe with
    | true => rfl
    | false => simp [hsp, hpr] at h2
  · simp only [Glue.migrate, Sender.new, initialCwndPackets_eq]

/-- … so with the handshake confirmed (only application-data packets are tracked) nothing is in flight
on the new path until something is sent on it -/
theorem migrate_nothing_in_flight (g : Glue) (hb : g.Balanced) (happ : ∀ p ∈ g.out, p.sp = 2)
    (mds : Nat) (rtt : Rtt) (pp : List Int) : (g.migrate mds rtt pp).bytesInFlight = 0 := by
  obtain ⟨h1, h2, _⟩ := migrate_writes_off_path g hb mds rtt pp
  unfold Glue.Balanced at h1
  rw [h1]
  apply inFlightBytes_zero
  intro p hp
  have hsp : p.sp = 2 := by
    simp only [Glue.migrate, Glue.drop, List.mem_filter] at hp
    exact happ p hp.1.1
  simp [Pkt.inFlight, h2 p hp hsp]

/-- Why the flag matters (the variant seeded as C20-r4s2): two ordinary packets and a 1400-byte Path MTU
probe are in flight when the path migrates.  `MigratedPath` as written leaves nothing in flight; the
variant that tests the wrong packet flag drops the probe from the history but keeps its 1400 bytes in
the counter, which is then unbalanced for good.  Sixteen 1200-byte packets on the new path are exactly
half of the fresh 38400-byte window: not window-limited, so the acknowledgement of the first must not
grow the window — and does not (38400) — while the phantom 1400 bytes make the variant report 20600
bytes, "more than half the window in slow start", and the window grows to 39600. -/
theorem migrate_wrong_flag_witness :
    let g0 := Glue.sendMany { s := Sender.new 1200 Rtt.default } 1000 1200 [0, 1]
    let g1 := (g0.send 1000 2 1400 true (mtu := true)).1
    let good := g1.migrate 1200 Rtt.default []
    let bad := g1.migrateWrong 1200 Rtt.default []
    let pns : List Int := [3, 4, 5, 6, 7, 8, 9, 10, 11, 12, 13, 14, 15, 16, 17, 18]
    g1.bytesInFlight = 3800 ∧ good.bytesInFlight = 0 ∧ bad.bytesInFlight = 1400 ∧ bad.out = [] ∧
    ((good.sendMany 2000 1200 pns).ack [(3, 3)] false []).1.s.cwnd = 38400 ∧
    ((bad.sendMany 2000 1200 pns).ack [(3, 3)] false []).1.s.cwnd = 39600 := by decide

/-- Observed, not judged (the property's once-per-window sentence is stated on packet numbers, as the
code is): the controller's guard `packetNumber <= largestSentAtLastCutback` compares packet numbers of
DIFFERENT packet number spaces.  A uQUIC spec may start the Initial space at a large packet number
(`InitPacketNumber`); when such an Initial packet is lost while an Initial packet is the last one sent,
the mark becomes that large number, and from then on losses of application-data packets (small
numbers) are ignored and every acknowledgement counts as "in recovery": the window neither shrinks
nor grows until the application-data packet numbers pass the mark. -/
theorem cross_space_guard_witness :
    let g0 : Glue := { s := Sender.new 1200 Rtt.default }
    let g1 := ((g0.send 1000 1000000 1200 true (sp := 0)).1.send 1000 1000001 1200 true (sp := 0)).1
    let g2 := (g1.ack [(1000001, 1000001)] false [(0, 1000000)] (sp := 0)).1
    let g3 := g2.sendMany 2000 1200 [0, 1, 2, 3, 4, 5, 6, 7, 8, 9]
    let g4 := (g3.ack [(2, 9)] false [(2, 0), (2, 1)]).1
    g1.s.cwnd = 38400 ∧ g2.s.cwnd = 26880 ∧ g2.s.lastCutback = 1000001 ∧
    g4.s.cwnd = 26880 ∧ g4.s.inRecovery = true ∧ g4.Balanced := by decide

end Uquic.Props.C20Reset
