import Uquic.Model.Amp.SendLoop
namespace Uquic.Props.C14
end Uquic.Props.C14
